package proxy

// C20: forwarding to the leader is transparent and never local.
//
// The proxy is given a model Store and a model Cluster. The harness decides what the local store
// answers (success, ErrNotLeader bare or wrapped, some other error), what the store knows about the
// leader (address, no address, an error) and what the leader answers (success, "unauthorized",
// another error, "not leader" because leadership moved meanwhile). Every call the proxy makes is
// recorded in order. The oracle is written from the property statement:
//
//   local not-leader and forwarding allowed  =>  exactly one call to the leader, same request
//        object, caller's credentials, the address the store just named, same timeout/retries;
//        leader's results and index returned unchanged together with the leader's address;
//   local not-leader and forwarding refused  =>  ErrNotLeader, leader never contacted;
//   any other local outcome                  =>  returned as it is, leader never contacted;
//   the local store is consulted exactly once per request in every case.

import (
	"context"
	"errors"
	"fmt"
	"io"
	"time"

	clstrPB "github.com/rqlite/rqlite/v10/cluster/proto"
	"github.com/rqlite/rqlite/v10/command/proto"
	"github.com/rqlite/rqlite/v10/store"
)

type verifCtx struct{ tag int }

func (c *verifCtx) Deadline() (time.Time, bool) { return time.Time{}, false }
func (c *verifCtx) Done() <-chan struct{}       { return nil }
func (c *verifCtx) Err() error                  { return nil }
func (c *verifCtx) Value(any) any               { return nil }

type verifWriter struct{ n int }

func (w *verifWriter) Write(p []byte) (int, error) { w.n += len(p); return len(p), nil }

// verifWorld is the environment of one proxy: scripted answers and the record of calls.
type verifWorld struct {
	log []string // "store:<Op>", "leader", "cluster:<Op>" in call order

	// scripted behaviour
	localErr   error
	leaderAddr string
	leaderErr  error
	remoteErr  error

	lEQR  []*proto.ExecuteQueryResponse
	lRows []*proto.QueryRows
	lIdx  uint64
	lSeq  uint64
	rEQR  []*proto.ExecuteQueryResponse
	rRows []*proto.QueryRows
	rIdx  uint64
	rSeq  uint64

	// what the store saw
	sCtx  context.Context
	sReq  any
	sDst  io.Writer
	sWait bool
	sID   string

	// what the leader saw
	cCtx     context.Context
	cReq     any
	cAddr    string
	cCreds   *clstrPB.Credentials
	cTimeout time.Duration
	cRetries int
	cDst     io.Writer
	cStep    *proto.StepdownRequest
}

func (w *verifWorld) reset() {
	*w = verifWorld{}
}

type verifStore struct{ w *verifWorld }

func (s *verifStore) seen(op string, ctx context.Context, req any) {
	s.w.log = append(s.w.log, "store:"+op)
	s.w.sCtx = ctx
	s.w.sReq = req
}

func (s *verifStore) Execute(ctx context.Context, er *proto.ExecuteRequest) ([]*proto.ExecuteQueryResponse, uint64, error) {
	s.seen("Execute", ctx, er)
	return s.w.lEQR, s.w.lIdx, s.w.localErr
}
func (s *verifStore) Query(ctx context.Context, qr *proto.QueryRequest) ([]*proto.QueryRows, proto.ConsistencyLevel, uint64, error) {
	s.seen("Query", ctx, qr)
	return s.w.lRows, proto.ConsistencyLevel_WEAK, s.w.lIdx, s.w.localErr
}
func (s *verifStore) Request(ctx context.Context, eqr *proto.ExecuteQueryRequest) ([]*proto.ExecuteQueryResponse, uint64, uint64, error) {
	s.seen("Request", ctx, eqr)
	return s.w.lEQR, s.w.lSeq, s.w.lIdx, s.w.localErr
}
func (s *verifStore) Load(ctx context.Context, lr *proto.LoadRequest) error {
	s.seen("Load", ctx, lr)
	return s.w.localErr
}
func (s *verifStore) Backup(ctx context.Context, br *proto.BackupRequest, dst io.Writer) error {
	s.seen("Backup", ctx, br)
	s.w.sDst = dst
	return s.w.localErr
}
func (s *verifStore) Remove(ctx context.Context, rn *proto.RemoveNodeRequest) error {
	s.seen("Remove", ctx, rn)
	return s.w.localErr
}
func (s *verifStore) Stepdown(wait bool, id string) error {
	s.seen("Stepdown", nil, nil)
	s.w.sWait = wait
	s.w.sID = id
	return s.w.localErr
}
func (s *verifStore) LeaderAddr() (string, error) {
	s.w.log = append(s.w.log, "leader")
	return s.w.leaderAddr, s.w.leaderErr
}

type verifCluster struct{ w *verifWorld }

func (c *verifCluster) seen(op string, ctx context.Context, req any, addr string, creds *clstrPB.Credentials, timeout time.Duration, retries int) {
	c.w.log = append(c.w.log, "cluster:"+op)
	c.w.cCtx = ctx
	c.w.cReq = req
	c.w.cAddr = addr
	c.w.cCreds = creds
	c.w.cTimeout = timeout
	c.w.cRetries = retries
}

func (c *verifCluster) Execute(ctx context.Context, er *proto.ExecuteRequest, nodeAddr string, creds *clstrPB.Credentials, timeout time.Duration, retries int) ([]*proto.ExecuteQueryResponse, uint64, error) {
	c.seen("Execute", ctx, er, nodeAddr, creds, timeout, retries)
	return c.w.rEQR, c.w.rIdx, c.w.remoteErr
}
func (c *verifCluster) Query(ctx context.Context, qr *proto.QueryRequest, nodeAddr string, creds *clstrPB.Credentials, timeout time.Duration, retries int) ([]*proto.QueryRows, uint64, error) {
	c.seen("Query", ctx, qr, nodeAddr, creds, timeout, retries)
	return c.w.rRows, c.w.rIdx, c.w.remoteErr
}
func (c *verifCluster) Request(ctx context.Context, eqr *proto.ExecuteQueryRequest, nodeAddr string, creds *clstrPB.Credentials, timeout time.Duration, retries int) ([]*proto.ExecuteQueryResponse, uint64, uint64, error) {
	c.seen("Request", ctx, eqr, nodeAddr, creds, timeout, retries)
	return c.w.rEQR, c.w.rSeq, c.w.rIdx, c.w.remoteErr
}
func (c *verifCluster) Backup(ctx context.Context, br *proto.BackupRequest, nodeAddr string, creds *clstrPB.Credentials, timeout time.Duration, w io.Writer) error {
	c.seen("Backup", ctx, br, nodeAddr, creds, timeout, 0)
	c.w.cDst = w
	return c.w.remoteErr
}
func (c *verifCluster) Load(ctx context.Context, lr *proto.LoadRequest, nodeAddr string, creds *clstrPB.Credentials, timeout time.Duration, retries int) error {
	c.seen("Load", ctx, lr, nodeAddr, creds, timeout, retries)
	return c.w.remoteErr
}
func (c *verifCluster) RemoveNode(ctx context.Context, rn *proto.RemoveNodeRequest, nodeAddr string, creds *clstrPB.Credentials, timeout time.Duration) error {
	c.seen("Remove", ctx, rn, nodeAddr, creds, timeout, 0)
	return c.w.remoteErr
}
func (c *verifCluster) Stepdown(ctx context.Context, sr *proto.StepdownRequest, nodeAddr string, creds *clstrPB.Credentials, timeout time.Duration) error {
	c.seen("Stepdown", ctx, sr, nodeAddr, creds, timeout, 0)
	c.w.cStep = sr
	return c.w.remoteErr
}

var _ Store = (*verifStore)(nil)
var _ Cluster = (*verifCluster)(nil)

func verifMkEQR(n int) []*proto.ExecuteQueryResponse {
	if n == 0 {
		return nil
	}
	out := make([]*proto.ExecuteQueryResponse, n)
	for i := range out {
		out[i] = &proto.ExecuteQueryResponse{}
	}
	return out
}

func verifMkRows(n int) []*proto.QueryRows {
	if n == 0 {
		return nil
	}
	out := make([]*proto.QueryRows, n)
	for i := range out {
		out[i] = &proto.QueryRows{}
	}
	return out
}

// same slice contents by identity of the elements
func verifSameEQR(a, b []*proto.ExecuteQueryResponse) bool {
	if len(a) != len(b) {
		return false
	}
	for i := range a {
		if a[i] != b[i] {
			return false
		}
	}
	return true
}

func verifSameRows(a, b []*proto.QueryRows) bool {
	if len(a) != len(b) {
		return false
	}
	for i := range a {
		if a[i] != b[i] {
			return false
		}
	}
	return true
}

var verifOps = []string{"Execute", "Query", "Request", "Backup", "Load", "Remove", "Stepdown"}

// local outcomes
const (
	verifLocalOK = iota
	verifLocalNotLeader
	verifLocalNotLeaderWrapped
	verifLocalOtherErr
	verifLocalLeaderNotFoundErr // a store error that is not "not leader" but is one of the proxy's own sentinels
	verifNumLocal
)

// leader answers
const (
	verifRemoteOK = iota
	verifRemoteUnauthorized
	verifRemoteOtherErr
	verifRemoteNotLeader // leadership moved between the address lookup and the call
	verifNumRemote
)

// verifOneRequest performs request number i against p (whose models write into w) and checks the
// complete outcome. op selects the proxy method; the remaining scenario is chosen here.
// `fixed` >= 0 restricts the scenario to four representative ones (used by the sequence entry).
func verifOneRequest(p *Proxy, w *verifWorld, i int, op int, fixed int) {
	w.reset()
	opName := verifOps[op]

	// --- scenario
	var local, remote int
	var noForward bool
	leaderKnown := 0 // 0: address, 1: empty address, 2: error (with a non-empty address alongside)
	full := verifTier() == 1
	if fixed < 0 && full {
		// thorough tier: the full product, including settings that must be irrelevant
		local = verifChoice(verifName("local", i), verifNumLocal)
		noForward = verifBool(verifName("noForward", i))
		leaderKnown = verifChoice(verifName("leaderKnown", i), 3)
		remote = verifChoice(verifName("remote", i), verifNumRemote)
	} else if fixed < 0 {
		// quick tier: later dimensions are only varied where an earlier one lets them matter;
		// where they must be irrelevant they are set to the value that would do most damage
		// if it were used (leader reachable and answering successfully)
		local = verifChoice(verifName("local", i), verifNumLocal)
		noForward = verifBool(verifName("noForward", i))
		if (local == verifLocalNotLeader || local == verifLocalNotLeaderWrapped) && !noForward {
			leaderKnown = verifChoice(verifName("leaderKnown", i), 3)
			if leaderKnown == 0 {
				remote = verifChoice(verifName("remote", i), verifNumRemote)
			}
		}
	} else {
		switch fixed {
		case 0:
			local = verifLocalOK
		case 1:
			local, noForward = verifLocalNotLeader, true
		case 2:
			local, remote = verifLocalNotLeaderWrapped, verifRemoteOK
		case 3:
			local, remote = verifLocalNotLeader, verifRemoteOtherErr
		}
	}
	switch local {
	case verifLocalNotLeader:
		w.localErr = store.ErrNotLeader
	case verifLocalNotLeaderWrapped:
		w.localErr = fmt.Errorf("execute failed: %w", store.ErrNotLeader)
	case verifLocalOtherErr:
		w.localErr = errors.New("disk I/O error")
	case verifLocalLeaderNotFoundErr:
		w.localErr = store.ErrLeaderNotFound
	}
	isNotLeader := local == verifLocalNotLeader || local == verifLocalNotLeaderWrapped

	switch remote {
	case verifRemoteUnauthorized:
		w.remoteErr = errors.New("unauthorized")
	case verifRemoteOtherErr:
		w.remoteErr = errors.New("remote failure")
	case verifRemoteNotLeader:
		w.remoteErr = errors.New("not leader")
	}

	// addresses: the leader's Raft address and this node's API address are arbitrary short strings
	leaderAddr := string(verifBytes(verifName("leaderAddr", i), 2))
	apiAddr := string(verifBytes(verifName("apiAddr", i), 2))
	errLeader := errors.New("leader lookup failed")
	switch leaderKnown {
	case 0:
		w.leaderAddr = leaderAddr
	case 1:
		w.leaderAddr = ""
	case 2:
		w.leaderAddr = leaderAddr
		w.leaderErr = errLeader
	}
	p.SetAPIAddr(apiAddr)

	// results
	nl, nr := 1, 2
	if fixed < 0 && full && op <= 2 {
		nl = verifChoice(verifName("nLocalResults", i), 3)
		nr = verifChoice(verifName("nRemoteResults", i), 3)
	} else if fixed < 0 && op <= 2 {
		switch verifChoice(verifName("resultShape", i), 3) {
		case 0:
			nl, nr = 0, 1
		case 1:
			nl, nr = 1, 2
		case 2:
			nl, nr = 2, 0
		}
	}
	w.lEQR, w.rEQR = verifMkEQR(nl), verifMkEQR(nr)
	w.lRows, w.rRows = verifMkRows(nl), verifMkRows(nr)
	w.lIdx, w.rIdx = verifU64(verifName("localIndex", i)), verifU64(verifName("remoteIndex", i))
	w.lSeq, w.rSeq = verifU64(verifName("localSeq", i)), verifU64(verifName("remoteSeq", i))
	// keep the scripted values: the proxy must not be able to change what we compare against
	lEQR, rEQR, lRows, rRows := w.lEQR, w.rEQR, w.lRows, w.rRows
	lIdx, rIdx, lSeq, rSeq := w.lIdx, w.rIdx, w.lSeq, w.rSeq
	localErr, remoteErr := w.localErr, w.remoteErr

	// caller's arguments
	ctx := &verifCtx{tag: i}
	var creds *clstrPB.Credentials
	withCreds := (op+fixed+i)%2 == 0
	if fixed < 0 {
		withCreds = verifBool(verifName("withCreds", i))
	}
	if withCreds {
		creds = &clstrPB.Credentials{Username: "alice", Password: "secret"}
	}
	timeout := time.Duration(verifI64(verifName("timeout", i)))
	retries := int(verifI64(verifName("retries", i)))
	wait := verifBool(verifName("wait", i))
	id := "node" + string(verifBytes(verifName("id", i), 1))
	dst := &verifWriter{}

	// --- the call
	var (
		gotEQR  []*proto.ExecuteQueryResponse
		gotRows []*proto.QueryRows
		gotIdx  uint64
		gotSeq  uint64
		gotAddr string
		gotErr  error
		req     any
	)
	hasRetries := false
	switch op {
	case 0:
		er := &proto.ExecuteRequest{}
		req, hasRetries = er, true
		gotEQR, gotIdx, gotAddr, gotErr = p.Execute(ctx, er, creds, timeout, retries, noForward)
	case 1:
		qr := &proto.QueryRequest{}
		req, hasRetries = qr, true
		gotRows, gotIdx, gotAddr, gotErr = p.Query(ctx, qr, creds, timeout, retries, noForward)
	case 2:
		eqr := &proto.ExecuteQueryRequest{}
		req, hasRetries = eqr, true
		gotEQR, gotSeq, gotIdx, gotAddr, gotErr = p.Request(ctx, eqr, creds, timeout, retries, noForward)
	case 3:
		br := &proto.BackupRequest{}
		req = br
		gotAddr, gotErr = p.Backup(ctx, br, dst, creds, timeout, noForward)
	case 4:
		lr := &proto.LoadRequest{}
		req, hasRetries = lr, true
		gotAddr, gotErr = p.Load(ctx, lr, creds, timeout, retries, noForward)
	case 5:
		rn := &proto.RemoveNodeRequest{}
		req = rn
		gotAddr, gotErr = p.Remove(ctx, rn, creds, timeout, noForward)
	case 6:
		gotAddr, gotErr = p.Stepdown(ctx, wait, id, creds, timeout, noForward)
	}
	hasEQR := op == 0 || op == 2
	hasRows := op == 1
	hasIdx := op <= 2
	hasSeq := op == 2

	// --- the local store is asked first, exactly once, with the caller's request
	verifAssert("C20-local-store-asked-first", len(w.log) >= 1 && w.log[0] == "store:"+opName)
	nStore := 0
	nCluster := 0
	nLeader := 0
	for _, e := range w.log {
		switch e {
		case "leader":
			nLeader++
		case "store:" + opName:
			nStore++
		case "cluster:" + opName:
			nCluster++
		default:
			verifAssert("C20-no-foreign-operation", false) // e.g. Query forwarded as Execute
		}
	}
	verifAssert("C20-local-store-asked-once", nStore == 1)
	if op == 6 {
		verifAssert("C20-stepdown-local-wait", w.sWait == wait)
		verifAssert("C20-stepdown-local-id", w.sID == id)
	} else {
		verifAssert("C20-local-request-is-callers", w.sReq == req && w.sCtx == context.Context(ctx))
	}
	if op == 3 {
		verifAssert("C20-local-backup-writer-is-callers", w.sDst == io.Writer(dst))
	}

	// --- not a forwarding case: returned as it is, leader never contacted
	if !isNotLeader {
		verifAssert("C20-no-forward-unless-not-leader", nCluster == 0 && nLeader == 0)
		verifAssert("C20-local-error-unchanged", gotErr == localErr)
		verifAssert("C20-local-served-by-this-node", gotAddr == apiAddr)
		if hasEQR {
			verifAssert("C20-local-results-unchanged", verifSameEQR(gotEQR, lEQR))
		}
		if hasRows {
			verifAssert("C20-local-rows-unchanged", verifSameRows(gotRows, lRows))
		}
		if hasIdx {
			verifAssert("C20-local-index-unchanged", gotIdx == lIdx)
		}
		if hasSeq {
			verifAssert("C20-local-seq-unchanged", gotSeq == lSeq)
		}
		if local == verifLocalOK {
			verifReach("local-ok")
		} else {
			verifReach("local-other-error")
		}
		return
	}

	// --- follower, client asked for redirects: ErrNotLeader, nothing is sent anywhere
	if noForward {
		verifReach("redirect")
		verifAssert("C20-redirect-no-cluster-call", nCluster == 0)
		verifAssert("C20-redirect-is-ErrNotLeader", errors.Is(gotErr, ErrNotLeader))
		verifAssert("C20-redirect-no-results", len(gotEQR) == 0 && len(gotRows) == 0)
		return
	}

	// --- follower, forwarding: the leader address is looked up (after the local attempt)
	verifAssert("C20-leader-looked-up-once", nLeader == 1 && len(w.log) >= 2 && w.log[1] == "leader")
	if leaderKnown == 2 {
		verifReach("leader-lookup-error")
		verifAssert("C20-lookup-error-no-cluster-call", nCluster == 0)
		verifAssert("C20-lookup-error-returned", gotErr == errLeader)
		return
	}
	if leaderKnown == 1 {
		verifReach("leader-unknown")
		verifAssert("C20-unknown-leader-no-cluster-call", nCluster == 0)
		verifAssert("C20-unknown-leader-is-ErrLeaderNotFound", errors.Is(gotErr, ErrLeaderNotFound))
		return
	}

	// --- exactly one call to the leader, transparent in its arguments
	verifAssert("C20-forwarded-exactly-once", nCluster == 1 && len(w.log) == 3 && w.log[2] == "cluster:"+opName)
	verifAssert("C20-forwarded-to-current-leader", w.cAddr == leaderAddr)
	verifAssert("C20-forwarded-with-callers-credentials", w.cCreds == creds)
	verifAssert("C20-forwarded-with-callers-context", w.cCtx == context.Context(ctx))
	verifAssert("C20-forwarded-with-callers-timeout", w.cTimeout == timeout)
	if hasRetries {
		verifAssert("C20-forwarded-with-callers-retries", w.cRetries == retries)
	}
	if op == 6 {
		sr := w.cStep
		verifAssert("C20-stepdown-request-built", sr != nil)
		verifAssert("C20-stepdown-request-carries-id", sr.Id == id)
		verifAssert("C20-stepdown-request-carries-wait", sr.Wait == wait)
	} else {
		verifAssert("C20-forwarded-same-request", w.cReq == req)
	}
	if op == 3 {
		verifAssert("C20-forwarded-backup-writer-is-callers", w.cDst == io.Writer(dst))
	}

	switch remote {
	case verifRemoteOK:
		verifReach("forwarded-ok")
		verifAssert("C20-forwarded-success", gotErr == nil)
		verifAssert("C20-forwarded-served-by-leader", gotAddr == leaderAddr)
		if hasEQR {
			verifAssert("C20-leader-results-unchanged", verifSameEQR(gotEQR, rEQR))
		}
		if hasRows {
			verifAssert("C20-leader-rows-unchanged", verifSameRows(gotRows, rRows))
		}
		if hasIdx {
			verifAssert("C20-leader-index-unchanged", gotIdx == rIdx)
		}
		if hasSeq {
			verifAssert("C20-leader-seq-unchanged", gotSeq == rSeq)
		}
	case verifRemoteUnauthorized:
		verifReach("forwarded-unauthorized")
		verifAssert("C20-unauthorized-recognisable", errors.Is(gotErr, ErrUnauthorized))
		verifAssert("C20-failed-forward-no-results", len(gotEQR) == 0 && len(gotRows) == 0)
	default:
		verifReach("forwarded-failed")
		verifAssert("C20-leader-error-unchanged", gotErr == remoteErr)
		verifAssert("C20-failed-forward-no-results", len(gotEQR) == 0 && len(gotRows) == 0)
	}
}

// VerifC20Data: Execute, Query, Request - one request, every scenario.
func VerifC20Data() {
	verifPanicsAreViolations()
	w := &verifWorld{}
	p := New(&verifStore{w}, &verifCluster{w})
	op := verifChoice("op", 3)
	verifOneRequest(p, w, 0, op, -1)
}

// VerifC20Admin: Backup, Load, Remove, Stepdown - one request, every scenario.
func VerifC20Admin() {
	verifPanicsAreViolations()
	w := &verifWorld{}
	p := New(&verifStore{w}, &verifCluster{w})
	op := 3 + verifChoice("op", 4)
	verifOneRequest(p, w, 0, op, -1)
}

// VerifC20Seq: several requests through the same proxy while the leader (address) changes from
// request to request: nothing may be remembered from an earlier request.
func VerifC20Seq() {
	verifPanicsAreViolations()
	w := &verifWorld{}
	p := New(&verifStore{w}, &verifCluster{w})
	k := 2
	if verifTier() == 1 {
		k = 3
	}
	for i := 0; i < k; i++ {
		op := verifChoice(verifName("op", i), 7)
		sc := verifChoice(verifName("scenario", i), 4)
		verifOneRequest(p, w, i, op, sc)
	}
}

// VerifC20Wrap: how an error answered by the leader leaves the proxy, through the public entry
// points only (no private helper is named here, so a refactoring of the proxy's internals cannot
// stop this entry from loading): exactly the text "unauthorized" becomes ErrUnauthorized, every
// other leader error - also one that merely resembles it, and one whose text equals a local
// sentinel's - is handed back as the very same value and is not mistaken for ErrUnauthorized.
func VerifC20Wrap() {
	forward := func(op int, remote error) error {
		w := &verifWorld{}
		p := New(&verifStore{w}, &verifCluster{w})
		w.localErr = store.ErrNotLeader
		w.leaderAddr = "L"
		w.remoteErr = remote
		ctx := &verifCtx{tag: 0}
		var err error
		switch op {
		case 0:
			_, _, _, err = p.Execute(ctx, &proto.ExecuteRequest{}, nil, time.Second, 0, false)
		case 1:
			_, _, _, err = p.Query(ctx, &proto.QueryRequest{}, nil, time.Second, 0, false)
		case 2:
			_, _, _, _, err = p.Request(ctx, &proto.ExecuteQueryRequest{}, nil, time.Second, 0, false)
		case 3:
			_, err = p.Backup(ctx, &proto.BackupRequest{}, &verifWriter{}, nil, time.Second, false)
		case 4:
			_, err = p.Load(ctx, &proto.LoadRequest{}, nil, time.Second, 0, false)
		case 5:
			_, err = p.Remove(ctx, &proto.RemoveNodeRequest{}, nil, time.Second, false)
		case 6:
			_, err = p.Stepdown(ctx, false, "n", nil, time.Second, false)
		}
		return err
	}
	op := verifChoice("wrapOp", 7)
	verifAssert("C20-wrap-nil", forward(op, nil) == nil)
	e := errors.New("unauthorized")
	verifAssert("C20-wrap-unauthorized", errors.Is(forward(op, e), ErrUnauthorized))
	for _, text := range []string{"unauthorized ", "Unauthorized", "not leader", "leader not found", ""} {
		o := errors.New(text) // not the exact message
		got := forward(op, o)
		verifAssert("C20-wrap-other-unchanged", got == o)
		verifAssert("C20-wrap-other-not-unauthorized", !errors.Is(got, ErrUnauthorized))
		verifAssert("C20-wrap-remote-error-is-no-local-sentinel", !errors.Is(got, ErrNotLeader) && !errors.Is(got, ErrLeaderNotFound))
	}
	verifAssert("C20-sentinels-are-the-stores", errors.Is(store.ErrNotLeader, ErrNotLeader) && errors.Is(store.ErrLeaderNotFound, ErrLeaderNotFound))
	verifReach("wrap-done")
}

// VerifC20Twin: same environment; claims a follower never forwards - must be refuted.
func VerifC20Twin() {
	w := &verifWorld{}
	p := New(&verifStore{w}, &verifCluster{w})
	w.localErr = store.ErrNotLeader
	w.leaderAddr = string(verifBytes("leaderAddr0", 2))
	w.rIdx = verifU64("remoteIndex0")
	_, idx, _, err := p.Execute(&verifCtx{}, &proto.ExecuteRequest{}, nil, time.Duration(verifI64("timeout0")), 0, verifBool("noForward0"))
	verifAssume(err == nil)
	verifAssume(idx == w.rIdx)
	verifAssert("twin", len(w.log) < 3)
}
