package json

import (
	"math"

	"github.com/rqlite/rqlite/v10/command/proto"
)

// C25(c): cdc.(*Service).mainLoop turns every batch into JSON with MarshalToEnvelopeJSON before it
// is written to the disk queue, and DROPS the batch when that fails ("error marshalling batch for
// FIFO ... continue"). At-least-once delivery therefore needs: for every batch of event groups the
// database layer can produce, MarshalToEnvelopeJSON succeeds. This harness decides that for the real
// MarshalToEnvelopeJSON over every shape and value kind of a batch; encoding/json.Marshal itself
// (reflection) is replaced by a model of its documented failure condition for the types of the
// envelope: it fails exactly when it reaches a float64 that is NaN or +-Inf
// (json.UnsupportedValueError); strings are coerced to valid UTF-8, byte slices are base64, maps
// with string keys, integers and booleans always marshal. Natively the real json.Marshal runs.

// verifJSONMarshal is the model of encoding/json.Marshal (spec "models").
func verifJSONMarshal(v any) ([]byte, error) {
	env, ok := v.(*CDCMessagesEnvelope)
	if !ok {
		panic("verifJSONMarshal: unexpected type")
	}
	for _, m := range env.Payload {
		for _, e := range m.Events {
			if verifC25cBad(e.Before) || verifC25cBad(e.After) {
				return nil, verifC25cErr{}
			}
		}
	}
	return []byte("{}"), nil
}

type verifC25cErr struct{}

func (verifC25cErr) Error() string { return "json: unsupported value" }

func verifC25cBad(m map[string]any) bool {
	for _, x := range m {
		if f, ok := x.(float64); ok && (math.IsNaN(f) || math.IsInf(f, 0)) {
			return true
		}
	}
	return false
}

// verifC25cValue: one column value of every kind the database layer produces (db.normalizeCDCValues:
// nil, int64, float64, string, bool, []byte). REAL values: the engine keeps floating point
// concrete, so the value is a case split over the IEEE classes json.Marshal distinguishes (finite /
// NaN / +Inf / -Inf) with several finite representatives; SQLite stores +-Inf (9e999), NaN becomes NULL
// at INSERT but can reach an event through an expression result of an UPDATE.
func verifC25cValue(tag string) *proto.CDCValue {
	// One position of the batch (the "probe", any of them) ranges over every kind; the others hold
	// an arbitrary INTEGER. getV treats each value on its own and json.Marshal
	// fails iff SOME value is unsupported, so one probe position is a complete case split for
	// "the batch marshals"; it keeps the number of paths linear in the size of the batch.
	verifC25cPos++
	if verifC25cPos != verifC25cProbe {
		return &proto.CDCValue{Value: &proto.CDCValue_I{I: verifI64(tag + "i")}}
	}
	verifReach("probe-position-used")
	switch verifChoice(tag+"kind", 7) {
	case 0:
		return nil
	case 1:
		return &proto.CDCValue{}
	case 2:
		return &proto.CDCValue{Value: &proto.CDCValue_I{I: verifI64(tag + "i")}}
	case 3:
		var d float64
		switch verifChoice(tag+"real", 7) {
		case 0:
			d = 0
		case 1:
			d = -1.5
		case 2:
			d = math.MaxFloat64
		case 3:
			d = math.SmallestNonzeroFloat64
		case 4:
			d = math.Inf(1)
			verifReach("real-plus-inf")
		case 5:
			d = math.Inf(-1)
		case 6:
			d = math.NaN()
		}
		return &proto.CDCValue{Value: &proto.CDCValue_D{D: d}}
	case 4:
		return &proto.CDCValue{Value: &proto.CDCValue_S{S: string(verifBytes(tag+"s", verifChoice(tag+"slen", 3)))}}
	case 5:
		return &proto.CDCValue{Value: &proto.CDCValue_B{B: verifBool(tag + "b")}}
	}
	return &proto.CDCValue{Value: &proto.CDCValue_Y{Y: verifBytes(tag+"y", verifChoice(tag+"ylen", 3))}}
}

func verifC25cRow(tag string, n int) *proto.CDCRow {
	r := &proto.CDCRow{}
	for i := 0; i < n; i++ {
		r.Values = append(r.Values, verifC25cValue(verifName(tag, i)))
	}
	return r
}

var verifC25cNames = []string{"a", "b"}

var verifC25cPos, verifC25cProbe int

// verifC25cBatch: 1 group optionally followed by a flush marker (thorough: 1..2 groups), each 1 event of any
// operation with 0..2 columns; column names match the rows or not (the documented per-event error).
func verifC25cBatch() []*proto.CDCIndexedEventGroup {
	var evs []*proto.CDCIndexedEventGroup
	verifC25cPos, verifC25cProbe = 0, 1+verifChoice("probe", 4+4*verifTier()) // up to 1 (thorough 2) groups x 2 rows x 2 columns
	ng := 1 + verifChoice("groups", 2)
	for g := 0; g < ng; g++ {
		grp := &proto.CDCIndexedEventGroup{Index: verifU64(verifName("index", g)), CommitTimestamp: verifI64(verifName("ts", g))}
		if g == 1 && (verifTier() == 0 || verifChoice("flush", 2) == 1) { // quick: the second group is always the marker
			grp.Flush = true
			evs = append(evs, grp)
			continue
		}
		ne := 1
		for e := 0; e < ne; e++ {
			tag := verifName(verifName("g", g)+"e", e)
			ev := &proto.CDCEvent{Table: "t", NewRowId: verifI64(tag + "new"), OldRowId: verifI64(tag + "old")}
			cols := verifChoice(tag+"cols", 3)
			ev.ColumnNames = verifC25cNames[:cols]
			if verifChoice(tag+"names-missing", 2) == 1 {
				ev.ColumnNames = nil
				ev.Error = "no column names"
			}
			switch verifChoice(tag+"op", 3) {
			case 0:
				ev.Op = proto.CDCEvent_INSERT
				ev.NewRow = verifC25cRow(tag+"n", cols)
			case 1:
				ev.Op = proto.CDCEvent_UPDATE
				ev.OldRow = verifC25cRow(tag+"o", cols)
				ev.NewRow = verifC25cRow(tag+"n", cols)
			case 2:
				ev.Op = proto.CDCEvent_DELETE
				ev.OldRow = verifC25cRow(tag+"o", cols)
			}
			grp.Events = append(grp.Events, ev)
		}
		evs = append(evs, grp)
	}
	return evs
}

// VerifC25cMarshal: no batch the database layer can produce makes the marshalling fail (a failure
// is a dropped batch in cdc.(*Service).mainLoop).
func VerifC25cMarshal() {
	verifPanicsAreViolations()
	evs := verifC25cBatch()
	b, err := MarshalToEnvelopeJSON("svc", "node", verifBool("ts"), evs)
	if err != nil {
		verifReach("marshal-failed")
	}
	verifAssert("C25-every-batch-marshals", err == nil)
	verifAssert("C25-marshalled-batch-not-empty", len(b) > 0)
}

// Twin: "marshalling always fails" must be violated.
func VerifC25cTwin() {
	evs := verifC25cBatch()
	_, err := MarshalToEnvelopeJSON("svc", "node", true, evs)
	verifAssert("twin", err != nil)
}
