package db

import (
	"os"
	"testing"

	command "github.com/rqlite/rqlite/v10/command/proto"
)

// Real SQLite: one request (= one log entry, index 7) with two INSERT statements and no
// explicit transaction -> two COMMITs -> two groups.
func Test_C25_MultiStatementRequest(t *testing.T) {
	db, path := mustCreateOnDiskDatabaseWAL()
	defer db.Close()
	defer os.Remove(path)
	mustExecute(db, "CREATE TABLE foo (id INTEGER NOT NULL PRIMARY KEY, name TEXT)")

	ch := make(chan *command.CDCIndexedEventGroup, 10)
	s, err := NewCDCStreamer(ch, db)
	if err != nil {
		t.Fatal(err)
	}
	if err := db.RegisterPreUpdateHook(s.PreupdateHook, nil, false); err != nil {
		t.Fatal(err)
	}
	if err := db.RegisterCommitHook(s.CommitHook); err != nil {
		t.Fatal(err)
	}
	s.Reset(7) // what fsmApply does once per log entry
	req := &command.Request{Statements: []*command.Statement{
		{Sql: `INSERT INTO foo(id, name) VALUES(1, "a")`},
		{Sql: `INSERT INTO foo(id, name) VALUES(2, "b")`},
	}}
	if _, err := db.Execute(req, false); err != nil {
		t.Fatal(err)
	}
	close(ch)
	n := 0
	for g := range ch {
		n++
		t.Logf("group %d: Index=%d rows=%d newRowId=%d", n, g.Index, len(g.Events), g.Events[0].NewRowId)
		if g.Index != 7 {
			t.Errorf("DEFECT REPRODUCED: group %d of log entry 7 is labelled with index %d", n, g.Index)
		}
	}
	if n != 2 {
		t.Fatalf("expected 2 groups, got %d", n)
	}
}
