package db

// C25 (part a, package db): the CDC streamer labels every event group it hands out with the index
// of the log entry that produced it.
//
// The real CDCStreamer (NewCDCStreamer, Reset, PreupdateHook, CommitHook, Len) is driven the way
// store.(*Store).fsmApply and SQLite drive it:
//   - fsmApply calls Reset(l.Index) exactly once per log entry, before the request is processed;
//   - while the request is processed SQLite calls the pre-update hook once per changed row and the
//     commit hook once per COMMIT. A request with several statements and no explicit transaction
//     produces one COMMIT per statement (autocommit), so one log entry produces 0..n commits, each
//     preceded by 0..m row events (CREATE TABLE and friends commit without row events).
//
// Oracle (property statement + doc comments of db/cdc.go):
//   - the commit hook lets the commit proceed (returns true);
//   - a commit without row events hands out nothing;
//   - a commit with row events hands out exactly one group; its events are exactly the row events
//     seen since the previous commit, in order; its Index is the index given to the last Reset;
//     every event carries the column names of its table (or an error text when they cannot be
//     read); the commit timestamp is the time of the commit;
//   - nothing is left pending after a commit, and Reset drops whatever was pending (row events of
//     a statement that was undone and never committed).
// The hand-off channel is kept from filling (the documented drop is excluded).

import (
	"errors"
	"time"

	command "github.com/rqlite/rqlite/v10/command/proto"
)

// verifC25Cols is the ColumnsNameProvider handed to the streamer.
type verifC25Cols struct {
	failTable string
	calls     int
}

var verifC25ColsT = []string{"id", "v"}
var verifC25ColsU = []string{"k"}

func (c *verifC25Cols) ColumnNames(table string) ([]string, error) {
	c.calls++
	if table == c.failTable {
		return nil, errors.New("no such table")
	}
	if table == "t" {
		return verifC25ColsT, nil
	}
	return verifC25ColsU, nil
}

func verifC25SameStrings(a, b []string) bool {
	if len(a) != len(b) {
		return false
	}
	for i := range a {
		if a[i] != b[i] {
			return false
		}
	}
	return true
}

// verifC25Take reads what the streamer handed out (without blocking).
func verifC25Take(ch chan *command.CDCIndexedEventGroup) []*command.CDCIndexedEventGroup {
	var out []*command.CDCIndexedEventGroup
	for {
		select {
		case g := <-ch:
			out = append(out, g)
		default:
			return out
		}
	}
}

// verifC25Drive runs nEntries log entries with up to maxCommits commits each and up to maxRows row
// events per commit through the streamer. twin: the final assertion contradicts the property.
func verifC25Drive(nEntries, maxCommits, maxRows int, twin bool) {
	verifPanicsAreViolations()
	out := make(chan *command.CDCIndexedEventGroup, 16) // never fills: at most 6 groups
	cols := &verifC25Cols{}
	if verifChoice("colsFail", 2) == 1 {
		cols.failTable = "u"
	}
	s, err := NewCDCStreamer(out, cols)
	verifAssert("C25-streamer-created", err == nil && s != nil)
	verifAssert("C25-nothing-pending-at-start", s.Len() == 0)

	nid := int64(0)
	for e := 0; e < nEntries; e++ {
		idx := verifU64(verifName("index", e))
		verifAssume(idx != 0) // Raft log indexes start at 1
		s.Reset(idx)
		verifAssert("C25-reset-drops-pending", s.Len() == 0)
		handedOut := 0 // groups handed out for this entry so far
		// the consumer (cdc.Service) reads a group some time after it was handed out: every group of
		// the entry is looked at again when the entry is over
		var keptGroups []*command.CDCIndexedEventGroup
		var keptEvents [][]*command.CDCEvent

		commits := verifChoice(verifName("commits", e), maxCommits+1)
		for c := 0; c < commits; c++ {
			rows := verifChoice(verifName("rows", e*4+c), maxRows+1)
			var evs []*command.CDCEvent
			for r := 0; r < rows; r++ {
				nid++
				tbl := "t" // tables alternate: both, and the per-commit column-name cache, are exercised
				if nid%2 == 0 {
					tbl = "u"
				}
				ev := &command.CDCEvent{Op: command.CDCEvent_INSERT, Table: tbl, NewRowId: nid}
				evs = append(evs, ev)
				verifAssert("C25-preupdate-hook-ok", s.PreupdateHook(ev) == nil)
				verifAssert("C25-pending-count", s.Len() == r+1)
			}
			before := time.Now().UnixMilli()
			ok := s.CommitHook()
			after := time.Now().UnixMilli()
			verifAssert("C25-commit-proceeds", ok)
			verifAssert("C25-nothing-pending-after-commit", s.Len() == 0)
			got := verifC25Take(out)
			if rows == 0 {
				verifReach("commit-without-rows")
				verifAssert("C25-no-group-for-commit-without-rows", len(got) == 0)
				continue
			}
			verifAssert("C25-one-group-per-commit-with-rows", len(got) == 1)
			g := got[0]
			verifAssert("C25-group-not-nil", g != nil)
			verifAssert("C25-group-not-a-flush-marker", !g.Flush)
			verifAssert("C25-group-has-the-commits-events", len(g.Events) == rows)
			for r := 0; r < rows; r++ {
				ev := g.Events[r]
				verifAssert("C25-group-events-in-order", ev == evs[r])
				if ev.Table == cols.failTable {
					verifReach("column-names-unavailable")
					verifAssert("C25-column-name-failure-reported", ev.Error != "" && len(ev.ColumnNames) == 0)
				} else if ev.Table == "t" {
					verifAssert("C25-column-names-t", ev.Error == "" && verifC25SameStrings(ev.ColumnNames, verifC25ColsT))
				} else {
					verifAssert("C25-column-names-u", ev.Error == "" && verifC25SameStrings(ev.ColumnNames, verifC25ColsU))
				}
			}
			verifAssert("C25-commit-timestamp", before <= g.CommitTimestamp && g.CommitTimestamp <= after)

			// the property: the group is labelled with the index of its log entry
			if handedOut > 0 {
				verifReach("second-group-of-entry")
			}
			if twin {
				verifAssert("C25-twin-group-mislabelled", g.Index != idx)
				return
			}
			if g.Index != idx && handedOut > 0 && g.Index == 0 {
				// recorded defect class: not the first group handed out since Reset, labelled 0
				verifFinding("C25-later-group-of-entry-labelled-zero")
			}
			verifAssert("C25-group-carries-index-of-last-reset", g.Index == idx)
			handedOut++
			keptGroups = append(keptGroups, g)
			keptEvents = append(keptEvents, evs)
		}
		for k, g := range keptGroups {
			same := len(g.Events) == len(keptEvents[k])
			for r := 0; same && r < len(g.Events); r++ {
				same = g.Events[r] == keptEvents[k][r]
			}
			verifAssert("C25-handed-out-group-still-holds-its-events", same)
		}
		// the last statement of the request may fail after it changed a row: SQLite undoes it and
		// no commit follows; the row event stays pending until Reset ("all pending events are cleared")
		if e+1 < nEntries && verifChoice(verifName("rolledBack", e), 2) == 1 {
			verifReach("rolled-back-row-event")
			nid++
			ev := &command.CDCEvent{Op: command.CDCEvent_INSERT, Table: "t", NewRowId: nid}
			verifAssert("C25-preupdate-hook-ok", s.PreupdateHook(ev) == nil)
			nid++ // keep the table alternation of the following rows independent of this choice
		}
	}
	verifAssert("C25-nothing-handed-out-late", len(verifC25Take(out)) == 0)
}

// VerifC25Streamer: the log shapes of the bound.
func VerifC25Streamer() {
	if verifTier() == 1 {
		verifC25Drive(3, 2, 2, false)
		return
	}
	verifC25Drive(2, 2, 1, false)
}

// VerifC25SingleCommit: entries that commit at most once (single statements, explicit
// transactions): the streamer must be flawless here (no recorded finding can hide anything).
func VerifC25SingleCommit() {
	if verifTier() == 1 {
		verifC25Drive(3, 1, 2, false)
		return
	}
	verifC25Drive(2, 1, 2, false)
}

// VerifC25Twin: same world; the final assertion contradicts the property and must fail.
func VerifC25Twin() {
	verifC25Drive(1, 1, 1, true)
}
