package snapshot

// Native confirmation of finding C08-resume-after-move-into-place on the repository's own v9.4.1
// fixture (run by hand: `./bin/symgo nativetest C08 TestVerifC08Fixture`): the real Upgrade8To10
// dies at each of its crash points in turn, then the real Upgrade8To10 is called again.

import (
	"os"
	"path/filepath"
	"testing"
)

func TestVerifC08Fixture(t *testing.T) {
	failures := 0
	for at := 1; ; at++ {
		root := t.TempDir()
		old8, new10 := filepath.Join(root, "rsnapshots"), filepath.Join(root, "wsnapshots")
		if err := os.CopyFS(old8, os.DirFS("testdata/upgrade/v9.4.1-snapshots")); err != nil {
			t.Fatal(err)
		}
		lg := vDiscardLogger()
		var err error
		if !vRunCrash(at, func() { err = Upgrade8To10(old8, new10, lg) }) {
			if err != nil {
				t.Fatalf("uninterrupted upgrade: %v", err)
			}
			t.Logf("%d crash points", at-1)
			break
		}
		where := vCr.op + " " + filepath.Base(vCr.path)
		err = Upgrade8To10(old8, new10, lg)
		if err != nil {
			failures++
			err2 := Upgrade8To10(old8, new10, lg)
			t.Logf("died before point %d (%s): next Upgrade8To10 fails: %v; the one after that: %v", at, where, err, err2)
			continue
		}
		v := vObserve(new10)
		if !v.ok || v.n != 1 || v.index != 9 || v.term != 2 || vExists(old8) {
			t.Errorf("died before point %d (%s): upgrade completed but result is wrong: %+v", at, where, v)
		} else {
			t.Logf("died before point %d (%s): next Upgrade8To10 completes the upgrade", at, where)
		}
	}
	if failures == 0 {
		t.Logf("no crash point leaves the upgrade stuck (finding not present in this tree)")
	}
}
