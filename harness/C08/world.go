package snapshot

// Store directories in either world, and what they hold (as in the C07 harness, except that the
// model database records its size in the header: see fsmodel.go). Symbolic run: the file-system model of fsmodel.go with
// token contents. Native replay: a real temporary directory with real SQLite files.

import (
	"io"
	"log"
	"os"
	"path/filepath"

	"github.com/hashicorp/raft"
	"github.com/rqlite/rqlite/v10/db"
	"github.com/rqlite/rqlite/v10/internal/rsync"
)

// vWALSeq counts the WALs written into the world, in the order in which they apply.
var vWALSeq int

func vWALName(i int) string { return "0000000" + string(rune('1'+i)) + walfileSuffix }

// vDBContent / vWALContent: what a data file holds. Symbolic: header + tokens (one token per WAL).
// Native: real SQLite files (fsmodel.go vNativeFixtures: WAL j creates table t<j> with one row).
func vDBContent() []byte {
	if verifSymbolic() {
		return vSQLiteHdr
	}
	vNativeFixtures()
	return vNativeDB
}

func vWALContent(seq int) []byte {
	if verifSymbolic() {
		return append(append([]byte(nil), vWALHdr...), byte('a'+seq))
	}
	vNativeFixtures()
	return vNativeWAL[seq]
}

// vDBWith is a database file into which the first n WALs have been checkpointed.
func vDBWith(n int) []byte {
	if verifSymbolic() {
		out := append([]byte(nil), vSQLiteHdr...)
		for j := 0; j < n; j++ {
			out = append(out, byte('a'+j))
		}
		out[31] = byte(n)
		return out
	}
	vNativeFixtures()
	tmp, err := os.MkdirTemp("", "verif-dbwith-")
	vMust(err)
	defer os.RemoveAll(tmp)
	p := filepath.Join(tmp, "d.db")
	vMust(os.WriteFile(p, vNativeDB, 0o644))
	for j := 0; j < n; j++ {
		vMust(os.WriteFile(p+"-wal", vNativeWAL[j], 0o644))
		vMust(db.CheckpointRemove(p))
	}
	b, err := os.ReadFile(p)
	vMust(err)
	return b
}

// vPutSnapshot writes a complete v10 snapshot directory (full: data.db; nWAL WAL files).
func vPutSnapshot(dir, id string, index, term uint64, full bool, nWAL int) {
	sd := filepath.Join(dir, id)
	vMust(os.MkdirAll(sd, 0o755))
	vMust(writeMeta(sd, &raft.SnapshotMeta{Version: 1, ID: id, Index: index, Term: term}))
	if full {
		vWriteData(filepath.Join(sd, dbfileName), vDBContent())
	}
	for i := 0; i < nWAL; i++ {
		vWriteData(filepath.Join(sd, vWALName(i)), vWALContent(vWALSeq))
		vWALSeq++
	}
}

func vDiscardLogger() *log.Logger { return log.New(io.Discard, "", 0) }

// vBareStore is a Store over the directory as NewStore builds it, minus the reaper goroutine and
// the start-up check (the harness calls check itself), and with the once-per-lifetime checksum
// verification marked as already done (C12 is about that).
func vBareStore(dir string) *Store {
	s := &Store{
		dir:            dir,
		fullNeededPath: filepath.Join(dir, fullNeededFile),
		reapPlanPath:   filepath.Join(dir, reapPlanFile),
		logger:         vDiscardLogger(),
		catalog:        &SnapshotCatalog{},
		mrsw:           rsync.NewMultiRSW(),
		reapDisabled:   &rsync.AtomicBool{},
		noVerifyDB:     &rsync.AtomicBool{},
		reapThreshold:  defaultReapThreshold,
		reapCh:         make(chan struct{}, 1),
		reapDoneCh:     make(chan struct{}),
		observers:      newObserverSet(),
	}
	s.verifyOnce.Do(func() {})
	return s
}

// ---------------------------------------------------------------- what a store directory holds

type vView struct {
	ok      bool   // the catalog scan succeeded and there is a newest snapshot that resolves
	why     string // why not
	n       int    // number of snapshots
	index   uint64 // of the newest snapshot
	term    uint64
	content string // the database content the newest snapshot resolves to
	crcOK   bool   // every data file matches its checksum record
	idsOK   bool   // every snapshot directory is named after the ID in its metadata
}

// vContent is the database content a (database file, WAL files) resolution stands for: the
// database with the WALs applied in order.
func vContent(dbPath string, wals []string) (string, error) {
	if verifSymbolic() {
		n := vFS.file(dbPath)
		if n == nil || !vIsValidSQLiteFile(dbPath) || len(n.data) < len(vSQLiteHdr) {
			return "", vErrNotExist
		}
		if vMalformedDB(n.data) {
			return "", vErrBadData
		}
		data := n.data
		for _, w := range wals {
			wn := vFS.file(w)
			if wn == nil || !vIsValidSQLiteWALFile(w) {
				return "", vErrNotExist
			}
			data = vApplyWAL(data, wn.data)
		}
		return string(data[len(vSQLiteHdr):]), nil
	}
	return vNativeRestore(dbPath, wals)
}

// vObserve looks at a store directory through the real catalog.
func vObserve(dir string) vView {
	v := vView{}
	set, err := (&SnapshotCatalog{}).Scan(dir)
	if err != nil {
		v.why = "scan: " + err.Error()
		return v
	}
	v.n = set.Len()
	newest, ok := set.Newest()
	if !ok {
		v.why = "no snapshot"
		return v
	}
	v.index, v.term = newest.raftMeta.Index, newest.raftMeta.Term
	dbf, wals, err := set.ResolveFiles(newest.id)
	if err != nil || dbf == nil {
		v.why = "resolve failed"
		return v
	}
	paths := []string{}
	for _, w := range wals {
		paths = append(paths, w.Path)
	}
	v.content, err = vContent(dbf.Path, paths)
	if err != nil {
		v.why = "content: " + err.Error()
		return v
	}
	v.crcOK, v.idsOK = true, true
	for _, sn := range set.All() {
		if sn.id != sn.raftMeta.ID {
			v.idsOK = false
		}
		files := append([]*ChecksummedFile(nil), sn.walFiles...)
		if sn.dbFile != nil {
			files = append(files, sn.dbFile)
		}
		for _, f := range files {
			if ok, err := f.Check(); err != nil || !ok {
				v.crcOK = false
			}
		}
	}
	v.ok = true
	return v
}

// vLeftovers reports plan files and temporary entries in a directory.
func vLeftovers(dir string) bool {
	for _, name := range vList(dir) {
		if name == reapPlanFile || name == upgrade8To10Plan || isTmpName(name) {
			return true
		}
	}
	return false
}
