package snapshot

// Native sweep (not part of the check; run by hand: `./bin/symgo nativetest C08 TestVerifSweepC08`).
// Every (shape, crash point of the first start - before the call and every way of dying inside it
// that the quick tier explores -, crash point of the restart) of the two entries is executed on the
// real file system with real SQLite / gzip files, the crash points driven from the real call sites;
// no assertion may fail. The "PTS" lines (what is on disk after the first crash, and the number of
// crash points of the restart after it) are compared with the same lines of the symbolic run
// (`VERIF_PRINT=1 ./bin/symgo check -prop C08 -tier quick 2>&1 | grep PTS | sort -u`): the model and
// the real calls agree on where the crash points are and on what a crash inside a call leaves.
// VERIF_SWEEP_TIER=thorough sweeps the whole-call crash points of the thorough variants instead
// (state files without database data, older snapshot without state file).

import (
	"encoding/json"
	"fmt"
	"os"
	"strings"
	"testing"
)

func vSweepRun(f func(), vals map[string]any) (outcome []string, pruned bool) {
	verifLoad()
	verifVals = vals
	defer func() {
		r := recover()
		outcome = verifOutcome
		if r == nil {
			return
		}
		if s, ok := r.(verifStop); ok {
			pruned = s.why == "assume"
			return
		}
		outcome = append(outcome, fmt.Sprintf("panic %v", r))
	}()
	f()
	return
}

func vNum(i int) json.Number { return json.Number(fmt.Sprint(i)) }

func vSweepEntry(t *testing.T, name string, f func(), variants []map[string]any, parts bool) {
	runs, findings := 0, 0
	run := func(variant map[string]any, at, part0, at2 int) (pruned bool) {
		vals := map[string]any{"crashAt": vNum(at), "crashPart0": vNum(part0), "crashInRestart0": vNum(at2)}
		for k, v := range variant {
			vals[k] = v
		}
		vPTSKey = ""
		out, pruned := vSweepRun(f, vals)
		runs++
		for _, o := range out {
			if strings.HasPrefix(o, "finding C08-resume-after-move-into-place") {
				findings++
			} else if strings.HasPrefix(o, "violated") || strings.HasPrefix(o, "panic") || strings.HasPrefix(o, "finding") {
				t.Errorf("%s %v crashAt=%d crashPart0=%d crashInRestart0=%d: %s", name, variant, at, part0, at2, o)
			}
		}
		return pruned
	}
	for _, variant := range variants {
		for at := 0; ; at++ {
			ranAt := false
			nPart := 0
			for part0 := 0; part0 <= nPart; part0++ {
				restartPoints, ran, key := 0, false, ""
				for at2 := 0; ; at2++ {
					pruned := run(variant, at, part0, at2)
					if part0 == 0 && at2 == 0 && parts {
						nPart = vPartsOffered[0]
					}
					if pruned {
						break
					}
					ran, key = true, vPTSKey
					restartPoints = at2
					if vPTSNoRestartCrash {
						restartPoints = -1
						break
					}
					if restartPoints > 200 {
						t.Fatalf("%s %v crashAt=%d: the restart never runs out of crash points", name, variant, at)
					}
				}
				if !ran {
					continue // this partial effect does not exist here (cut position outside the file)
				}
				ranAt = true
				if restartPoints < 0 {
					fmt.Println("VERIF-PRINT: PTS", key, "restart-points=none")
				} else {
					fmt.Println("VERIF-PRINT: PTS", key, fmt.Sprintf("restart-points=%d", restartPoints))
				}
			}
			if !ranAt {
				break
			}
		}
	}
	t.Logf("%s: %d native runs, %d witnesses of the recorded finding", name, runs, findings)
}

func TestVerifSweepC08(t *testing.T) {
	var v8, v7 []map[string]any
	if os.Getenv("VERIF_SWEEP_TIER") == "thorough" {
		os.Setenv("VERIF_TIER", "thorough")
		defer os.Unsetenv("VERIF_TIER")
		for shape := 0; shape < len(vOldShapes); shape++ {
			v8 = append(v8, map[string]any{"shape": vNum(shape), "deep": vNum(1)})
			for empty := 0; empty < 2; empty++ {
				for without := 0; without < 2; without++ {
					if shape == 0 && without == 1 {
						continue
					}
					v7 = append(v7, map[string]any{"shape": vNum(shape), "emptyState": vNum(empty), "olderWithoutState": vNum(without)})
				}
			}
		}
		vSweepEntry(t, "VerifC08Upgrade8To10", VerifC08Upgrade8To10, v8, false)
		vSweepEntry(t, "VerifC08FromV7", VerifC08FromV7, v7, false)
		return
	}
	for shape := 0; shape < len(vOldShapes); shape++ {
		v8 = append(v8, map[string]any{"shape": vNum(shape)})
		v7 = append(v7, map[string]any{"shape": vNum(shape)})
	}
	vSweepEntry(t, "VerifC08Upgrade8To10", VerifC08Upgrade8To10, v8, true)
	vSweepEntry(t, "VerifC08FromV7", VerifC08FromV7, v7, true)
}
