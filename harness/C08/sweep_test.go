package snapshot

// Native sweep (not part of the check; run by hand: `./bin/symgo nativetest C08 TestVerifSweepC08`).
// Every (shape, crash point of the first start, crash point of the restart) of the two entries is
// executed on the real file system with real SQLite / gzip files, the crash points driven from
// the real call sites; no assertion may fail (witnesses of the recorded finding are counted).
// The "PTS" lines (number of crash points of the restart after each first crash) are compared
// with the same lines of the symbolic run (VERIF_PRINT=1): the model and the real calls agree on
// where the crash points are.

import (
	"encoding/json"
	"fmt"
	"os"
	"strings"
	"testing"
)

func vSweepRun(f func(), vals map[string]any) (outcome []string, pruned bool) {
	verifLoad()
	verifVals = vals
	defer func() {
		r := recover()
		outcome = verifOutcome
		if r == nil {
			return
		}
		if s, ok := r.(verifStop); ok {
			pruned = s.why == "assume"
			return
		}
		outcome = append(outcome, fmt.Sprintf("panic %v", r))
	}()
	f()
	return
}

func vNum(i int) json.Number { return json.Number(fmt.Sprint(i)) }

func vSweepEntry(t *testing.T, name string, f func(), variants []map[string]any) {
	runs, findings := 0, 0
	for _, variant := range variants {
		for at := 0; ; at++ {
			restartPoints, ran := 0, false
			for at2 := 0; ; at2++ {
				vals := map[string]any{"crashAt": vNum(at), "crashInRestart0": vNum(at2)}
				for k, v := range variant {
					vals[k] = v
				}
				out, pruned := vSweepRun(f, vals)
				runs++
				for _, o := range out {
					if strings.HasPrefix(o, "finding C08-resume-after-move-into-place") {
						findings++
					} else if strings.HasPrefix(o, "violated") || strings.HasPrefix(o, "panic") || strings.HasPrefix(o, "finding") {
						t.Errorf("%s %v crashAt=%d crashInRestart0=%d: %s", name, variant, at, at2, o)
					}
				}
				if pruned {
					break
				}
				ran = true
				restartPoints = at2
			}
			if !ran {
				break
			}
			fmt.Println("VERIF-PRINT: PTS", name, variant["shape"], variant["emptyState"] == vNum(1), variant["olderWithoutState"] == vNum(1), at+1, restartPoints)
		}
	}
	t.Logf("%s: %d native runs, %d witnesses of the recorded finding", name, runs, findings)
}

func TestVerifSweepC08(t *testing.T) {
	os.Setenv("VERIF_TIER", "thorough")
	defer os.Unsetenv("VERIF_TIER")
	var v8, v7 []map[string]any
	for shape := 0; shape < len(vOldShapes); shape++ {
		v8 = append(v8, map[string]any{"shape": vNum(shape)})
		for empty := 0; empty < 2; empty++ {
			for without := 0; without < 2; without++ {
				if shape == 0 && without == 1 {
					continue
				}
				v7 = append(v7, map[string]any{"shape": vNum(shape), "emptyState": vNum(empty), "olderWithoutState": vNum(without)})
			}
		}
	}
	vSweepEntry(t, "VerifC08Upgrade8To10", VerifC08Upgrade8To10, v8)
	vSweepEntry(t, "VerifC08FromV7", VerifC08FromV7, v7)
}
