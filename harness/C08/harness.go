package snapshot

// C08: upgrading old snapshot formats is crash-safe.
//
//   "If upgrading an on-disk snapshot directory from an older release format is interrupted at any
//    point, the next node start completes the upgrade and opens successfully. The resulting
//    snapshot holds the same database and the same index and term as the newest original
//    snapshot."
//
// A node start runs Upgrade7To8(raft/snapshots -> raft/rsnapshots), Upgrade8To10(raft/rsnapshots
// -> raft/wsnapshots) and then opens the snapshot store (store/store.go). The harness builds an
// old-format directory, runs the REAL upgrade functions and lets the process die at crash point k
// (fsmodel.go: every mutating file-system call) - before the call, or INSIDE it when the call is
// not atomic (a file write or copy cut after any number of bytes, a recursive removal after any
// subset of the entries, see fsmodel.go) -, starts the node again - optionally dying again - and
// finally lets a start run to its end. The oracle is the property text; in addition, whenever the
// process has died a whole copy of the newest original snapshot must still be on disk (in an old
// directory, or in the new one - in place or still under construction).
//
//   VerifC08Upgrade8To10   v8 directory (1..2 snapshots), Upgrade8To10 + store check
//   VerifC08FromV7         v7 directory (1..2 snapshots), the whole start sequence
//
// Symbolic run: file-system model of fsmodel.go; native replay: the same harness on a real
// temporary directory with real SQLite / gzip files, crash points driven from the real call sites.

import (
	"bytes"
	"compress/gzip"
	"os"
	"path/filepath"
	"strconv"
	"strings"

	"github.com/hashicorp/raft"
)

type vUp struct {
	root  string
	old7  string // raft/snapshots
	old8  string // raft/rsnapshots
	new10 string // raft/wsnapshots
	plan  string // raft/UPGRADE_8_10_PLAN
}

func vUpDirs(root string) vUp {
	return vUp{root: root, old7: filepath.Join(root, "snapshots"), old8: filepath.Join(root, "rsnapshots"),
		new10: filepath.Join(root, "wsnapshots"), plan: filepath.Join(root, upgrade8To10Plan)}
}

// what the newest original snapshot is
type vOrig struct {
	id          string
	index, term uint64
	content     string
	file        []byte // the bytes of its database file (v8) / state file (v7)
}

type vOldSnap struct {
	id          string
	index, term uint64
	wals        int // the database holds the first `wals` fixture WALs
}

// vOldShapes: the old snapshots of a world, in the order in which they are written; the first one
// is the newest by (term, index). In the third shape the directory order disagrees with the age.
var vOldShapes = [][]vOldSnap{
	{{"2-9-900", 9, 2, 1}},
	{{"2-9-900", 9, 2, 1}, {"1-5-500", 5, 1, 0}},
	{{"2-10-900", 10, 2, 1}, {"2-9-950", 9, 2, 0}},
}

// vContentOfBytes is the content of a database given as bytes.
func vContentOfBytes(root string, b []byte) string {
	p := filepath.Join(root, "verif-scratch.db")
	vMust(os.WriteFile(p, b, 0o644))
	c, err := vContent(p, nil)
	vMust(err)
	os.Remove(p)
	os.Remove(p + "-wal")
	os.Remove(p + "-shm")
	return c
}

// vBuildV8 writes a v8-format directory: <id>/meta.json, <id>/<id>.data (empty) and <id>.db.
func vBuildV8(w vUp, shape []vOldSnap) vOrig {
	vMust(os.MkdirAll(w.old8, 0o755))
	for _, sp := range shape {
		sd := filepath.Join(w.old8, sp.id)
		vMust(os.MkdirAll(sd, 0o755))
		vMust(writeMeta(sd, &raft.SnapshotMeta{Version: 1, ID: sp.id, Index: sp.index, Term: sp.term}))
		vMust(os.WriteFile(filepath.Join(sd, sp.id+".data"), nil, 0o644))
		vMust(os.WriteFile(filepath.Join(w.old8, sp.id+".db"), vDBWith(sp.wals), 0o644))
	}
	return vOrig{id: shape[0].id, index: shape[0].index, term: shape[0].term, content: vContentOfBytes(w.root, vDBWith(shape[0].wals)),
		file: vDBWith(shape[0].wals)}
}

// vStateBin is a v7 state file: 16 header bytes followed by the gzip-compressed database (nothing
// when the node had no database data).
func vStateBin(dbBytes []byte) []byte {
	out := []byte("v7-state-header!")
	if dbBytes == nil {
		return out
	}
	if verifSymbolic() {
		return append(append(out, 'Z'), dbBytes...)
	}
	var buf bytes.Buffer
	zw := gzip.NewWriter(&buf)
	_, err := zw.Write(dbBytes)
	vMust(err)
	vMust(zw.Close())
	return append(out, buf.Bytes()...)
}

// vBuildV7 writes a v7-format directory: <id>/meta.json and <id>/state.bin. An older snapshot may
// have lost its state file already (as in the repository's v7.20.3 fixture).
func vBuildV7(w vUp, shape []vOldSnap, emptyState, olderWithoutState bool) vOrig {
	vMust(os.MkdirAll(w.old7, 0o755))
	for i, sp := range shape {
		sd := filepath.Join(w.old7, sp.id)
		vMust(os.MkdirAll(sd, 0o755))
		vMust(writeMeta(sd, &raft.SnapshotMeta{Version: 1, ID: sp.id, Index: sp.index, Term: sp.term}))
		if i > 0 && olderWithoutState {
			continue
		}
		dbBytes := vDBWith(sp.wals)
		if i == 0 && emptyState {
			dbBytes = nil
		}
		vMust(os.WriteFile(filepath.Join(sd, v7StateFile), vStateBin(dbBytes), 0o644))
	}
	o := vOrig{id: shape[0].id, index: shape[0].index, term: shape[0].term}
	if !emptyState {
		o.content = vContentOfBytes(w.root, vDBWith(shape[0].wals))
	}
	var err error
	o.file, err = os.ReadFile(filepath.Join(w.old7, o.id, v7StateFile))
	vMust(err)
	return o
}

// vMetaIs: the directory holds readable metadata of the newest original snapshot.
func vMetaIs(dir string, orig vOrig) bool {
	m, err := readRaftMeta(metaPath(dir))
	return err == nil && m.ID == orig.id && m.Index == orig.index && m.Term == orig.term
}

// vOriginalOnDisk: the newest original snapshot can still be had from what is on disk - untouched
// in the old v7 directory, or whole in the v8 directory, or as the snapshot of the new store (in
// place, or whole in the temporary directory it is built in). Without that no later start can
// produce the result the property asks for; the assertion names the crash that lost the data.
func vOriginalOnDisk(w vUp, withV7 bool, orig vOrig) bool {
	if withV7 && vMetaIs(filepath.Join(w.old7, orig.id), orig) {
		if b, err := os.ReadFile(filepath.Join(w.old7, orig.id, v7StateFile)); err == nil && bytes.Equal(b, orig.file) {
			return true
		}
	}
	if vMetaIs(filepath.Join(w.old8, orig.id), orig) {
		if c, err := vContent(filepath.Join(w.old8, orig.id+".db"), nil); err == nil && c == orig.content {
			return true
		}
	}
	for _, d := range []string{w.new10, w.new10 + tmpSuffix} {
		if v := vObserve(d); v.ok && v.index == orig.index && v.term == orig.term && v.content == orig.content {
			return true
		}
	}
	return false
}

// vStart is what a node start does with the snapshot directories (store/store.go, Store.Open).
func vStart(w vUp, withV7 bool) error {
	lg := vDiscardLogger()
	if withV7 {
		if err := Upgrade7To8(w.old7, w.old8, lg); err != nil {
			return err
		}
	}
	if err := Upgrade8To10(w.old8, w.new10, lg); err != nil {
		return err
	}
	return vBareStore(w.new10).check()
}

func vMarkUpgradeCrash(w vUp) {
	if vCr.part > 0 {
		switch {
		case vCr.path == w.plan+".tmp":
			verifReach("crash-inside-plan-write")
		case vCr.op == vOpWriteFile:
			verifReach("crash-inside-meta-write")
		case vCr.op == vOpIoCopy && strings.HasPrefix(vCr.path, w.new10+tmpSuffix) && vCr.cut >= 16:
			verifReach("crash-inside-database-copy")
		case vCr.op == vOpSidecar:
			verifReach("crash-inside-checksum-write")
		case vCr.op == vOpRemoveAll && vCr.path == w.old8:
			verifReach("crash-inside-old-directory-removal")
		case vCr.op == vOpIoCopy && strings.HasPrefix(vCr.path, w.old8+tmpSuffix):
			verifReach("crash-inside-v7-conversion-copy")
		case vCr.op == vOpRemoveDirSy:
			verifReach("crash-inside-v7-removal")
		}
		return
	}
	switch {
	case vCr.path == w.plan+".tmp":
		verifReach("crash-while-writing-plan")
	case vCr.op == vOpOpenFile:
		verifReach("crash-before-database-copy")
	case vCr.op == vOpIoCopy && strings.HasPrefix(vCr.path, w.new10+tmpSuffix):
		verifReach("crash-with-empty-database-copy")
	case vCr.op == vOpRename && vCr.path == w.new10+tmpSuffix:
		verifReach("crash-before-move-into-place")
	case vCr.op == vOpRemoveAll && vCr.path == w.old8:
		verifReach("crash-after-move-into-place")
	case vCr.op == vOpRemove && vCr.path == w.plan:
		verifReach("crash-before-plan-removal")
	case vCr.op == vOpEnsureWAL:
		verifReach("crash-in-v7-conversion")
	case vCr.op == vOpRename && vCr.path == w.old8+tmpSuffix:
		verifReach("crash-before-v8-move-into-place")
	case vCr.op == vOpRemoveDirSy:
		verifReach("crash-before-v7-removal")
	}
}

// what the "PTS" development trace lines are labelled with
var vPTSName string
var vPTSShape int
var vPTSEmpty, vPTSWithout bool

// vPTSKey describes the state the first process of the scenario left behind (which crash, and the
// names of everything below the root); the native sweep (sweep_test.go) compares it, and the number
// of crash points of the start after it, with the symbolic run.
var vPTSKey string
var vPTSNoRestartCrash bool

func vPTSDescribe(w vUp, at int) string {
	b := func(x bool) string {
		if x {
			return "1"
		}
		return "0"
	}
	out := vPTSName + " shape=" + strconv.Itoa(vPTSShape) + " empty=" + b(vPTSEmpty) + " without=" + b(vPTSWithout) +
		" at=" + strconv.Itoa(at) + " part=" + strconv.Itoa(vCr.part) + " tree="
	for _, p := range vTreePost(w.root, false) {
		out += p[len(w.root):] + ","
	}
	return out
}

// vUpgradeScenario: a node start dying at a chosen crash point (or not at all), then up to
// len(modes)-1 further starts dying at chosen crash points, then one start that is left alone.
// modes[i] says how the call in flight of the i-th process can be cut short (fsmodel.go). lean: a
// first process that died inside a call is followed by the uninterrupted start at once.
func vUpgradeScenario(w vUp, withV7 bool, modes []int, lean bool, orig vOrig) {
	restarts := len(modes) - 1
	n := vCountPoints(func() { vStart(w, withV7) })
	at := 1 + verifChoice("crashAt", n+1) // n+1: the first start runs to its end
	var serr error
	// Known defect class: the process died when the plan's "move the new directory into place"
	// had been executed (the new directory exists) and the plan file was still there.
	// Upgrade8To10 then re-executes the plan from its first operation, which cannot succeed.
	diedAfterMove := false
	if !vRunCrashPart(at, 0, modes[0], func() { serr = vStart(w, withV7) }) {
		verifAssume(at == vCr.count+1)
		verifAssert("C08-start-without-crash-succeeds", serr == nil)
		verifAssert("C08-completed-start-leaves-no-plan", !vExists(w.plan))
		verifReach("no-crash")
	} else {
		vMarkUpgradeCrash(w)
		diedAfterMove = vExists(w.plan) && vIsDir(w.new10)
		verifAssert("C08-original-still-on-disk-after-crash", vOriginalOnDisk(w, withV7, orig))
	}
	part0 := vCr.part
	vPTSKey = vPTSDescribe(w, at)
	if lean && part0 > 0 {
		restarts = 0
	}
	vPTSNoRestartCrash = restarts == 0
	if restarts == 0 && verifSymbolic() {
		println("PTS", vPTSKey, "restart-points=none")
	}
	for i := 0; i < restarts; i++ {
		n2 := vCountPoints(func() { vStart(w, withV7) })
		if i == 0 && verifSymbolic() {
			println("PTS", vPTSKey, "restart-points="+strconv.Itoa(n2))
		}
		k := verifChoice(verifName("crashInRestart", i), n2+1) // 0: this start is not interrupted
		if k == 0 {
			break
		}
		verifAssume(vRunCrashPart(k, i+1, modes[i+1], func() { vStart(w, withV7) }))
		verifReach("crash-during-restart")
		if vCr.part > 0 {
			verifReach("crash-inside-a-call-during-restart")
		}
		verifAssert("C08-original-still-on-disk-after-crash", vOriginalOnDisk(w, withV7, orig))
		if vExists(w.plan) && vIsDir(w.new10) {
			diedAfterMove = true
		}
	}

	err := vStart(w, withV7)
	if err != nil && diedAfterMove && vExists(w.plan) && vIsDir(w.new10) {
		verifFinding("C08-resume-after-move-into-place")
	}
	verifAssert("C08-next-start-completes-the-upgrade", err == nil)

	verifAssert("C08-old-v8-directory-gone", !vExists(w.old8))
	verifAssert("C08-old-v7-directory-gone", !vExists(w.old7))
	verifAssert("C08-no-plan-or-temporary-left", !vLeftovers(w.root))
	v := vObserve(w.new10)
	// (a database file that cannot be read and one that reads as another database are the same
	// failure, "not the database of the newest original": which of the two a damaged file is
	// depends on SQLite)
	verifAssert("C08-new-directory-is-a-readable-store", v.ok || strings.HasPrefix(v.why, "content:"))
	verifAssert("C08-new-directory-holds-one-snapshot", v.n == 1)
	verifAssert("C08-index-of-newest-original", v.index == orig.index)
	verifAssert("C08-term-of-newest-original", v.term == orig.term)
	verifAssert("C08-database-of-newest-original", v.ok && v.content == orig.content)
	if !withV7 {
		// v8 and v10 keep the database as the same kind of file: the upgrade moves it unchanged
		b, err := os.ReadFile(filepath.Join(w.new10, orig.id, dbfileName))
		verifAssert("C08-database-file-of-newest-original", err == nil && bytes.Equal(b, orig.file))
	}
	verifAssert("C08-checksum-records-match", v.crcOK)
	verifAssert("C08-directory-named-after-snapshot-id", v.idsOK)
	verifAssert("C08-store-has-no-leftovers", !vLeftovers(w.new10))

	// and the start after that finds nothing to do
	verifAssert("C08-later-starts-succeed", vStart(w, withV7) == nil)
	v2 := vObserve(w.new10)
	verifAssert("C08-later-starts-change-nothing", v2.ok && v2.n == 1 && v2.index == orig.index && v2.term == orig.term && v2.content == orig.content)
}

// VerifC08Upgrade8To10: v8 directory; the process dies at every crash point of the start, before
// the call or inside it; the restarted start dies at every crash point (or none). The scenarios
// ("deep" chooses among them):
//   quick:    two-snapshot shapes: first crash before/inside the call (thin); for the first of
//             them a second crash (before the call) after a first crash before the call;
//             one-snapshot shape: two crashes, each before/inside the call (thin); or three
//             crashes before the call
//   thorough: every shape: one crash before/inside the call (every cut position, every subset of a
//             removal); or two crashes, each before/inside the call (thin); or three crashes
//             before the call
func VerifC08Upgrade8To10() {
	verifPanicsAreViolations()
	root := vNewRoot("r")
	defer vDropRoot(root)
	w := vUpDirs(root)
	shapeNo := verifChoice("shape", len(vOldShapes))
	orig := vBuildV8(w, vOldShapes[shapeNo])
	var modes []int
	lean := false
	if verifTier() == 0 {
		switch {
		case shapeNo == 2:
			modes = []int{vPartThin}
		case shapeNo == 1:
			modes, lean = []int{vPartThin, vPartNone}, true
		case verifChoice("deep", 2) == 0:
			modes = []int{vPartThin, vPartThin}
		default:
			modes = []int{vPartNone, vPartNone, vPartNone}
		}
	} else {
		switch verifChoice("deep", 3) {
		case 0:
			modes = []int{vPartFull}
		case 1:
			modes = []int{vPartThin, vPartThin}
		default:
			modes = []int{vPartNone, vPartNone, vPartNone}
		}
	}
	vPTSName, vPTSShape, vPTSEmpty, vPTSWithout = "VerifC08Upgrade8To10", shapeNo, false, false
	vUpgradeScenario(w, false, modes, lean, orig)
}

// VerifC08FromV7: v7 directory, the whole start sequence (7 -> 8 -> 10 -> store check).
//   quick:    first crash before/inside the call (thin); except for the second shape a second
//             crash (before the call) after a first crash before the call
//   thorough: every variant of the old directory: one crash before/inside the call (every cut
//             position, every subset of a removal); or two crashes, the first before/inside the
//             call (thin), the second before the call - for the plain variants (database data
//             present, every snapshot with its state file) also inside it (thin)
func VerifC08FromV7() {
	verifPanicsAreViolations()
	root := vNewRoot("r")
	defer vDropRoot(root)
	w := vUpDirs(root)
	shapeNo := verifChoice("shape", len(vOldShapes))
	emptyState, olderWithoutState := false, false
	if verifTier() > 0 {
		emptyState = verifChoice("emptyState", 2) == 1
		if shapeNo > 0 {
			olderWithoutState = verifChoice("olderWithoutState", 2) == 1
		}
	} else {
		olderWithoutState = shapeNo == 2
	}
	orig := vBuildV7(w, vOldShapes[shapeNo], emptyState, olderWithoutState)
	vPTSName, vPTSShape, vPTSEmpty, vPTSWithout = "VerifC08FromV7", shapeNo, emptyState, olderWithoutState
	modes, lean := []int{vPartThin, vPartNone}, true
	if shapeNo == 1 {
		modes = []int{vPartThin}
	}
	if verifTier() > 0 {
		modes = []int{vPartThin, vPartNone}
		lean = false
		switch {
		case verifChoice("deep", 2) == 0:
			modes = []int{vPartFull}
		case !emptyState && !olderWithoutState:
			modes = []int{vPartThin, vPartThin}
		}
	}
	vUpgradeScenario(w, true, modes, lean, orig)
}

// VerifC08Twin (must be violated): the same scenario, but the node is not started again after
// the crash - an interrupted upgrade leaves the directories in between.
func VerifC08Twin() {
	root := vNewRoot("r")
	defer vDropRoot(root)
	w := vUpDirs(root)
	orig := vBuildV8(w, vOldShapes[0])
	n := vCountPoints(func() { vStart(w, false) })
	at := 1 + verifChoice("crashAt", n)
	verifAssume(vRunCrash(at, func() { vStart(w, false) }))
	v := vObserve(w.new10)
	verifAssert("C08-twin", v.ok && v.n == 1 && v.content == orig.content && !vExists(w.old8) && !vLeftovers(w.root))
}
