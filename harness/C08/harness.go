package snapshot

// C08: upgrading old snapshot formats is crash-safe.
//
//   "If upgrading an on-disk snapshot directory from an older release format is interrupted at any
//    point, the next node start completes the upgrade and opens successfully. The resulting
//    snapshot holds the same database and the same index and term as the newest original
//    snapshot."
//
// A node start runs Upgrade7To8(raft/snapshots -> raft/rsnapshots), Upgrade8To10(raft/rsnapshots
// -> raft/wsnapshots) and then opens the snapshot store (store/store.go). The harness builds an
// old-format directory, runs the REAL upgrade functions and lets the process die at crash point k
// (fsmodel.go: every mutating file-system call), starts the node again - optionally dying again -
// and finally lets a start run to its end. The oracle is the property text.
//
//   VerifC08Upgrade8To10   v8 directory (1..2 snapshots), Upgrade8To10 + store check
//   VerifC08FromV7         v7 directory (1..2 snapshots), the whole start sequence
//
// Symbolic run: file-system model of fsmodel.go; native replay: the same harness on a real
// temporary directory with real SQLite / gzip files, crash points driven from the real call sites.

import (
	"bytes"
	"compress/gzip"
	"os"
	"path/filepath"

	"github.com/hashicorp/raft"
)

type vUp struct {
	root  string
	old7  string // raft/snapshots
	old8  string // raft/rsnapshots
	new10 string // raft/wsnapshots
	plan  string // raft/UPGRADE_8_10_PLAN
}

func vUpDirs(root string) vUp {
	return vUp{root: root, old7: filepath.Join(root, "snapshots"), old8: filepath.Join(root, "rsnapshots"),
		new10: filepath.Join(root, "wsnapshots"), plan: filepath.Join(root, upgrade8To10Plan)}
}

// what the newest original snapshot is
type vOrig struct {
	index, term uint64
	content     string
}

type vOldSnap struct {
	id          string
	index, term uint64
	wals        int // the database holds the first `wals` fixture WALs
}

// vOldShapes: the old snapshots of a world, in the order in which they are written; the first one
// is the newest by (term, index). In the third shape the directory order disagrees with the age.
var vOldShapes = [][]vOldSnap{
	{{"2-9-900", 9, 2, 1}},
	{{"2-9-900", 9, 2, 1}, {"1-5-500", 5, 1, 0}},
	{{"2-10-900", 10, 2, 1}, {"2-9-950", 9, 2, 0}},
}

// vContentOfBytes is the content of a database given as bytes.
func vContentOfBytes(root string, b []byte) string {
	p := filepath.Join(root, "verif-scratch.db")
	vMust(os.WriteFile(p, b, 0o644))
	c, err := vContent(p, nil)
	vMust(err)
	os.Remove(p)
	os.Remove(p + "-wal")
	os.Remove(p + "-shm")
	return c
}

// vBuildV8 writes a v8-format directory: <id>/meta.json, <id>/<id>.data (empty) and <id>.db.
func vBuildV8(w vUp, shape []vOldSnap) vOrig {
	vMust(os.MkdirAll(w.old8, 0o755))
	for _, sp := range shape {
		sd := filepath.Join(w.old8, sp.id)
		vMust(os.MkdirAll(sd, 0o755))
		vMust(writeMeta(sd, &raft.SnapshotMeta{Version: 1, ID: sp.id, Index: sp.index, Term: sp.term}))
		vMust(os.WriteFile(filepath.Join(sd, sp.id+".data"), nil, 0o644))
		vMust(os.WriteFile(filepath.Join(w.old8, sp.id+".db"), vDBWith(sp.wals), 0o644))
	}
	return vOrig{index: shape[0].index, term: shape[0].term, content: vContentOfBytes(w.root, vDBWith(shape[0].wals))}
}

// vStateBin is a v7 state file: 16 header bytes followed by the gzip-compressed database (nothing
// when the node had no database data).
func vStateBin(dbBytes []byte) []byte {
	out := []byte("v7-state-header!")
	if dbBytes == nil {
		return out
	}
	if verifSymbolic() {
		return append(append(out, 'Z'), dbBytes...)
	}
	var buf bytes.Buffer
	zw := gzip.NewWriter(&buf)
	_, err := zw.Write(dbBytes)
	vMust(err)
	vMust(zw.Close())
	return append(out, buf.Bytes()...)
}

// vBuildV7 writes a v7-format directory: <id>/meta.json and <id>/state.bin. An older snapshot may
// have lost its state file already (as in the repository's v7.20.3 fixture).
func vBuildV7(w vUp, shape []vOldSnap, emptyState, olderWithoutState bool) vOrig {
	vMust(os.MkdirAll(w.old7, 0o755))
	for i, sp := range shape {
		sd := filepath.Join(w.old7, sp.id)
		vMust(os.MkdirAll(sd, 0o755))
		vMust(writeMeta(sd, &raft.SnapshotMeta{Version: 1, ID: sp.id, Index: sp.index, Term: sp.term}))
		if i > 0 && olderWithoutState {
			continue
		}
		dbBytes := vDBWith(sp.wals)
		if i == 0 && emptyState {
			dbBytes = nil
		}
		vMust(os.WriteFile(filepath.Join(sd, v7StateFile), vStateBin(dbBytes), 0o644))
	}
	o := vOrig{index: shape[0].index, term: shape[0].term}
	if !emptyState {
		o.content = vContentOfBytes(w.root, vDBWith(shape[0].wals))
	}
	return o
}

// vStart is what a node start does with the snapshot directories (store/store.go, Store.Open).
func vStart(w vUp, withV7 bool) error {
	lg := vDiscardLogger()
	if withV7 {
		if err := Upgrade7To8(w.old7, w.old8, lg); err != nil {
			return err
		}
	}
	if err := Upgrade8To10(w.old8, w.new10, lg); err != nil {
		return err
	}
	return vBareStore(w.new10).check()
}

func vMarkUpgradeCrash(w vUp) {
	switch {
	case vCr.path == w.plan+".tmp":
		verifReach("crash-while-writing-plan")
	case vCr.op == vOpOpenFile:
		verifReach("crash-before-database-copy")
	case vCr.op == vOpRename && vCr.path == w.new10+tmpSuffix:
		verifReach("crash-before-move-into-place")
	case vCr.op == vOpRemoveAll && vCr.path == w.old8:
		verifReach("crash-after-move-into-place")
	case vCr.op == vOpRemove && vCr.path == w.plan:
		verifReach("crash-before-plan-removal")
	case vCr.op == vOpEnsureWAL:
		verifReach("crash-in-v7-conversion")
	case vCr.op == vOpRename && vCr.path == w.old8+tmpSuffix:
		verifReach("crash-before-v8-move-into-place")
	case vCr.op == vOpRemoveDirSy:
		verifReach("crash-before-v7-removal")
	}
}

// what the "PTS" development trace lines are labelled with
var vPTSName string
var vPTSShape int
var vPTSEmpty, vPTSWithout bool

// vUpgradeScenario: a node start dying at a chosen crash point (or not at all), then up to
// `restarts` further starts dying at chosen crash points, then one start that is left alone.
func vUpgradeScenario(w vUp, withV7 bool, restarts int, orig vOrig) {
	n := vCountPoints(func() { vStart(w, withV7) })
	at := 1 + verifChoice("crashAt", n+1) // n+1: the first start runs to its end
	var serr error
	// Known defect class: the process died when the plan's "move the new directory into place"
	// had been executed (the new directory exists) and the plan file was still there.
	// Upgrade8To10 then re-executes the plan from its first operation, which cannot succeed.
	diedAfterMove := false
	if !vRunCrash(at, func() { serr = vStart(w, withV7) }) {
		verifAssume(at == vCr.count+1)
		verifAssert("C08-start-without-crash-succeeds", serr == nil)
		verifAssert("C08-completed-start-leaves-no-plan", !vExists(w.plan))
		verifReach("no-crash")
	} else {
		vMarkUpgradeCrash(w)
		diedAfterMove = vExists(w.plan) && vIsDir(w.new10)
	}
	for i := 0; i < restarts; i++ {
		n2 := vCountPoints(func() { vStart(w, withV7) })
		if i == 0 && verifSymbolic() {
			println("PTS", vPTSName, vPTSShape, vPTSEmpty, vPTSWithout, at, n2) // compared with the native sweep (sweep_test.go)
		}
		k := verifChoice(verifName("crashInRestart", i), n2+1) // 0: this start is not interrupted
		if k == 0 {
			break
		}
		verifAssume(vRunCrash(k, func() { vStart(w, withV7) }))
		verifReach("crash-during-restart")
		if vExists(w.plan) && vIsDir(w.new10) {
			diedAfterMove = true
		}
	}

	err := vStart(w, withV7)
	if err != nil && diedAfterMove && vExists(w.plan) && vIsDir(w.new10) {
		verifFinding("C08-resume-after-move-into-place")
	}
	verifAssert("C08-next-start-completes-the-upgrade", err == nil)

	verifAssert("C08-old-v8-directory-gone", !vExists(w.old8))
	verifAssert("C08-old-v7-directory-gone", !vExists(w.old7))
	verifAssert("C08-no-plan-or-temporary-left", !vLeftovers(w.root))
	v := vObserve(w.new10)
	verifAssert("C08-new-directory-is-a-readable-store", v.ok)
	verifAssert("C08-new-directory-holds-one-snapshot", v.n == 1)
	verifAssert("C08-index-of-newest-original", v.index == orig.index)
	verifAssert("C08-term-of-newest-original", v.term == orig.term)
	verifAssert("C08-database-of-newest-original", v.content == orig.content)
	verifAssert("C08-checksum-records-match", v.crcOK)
	verifAssert("C08-directory-named-after-snapshot-id", v.idsOK)
	verifAssert("C08-store-has-no-leftovers", !vLeftovers(w.new10))

	// and the start after that finds nothing to do
	verifAssert("C08-later-starts-succeed", vStart(w, withV7) == nil)
	v2 := vObserve(w.new10)
	verifAssert("C08-later-starts-change-nothing", v2.ok && v2.n == 1 && v2.index == orig.index && v2.term == orig.term && v2.content == orig.content)
}

// VerifC08Upgrade8To10: v8 directory; a crash at every crash point of the start, then at every
// crash point of the restarted start (or none); for the single-snapshot shape, and for all shapes
// in the thorough tier, a third crash in the start after that.
func VerifC08Upgrade8To10() {
	verifPanicsAreViolations()
	root := vNewRoot("r")
	defer vDropRoot(root)
	w := vUpDirs(root)
	shapeNo := verifChoice("shape", len(vOldShapes))
	orig := vBuildV8(w, vOldShapes[shapeNo])
	restarts := 1
	if verifTier() > 0 || shapeNo == 0 {
		restarts = 2
	}
	vPTSName, vPTSShape, vPTSEmpty, vPTSWithout = "VerifC08Upgrade8To10", shapeNo, false, false
	vUpgradeScenario(w, false, restarts, orig)
}

// VerifC08FromV7: v7 directory, the whole start sequence (7 -> 8 -> 10 -> store check).
func VerifC08FromV7() {
	verifPanicsAreViolations()
	root := vNewRoot("r")
	defer vDropRoot(root)
	w := vUpDirs(root)
	shapeNo := verifChoice("shape", len(vOldShapes))
	emptyState, olderWithoutState := false, false
	if verifTier() > 0 {
		emptyState = verifChoice("emptyState", 2) == 1
		if shapeNo > 0 {
			olderWithoutState = verifChoice("olderWithoutState", 2) == 1
		}
	} else {
		olderWithoutState = shapeNo == 2
	}
	orig := vBuildV7(w, vOldShapes[shapeNo], emptyState, olderWithoutState)
	vPTSName, vPTSShape, vPTSEmpty, vPTSWithout = "VerifC08FromV7", shapeNo, emptyState, olderWithoutState
	vUpgradeScenario(w, true, 1, orig)
}

// VerifC08Twin (must be violated): the same scenario, but the node is not started again after
// the crash - an interrupted upgrade leaves the directories in between.
func VerifC08Twin() {
	root := vNewRoot("r")
	defer vDropRoot(root)
	w := vUpDirs(root)
	orig := vBuildV8(w, vOldShapes[0])
	n := vCountPoints(func() { vStart(w, false) })
	at := 1 + verifChoice("crashAt", n)
	verifAssume(vRunCrash(at, func() { vStart(w, false) }))
	v := vObserve(w.new10)
	verifAssert("C08-twin", v.ok && v.n == 1 && v.content == orig.content && !vExists(w.old8) && !vLeftovers(w.root))
}
