#!/bin/bash
# Runs TestVerifC11NativeSweep against ${VERIF_REPO:-/repo} with the C11 harness overlaid.
set -e
export GOFLAGS=-mod=mod GOPROXY=off GOSUMDB=off GOTOOLCHAIN=local PATH=/opt/veriftools/go1.26.8/bin:$PATH
R=${VERIF_REPO:-/repo}
T=$(mktemp -d)
trap 'rm -rf $T' EXIT
sed 's/^package PKG/package snapshot/' /verif/harness/api/api.go.txt > $T/api.go
cat > $T/overlay.json <<EOJ
{"Replace":{"$R/snapshot/zz_verif_harness.go":"/verif/harness/C11/harness.go",
"$R/snapshot/zz_verif_api.go":"$T/api.go",
"$R/snapshot/zz_verif_native_sweep_test.go":"/verif/harness/C11/native_sweep_test.go"}}
EOJ
cd $R && go test -vet=off -count=1 -overlay $T/overlay.json -run '^TestVerifC11NativeSweep$' -v ./snapshot 2>&1 | tail -${TAIL:-25}
