package snapshot

// C11: open snapshot streams never race with reaping.
//
// Part (b)  exactly-once release of the read hold by a LockingStreamer
//   VerifC11Streamer       real NewLockingStreamer / Read / Close / idle timer (time.AfterFunc on the
//                          model clock) driven from worker goroutines + the clock: every sequence of
//                          K operations out of Read (data / no data / stalling in the underlying
//                          reader), Close (plain / underlying closer fails / takes a while / issued at
//                          the very instant the idle timer is due / issued while a release is in
//                          progress), "the stalled call returns", time passing (4, 6, 10 units with a
//                          timeout of 10 units; timeout disabled)
//   VerifC11StreamerAlone  the same with no other reader (thorough tier)
//   VerifC11CloseVsTimer   Close before / after an idle-timer callback that is already under way
//   VerifC11Preempt        Close (one or two callers) overlapping the callback with preemption
//                          at synchronisation operations (max_preempt 1 / 2), forced-schedule replay
//   VerifC11Twin           vacuity twin
// Part (a)  lock balance of the exported Store methods, every internal step able to fail
//   VerifC11Open           real Store.Open (+ refused Reap while the stream is open, release by
//                          Close or by the idle timeout)
//   VerifC11OpenLate       real Store.Open with failures after the snapshot scan (symbolic run only)
//   VerifC11ReadOnly       ListAll, List, Len, LatestIndexTerm, Stats, Verify, EnsureVerify
//   VerifC11Reap           Reap from a free / read-held / write-held lock
//   VerifC11ReapLoop       the reaper goroutine: waits for open streams (blocking writer), reaps
//                          once they are closed or force-closed by the idle timeout
// (c) the lock's own invariants are decided by C34; here only its public API is used.
//
// The store's multi-reader/single-writer lock lives in another package; its fields are not
// visible here, so every oracle observes it only through its public API (verifLockState).

import (
	"bytes"
	"encoding/json"
	"errors"
	"io"
	"io/fs"
	"log"
	"os"
	"path/filepath"
	"strings"
	"time"

	"github.com/hashicorp/raft"
	"github.com/rqlite/rqlite/v10/internal/rsum"
	"github.com/rqlite/rqlite/v10/internal/rsync"
	"github.com/rqlite/rqlite/v10/snapshot/proto"
	"github.com/rqlite/rqlite/v10/snapshot/sidecar"
)

// ---------------------------------------------------------------- observing the MRSW lock

// verifLockState reports how many read holds are outstanding and whether a writer holds the
// lock, using only the lock's public, documented behaviour:
//
//	BeginWrite succeeds  iff  no writer and no reader      (C34)
//	BeginRead  succeeds  iff  no writer                    (C34)
//
// It leaves the lock exactly as it found it.
func verifLockState(m *rsync.MultiRSW) (readers int, writer bool) {
	n := 0
	for {
		if m.BeginWrite("verif-probe") == nil {
			m.EndWrite()
			break
		}
		if m.BeginRead() != nil {
			// a writer holds it (then there are no readers)
			return 0, true
		}
		m.EndRead() // undo the probe
		m.EndRead() // take one real hold away, remember it
		n++
		if n > 8 {
			panic("verif: more read holds than any harness creates")
		}
	}
	for i := 0; i < n; i++ {
		if m.BeginRead() != nil {
			panic("verif: cannot restore read holds")
		}
	}
	return n, false
}

// ---------------------------------------------------------------- model of the underlying stream

var verifErrRead = errors.New("verif: underlying read error")
var verifErrClose = errors.New("verif: underlying close error")

// verifRC is the io.ReadCloser wrapped by the LockingStreamer. It records what is done to it.
type verifRC struct {
	reads    int
	closes   int
	closeErr error

	nextN   int
	nextErr error
	park    chan struct{} // non-nil: the next Read parks inside the underlying reader
	parked  bool

	closePark   chan struct{} // non-nil while a Close is stalled inside the underlying closer
	closeParked bool
	plain       bool // no more choices (harness cleanup)
	noStall     bool // the closer does not take a while
}

func (r *verifRC) Read(p []byte) (int, error) {
	r.reads++
	if r.park != nil {
		ch := r.park
		r.park = nil
		r.parked = true
		<-ch
		r.parked = false
	}
	return r.nextN, r.nextErr
}

func (r *verifRC) Close() error {
	if r.plain {
		return nil
	}
	// how closing the files goes is decided when it happens: it may fail, and it may take a while
	// (quick tier: fine, or slow and failing; thorough tier: all four combinations)
	fails, stalls := false, false
	if verifTier() == 1 {
		fails = verifChoice(verifName("closeFails", r.closes), 2) == 1
		if !r.noStall {
			stalls = verifChoice(verifName("closeStalls", r.closes), 2) == 1
		}
	} else if verifChoice(verifName("closeMode", r.closes), 2) == 1 {
		fails, stalls = true, !r.noStall
	}
	r.closes++
	if stalls {
		ch := make(chan struct{})
		r.closePark = ch
		r.closeParked = true
		<-ch
		r.closeParked = false
	}
	if fails {
		r.closeErr = verifErrClose
	}
	return r.closeErr
}

var _ io.ReadCloser = (*verifRC)(nil)

// ---------------------------------------------------------------- workers

const (
	vC11Read = 1 + iota
	vC11Close
)

type verifStreamWorker struct {
	cmd  chan int
	busy bool
	n    int
	err  error
	done int
}

func (w *verifStreamWorker) run(l *LockingStreamer) {
	buf := make([]byte, 4)
	for op := range w.cmd {
		w.busy = true
		switch op {
		case vC11Read:
			w.n, w.err = l.Read(buf)
		case vC11Close:
			w.n, w.err = 0, l.Close()
		}
		w.busy = false
		w.done++
	}
}

func verifBareStore() *Store {
	return &Store{
		mrsw:   rsync.NewMultiRSW(),
		logger: log.New(io.Discard, "", 0),
	}
}

const verifUnit = int64(time.Second)

// verifC11Streamer drives one LockingStreamer with `steps` operations.
//
// Oracle (from the documentation of LockingStreamer / Store.readTimeout and the property):
//   - the stream holds exactly one read hold from creation until it is released;
//   - it is released by the first Close, or by the idle timer at the first instant at which
//     `timeout` has elapsed since the last activity (creation, or a Read that returned data);
//     a timer expiry that finds more recent activity does not release (it re-arms);
//   - it is released exactly once: the number of outstanding read holds is
//     (other readers) + 1 before and (other readers) after, never anything else - so a second
//     EndRead (which would steal another reader's hold, or panic the lock) is a violation;
//     only while the underlying closer is still running may it be either of the two;
//   - releasing closes the underlying stream exactly once;
//   - after an idle expiry Read returns ErrSnapshotReaderTimeout and does not touch the
//     underlying reader; before it, Read is a pass-through;
//   - a consumer stalled inside the underlying Read does not keep the hold past the timeout;
//   - a Close issued at the very instant the idle timer is due may win or lose against the
//     timer callback; either way all of the above holds.
func verifC11Streamer(steps int, others int, twin bool) {
	// others = read holds of unrelated streams: with one, a surplus EndRead steals it (seen in
	// the count); with none, it drives the lock's reader count negative (the lock panics)
	verifPanicsAreViolations()
	s := verifBareStore()
	for i := 0; i < others; i++ {
		verifAssume(s.mrsw.BeginRead() == nil)
	}
	verifAssume(s.mrsw.BeginRead() == nil) // the hold Open passes to the streamer

	timeoutUnits := int64(10 * verifChoice("timeoutOn", 2)) // 0 = disabled
	timeout := time.Duration(timeoutUnits * verifUnit)
	rc := &verifRC{}

	t0 := time.Now()
	l := NewLockingStreamer(rc, s, timeout)
	now := func() int64 { return int64(time.Since(t0)) }

	ws := []*verifStreamWorker{{cmd: make(chan int)}, {cmd: make(chan int)}, {cmd: make(chan int)}}
	for _, w := range ws {
		go w.run(l)
		verifSettle() // one at a time: the order in which idle workers start is of no interest
	}
	var parkCh chan struct{}
	defer func() {
		// leave nothing behind (the native replay runs in a synctest bubble)
		rc.plain = true
		if parkCh != nil {
			close(parkCh)
			verifSettle()
		}
		if rc.closeParked {
			close(rc.closePark)
			verifSettle()
		}
		for _, w := range ws {
			close(w.cmd)
			verifSettle()
		}
		l.Close()
	}()

	// the oracle's own state
	lastAct := int64(0)  // model time of the last activity, relative to t0
	userClosed := false  // a Close has been issued
	expired := false     // the idle timeout has struck
	raceUnknown := false // Close and the timer were due at the same instant: either may have won
	parkedReader := -1   // worker stalled inside the underlying Read
	stalledCloser := -1  // worker whose Close (the releasing one) is stalled inside the underlying closer

	observe := func() {
		// idle expiry: exactly when `timeout` has elapsed since the last activity
		if timeout > 0 && !userClosed && !expired && now()-lastAct >= int64(timeout) {
			expired = true
			verifReach("expired")
			if lastAct > 0 {
				verifReach("expired-after-rearm")
			}
		}
		released := userClosed || expired
		readers, writer := verifLockState(s.mrsw)
		verifAssert("C11-no-writer-appears", !writer)
		if twin {
			verifAssert("twin", readers == others+1)
			return
		}
		if rc.closeParked {
			verifReach("release-in-progress")
			verifAssert("C11-underlying-close-only-on-release", released && rc.closes == 1)
			verifAssert("C11-hold-during-release", readers == others || readers == others+1)
			return
		}
		want := others
		wantCloses := 1
		if !released {
			want++
			wantCloses = 0
		}
		verifAssert("C11-hold-released-exactly-once", readers == want)
		verifAssert("C11-underlying-closed-exactly-once-on-release", rc.closes == wantCloses)
	}
	observe()

	type opT struct{ kind, g, arg int }
	const (
		kRead = iota
		kClose
		kRaceClose
		kStall
		kUnstall
		kUnstallClose
		kSleep
	)
	for st := 0; st < steps; st++ {
		// operations possible now
		released := userClosed || expired
		var ops []opT
		// The code under test keeps no per-goroutine state, so which goroutine issues an operation
		// does not matter: the first worker that is not stuck inside an earlier one does.
		g := -1
		for i, w := range ws {
			if !w.busy {
				g = i
				break
			}
		}
		if g >= 0 {
			ops = append(ops, opT{kRead, g, 3}, opT{kClose, g, 0}) // Read returning data, Close
			if !released {
				ops = append(ops, opT{kRead, g, 0}) // Read returning no data (and an error)
				if parkedReader < 0 {
					ops = append(ops, opT{kStall, g, 3}) // Read that stalls inside the underlying reader
				}
				if timeout > 0 {
					ops = append(ops, opT{kRaceClose, g, 0}) // Close at the instant the idle timer is due
				}
			}
		}
		if parkedReader >= 0 {
			ops = append(ops, opT{kUnstall, parkedReader, 0}) // the stalled read returns
		}
		if rc.closeParked {
			ops = append(ops, opT{kUnstallClose, 0, 0}) // the underlying closer finishes
		}
		// time passes: 4, 6 or 10 units (timeout = 10 units); once the stream is released only
		// "long enough for any timer" is of interest
		if timeout > 0 && !released {
			ops = append(ops, opT{kSleep, 0, 4}, opT{kSleep, 0, 6}, opT{kSleep, 0, 10})
		} else if timeout > 0 {
			ops = append(ops, opT{kSleep, 0, 10})
		} else {
			ops = append(ops, opT{kSleep, 0, 20})
		}
		op := ops[verifChoice(verifName("op", st), len(ops))]

		switch op.kind {
		case kRead, kStall:
			w := ws[op.g]
			n := op.arg
			var rerr error
			if n == 0 {
				rerr = verifErrRead
			}
			rc.nextN, rc.nextErr = n, rerr
			reads0, done0 := rc.reads, w.done
			if op.kind == kStall {
				parkCh = make(chan struct{})
				rc.park = parkCh
			}
			w.cmd <- vC11Read
			verifSettle()
			timedOut := w.n == 0 && w.err == ErrSnapshotReaderTimeout && rc.reads == reads0
			passed := rc.reads == reads0+1 && w.n == n && w.err == rerr
			if raceUnknown {
				verifReach("read-after-race")
				verifAssert("C11-read-after-race", w.done == done0+1 && (timedOut || passed))
			} else if expired {
				verifReach("read-after-expiry")
				verifAssert("C11-read-after-expiry-returns", w.done == done0+1)
				verifAssert("C11-read-after-expiry-timeout-error", w.n == 0 && w.err == ErrSnapshotReaderTimeout)
				verifAssert("C11-read-after-expiry-does-not-touch-reader", rc.reads == reads0)
			} else if op.kind == kStall {
				verifAssert("C11-read-reaches-underlying-reader", rc.parked && rc.reads == reads0+1 && w.busy)
				parkedReader = op.g
				verifReach("read-stalled")
			} else {
				verifAssert("C11-read-passes-through", w.done == done0+1 && passed)
				if n > 0 && !userClosed {
					lastAct = now()
				}
			}
		case kUnstall: // the stalled read returns now
			w := ws[op.g]
			done0 := w.done
			n, rerr := rc.nextN, rc.nextErr
			parkCh <- struct{}{}
			parkCh = nil
			verifSettle()
			parkedReader = -1
			verifAssert("C11-stalled-read-returns", w.done == done0+1 && !w.busy)
			if expired || raceUnknown {
				verifReach("stalled-read-outlived-expiry")
			} else {
				verifAssert("C11-stalled-read-result", w.n == n && w.err == rerr)
				if n > 0 && !userClosed {
					lastAct = now()
				}
			}
		case kClose, kRaceClose:
			w := ws[op.g]
			done0 := w.done
			first := !released
			race := op.kind == kRaceClose
			during := rc.closeParked // a release is in progress (its underlying close takes a while)
			if race {
				// no settling between the clock reaching the instant and the Close: the timer
				// callback and the Close run in either order
				rc.noStall = true
				time.Sleep(time.Duration(lastAct + int64(timeout) - now()))
			}
			w.cmd <- vC11Close
			if during {
				// ... and the underlying closer finishes while this Close is on its way
				// (a goroutine waiting for the streamer's mutex cannot be waited for natively)
				rc.closePark <- struct{}{}
			}
			verifSettle()
			rc.noStall = false
			switch {
			case race:
				verifReach("close-races-expiry")
				userClosed, raceUnknown = true, true
				verifAssert("C11-racing-close-returns", w.done == done0+1)
				verifAssert("C11-racing-close-result", w.err == nil || w.err == rc.closeErr)
			case during:
				verifReach("close-during-release")
				verifAssert("C11-close-during-release-returns", w.done == done0+1 && !rc.closeParked)
				verifAssert("C11-repeated-close-is-a-noop", w.err == nil)
				if stalledCloser >= 0 {
					verifAssert("C11-stalled-close-completes", !ws[stalledCloser].busy)
					verifAssert("C11-first-close-returns-underlying-result", ws[stalledCloser].err == rc.closeErr)
					stalledCloser = -1
				}
			case w.done != done0+1:
				// only the releasing Close may take a while: as long as the underlying closer does
				verifReach("close-stalled-in-closer")
				verifAssert("C11-close-waits-only-for-underlying-closer", first && rc.closeParked)
				userClosed = true
				stalledCloser = op.g
			case first:
				verifReach("closed-by-user")
				userClosed = true
				verifAssert("C11-first-close-returns-underlying-result", w.err == rc.closeErr)
			default:
				verifReach("close-after-release")
				verifAssert("C11-repeated-close-is-a-noop", w.err == nil)
			}
		case kUnstallClose:
			rc.closePark <- struct{}{}
			verifSettle()
			if stalledCloser >= 0 {
				verifAssert("C11-stalled-close-completes", !ws[stalledCloser].busy)
				verifAssert("C11-first-close-returns-underlying-result", ws[stalledCloser].err == rc.closeErr)
				stalledCloser = -1
			}
		case kSleep:
			time.Sleep(time.Duration(int64(op.arg) * verifUnit))
			verifSettle()
			if userClosed && timeout > 0 && now()-lastAct >= int64(timeout) {
				verifReach("timer-after-user-close")
			}
			if parkedReader >= 0 && timeout > 0 && !userClosed && now()-lastAct >= int64(timeout) {
				verifReach("stalled-consumer-force-closed")
			}
		}
		observe()
	}
}

func VerifC11Streamer() {
	k := 4
	if verifTier() == 1 {
		k = 5
	}
	verifC11Streamer(k, 1, false)
}

// VerifC11StreamerAlone: the stream is the only reader (thorough tier).
func VerifC11StreamerAlone() {
	verifC11Streamer(4, 0, false)
}

// VerifC11CloseVsTimer: Close racing with an idle-timer callback that is already under way.
//
// When the runtime fires the AfterFunc timer it starts the callback on a goroutine of its own;
// from then on Timer.Stop (called by Close) can no longer prevent the callback, and Close and
// the callback take the streamer's mutex in either order. VerifC11Streamer explores that race on
// the real timer, but natively the order cannot be chosen. Here the harness plays the runtime:
// it takes the pending firing away from the real timer (Stop - exactly the state the timer is in
// once it has fired: inactive, Stop reports false) and, at the instant the timer is due, runs
// the callback itself, before or after the Close. Both orders replay natively.
func VerifC11CloseVsTimer() {
	verifPanicsAreViolations()
	s := verifBareStore()
	others := verifChoice("otherReaders", 2)
	for i := 0; i < others; i++ {
		verifAssume(s.mrsw.BeginRead() == nil)
	}
	verifAssume(s.mrsw.BeginRead() == nil)
	timeout := time.Duration(10 * verifUnit)
	rc := &verifRC{noStall: true}
	l := NewLockingStreamer(rc, s, timeout)

	recent := verifChoice("recentActivity", 2) == 1
	verifAssert("C11-timer-armed", l.timer != nil && l.timer.Stop()) // the harness fires it from here on
	if recent {
		time.Sleep(time.Duration(6 * verifUnit))
		rc.nextN = 3
		n, err := l.Read(make([]byte, 4))
		verifAssert("C11-read-passes-through", n == 3 && err == nil && rc.reads == 1)
		time.Sleep(time.Duration(4 * verifUnit))
	} else {
		time.Sleep(timeout)
	}
	verifSettle()
	verifAssertLock("C11-hold-kept-until-timer-runs", s, others+1, false)

	closeFirst := verifChoice("closeFirst", 2) == 1
	var cerr error
	if closeFirst {
		verifReach("close-then-late-callback")
		cerr = l.Close()
		verifAssert("C11-first-close-returns-underlying-result", cerr == rc.closeErr)
		verifAssertLock("C11-hold-released-exactly-once", s, others, false)
		l.checkIdle() // the callback that was already under way
	} else {
		l.checkIdle()
		if recent {
			verifReach("callback-rearms-then-close")
			verifAssertLock("C11-recent-activity-keeps-hold", s, others+1, false)
			verifAssert("C11-recent-activity-keeps-stream-open", rc.closes == 0)
			cerr = l.Close()
			verifAssert("C11-first-close-returns-underlying-result", cerr == rc.closeErr)
		} else {
			verifReach("callback-then-close")
			verifAssertLock("C11-hold-released-exactly-once", s, others, false)
			cerr = l.Close()
			verifAssert("C11-repeated-close-is-a-noop", cerr == nil)
			n, err := l.Read(make([]byte, 4))
			verifAssert("C11-read-after-expiry-timeout-error", n == 0 && err == ErrSnapshotReaderTimeout && rc.reads == 0)
		}
	}
	verifAssertLock("C11-hold-released-exactly-once", s, others, false)
	verifAssert("C11-underlying-closed-exactly-once-on-release", rc.closes == 1)
	// nothing is left armed that could release again
	time.Sleep(2 * timeout)
	verifSettle()
	verifAssertLock("C11-hold-released-exactly-once", s, others, false)
	verifAssert("C11-underlying-closed-exactly-once-on-release", rc.closes == 1)
	verifAssert("C11-close-after-release-ok", l.Close() == nil)
	verifAssertLock("C11-hold-released-exactly-once", s, others, false)
}

// VerifC11Preempt: Close overlapping the idle-timer callback *inside* the two functions.
//
// The entries above switch goroutines only where one blocks, so Close and the callback run one
// after the other. Here the executor may also take the processor away from a running goroutine
// at its synchronisation operations (spec: max_preempt 1 quick / 2 thorough), e.g. from Close
// between its first look at the stream's state and taking the streamer's mutex, while the
// callback runs inside the critical section. As in VerifC11CloseVsTimer the harness plays the
// runtime (the pending firing is taken from the real timer, the callback runs on a harness
// goroutine), so the recorded interleaving can be forced in the native replay.
// One other stream holds a read hold throughout: it must keep it, and a reap must be refused
// for as long as it is open.
func VerifC11Preempt() {
	verifPanicsAreViolations()
	s := verifBareStore()
	verifAssume(s.mrsw.BeginRead() == nil) // the other open stream
	verifAssume(s.mrsw.BeginRead() == nil) // the hold Open passes to the streamer under test
	timeout := time.Duration(10 * verifUnit)
	rc := &verifRC{noStall: true}
	l := NewLockingStreamer(rc, s, timeout)
	verifAssert("C11-timer-armed", l.timer != nil && l.timer.Stop()) // the harness fires it

	recent := verifChoice("recentActivity", 2) == 1
	if recent {
		time.Sleep(time.Duration(6 * verifUnit))
		rc.nextN = 3
		n, err := l.Read(make([]byte, 4))
		verifAssert("C11-read-passes-through", n == 3 && err == nil && rc.reads == 1)
		time.Sleep(time.Duration(4 * verifUnit))
	} else {
		time.Sleep(timeout)
	}
	twoClosers := verifChoice("secondClose", 2) == 1

	// the timer is due: its callback and the consumer's Close (raft closes every snapshot it
	// opened, sometimes from two places) run concurrently
	var errA, errB error
	doneA, doneB, doneT := false, !twoClosers, false
	go func() {
		errA = l.Close()
		doneA = true
	}()
	go func() {
		l.checkIdle()
		doneT = true
	}()
	if twoClosers {
		go func() {
			errB = l.Close()
			doneB = true
		}()
	}
	verifSettle()
	verifReach("close-overlaps-callback")
	verifAssert("C11-close-and-callback-finish", doneA && doneB && doneT)
	verifAssertLock("C11-hold-released-exactly-once", s, 1, false)
	verifAssert("C11-underlying-closed-exactly-once-on-release", rc.closes == 1)
	verifAssert("C11-close-results", (errA == nil || errA == rc.closeErr) && (errB == nil || errB == rc.closeErr))
	verifAssert("C11-reap-refused-while-other-stream-open", s.mrsw.BeginWrite("reap") != nil)

	// nothing is left armed that could release again
	time.Sleep(2 * timeout)
	verifSettle()
	verifAssertLock("C11-hold-released-exactly-once", s, 1, false)
	verifAssert("C11-underlying-closed-exactly-once-on-release", rc.closes == 1)
	verifAssert("C11-close-after-release-ok", l.Close() == nil)
	verifAssertLock("C11-other-stream-keeps-its-hold", s, 1, false)
	// the other stream closes: now, and only now, a reap can start
	s.mrsw.EndRead()
	verifAssert("C11-reap-possible-after-last-stream-closed", s.mrsw.BeginWrite("reap") == nil)
}

// VerifC11Twin: same scenario, but claims the hold is never released - must be violated.
func VerifC11Twin() {
	verifC11Streamer(2, 1, true)
}

// =====================================================================================
// Part (a): lock balance of the exported Store methods
// =====================================================================================
//
// The real methods run against a store directory described by a small "world":
//   - in the SYMBOLIC run the file-system / catalog helpers they call are replaced (spec
//     "models") by the verifXxx functions below, which answer from the world and can fail;
//   - in the NATIVE replay the same world is written to a real temporary directory and the
//     real helpers run; each failure is produced by real on-disk state (a snapshot directory
//     without meta.json, a wrong recorded checksum, a missing id, ...). A change of the
//     directory in the middle of Open (after the one-off integrity check) is made natively
//     from the store's log writer, which the store calls at exactly that point.
// Failures that no static directory can produce (a file vanishing between the scan and the
// open, marshalling errors) exist only in the symbolic run: entry VerifC11OpenLate.

type verifSnapSpec struct {
	id          string
	full        bool
	term, index uint64
	wals        int
}

type verifWorld struct {
	dir              string
	snaps            []verifSnapSpec
	broken           bool // a snapshot directory without meta.json exists: every scan fails
	crcBad           bool // the recorded checksum of the oldest data file is wrong
	breakAfterVerify bool // the directory becomes `broken` right after the one-off integrity check passed
	late             int  // symbolic only: see VerifC11OpenLate
	dirSizeFails     bool // symbolic only

	// bookkeeping of the symbolic models
	scans     int
	opened    int
	closed    int
	reapCalls int
	reapNoWL  int // reapInternal entered without the write lock held
}

var verifW *verifWorld

const (
	vLateNone = iota
	vLateStatDB
	vLateStatWAL
	vLateOpenDB
	vLateOpenWAL
	vLateMarshal
	vLateLen
	vLateMeta
	vLateCount
)

var verifErrInjected = errors.New("verif: injected failure")

func verifWorldShape(k int) []verifSnapSpec {
	f1 := verifSnapSpec{id: "2-10-1000", full: true, term: 2, index: 10}
	i2 := verifSnapSpec{id: "2-20-2000", full: false, term: 2, index: 20, wals: 1}
	f3 := verifSnapSpec{id: "2-30-3000", full: true, term: 2, index: 30}
	switch k {
	case 0:
		return nil
	case 1:
		return []verifSnapSpec{f1}
	case 2:
		return []verifSnapSpec{f1, i2}
	case 3:
		return []verifSnapSpec{i2}
	default:
		return []verifSnapSpec{f1, f3}
	}
}

// verifChooseWorld picks a directory shape out of `shapes`; the last choice adds an unloadable
// snapshot directory to the last shape (thorough tier: to any shape).
func verifChooseWorld(w *verifWorld, shapes []int) {
	if verifTier() == 1 {
		w.snaps = verifWorldShape(shapes[verifChoice("world", len(shapes))])
		w.broken = verifChoice("broken", 2) == 1
		return
	}
	k := verifChoice("world", len(shapes)+1)
	if k == len(shapes) {
		k--
		w.broken = true
	}
	w.snaps = verifWorldShape(shapes[k])
}

var verifAllWorlds = []int{0, 1, 2, 3, 4}

func (w *verifWorld) walName(i int) string { return "0000000" + string(rune('1'+i)) + walfileSuffix }

// oldestDataPath is the file whose recorded checksum is wrong when crcBad.
func (w *verifWorld) oldestDataPath() string {
	if len(w.snaps) == 0 {
		return ""
	}
	sp := w.snaps[0]
	if sp.full {
		return filepath.Join(w.dir, sp.id, dbfileName)
	}
	return filepath.Join(w.dir, sp.id, w.walName(0))
}

// ---------------------------------------------------------------- native: the world on disk

var verifSQLiteHdr = append([]byte("SQLite format 3\x00"), make([]byte, 84)...)
var verifWALHdr = []byte{0x37, 0x7f, 0x06, 0x82, 0x00, 0x2d, 0xe2, 0x18, 0, 0, 0x10, 0, 0, 0, 0, 0, 0, 0, 0, 0, 0, 0, 0, 0, 0, 0, 0, 0, 0, 0, 0, 0}

func verifMust(err error) {
	if err != nil {
		panic("verif: native world setup: " + err.Error())
	}
}

func (w *verifWorld) writeData(path string, content []byte) {
	verifMust(os.WriteFile(path, content, 0o644))
	sum, err := rsum.CRC32(path)
	verifMust(err)
	if w.crcBad && path == w.oldestDataPath() {
		sum++
	}
	verifMust(sidecar.WriteFile(path+crcSuffix, sum))
}

func (w *verifWorld) materialize() {
	d, err := os.MkdirTemp("", "verif-c11-")
	verifMust(err)
	w.dir = d
	for _, sp := range w.snaps {
		sd := filepath.Join(d, sp.id)
		verifMust(os.Mkdir(sd, 0o755))
		mb, err := json.Marshal(&raft.SnapshotMeta{Version: 1, ID: sp.id, Index: sp.index, Term: sp.term})
		verifMust(err)
		verifMust(os.WriteFile(filepath.Join(sd, metaFileName), mb, 0o644))
		if sp.full {
			w.writeData(filepath.Join(sd, dbfileName), verifSQLiteHdr)
		}
		for i := 0; i < sp.wals; i++ {
			w.writeData(filepath.Join(sd, w.walName(i)), verifWALHdr)
		}
	}
	if w.broken {
		w.breakDir()
	}
}

func (w *verifWorld) breakDir() {
	w.broken = true
	if !verifSymbolic() {
		verifMust(os.MkdirAll(filepath.Join(w.dir, "9-99-9999"), 0o755))
	}
}

func (w *verifWorld) cleanup() {
	if !verifSymbolic() && w.dir != "" {
		os.RemoveAll(w.dir)
	}
}

// verifLogHook is the store's log output in the native run: the store logs "completed CRC32
// check" when its one-off integrity check has passed; that is where breakAfterVerify strikes.
type verifLogHook struct{ w *verifWorld }

func (h *verifLogHook) Write(p []byte) (int, error) {
	if h.w.breakAfterVerify && !h.w.broken && bytes.Contains(p, []byte("completed CRC32 check")) {
		h.w.breakDir()
	}
	return len(p), nil
}

// verifStoreOn builds a Store over the world without NewStore (no reaper goroutine unless the
// harness starts it; no process exit on corruption: fatalFn is nil as in the repo's tests).
func verifStoreOn(w *verifWorld) *Store {
	verifW = w
	if verifSymbolic() {
		w.dir = "/verif-c11-store"
	} else {
		w.materialize()
	}
	return &Store{
		dir:            w.dir,
		fullNeededPath: filepath.Join(w.dir, fullNeededFile),
		reapPlanPath:   filepath.Join(w.dir, reapPlanFile),
		logger:         log.New(&verifLogHook{w}, "", 0),
		catalog:        &SnapshotCatalog{},
		mrsw:           rsync.NewMultiRSW(),
		reapDisabled:   &rsync.AtomicBool{},
		noVerifyDB:     &rsync.AtomicBool{},
		reapThreshold:  defaultReapThreshold,
		readTimeout:    time.Duration(10 * verifUnit),
		reapCh:         make(chan struct{}, 1),
		reapDoneCh:     make(chan struct{}),
		observers:      newObserverSet(),
	}
}

// ---------------------------------------------------------------- symbolic: models (spec "models")

// (*SnapshotCatalog).Scan
func verifScan(c *SnapshotCatalog, dir string) (SnapshotSet, error) {
	w := verifW
	w.scans++
	if w.broken {
		return SnapshotSet{}, verifErrInjected
	}
	var items []*Snapshot
	for _, sp := range w.snaps { // world shapes are listed oldest first
		sn := &Snapshot{id: sp.id, path: filepath.Join(dir, sp.id), typ: Incremental,
			raftMeta: &raft.SnapshotMeta{Version: 1, ID: sp.id, Index: sp.index, Term: sp.term}}
		if sp.full {
			sn.typ = Full
			sn.dbFile = &ChecksummedFile{Path: filepath.Join(sn.path, dbfileName), CRC32: 7}
		}
		for i := 0; i < sp.wals; i++ {
			sn.walFiles = append(sn.walFiles, &ChecksummedFile{Path: filepath.Join(sn.path, w.walName(i)), CRC32: 9})
		}
		items = append(items, sn)
	}
	// the integrity check is the first user of a scan on a fresh store; the directory breaks
	// once that check has passed (it logs only when there was something to check)
	if w.breakAfterVerify && w.scans == 1 && len(items) > 0 && !w.crcBad {
		w.broken = true
	}
	return SnapshotSet{dir: dir, items: items}, nil
}

// (*ChecksummedFile).Check
func verifCFCheck(hf *ChecksummedFile) (bool, error) {
	if verifW.crcBad && hf.Path == verifW.oldestDataPath() {
		return false, nil
	}
	return true, nil
}

type verifFileInfo struct{ name string }

func (fi verifFileInfo) Name() string       { return fi.name }
func (fi verifFileInfo) Size() int64        { return 100 }
func (fi verifFileInfo) Mode() fs.FileMode  { return 0o644 }
func (fi verifFileInfo) ModTime() time.Time { return time.Time{} }
func (fi verifFileInfo) IsDir() bool        { return false }
func (fi verifFileInfo) Sys() any           { return nil }

func verifIsWAL(name string) bool { return strings.HasSuffix(name, walfileSuffix) }

// os.Stat
func verifOsStat(name string) (os.FileInfo, error) {
	if verifW.late == vLateStatDB && !verifIsWAL(name) || verifW.late == vLateStatWAL && verifIsWAL(name) {
		return nil, verifErrInjected
	}
	return verifFileInfo{name}, nil
}

// os.Open
func verifOsOpen(name string) (*os.File, error) {
	if verifW.late == vLateOpenDB && !verifIsWAL(name) || verifW.late == vLateOpenWAL && verifIsWAL(name) {
		return nil, verifErrInjected
	}
	verifW.opened++
	return new(os.File), nil
}

// (*os.File).Close
func verifFileClose(f *os.File) error {
	verifW.closed++
	return nil
}

// marshalSnapshotHeader
func verifMarshalHdr(h *proto.SnapshotHeader) ([]byte, error) {
	if verifW.late == vLateMarshal {
		return nil, verifErrInjected
	}
	return []byte{1, 2, 3}, nil
}

// snapshotHeaderPayloadSize
func verifPayloadSize(h *proto.SnapshotHeader) (int64, error) {
	if verifW.late == vLateLen {
		return 0, verifErrInjected
	}
	return 203, nil
}

// readRaftMeta
func verifReadRaftMeta(path string) (*raft.SnapshotMeta, error) {
	if verifW.late == vLateMeta {
		return nil, verifErrInjected
	}
	for _, sp := range verifW.snaps {
		if path == metaPath(filepath.Join(verifW.dir, sp.id)) {
			return &raft.SnapshotMeta{Version: 1, ID: sp.id, Index: sp.index, Term: sp.term}, nil
		}
	}
	return nil, verifErrInjected
}

// fsutil.DirSize
func verifDirSize(path string) (int64, error) {
	if verifW.dirSizeFails {
		return 0, verifErrInjected
	}
	return 4096, nil
}

type verifDirEntry struct{ name string }

func (e verifDirEntry) Name() string               { return e.name }
func (e verifDirEntry) IsDir() bool                { return true }
func (e verifDirEntry) Type() fs.FileMode          { return fs.ModeDir }
func (e verifDirEntry) Info() (fs.FileInfo, error) { return nil, verifErrInjected }

// os.ReadDir (only snapshotCount uses it on these paths)
func verifOsReadDir(name string) ([]os.DirEntry, error) {
	var out []os.DirEntry
	for _, sp := range verifW.snaps {
		out = append(out, verifDirEntry{sp.id})
	}
	if verifW.broken {
		out = append(out, verifDirEntry{"9-99-9999"})
	}
	return out, nil
}

// (*Store).reapInternal: what a reap does to the directory is not this property's business
// (C09/C10); its outcome follows from the world exactly as the real one's does for these
// worlds (full snapshots without WAL files, so no SQLite work is needed natively).
func verifReapInternal(s *Store) (int, int, error) {
	w := verifW
	w.reapCalls++
	if _, writer := verifLockState(s.mrsw); !writer {
		w.reapNoWL++
	}
	if err := s.ensureVerified(); err != nil {
		return 0, 0, err
	}
	if w.broken {
		return 0, 0, verifErrInjected
	}
	if len(w.snaps) == 0 {
		return 0, 0, nil
	}
	last := -1
	for i, sp := range w.snaps {
		if sp.full {
			last = i
		}
	}
	if last < 0 {
		return 0, 0, verifErrInjected // no full snapshot found
	}
	if len(w.snaps) == 1 {
		return 0, 0, nil
	}
	if last != len(w.snaps)-1 {
		return 0, 0, verifErrInjected // consolidation needs SQLite: not part of these worlds
	}
	w.snaps = w.snaps[last:]
	return last, 0, nil
}

// ---------------------------------------------------------------- Open

func verifPickID(w *verifWorld, sel int) string {
	switch {
	case sel == 2 || len(w.snaps) == 0:
		return "7-77-7777"
	case sel == 1:
		return w.snaps[0].id
	default:
		return w.snaps[len(w.snaps)-1].id
	}
}

// verifPreState puts the lock into one of: free, one unrelated reader, a writer.
func verifPreState(s *Store, pre int) (readers int, writer bool) {
	switch pre {
	case 1:
		verifAssume(s.mrsw.BeginRead() == nil)
		return 1, false
	case 2:
		verifAssume(s.mrsw.BeginWrite("someone-else") == nil)
		return 0, true
	}
	return 0, false
}

// verifSetVerifyState: 0 = the one-off integrity check has not run yet, 1 = it ran and passed,
// 2 = it ran and failed (the cached verdict is sticky).
func verifSetVerifyState(s *Store, v int) {
	switch v {
	case 1:
		s.verifyOnce.Do(func() {})
	case 2:
		s.verifyOnce.Do(func() { s.verifyErr = verifErrInjected })
	}
}

func verifAssertLock(id string, s *Store, readers int, writer bool) {
	r, wr := verifLockState(s.mrsw)
	verifAssert(id, r == readers && wr == writer)
}

// verifOpenAndCheck runs the real Open and checks the balance. It returns the stream (nil on error).
func verifOpenAndCheck(s *Store, id string, readers0 int, writer0 bool) io.ReadCloser {
	meta, rc, err := s.Open(id)
	if err != nil {
		verifReach("open-error")
		verifAssert("C11-open-error-returns-no-stream", rc == nil && meta == nil)
		verifAssertLock("C11-open-error-leaves-lock-unchanged", s, readers0, writer0)
		return nil
	}
	verifReach("open-ok")
	_, isLS := rc.(*LockingStreamer)
	verifAssert("C11-open-returns-locking-stream", rc != nil && isLS && meta != nil)
	verifAssert("C11-open-never-succeeds-under-writer", !writer0)
	verifAssertLock("C11-open-stream-holds-one-read-hold", s, readers0+1, false)
	return rc
}

// verifReleaseAndCheck releases an open stream by Close or by letting it sit idle.
func verifReleaseAndCheck(s *Store, rc io.ReadCloser, how int, readers0 int) {
	if how == 0 {
		verifAssert("C11-close-ok", rc.Close() == nil)
		verifReach("stream-closed")
	} else {
		time.Sleep(s.readTimeout - 1)
		verifSettle()
		verifAssertLock("C11-idle-stream-keeps-hold-before-timeout", s, readers0+1, false)
		time.Sleep(1)
		verifSettle()
		verifReach("stream-expired")
		n, err := rc.Read(make([]byte, 8))
		verifAssert("C11-opened-stream-times-out", n == 0 && err == ErrSnapshotReaderTimeout)
	}
	verifAssertLock("C11-stream-release-returns-hold", s, readers0, false)
	// closing again (raft always closes) changes nothing
	verifAssert("C11-close-after-release-ok", rc.Close() == nil)
	verifAssertLock("C11-close-after-release-is-noop", s, readers0, false)
}

func VerifC11Open() {
	verifPanicsAreViolations()
	w := &verifWorld{}
	pre := verifChoice("pre", 3)
	vstate := 0
	if pre != 2 {
		verifChooseWorld(w, verifAllWorlds)
		vstate = verifChoice("verifyState", 3)
		if vstate == 0 {
			w.crcBad = verifChoice("crcBad", 2) == 1
			if !w.broken {
				w.breakAfterVerify = verifChoice("breakAfterVerify", 2) == 1
			}
		}
	} else {
		w.snaps = verifWorldShape(2)
	}
	id := verifPickID(w, verifChoice("id", 3))
	s := verifStoreOn(w)
	defer w.cleanup()
	verifSetVerifyState(s, vstate)
	readers0, writer0 := verifPreState(s, pre)

	rc := verifOpenAndCheck(s, id, readers0, writer0)
	if rc == nil {
		if writer0 {
			verifReach("open-refused-by-writer")
		}
		if w.breakAfterVerify && w.broken {
			verifReach("open-error-after-verify")
		}
		// the failed Open left nothing behind: a reap can take the lock iff nobody else holds it
		if pre == 0 {
			verifAssert("C11-reap-possible-after-failed-open", s.mrsw.BeginWrite("reap") == nil)
		}
		return
	}
	// while the stream is open a reap is refused and leaves the lock alone
	_, _, rerr := s.Reap()
	verifAssert("C11-reap-refused-while-stream-open", rerr != nil)
	verifAssertLock("C11-refused-reap-leaves-lock-unchanged", s, readers0+1, false)
	verifReleaseAndCheck(s, rc, verifChoice("release", 2), readers0)
}

// VerifC11OpenLate: failures after the snapshot set was scanned (symbolic run only, see above).
func VerifC11OpenLate() {
	verifPanicsAreViolations()
	if !verifSymbolic() {
		return
	}
	w := &verifWorld{snaps: verifWorldShape(2)}
	w.late = 1 + verifChoice("late", vLateCount-1)
	id := verifPickID(w, 0) // the incremental: its stream needs the DB file and a WAL file
	s := verifStoreOn(w)
	readers0, _ := verifPreState(s, verifChoice("pre", 2))
	rc := verifOpenAndCheck(s, id, readers0, false)
	verifAssert("C11-late-failure-fails-open", rc == nil)
	verifAssert("C11-late-failure-closes-what-it-opened", w.opened == w.closed)
	if w.opened > 0 {
		verifReach("late-failure-with-open-files")
	}
}

// ---------------------------------------------------------------- read-only methods

const (
	vMListAll = iota
	vMList
	vMLen
	vMLatest
	vMStats
	vMVerify
	vMEnsureVerify
	vMCount
)

// verifCallRO calls one of the methods that take the read lock for the duration of the call.
// It reports whether the call produced a result (as opposed to an error / the zero answer).
func verifCallRO(s *Store, m int) bool {
	switch m {
	case vMListAll:
		_, err := s.ListAll()
		return err == nil
	case vMList:
		l, err := s.List()
		verifAssert("C11-list-at-most-one", len(l) <= 1)
		return err == nil
	case vMLen:
		return s.Len() > 0
	case vMLatest:
		_, _, err := s.LatestIndexTerm()
		return err == nil
	case vMStats:
		_, err := s.Stats()
		return err == nil
	case vMVerify:
		return s.Verify() == nil
	default:
		return s.EnsureVerify() == nil
	}
}

// VerifC11ReadOnly: ListAll, List, Len, LatestIndexTerm, Stats, Verify, EnsureVerify hold the
// read lock only while they run, whatever fails inside; the first five are refused by a writer,
// the last two wait for it.
func VerifC11ReadOnly() {
	verifPanicsAreViolations()
	w := &verifWorld{}
	m := verifChoice("method", vMCount)
	pre := verifChoice("pre", 3)
	verifChooseWorld(w, verifAllWorlds)
	vstate := 0
	if m == vMEnsureVerify {
		vstate = verifChoice("verifyState", 3)
	}
	if m == vMVerify || m == vMEnsureVerify {
		w.crcBad = verifChoice("crcBad", 2) == 1
	}
	if m == vMStats && verifSymbolic() {
		w.dirSizeFails = verifChoice("dirSizeFails", 2) == 1
	}
	s := verifStoreOn(w)
	defer w.cleanup()
	verifSetVerifyState(s, vstate)
	readers0, writer0 := verifPreState(s, pre)

	blocking := m == vMVerify || m == vMEnsureVerify
	if writer0 && blocking {
		done := false
		go func() {
			verifCallRO(s, m)
			done = true
		}()
		verifSettle()
		verifReach("ro-waits-for-writer")
		verifAssert("C11-blocking-reader-waits-for-writer", !done)
		verifAssertLock("C11-waiting-reader-holds-nothing", s, 0, true)
		s.mrsw.EndWrite()
		verifSettle()
		verifAssert("C11-blocking-reader-proceeds-after-writer", done)
		verifAssertLock("C11-ro-balanced-after-wait", s, 0, false)
		return
	}
	ok := verifCallRO(s, m)
	if ok {
		verifReach("ro-ok")
	} else {
		verifReach("ro-failed")
	}
	if writer0 {
		verifReach("ro-refused-by-writer")
		verifAssert("C11-ro-refused-under-writer", !ok)
	}
	verifAssertLock("C11-ro-balanced", s, readers0, writer0)
}

// ---------------------------------------------------------------- Reap / reapLoop

// verifReapHook is a reap observer whose filter runs inside reap(), i.e. while the reaper is
// supposed to hold the write lock: it looks at the lock and tries to get at the snapshots.
type verifReapHook struct {
	s          *Store
	id         string
	calls      int
	noWriter   int // calls that did not see the write lock held
	gotStream  int // calls in which Open handed out a stream
	gotListing int // calls in which ListAll succeeded
}

func (h *verifReapHook) filter(o *ReapObservation) bool {
	h.calls++
	if r, writer := verifLockState(h.s.mrsw); !writer || r != 0 {
		h.noWriter++
	}
	if _, rc, err := h.s.Open(h.id); err == nil || rc != nil {
		h.gotStream++
	}
	if _, err := h.s.ListAll(); err == nil {
		h.gotListing++
	}
	if r, writer := verifLockState(h.s.mrsw); !writer || r != 0 {
		h.noWriter++
	}
	return true
}

func verifHookReaps(s *Store, id string) *verifReapHook {
	h := &verifReapHook{s: s, id: id}
	s.RegisterObserver(NewObserver(make(chan ReapObservation, 4), h.filter))
	return h
}

func (h *verifReapHook) check() {
	verifAssert("C11-reap-runs-under-write-lock", h.noWriter == 0)
	verifAssert("C11-no-stream-opened-during-reap", h.gotStream == 0)
	verifAssert("C11-no-listing-during-reap", h.gotListing == 0)
	verifAssert("C11-symbolic-reap-under-write-lock", verifW.reapNoWL == 0)
}

var verifReapWorlds = []int{0, 1, 3, 4}

// VerifC11Reap: Reap takes the write lock (or is refused and does nothing), holds it exactly
// around the reap, and gives it back whether the reap succeeds or fails.
func VerifC11Reap() {
	verifPanicsAreViolations()
	w := &verifWorld{}
	pre := verifChoice("pre", 3)
	verifChooseWorld(w, verifReapWorlds)
	vstate := verifChoice("verifyState", 3)
	if vstate == 0 {
		w.crcBad = verifChoice("crcBad", 2) == 1
	}
	nSnaps := len(w.snaps)
	s := verifStoreOn(w)
	defer w.cleanup()
	verifSetVerifyState(s, vstate)
	h := verifHookReaps(s, verifPickID(w, 0))
	readers0, writer0 := verifPreState(s, pre)

	n, _, err := s.Reap()
	h.check()
	verifAssertLock("C11-reap-leaves-lock-as-found", s, readers0, writer0)
	if pre != 0 {
		verifReach("reap-refused")
		verifAssert("C11-reap-refused-when-lock-busy", err != nil && n == 0)
		verifAssert("C11-refused-reap-does-not-reap", h.calls == 0 && w.reapCalls == 0)
		return
	}
	if verifSymbolic() {
		verifAssert("C11-reap-runs-once", w.reapCalls == 1)
	}
	if err != nil {
		verifReach("reap-failed")
		verifAssert("C11-failed-reap-notifies-nobody", h.calls == 0)
	} else {
		verifReach("reap-ok")
		verifAssert("C11-successful-reap-observed-once", h.calls == 1)
		if nSnaps == 2 {
			verifReach("reap-removed-something")
			verifAssert("C11-reap-count", n == 1)
		}
	}
	// and the store is usable again
	verifAssert("C11-lock-free-after-reap", s.mrsw.BeginRead() == nil)
}

// VerifC11ReapLoop: the background reaper (signalled by a finished snapshot) waits for open
// streams instead of failing or reaping under them, reaps once they are released - by Close or
// by the idle timeout of a stalled stream - and releases the write lock afterwards.
func VerifC11ReapLoop() {
	verifPanicsAreViolations()
	w := &verifWorld{snaps: verifWorldShape(4)}
	threshold := 2 + verifChoice("thresholdAbove", 2)
	disabled := verifChoice("disabled", 2) == 1
	holder := verifChoice("holder", 3)
	s := verifStoreOn(w)
	defer w.cleanup()
	s.reapThreshold = threshold
	if disabled {
		s.reapDisabled.Set()
	}
	id := verifPickID(w, 0)
	h := verifHookReaps(s, id)
	s.wg.Go(s.reapLoop)
	stopped := false
	defer func() {
		if !stopped {
			s.Close()
		}
	}()
	verifSettle()

	var rc io.ReadCloser
	if holder > 0 {
		rc = verifOpenAndCheck(s, id, 0, false)
		verifAssert("C11-open-works", rc != nil)
	}
	want := 0
	if !disabled && len(w.snaps) >= threshold {
		want = 1
	}
	s.signalReap() // what a finished snapshot sink does
	verifSettle()
	if holder > 0 {
		if want == 1 {
			verifReach("reaper-waiting")
		}
		verifAssert("C11-autoreap-waits-for-open-stream", h.calls == 0 && w.reapCalls == 0)
		verifAssertLock("C11-waiting-reaper-holds-nothing", s, 1, false)
		if holder == 1 {
			verifAssert("C11-close-ok", rc.Close() == nil)
		} else {
			time.Sleep(s.readTimeout)
			verifReach("reaper-unblocked-by-idle-timeout")
		}
		verifSettle()
	}
	h.check()
	verifAssert("C11-autoreap-runs-exactly-when-due", h.calls == want)
	if want == 1 {
		verifReach("autoreap-done")
	}
	verifAssertLock("C11-autoreap-releases-write-lock", s, 0, false)
	if rc != nil {
		verifAssert("C11-close-after-reap-ok", rc.Close() == nil)
		verifAssertLock("C11-close-after-reap-is-noop", s, 0, false)
	}

	// shutdown still works
	go func() {
		s.Close()
		stopped = true
	}()
	verifSettle()
	verifAssert("C11-reaper-stops", stopped)
}
