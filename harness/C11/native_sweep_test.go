package snapshot

// Native sweep (not used by symgo): runs the part (a) entries of the C11 harness natively over
// every combination of their concrete choices, on real directories, inside a synctest bubble.
// It shows that the native side of the harness (real files instead of the symbolic models)
// satisfies the same oracles, so that counterexamples found symbolically can be replayed.
//   run: /verif/harness/C11/native_sweep.sh

import (
	"encoding/json"
	"fmt"
	"os"
	"testing"
	"testing/synctest"
)

type verifDim struct {
	name string
	n    int
}

func verifSweep(t *testing.T, entry string, f func(), dims []verifDim) {
	idx := make([]int, len(dims))
	runs, bad := 0, 0
	for {
		vals := map[string]any{}
		for i, d := range dims {
			vals[d.name] = json.Number(fmt.Sprint(idx[i]))
		}
		var out []string
		synctest.Test(t, func(t *testing.T) {
			verifWaitHook = synctest.Wait
			out = verifRunWith(vals, f)
		})
		runs++
		for _, o := range out {
			if o != "" {
				bad++
				if bad < 10 {
					t.Errorf("%s %v: %s", entry, vals, o)
				}
			}
		}
		k := 0
		for k < len(dims) {
			idx[k]++
			if idx[k] < dims[k].n {
				break
			}
			idx[k] = 0
			k++
		}
		if k == len(dims) {
			break
		}
	}
	t.Logf("%s: %d native runs, %d with a violated oracle", entry, runs, bad)
}

func verifRunWith(vals map[string]any, f func()) (outcome []string) {
	os.Unsetenv("VERIF_REPLAY")
	verifLoad()
	verifVals = vals
	defer func() {
		r := recover()
		outcome = verifOutcome
		if r == nil {
			return
		}
		if _, ok := r.(verifStop); ok {
			return
		}
		outcome = append(outcome, fmt.Sprintf("panic %v", r))
	}()
	f()
	return
}

func TestVerifC11NativeSweep(t *testing.T) {
	// quick-tier choice space (VERIF_TIER unset); the thorough tier only crosses "unloadable
	// directory" with every shape
	verifSweep(t, "VerifC11Open", VerifC11Open, []verifDim{{"pre", 3}, {"world", 6}, {"verifyState", 3},
		{"crcBad", 2}, {"breakAfterVerify", 2}, {"id", 3}, {"release", 2}})
	verifSweep(t, "VerifC11ReadOnly", VerifC11ReadOnly, []verifDim{{"method", vMCount}, {"pre", 3}, {"world", 6},
		{"verifyState", 3}, {"crcBad", 2}})
	verifSweep(t, "VerifC11Reap", VerifC11Reap, []verifDim{{"pre", 3}, {"world", len(verifReapWorlds) + 1},
		{"verifyState", 3}, {"crcBad", 2}})
	verifSweep(t, "VerifC11ReapLoop", VerifC11ReapLoop, []verifDim{{"thresholdAbove", 2}, {"disabled", 2}, {"holder", 3}})
}
