package snapshot

// Native sweep (not part of the check; run by hand, see tools note in spec.json "assumptions"):
// every choice vector of every entry is executed on the real file system with the real helper
// functions; no assertion may fail. This is the differential test of the symbolic run's models
// against the real calls on the unchanged tree.

import (
	"encoding/json"
	"fmt"
	"strings"
	"testing"
	"testing/synctest"
)

func vSweepRun(f func(), vals map[string]any) (outcome []string) {
	verifLoad()
	verifVals = vals
	defer func() {
		r := recover()
		outcome = verifOutcome
		if r == nil {
			return
		}
		if _, ok := r.(verifStop); ok {
			return
		}
		outcome = append(outcome, fmt.Sprintf("panic %v", r))
	}()
	f()
	return
}

func vSweepEntry(t *testing.T, name string, f func(), symbolic []string) {
	vSweep = &vSweeper{}
	defer func() { vSweep = nil }()
	runs := 0
	for {
		for variant := 0; variant < 3; variant++ {
			vals := map[string]any{}
			for i, s := range symbolic {
				// small values with ties, then spread values
				v := (runs*7 + i*3 + variant*5) % 3
				if variant == 2 {
					v = (runs*2654435761 + i*40503 + 12345) % 1000003
				}
				vals[s] = json.Number(fmt.Sprint(v))
			}
			vSweep.pos, vSweep.ns = 0, vSweep.ns[:0]
			// in a bubble, as the replay of a counterexample runs (verifSettle = synctest.Wait)
			var outcome []string
			verifWaitHook = synctest.Wait
			synctest.Test(t, func(*testing.T) { outcome = vSweepRun(f, vals) })
			for _, o := range outcome {
				if strings.HasPrefix(o, "violated") || strings.HasPrefix(o, "panic") || strings.HasPrefix(o, "finding") {
					t.Errorf("%s: %s with choices %v values %v", name, o, vSweep.trail[:vSweep.pos], vals)
				}
			}
			if len(symbolic) == 0 {
				break
			}
		}
		runs++
		if !vSweep.next() {
			break
		}
	}
	t.Logf("%s: %d choice vectors", name, runs)
}

func TestVerifSweep(t *testing.T) {
	vSweepEntry(t, "VerifC12Checker", VerifC12Checker, nil)
	vSweepEntry(t, "VerifC12Consumers", VerifC12Consumers, nil)
	vSweepEntry(t, "VerifC12Reap", VerifC12Reap, nil)
	vSweepEntry(t, "VerifC12Start", VerifC12Start, nil)
	vSweepEntry(t, "VerifC12Header", VerifC12Header, []string{"recorded0", "recorded1", "recorded2"})
}
