package snapshot

// C12: corrupt snapshot data is detected before it is used.
//
//   VerifC12Checker    CRCChecker.Check / ChecksummedFile.Check: k <= 3 files, each fine, altered,
//                      unreadable or marked "not checksummed"; worker goroutines and channels run
//                      in the engine's scheduler: an error iff some file fails
//   VerifC12Consumers  two consumers in a row (Open of either snapshot, EnsureVerify, Verify) on
//                      a store whose data is altered before the first or between the two: the first
//                      use verifies every data file, the verdict - good or bad - is kept, a bad one
//                      is returned (or ends the process) and nothing is handed out; the header of a
//                      stream carries the recorded checksums
//   VerifC12Reap       a reap on a fresh / verified / condemned store, started through each of its
//                      entry points: the public Store.Reap, or the reaper goroutine (reapLoop, run in
//                      the engine's scheduler) woken through the reap channel - by the real Close of a
//                      sink that publishes one more incremental snapshot, or by the bare token; also a
//                      reap that finds the plan of an interrupted one (finishes it, is not a verdict)
//   VerifC12Start      the store built by the real NewStore (check, reaper goroutine started), with or
//                      without an interrupted reap to finish; List / Len / LatestIndexTerm; then the
//                      first consumer out of Open, EnsureVerify, Verify, Reap, the reaper
//   VerifC12Order      (symbolic run only) the scenarios of Consumers, Reap and Start once more; the
//                      models of the file system record events: every data file is checksummed
//                      before the first one is opened for streaming or a reap plan is made, nothing
//                      is opened or planned after a bad verdict, a start opens no data file
//   VerifC12Header     NewChecksummedSnapshotHeader / NewHeaderFromChecksummedFile with symbolic
//                      recorded checksums
//
// Checksums are opaque values here: "detected" means "the comparison recorded-vs-content is made
// and its result decides" - the detection power of CRC-32 is not claimed.

import (
	"errors"
	"expvar"
	"io"
	"log"
	"os"
	"path/filepath"
	"strings"

	"github.com/hashicorp/raft"
	"github.com/rqlite/rqlite/v10/internal/rsum"
	"github.com/rqlite/rqlite/v10/internal/rsync"
	"github.com/rqlite/rqlite/v10/snapshot/plan"
	"github.com/rqlite/rqlite/v10/snapshot/proto"
	"github.com/rqlite/rqlite/v10/snapshot/sidecar"
	pb "google.golang.org/protobuf/proto"
)

const (
	vClean      = iota
	vAltered    // the content is not what the recorded checksum was computed from
	vDisabled   // the sidecar says "not checksummed" (and the content is altered as well)
	vUnreadable // the data file cannot be read
)

// vLiveCRC is the checksum of the file's present content (without leaving a trace in the
// model's journal).
func vLiveCRC(path string) uint32 {
	if verifSymbolic() {
		return vFS.nodes[path].crc
	}
	c, err := rsum.CRC32(path)
	vMust(err)
	return c
}

var vGood = append(append([]byte(nil), vWALHdr...), 1, 2, 3, 4)

// vAlter changes the content of a data file (its sidecar keeps the old checksum).
func vAlter(path string) {
	b, err := vReadAll(path)
	vMust(err)
	b = append(b, 0x5A)
	b[len(b)-2] ^= 0x40
	vMust(os.WriteFile(path, b, 0o644))
}

// vRepair makes the recorded checksum match the present content again.
func vRepair(path string) {
	vMust(sidecar.WriteFile(path+crcSuffix, vLiveCRC(path)))
}

func vReadAll(path string) ([]byte, error) {
	if verifSymbolic() {
		n, ok := vFS.nodes[path]
		if !ok {
			return nil, vErrNotExist
		}
		return append([]byte(nil), n.data...), nil
	}
	return os.ReadFile(path)
}

// google.golang.org/protobuf/proto.Marshal (symbolic run): an opaque encoding.
func vPbMarshal(m pb.Message) ([]byte, error) { return []byte{0xC9, 1, 2, 3}, nil }

// ---------------------------------------------------------------- the checker

// VerifC12Checker: the parallel checker reports an error iff some file fails its check.
func VerifC12Checker() {
	verifPanicsAreViolations()
	root := vNewRoot("vc12")
	defer vDropRoot(root)
	k := vChoice("k", 4)
	c := NewCRCChecker()
	bad := false
	for i := 0; i < k; i++ {
		p := filepath.Join(root, vWALName(i))
		v := vChoice(verifName("verdict", i), 4)
		vWriteData(p, vGood)
		if v == vDisabled {
			vWriteDisabledSidecar(p)
		}
		cf, err := NewChecksummedFileFromFiles(p, p+crcSuffix)
		verifAssert("C12-sidecar-loads", err == nil && cf != nil)
		switch v {
		case vAltered, vDisabled:
			vAlter(p)
		case vUnreadable:
			vMust(os.Remove(p))
		}
		// the single-file check, as documented
		ok, cerr := cf.Check()
		switch v {
		case vClean, vDisabled:
			verifAssert("C12-file-check-passes", ok && cerr == nil)
		case vAltered:
			verifAssert("C12-file-check-detects-altered-content", !ok && cerr == nil)
		case vUnreadable:
			verifAssert("C12-file-check-reports-unreadable-file", !ok && cerr != nil)
		}
		if v == vAltered || v == vUnreadable {
			bad = true
		}
		c.Add(cf)
	}
	ch := c.Check()
	err := <-ch
	if bad {
		verifReach("checker-bad")
	} else if k > 0 {
		verifReach("checker-good")
	}
	verifAssert("C12-checker-error-iff-some-file-fails", (err != nil) == bad)
	_, open := <-ch
	verifAssert("C12-checker-channel-closed-after-verdict", !open)
}

// ---------------------------------------------------------------- a store with data files

var vStoreSnaps = []vSnap{
	{id: "1-10-100", full: true, term: 1, index: 10, wals: 1},
	{id: "1-20-200", term: 1, index: 20, wals: 1},
}

type vStoreWorld struct {
	root  string
	dir   string
	snaps []vSnap
	files []string // every data file, oldest first (database, then WAL files)
	st    *Store
	died  bool

	reaperRuns bool // the reaper goroutine has been started and not been stopped
	reaperDied bool // fatalFn ended the process inside the reaper goroutine
}

var vErrFatal = errors.New("verif: process ended by fatalFn")

func vNewStoreWorld(snaps []vSnap) *vStoreWorld {
	root := vNewRoot("vc12")
	w := &vStoreWorld{root: root, dir: filepath.Join(root, "store"), snaps: snaps}
	vMust(os.MkdirAll(w.dir, 0o755))
	for _, sp := range snaps {
		vPutSnapshot(w.dir, sp)
		sd := filepath.Join(w.dir, sp.id)
		if sp.full {
			w.files = append(w.files, filepath.Join(sd, dbfileName))
		}
		for i := 0; i < sp.wals; i++ {
			w.files = append(w.files, filepath.Join(sd, vWALName(i)))
		}
	}
	w.st = w.newStore()
	return w
}

// newStore: a Store over the directory as NewStore builds it, minus the reaper goroutine.
func (w *vStoreWorld) newStore() *Store {
	return &Store{
		dir:            w.dir,
		fullNeededPath: filepath.Join(w.dir, fullNeededFile),
		reapPlanPath:   filepath.Join(w.dir, reapPlanFile),
		logger:         log.New(io.Discard, "", 0),
		catalog:        &SnapshotCatalog{},
		mrsw:           rsync.NewMultiRSW(),
		reapDisabled:   &rsync.AtomicBool{},
		noVerifyDB:     &rsync.AtomicBool{},
		reapThreshold:  defaultReapThreshold,
		readTimeout:    0,
		reapCh:         make(chan struct{}, 1),
		reapDoneCh:     make(chan struct{}),
		observers:      newObserverSet(),
	}
}

func (w *vStoreWorld) drop() { vDropRoot(w.root) }

// vDies runs f; it reports whether fatalFn ended the process inside it.
func vDies(f func()) (died bool) {
	defer func() {
		if r := recover(); r != nil {
			if e, ok := r.(error); ok && e == vErrFatal {
				died = true
				return
			}
			panic(r)
		}
	}()
	f()
	return false
}

// the reference: which files are altered now, and the verdict the store has cached
type vRef struct {
	altered  []bool // per data file: the content differs from what the recorded checksum covers
	disabled []bool // per data file: marked "not checksummed"
	verdict  int    // 0 none yet, 1 good, 2 bad
}

func (r *vRef) badNow() bool {
	for i := range r.altered {
		if r.altered[i] && !r.disabled[i] {
			return true
		}
	}
	return false
}

// useVerdict is what every consumer that "verifies once before first use" must do: returns
// whether it may go on.
func (r *vRef) useVerdict() bool {
	if r.verdict == 0 {
		r.verdict = 1
		if r.badNow() {
			r.verdict = 2
		}
	}
	return r.verdict == 1
}

const (
	vUseOpenOld = iota // Open of the full snapshot
	vUseOpenNew        // Open of the incremental snapshot (needs every data file)
	vUseEnsureVerify
	vUseVerify
	vUseCount
)

// vConsume runs one consumer and checks it against the reference. journal0 is the length of the
// model's journal before the call (symbolic run, order checks).
func vConsume(w *vStoreWorld, r *vRef, use int, order bool) {
	j0 := 0
	if verifSymbolic() {
		j0 = len(vFS.journal)
	}
	hadVerdict := r.verdict != 0
	var err error
	var rc io.ReadCloser
	died := vDies(func() {
		switch use {
		case vUseOpenOld, vUseOpenNew:
			_, rc, err = w.st.Open(w.snaps[use].id)
		case vUseEnsureVerify:
			err = w.st.EnsureVerify()
		case vUseVerify:
			err = w.st.Verify()
		}
	})
	var okWanted bool
	if use == vUseVerify {
		okWanted = !r.badNow() // an explicit verification always looks at the files
	} else {
		okWanted = r.useVerdict()
	}
	if order {
		vCheckOrder(w, r, use, j0, hadVerdict, okWanted)
	}
	if died {
		w.died = true
		verifReach("died")
		verifAssert("C12-process-ends-only-on-a-bad-verdict", !okWanted && w.st.fatalFn != nil)
		return
	}
	if !okWanted {
		verifReach("refused")
		if hadVerdict && use != vUseVerify {
			verifReach("refused-from-cache")
		}
		verifAssert("C12-bad-verdict-is-returned", err != nil)
		verifAssert("C12-bad-verdict-does-not-survive-fatal-hook", w.st.fatalFn == nil || use == vUseVerify)
		verifAssert("C12-nothing-handed-out-after-bad-verdict", rc == nil)
		return
	}
	verifAssert("C12-consumer-ok-on-good-verdict", err == nil)
	if use != vUseOpenOld && use != vUseOpenNew {
		return
	}
	verifReach("opened")
	if r.badNow() {
		verifReach("opened-after-late-alteration")
	}
	// the stream's header carries the recorded checksums (so that the receiver's own comparison
	// exposes anything that changed since) - the live one only for files marked "not checksummed"
	ls, ok := rc.(*LockingStreamer)
	verifAssert("C12-open-returns-locking-streamer", ok)
	ss, ok := ls.ReadCloser.(*SnapshotStreamer)
	verifAssert("C12-open-wraps-snapshot-streamer", ok && ss.hdr != nil)
	full := ss.hdr.GetFull()
	verifAssert("C12-stream-header-is-full-snapshot", full != nil && full.DbHeader != nil)
	nFiles := 2 // database and WAL file of the full snapshot
	if use == vUseOpenNew {
		nFiles = 3
	}
	verifAssert("C12-stream-covers-the-whole-chain", len(full.WalHeaders) == nFiles-1)
	for i := 0; i < nFiles; i++ {
		h := full.DbHeader
		if i > 0 {
			h = full.WalHeaders[i-1]
		}
		want := w.recorded(i)
		if r.disabled[i] {
			want = vLiveCRC(w.files[i])
			verifReach("header-live-checksum")
		}
		verifAssert("C12-stream-header-carries-recorded-checksum", h.Crc32 == want)
	}
	verifAssert("C12-close-ok", rc.Close() == nil)
}

// recorded returns the checksum stored in the sidecar of data file i.
func (w *vStoreWorld) recorded(i int) uint32 {
	sc, err := sidecar.ReadFile(w.files[i] + crcSuffix)
	vMust(err)
	if sc.Disabled {
		return 0
	}
	c, err := sc.CRC32()
	vMust(err)
	return c
}

// vCheckOrder (symbolic run): what the models of the file system saw during the call.
func vCheckOrder(w *vStoreWorld, r *vRef, use int, j0 int, hadVerdict bool, okWanted bool) {
	if !verifSymbolic() {
		return
	}
	ev := vFS.journal[j0:]
	firstOpen := -1
	crcSeen := make([]int, len(w.files)) // position of the first checksum computation per file
	for i := range crcSeen {
		crcSeen[i] = -1
	}
	for pos, e := range ev {
		if strings.HasPrefix(e, "open ") && firstOpen < 0 {
			for _, f := range w.files {
				if e == "open "+f {
					firstOpen = pos
				}
			}
		}
		for i, f := range w.files {
			if e == "crc "+f && crcSeen[i] < 0 {
				crcSeen[i] = pos
			}
		}
	}
	if !okWanted {
		verifAssert("C12-no-data-file-opened-after-bad-verdict", firstOpen < 0)
	}
	needCheck := use == vUseVerify || !hadVerdict
	for i := range w.files {
		if r.disabled[i] {
			continue
		}
		if needCheck {
			verifReach("order-verified-now")
			verifAssert("C12-every-data-file-checksummed-at-first-use", crcSeen[i] >= 0)
			if firstOpen >= 0 {
				verifAssert("C12-checksummed-before-first-data-read", crcSeen[i] < firstOpen)
			}
		} else {
			verifReach("order-verdict-from-cache")
			verifAssert("C12-verdict-never-recomputed", crcSeen[i] < 0)
		}
	}
}

// vScenario: a store with a full and an incremental snapshot; one data file may be altered (or
// altered and marked "not checksummed") before the first consumer, another change may happen
// between the two consumers.
func vScenario(order bool) {
	verifPanicsAreViolations()
	w := vNewStoreWorld(vStoreSnaps)
	defer w.drop()
	r := &vRef{altered: make([]bool, len(w.files)), disabled: make([]bool, len(w.files))}
	// which files may change, which consumers run: everything in the thorough tier, a
	// representative selection in the quick tier
	startOpts := []int{0, 1, 3, 6} // nothing; database altered; newest WAL altered; newest WAL altered and "not checksummed"
	firstOpts := []int{vUseOpenNew, vUseEnsureVerify, vUseVerify}
	betweenOpts := []int{0, 1, 4} // nothing; repaired; newest WAL altered
	secondOpts := []int{vUseOpenOld, vUseOpenNew, vUseVerify}
	if order {
		betweenOpts = []int{0, 4}
	}
	if verifTier() == 1 {
		startOpts = []int{0, 1, 2, 3, 4, 5, 6}
		firstOpts = []int{vUseOpenOld, vUseOpenNew, vUseEnsureVerify, vUseVerify}
		betweenOpts = []int{0, 1, 2, 3, 4}
		secondOpts = []int{vUseOpenOld, vUseOpenNew, vUseEnsureVerify, vUseVerify}
	}

	// before the node starts
	switch f := startOpts[vChoice("atStart", len(startOpts))]; {
	case f == 0:
	case f <= len(w.files):
		vAlter(w.files[f-1])
		r.altered[f-1] = true
	default:
		i := f - 1 - len(w.files)
		vAlter(w.files[i])
		vWriteDisabledSidecar(w.files[i])
		r.altered[i], r.disabled[i] = true, true
	}
	if r.badNow() && !order && vChoice("fatal", 2) == 1 {
		// production: a bad verdict ends the process
		w.st.fatalFn = func(error) { panic(vErrFatal) }
	}
	first := firstOpts[vChoice("first", len(firstOpts))]
	vConsume(w, r, first, order)
	if w.died {
		return
	}

	// while the node runs
	switch a := betweenOpts[vChoice("between", len(betweenOpts))]; {
	case a == 0:
	case a == 1:
		// whatever was altered is put right again: a bad verdict stays
		for i, f := range w.files {
			if r.altered[i] && !r.disabled[i] {
				vRepair(f)
				r.altered[i] = false
			}
		}
	default:
		i := a - 2
		if !r.altered[i] {
			vAlter(w.files[i])
			r.altered[i] = true
		}
	}
	second := secondOpts[vChoice("second", len(secondOpts))]
	vConsume(w, r, second, order)
}

func VerifC12Consumers() { vScenario(false) }

// VerifC12Order: see the header comment (symbolic run only: natively the real file system keeps
// no journal).
func VerifC12Order() {
	if !verifSymbolic() {
		return
	}
	switch vChoice("scenario", 3) {
	case 0:
		vScenario(true)
	case 1:
		vReapScenario(true)
	case 2:
		vStartScenario(true)
	}
}

// ---------------------------------------------------------------- reap

// (symbolic run) plan.WriteToFile and (*Store).executeReapPlan: the plan's own machinery is the
// subject of C07; here it matters only whether a plan is made and run at all.
// encoding/json.Marshal (symbolic run; reapInternal encodes the consolidated snapshot's metadata)
func vJSONMarshal(v any) ([]byte, error) { return []byte("{json}"), nil }

func vPlanWriteToFile(p *plan.Plan, path string) error {
	vFS.note("plan-written")
	if err := os.WriteFile(path, []byte("{plan}"), 0o644); err != nil {
		return err
	}
	vFS.nodes[path].aux = p
	return nil
}

// plan.ReadFromFile (symbolic run)
func vPlanReadFromFile(path string) (*plan.Plan, error) {
	n, ok := vFS.nodes[path]
	if !ok || n.dir {
		return nil, vErrNotExist
	}
	p, ok := n.aux.(*plan.Plan)
	if !ok {
		return nil, vErrBadData
	}
	return p, nil
}

func vExecuteReapPlan(s *Store, p *plan.Plan, planPath string) (int, int, error) {
	vFS.note("plan-executed")
	for _, op := range p.Ops {
		if op.Type == plan.OpRemoveAll {
			vMust(os.RemoveAll(op.Src))
		}
	}
	os.Remove(planPath)
	return p.NReaped, p.NCheckpointed, nil
}

var vReapSnapsPlain = []vSnap{
	{id: "1-10-100", full: true, term: 1, index: 10},
	{id: "1-20-200", full: true, term: 1, index: 20},
}

// The ways into a reap (every caller chain that ends in reapInternal / executeReapPlan; derived
// with `grep -n 'reapInternal()\|\.reap()\|executeReapPlan(' snapshot/*.go` and, for the public
// function, `grep -rn '\.Reap()' --include=*.go .`):
//   Store.Reap            <- store.(*Store).Reap <- http /reap                        vViaReap
//   Store.reapLoop        the goroutine NewStore starts; woken through Store.reapCh,
//                         which Store.Create hands to every Sink as its closeCh and on
//                         which Sink.Close leaves a token after it published a snapshot  vViaReaperSink
//                         (the same, with nothing but the token: what the reaper sees
//                         when the sink belonged to an earlier, already counted snapshot) vViaReaperSignal
//   Store.check           <- NewStore: finishes an interrupted plan                     VerifC12Start
const (
	vViaReap = iota
	vViaReaperSink
	vViaReaperSignal
	vViaCount
)

// startReaper starts the reaper goroutine as NewStore does (wg.Go(reapLoop)); a process death
// inside it (fatalFn) ends the goroutine and is noted.
func (w *vStoreWorld) startReaper() {
	w.reaperRuns = true
	w.st.wg.Go(func() {
		if vDies(w.st.reapLoop) {
			w.reaperDied = true
		}
	})
}

// installIncremental publishes one more incremental snapshot (one WAL file, staged outside the
// store with a correct checksum record) through a sink made by Store.Create, closed by the real
// Sink.Close - which then signals the reaper. What Sink.Write would have taken from the stream's
// header (the staged directory) is set directly: decoding the header is C09's subject.
func (w *vStoreWorld) installIncremental(term, index uint64) {
	staged := filepath.Join(w.root, "staged")
	vMust(os.MkdirAll(staged, 0o755))
	vWriteData(filepath.Join(staged, vWALName(0)), vWALHdr)
	rs, err := w.st.Create(1, index, term, raft.Configuration{}, 1, nil)
	vMust(err)
	sink := rs.(*Sink)
	sink.fatalFn = nil
	sink.localWALDir = staged
	vMust(sink.Close())
	w.files = append(w.files, filepath.Join(w.dir, sink.ID(), vWALName(0)))
}

func vReapErrorCount() int64 {
	return stats.Get(reapErrors).(*expvar.Int).Value()
}

// vReapOutcome is what can be seen of one reap from outside.
type vReapOutcome struct {
	died     bool // fatalFn ended the process
	failed   bool // an error was returned (Reap) or logged and counted (reaper)
	observed bool // the observers were told of a completed reap
	n        int  // snapshots reaped, as returned / as told to the observers
}

// vReapVia runs one reap through the given entry point and waits for it to be over.
func vReapVia(w *vStoreWorld, via int) (o vReapOutcome) {
	obsCh := make(chan ReapObservation, 4)
	ob := NewObserver(obsCh, nil)
	w.st.RegisterObserver(ob)
	defer w.st.DeregisterObserver(ob)
	switch via {
	case vViaReap:
		var err error
		var n int
		o.died = vDies(func() { n, _, err = w.st.Reap() })
		o.failed = err != nil
		if o.failed || o.died {
			verifAssert("C12-failed-reap-reports-nothing-reaped", n == 0)
		}
		select {
		case ob := <-obsCh:
			o.observed = true
			verifAssert("C12-reap-tells-observers-what-it-returns", ob.SnapshotsReaped == n)
		default:
		}
		o.n = n
	default:
		// the token is in the channel already (left by Sink.Close, or put there below exactly as
		// Sink.Close does); the reaper finds it as soon as it runs
		errs0 := vReapErrorCount()
		if via == vViaReaperSignal {
			select {
			case w.st.reapCh <- struct{}{}:
			default:
			}
		}
		if !w.reaperRuns {
			verifAssert("C12-sink-close-signals-the-reaper", len(w.st.reapCh) == 1)
			w.startReaper()
		}
		verifSettle()
		w.shutdown() // ends the reaper and waits for it
		o.died = w.reaperDied
		o.failed = vReapErrorCount() > errs0
		select {
		case ob := <-obsCh:
			o.observed = true
			o.n = ob.SnapshotsReaped
		default:
		}
	}
	return o
}

// vReapChecked runs one reap through the given entry point and holds it against the reference:
// a reap verifies before it consolidates or removes anything: on a bad verdict, fresh or cached,
// it fails (or the process ends) and the directory stays exactly as it was. older/newer: the two
// snapshot directories of which a plain reap (consolidates == false) removes the first.
func vReapChecked(w *vStoreWorld, r *vRef, via int, consolidates bool, older, newer string, order bool) {
	order = order && verifSymbolic()
	before := vTree(w.dir)
	j0 := 0
	if verifSymbolic() {
		j0 = len(vFS.journal)
	}
	hadVerdict := r.verdict != 0
	okWanted := r.useVerdict()
	if consolidates && okWanted && !verifSymbolic() {
		// natively the consolidation needs real SQLite files; the symbolic run covers this case
		return
	}
	o := vReapVia(w, via)
	if via != vViaReap {
		verifReach("reap-by-reaper")
	}
	if o.died {
		verifReach("reap-died")
		verifAssert("C12-process-ends-only-on-a-bad-verdict", !okWanted && w.st.fatalFn != nil)
	}
	if !okWanted {
		verifReach("reap-refused")
		if hadVerdict {
			verifReach("reap-refused-from-cache")
		}
		if via != vViaReap {
			verifReach("reaper-refused")
		}
		// (the directory first: natively the consolidation of the model's stand-ins for SQLite
		// files fails half-way, which a look at the error alone would take for a refusal)
		verifAssert("C12-refused-reap-leaves-directory-untouched", vSameStrings(before, vTree(w.dir)))
		verifAssert("C12-reap-fails-on-bad-verdict", o.died || o.failed)
		verifAssert("C12-bad-verdict-does-not-survive-fatal-hook", o.died || w.st.fatalFn == nil)
		verifAssert("C12-refused-reap-completes-nothing", !o.observed && o.n == 0)
		if order {
			for _, e := range vFS.journal[j0:] {
				verifAssert("C12-refused-reap-makes-no-plan", e != "plan-written" && e != "plan-executed")
			}
		}
		return
	}
	verifReach("reap-ok")
	verifAssert("C12-reap-ok-on-good-verdict", !o.died && !o.failed && o.observed)
	if !consolidates {
		verifAssert("C12-reap-removes-older-snapshot", o.n == 1 && !vExists(filepath.Join(w.dir, older)) && vExists(filepath.Join(w.dir, newer)))
	}
	if order {
		// the verification came first
		planAt, lastCRC := -1, -1
		for pos, e := range vFS.journal[j0:] {
			if e == "plan-written" && planAt < 0 {
				planAt = pos
			}
			if strings.HasPrefix(e, "crc ") {
				lastCRC = pos
			}
		}
		verifAssert("C12-reap-plans-after-verifying", planAt >= 0 && lastCRC < planAt)
		verifAssert("C12-reap-verifies-iff-no-verdict-yet", (lastCRC >= 0) == !hadVerdict)
		if !hadVerdict {
			// every data file the store holds at that moment, not just some
			for i, f := range w.files {
				if r.disabled[i] {
					continue
				}
				seen := false
				for _, e := range vFS.journal[j0:] {
					if e == "crc "+f {
						seen = true
					}
				}
				verifAssert("C12-reap-verifies-every-data-file", seen)
			}
		}
	}
}

// leavePlan leaves the plan of an interrupted reap behind: the process died after the plan was
// written and before its one step (removal of the directory) happened.
func (w *vStoreWorld) leavePlan(remove string) {
	p := plan.New()
	p.AddRemoveAll(remove)
	p.NReaped = 1
	vMust(plan.WriteToFile(p, filepath.Join(w.dir, reapPlanFile)))
}

// forget drops the data files below dir from the reference (the directory has been reaped).
func (w *vStoreWorld) forget(r *vRef, dir string) {
	var files []string
	var alt, dis []bool
	for i, f := range w.files {
		if strings.HasPrefix(f, dir+"/") {
			continue
		}
		files, alt, dis = append(files, f), append(alt, r.altered[i]), append(dis, r.disabled[i])
	}
	w.files, r.altered, r.disabled = files, alt, dis
}

// VerifC12Reap: a reap - through whichever entry point it is started - verifies before it
// consolidates or removes anything, see vReapChecked. A reap that finds the plan of an interrupted
// one only finishes that plan (by design without verifying: the files are in an undefined state
// until it is finished); it must not count as the store's first use: the next consumer verifies.
func VerifC12Reap() { vReapScenario(false) }

func vReapScenario(order bool) {
	verifPanicsAreViolations()
	snaps := vReapSnapsPlain
	chain := vChoice("chain", 2) == 1
	if chain {
		snaps = vStoreSnaps // consolidation of WAL files into the database
	}
	w := vNewStoreWorld(snaps)
	defer w.drop()
	via := vChoice("via", vViaCount)
	if vChoice("fatal", 2) == 1 {
		w.st.fatalFn = func(error) { panic(vErrFatal) }
	}
	nStart := len(w.files)
	nOpts := 1 + nStart
	if verifTier() == 1 {
		nOpts += nStart // also: altered and marked "not checksummed"
	}
	f := vChoice("atStart", nOpts)
	if via == vViaReaperSink {
		// the node has been running: one more snapshot was taken (before or after the first use,
		// see below); the reaper's threshold is reached with it
		w.st.SetReapThreshold(len(snaps) + 1)
	} else {
		w.st.SetReapThreshold(len(snaps))
	}
	r := &vRef{altered: make([]bool, nStart+1), disabled: make([]bool, nStart+1)}
	if f > nStart {
		i := f - 1 - nStart
		vAlter(w.files[i])
		vWriteDisabledSidecar(w.files[i])
		r.altered[i], r.disabled[i] = true, true
	} else if f > 0 {
		vAlter(w.files[f-1])
		r.altered[f-1] = true
	}
	// optionally the store has been used before (verdict cached), and things change afterwards
	nBefore := 2
	if chain && verifTier() == 1 {
		nBefore = 3 // also: a snapshot has been opened (and closed) before
	}
	ub := vChoice("usedBefore", nBefore)
	usedBefore := ub > 0
	if usedBefore {
		if ub == 2 {
			vConsume(w, r, vUseOpenNew, false)
		} else {
			vConsume(w, r, vUseEnsureVerify, false)
		}
		if w.died {
			return
		}
		switch a := vChoice("between", 3); a {
		case 1:
			for i, f := range w.files {
				if r.altered[i] && !r.disabled[i] {
					vRepair(f)
					r.altered[i] = false
				}
			}
		case 2:
			last := nStart - 1
			if !r.altered[last] {
				vAlter(w.files[last])
				r.altered[last] = true
			}
		}
	}
	if via == vViaReaperSink {
		w.installIncremental(1, 30)
	}
	r.altered, r.disabled = r.altered[:len(w.files)], r.disabled[:len(w.files)]
	if !chain && !usedBefore && via != vViaReaperSink && vChoice("interrupted", 2) == 1 {
		// an earlier reap of this directory was interrupted
		older := filepath.Join(w.dir, snaps[0].id)
		w.leavePlan(older)
		o := vReapVia(w, via)
		verifReach("reap-resumed")
		verifAssert("C12-resumed-reap-finishes-the-plan", !o.died && !o.failed && o.observed && o.n == 1 && !vExists(older) && !vExists(filepath.Join(w.dir, reapPlanFile)))
		w.forget(r, older)
		// the store's data has not been verified by that: whoever uses it next does it
		verifAssert("C12-resumed-reap-is-not-a-verdict", r.verdict == 0)
		vConsume(w, r, vUseEnsureVerify, order)
		return
	}
	vReapChecked(w, r, via, chain || via == vViaReaperSink, snaps[0].id, snaps[1].id, order)
}

// ---------------------------------------------------------------- node start

// VerifC12Start: the store is built by the real NewStore (Store.check, then the reaper goroutine
// is started) over a directory one file of which may have been altered while the node was down,
// optionally with the plan of an interrupted reap lying there (check finishes it, by design without
// verifying). Nothing of that, nor the questions store.(*Store).Open asks next (List, Len,
// LatestIndexTerm), reads a data file or counts as the first use: whichever consumer comes first
// - Open, EnsureVerify, Verify, Reap, the reaper - verifies every data file before anything else.
func VerifC12Start() { vStartScenario(false) }

func vStartScenario(order bool) {
	verifPanicsAreViolations()
	w := vNewStoreWorld(vStoreSnaps)
	defer w.drop()
	r := &vRef{altered: make([]bool, len(w.files)), disabled: make([]bool, len(w.files))}
	if f := vChoice("atStart", 1+len(w.files)); f > 0 {
		vAlter(w.files[f-1])
		r.altered[f-1] = true
	}
	stale := filepath.Join(w.dir, "1-5-50")
	interrupted := vChoice("interrupted", 2) == 1
	if interrupted {
		// a reap had consolidated everything up to 1-10-100; it died before it removed 1-5-50
		vPutSnapshot(w.dir, vSnap{id: "1-5-50", full: true, term: 1, index: 5})
		w.leavePlan(stale)
	}
	j0 := 0
	if verifSymbolic() {
		j0 = len(vFS.journal)
	}
	st, err := NewStore(w.dir)
	verifAssert("C12-store-starts", err == nil && st != nil)
	w.st, w.reaperRuns = st, true
	defer w.shutdown()
	st.fatalFn = nil
	st.SetReapThreshold(len(w.snaps))
	if interrupted {
		verifReach("start-resumed")
		verifAssert("C12-start-finishes-the-interrupted-reap", !vExists(stale) && !vExists(filepath.Join(w.dir, reapPlanFile)))
	}
	metas, err := st.List()
	verifAssert("C12-start-lists-newest", err == nil && len(metas) == 1 && metas[0].ID == w.snaps[1].id)
	verifAssert("C12-start-counts", st.Len() == len(w.snaps))
	li, lt, err := st.LatestIndexTerm()
	verifAssert("C12-start-latest", err == nil && li == w.snaps[1].index && lt == w.snaps[1].term)
	if order && verifSymbolic() {
		for _, e := range vFS.journal[j0:] {
			for _, f := range w.files {
				verifAssert("C12-start-opens-no-data-file", e != "open "+f)
			}
		}
	}
	verifAssert("C12-start-is-not-a-verdict", r.verdict == 0)
	// the first consumer
	switch c := vChoice("first", 6); c {
	case 0:
		vConsume(w, r, vUseOpenNew, order)
	case 1:
		vConsume(w, r, vUseEnsureVerify, order)
	case 2:
		vConsume(w, r, vUseVerify, order)
	case 3:
		// production: a bad verdict ends the process (the caller's goroutine here)
		st.fatalFn = func(error) { panic(vErrFatal) }
		vConsume(w, r, vUseOpenOld, order)
	case 4:
		vReapChecked(w, r, vViaReap, true, "", "", order)
	case 5:
		vReapChecked(w, r, vViaReaperSignal, true, "", "", order)
	}
}

// shutdown ends the reaper goroutine, if it runs.
func (w *vStoreWorld) shutdown() {
	if w.reaperRuns {
		w.reaperRuns = false
		vMust(w.st.Close())
	}
}

// vTree lists every path below dir (sorted walk).
func vTree(dir string) []string {
	var out []string
	for _, name := range vList(dir) {
		p := filepath.Join(dir, name)
		out = append(out, p)
		if vIsDir(p) {
			out = append(out, vTree(p)...)
		}
	}
	return out
}

// ---------------------------------------------------------------- headers

// VerifC12Header: the checksum put in a stream header is the recorded one, whatever the file
// holds now, unless the file is marked "not checksummed" - then, and only then, it is computed
// from the content; the size is the file's size.
func VerifC12Header() {
	verifPanicsAreViolations()
	root := vNewRoot("vc12")
	defer vDropRoot(root)
	nWAL := vChoice("wals", 3)
	var cfs []*ChecksummedFile
	var rec []uint32
	var dis []bool
	missing := -1
	for i := 0; i <= nWAL; i++ {
		p := filepath.Join(root, dbfileName)
		content := vSQLiteHdr
		if i > 0 {
			p = filepath.Join(root, vWALName(i-1))
			content = vGood[:len(vGood)-i]
		}
		vWriteData(p, content)
		st := vChoice(verifName("state", i), 3)
		if st == 1 {
			vWriteDisabledSidecar(p)
		}
		cf, err := NewChecksummedFileFromFiles(p, p+crcSuffix)
		verifAssert("C12-sidecar-loads", err == nil)
		// any recorded value: the header must carry it, not something recomputed
		cf.CRC32 = verifU32(verifName("recorded", i))
		if st == 2 && missing < 0 {
			vMust(os.Remove(p))
			missing = i
		}
		cfs = append(cfs, cf)
		rec = append(rec, cf.CRC32)
		dis = append(dis, st == 1)
	}
	sh, err := NewChecksummedSnapshotHeader(cfs[0], cfs[1:]...)
	if missing >= 0 {
		verifReach("header-missing-file")
		verifAssert("C12-header-fails-on-missing-file", err != nil && sh == nil)
		return
	}
	verifAssert("C12-header-ok", err == nil && sh != nil)
	full := sh.GetFull()
	verifAssert("C12-header-is-full-snapshot", full != nil && full.DbHeader != nil && len(full.WalHeaders) == nWAL)
	for i := 0; i <= nWAL; i++ {
		var h *proto.Header
		if i == 0 {
			h = full.DbHeader
		} else {
			h = full.WalHeaders[i-1]
		}
		fi, serr := os.Stat(cfs[i].Path)
		vMust(serr)
		verifAssert("C12-header-size-is-file-size", h.SizeBytes == uint64(fi.Size()))
		if dis[i] {
			verifReach("header-disabled")
			verifAssert("C12-header-live-checksum-when-not-checksummed", h.Crc32 == vLiveCRC(cfs[i].Path))
		} else {
			verifReach("header-recorded")
			verifAssert("C12-header-carries-recorded-checksum", h.Crc32 == rec[i])
		}
	}
	// an empty path is refused
	_, err = NewHeaderFromChecksummedFile(&ChecksummedFile{})
	verifAssert("C12-header-refuses-empty-path", err != nil)
}

// VerifC12Twin: claims that an altered file goes unnoticed at first use - must be violated.
func VerifC12Twin() {
	w := vNewStoreWorld(vStoreSnaps)
	defer w.drop()
	vAlter(w.files[2])
	_, rc, err := w.st.Open(w.snaps[1].id)
	verifAssert("twin", err == nil && rc != nil)
}
