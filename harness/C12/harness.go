package snapshot

// C12: corrupt snapshot data is detected before it is used.
//
//   VerifC12Checker    CRCChecker.Check / ChecksummedFile.Check: k <= 3 files, each fine, altered,
//                      unreadable or marked "not checksummed"; worker goroutines and channels run
//                      in the engine's scheduler: an error iff some file fails
//   VerifC12Consumers  two consumers in a row (Open of either snapshot, EnsureVerify, Verify) on
//                      a store whose data is altered before the first or between the two: the first
//                      use verifies every data file, the verdict - good or bad - is kept, a bad one
//                      is returned (or ends the process) and nothing is handed out; the header of a
//                      stream carries the recorded checksums
//   VerifC12Order      (symbolic run only) the same scenarios; the models of the file system record
//                      events: every data file is checksummed before the first one is opened for
//                      streaming, and nothing is opened after a bad verdict
//   VerifC12Reap       a reap on a fresh / verified / condemned store
//   VerifC12Header     NewChecksummedSnapshotHeader / NewHeaderFromChecksummedFile with symbolic
//                      recorded checksums
//
// Checksums are opaque values here: "detected" means "the comparison recorded-vs-content is made
// and its result decides" - the detection power of CRC-32 is not claimed.

import (
	"errors"
	"io"
	"log"
	"os"
	"path/filepath"
	"strings"

	"github.com/rqlite/rqlite/v10/internal/rsum"
	"github.com/rqlite/rqlite/v10/internal/rsync"
	"github.com/rqlite/rqlite/v10/snapshot/plan"
	"github.com/rqlite/rqlite/v10/snapshot/proto"
	"github.com/rqlite/rqlite/v10/snapshot/sidecar"
	pb "google.golang.org/protobuf/proto"
)

const (
	vClean      = iota
	vAltered    // the content is not what the recorded checksum was computed from
	vDisabled   // the sidecar says "not checksummed" (and the content is altered as well)
	vUnreadable // the data file cannot be read
)

// vLiveCRC is the checksum of the file's present content (without leaving a trace in the
// model's journal).
func vLiveCRC(path string) uint32 {
	if verifSymbolic() {
		return vFS.nodes[path].crc
	}
	c, err := rsum.CRC32(path)
	vMust(err)
	return c
}

var vGood = append(append([]byte(nil), vWALHdr...), 1, 2, 3, 4)

// vAlter changes the content of a data file (its sidecar keeps the old checksum).
func vAlter(path string) {
	b, err := vReadAll(path)
	vMust(err)
	b = append(b, 0x5A)
	b[len(b)-2] ^= 0x40
	vMust(os.WriteFile(path, b, 0o644))
}

// vRepair makes the recorded checksum match the present content again.
func vRepair(path string) {
	vMust(sidecar.WriteFile(path+crcSuffix, vLiveCRC(path)))
}

func vReadAll(path string) ([]byte, error) {
	if verifSymbolic() {
		n, ok := vFS.nodes[path]
		if !ok {
			return nil, vErrNotExist
		}
		return append([]byte(nil), n.data...), nil
	}
	return os.ReadFile(path)
}

// google.golang.org/protobuf/proto.Marshal (symbolic run): an opaque encoding.
func vPbMarshal(m pb.Message) ([]byte, error) { return []byte{0xC9, 1, 2, 3}, nil }

// ---------------------------------------------------------------- the checker

// VerifC12Checker: the parallel checker reports an error iff some file fails its check.
func VerifC12Checker() {
	verifPanicsAreViolations()
	root := vNewRoot("vc12")
	defer vDropRoot(root)
	k := vChoice("k", 4)
	c := NewCRCChecker()
	bad := false
	for i := 0; i < k; i++ {
		p := filepath.Join(root, vWALName(i))
		v := vChoice(verifName("verdict", i), 4)
		vWriteData(p, vGood)
		if v == vDisabled {
			vWriteDisabledSidecar(p)
		}
		cf, err := NewChecksummedFileFromFiles(p, p+crcSuffix)
		verifAssert("C12-sidecar-loads", err == nil && cf != nil)
		switch v {
		case vAltered, vDisabled:
			vAlter(p)
		case vUnreadable:
			vMust(os.Remove(p))
		}
		// the single-file check, as documented
		ok, cerr := cf.Check()
		switch v {
		case vClean, vDisabled:
			verifAssert("C12-file-check-passes", ok && cerr == nil)
		case vAltered:
			verifAssert("C12-file-check-detects-altered-content", !ok && cerr == nil)
		case vUnreadable:
			verifAssert("C12-file-check-reports-unreadable-file", !ok && cerr != nil)
		}
		if v == vAltered || v == vUnreadable {
			bad = true
		}
		c.Add(cf)
	}
	ch := c.Check()
	err := <-ch
	if bad {
		verifReach("checker-bad")
	} else if k > 0 {
		verifReach("checker-good")
	}
	verifAssert("C12-checker-error-iff-some-file-fails", (err != nil) == bad)
	_, open := <-ch
	verifAssert("C12-checker-channel-closed-after-verdict", !open)
}

// ---------------------------------------------------------------- a store with data files

var vStoreSnaps = []vSnap{
	{id: "1-10-100", full: true, term: 1, index: 10, wals: 1},
	{id: "1-20-200", term: 1, index: 20, wals: 1},
}

type vStoreWorld struct {
	root  string
	dir   string
	snaps []vSnap
	files []string // every data file, oldest first (database, then WAL files)
	st    *Store
	died  bool
}

var vErrFatal = errors.New("verif: process ended by fatalFn")

func vNewStoreWorld(snaps []vSnap) *vStoreWorld {
	root := vNewRoot("vc12")
	w := &vStoreWorld{root: root, dir: filepath.Join(root, "store"), snaps: snaps}
	vMust(os.MkdirAll(w.dir, 0o755))
	for _, sp := range snaps {
		vPutSnapshot(w.dir, sp)
		sd := filepath.Join(w.dir, sp.id)
		if sp.full {
			w.files = append(w.files, filepath.Join(sd, dbfileName))
		}
		for i := 0; i < sp.wals; i++ {
			w.files = append(w.files, filepath.Join(sd, vWALName(i)))
		}
	}
	w.st = w.newStore()
	return w
}

// newStore: a Store over the directory as NewStore builds it, minus the reaper goroutine.
func (w *vStoreWorld) newStore() *Store {
	return &Store{
		dir:            w.dir,
		fullNeededPath: filepath.Join(w.dir, fullNeededFile),
		reapPlanPath:   filepath.Join(w.dir, reapPlanFile),
		logger:         log.New(io.Discard, "", 0),
		catalog:        &SnapshotCatalog{},
		mrsw:           rsync.NewMultiRSW(),
		reapDisabled:   &rsync.AtomicBool{},
		noVerifyDB:     &rsync.AtomicBool{},
		reapThreshold:  defaultReapThreshold,
		readTimeout:    0,
		reapCh:         make(chan struct{}, 1),
		reapDoneCh:     make(chan struct{}),
		observers:      newObserverSet(),
	}
}

func (w *vStoreWorld) drop() { vDropRoot(w.root) }

// vDies runs f; it reports whether fatalFn ended the process inside it.
func vDies(f func()) (died bool) {
	defer func() {
		if r := recover(); r != nil {
			if e, ok := r.(error); ok && e == vErrFatal {
				died = true
				return
			}
			panic(r)
		}
	}()
	f()
	return false
}

// the reference: which files are altered now, and the verdict the store has cached
type vRef struct {
	altered  []bool // per data file: the content differs from what the recorded checksum covers
	disabled []bool // per data file: marked "not checksummed"
	verdict  int    // 0 none yet, 1 good, 2 bad
}

func (r *vRef) badNow() bool {
	for i := range r.altered {
		if r.altered[i] && !r.disabled[i] {
			return true
		}
	}
	return false
}

// useVerdict is what every consumer that "verifies once before first use" must do: returns
// whether it may go on.
func (r *vRef) useVerdict() bool {
	if r.verdict == 0 {
		r.verdict = 1
		if r.badNow() {
			r.verdict = 2
		}
	}
	return r.verdict == 1
}

const (
	vUseOpenOld = iota // Open of the full snapshot
	vUseOpenNew        // Open of the incremental snapshot (needs every data file)
	vUseEnsureVerify
	vUseVerify
	vUseCount
)

// vConsume runs one consumer and checks it against the reference. journal0 is the length of the
// model's journal before the call (symbolic run, order checks).
func vConsume(w *vStoreWorld, r *vRef, use int, order bool) {
	j0 := 0
	if verifSymbolic() {
		j0 = len(vFS.journal)
	}
	hadVerdict := r.verdict != 0
	var err error
	var rc io.ReadCloser
	died := vDies(func() {
		switch use {
		case vUseOpenOld, vUseOpenNew:
			_, rc, err = w.st.Open(w.snaps[use].id)
		case vUseEnsureVerify:
			err = w.st.EnsureVerify()
		case vUseVerify:
			err = w.st.Verify()
		}
	})
	var okWanted bool
	if use == vUseVerify {
		okWanted = !r.badNow() // an explicit verification always looks at the files
	} else {
		okWanted = r.useVerdict()
	}
	if order {
		vCheckOrder(w, r, use, j0, hadVerdict, okWanted)
	}
	if died {
		w.died = true
		verifReach("died")
		verifAssert("C12-process-ends-only-on-a-bad-verdict", !okWanted && w.st.fatalFn != nil)
		return
	}
	if !okWanted {
		verifReach("refused")
		if hadVerdict && use != vUseVerify {
			verifReach("refused-from-cache")
		}
		verifAssert("C12-bad-verdict-is-returned", err != nil)
		verifAssert("C12-bad-verdict-does-not-survive-fatal-hook", w.st.fatalFn == nil || use == vUseVerify)
		verifAssert("C12-nothing-handed-out-after-bad-verdict", rc == nil)
		return
	}
	verifAssert("C12-consumer-ok-on-good-verdict", err == nil)
	if use != vUseOpenOld && use != vUseOpenNew {
		return
	}
	verifReach("opened")
	if r.badNow() {
		verifReach("opened-after-late-alteration")
	}
	// the stream's header carries the recorded checksums (so that the receiver's own comparison
	// exposes anything that changed since) - the live one only for files marked "not checksummed"
	ls, ok := rc.(*LockingStreamer)
	verifAssert("C12-open-returns-locking-streamer", ok)
	ss, ok := ls.ReadCloser.(*SnapshotStreamer)
	verifAssert("C12-open-wraps-snapshot-streamer", ok && ss.hdr != nil)
	full := ss.hdr.GetFull()
	verifAssert("C12-stream-header-is-full-snapshot", full != nil && full.DbHeader != nil)
	nFiles := 2 // database and WAL file of the full snapshot
	if use == vUseOpenNew {
		nFiles = 3
	}
	verifAssert("C12-stream-covers-the-whole-chain", len(full.WalHeaders) == nFiles-1)
	for i := 0; i < nFiles; i++ {
		h := full.DbHeader
		if i > 0 {
			h = full.WalHeaders[i-1]
		}
		want := w.recorded(i)
		if r.disabled[i] {
			want = vLiveCRC(w.files[i])
			verifReach("header-live-checksum")
		}
		verifAssert("C12-stream-header-carries-recorded-checksum", h.Crc32 == want)
	}
	verifAssert("C12-close-ok", rc.Close() == nil)
}

// recorded returns the checksum stored in the sidecar of data file i.
func (w *vStoreWorld) recorded(i int) uint32 {
	sc, err := sidecar.ReadFile(w.files[i] + crcSuffix)
	vMust(err)
	if sc.Disabled {
		return 0
	}
	c, err := sc.CRC32()
	vMust(err)
	return c
}

// vCheckOrder (symbolic run): what the models of the file system saw during the call.
func vCheckOrder(w *vStoreWorld, r *vRef, use int, j0 int, hadVerdict bool, okWanted bool) {
	if !verifSymbolic() {
		return
	}
	ev := vFS.journal[j0:]
	firstOpen := -1
	crcSeen := make([]int, len(w.files)) // position of the first checksum computation per file
	for i := range crcSeen {
		crcSeen[i] = -1
	}
	for pos, e := range ev {
		if strings.HasPrefix(e, "open ") && firstOpen < 0 {
			for _, f := range w.files {
				if e == "open "+f {
					firstOpen = pos
				}
			}
		}
		for i, f := range w.files {
			if e == "crc "+f && crcSeen[i] < 0 {
				crcSeen[i] = pos
			}
		}
	}
	if !okWanted {
		verifAssert("C12-no-data-file-opened-after-bad-verdict", firstOpen < 0)
	}
	needCheck := use == vUseVerify || !hadVerdict
	for i := range w.files {
		if r.disabled[i] {
			continue
		}
		if needCheck {
			verifReach("order-verified-now")
			verifAssert("C12-every-data-file-checksummed-at-first-use", crcSeen[i] >= 0)
			if firstOpen >= 0 {
				verifAssert("C12-checksummed-before-first-data-read", crcSeen[i] < firstOpen)
			}
		} else {
			verifReach("order-verdict-from-cache")
			verifAssert("C12-verdict-never-recomputed", crcSeen[i] < 0)
		}
	}
}

// vScenario: a store with a full and an incremental snapshot; one data file may be altered (or
// altered and marked "not checksummed") before the first consumer, another change may happen
// between the two consumers.
func vScenario(order bool) {
	verifPanicsAreViolations()
	w := vNewStoreWorld(vStoreSnaps)
	defer w.drop()
	r := &vRef{altered: make([]bool, len(w.files)), disabled: make([]bool, len(w.files))}
	// which files may change, which consumers run: everything in the thorough tier, a
	// representative selection in the quick tier
	startOpts := []int{0, 1, 3, 6} // nothing; database altered; newest WAL altered; newest WAL altered and "not checksummed"
	firstOpts := []int{vUseOpenNew, vUseEnsureVerify, vUseVerify}
	betweenOpts := []int{0, 1, 4} // nothing; repaired; newest WAL altered
	secondOpts := []int{vUseOpenOld, vUseOpenNew, vUseVerify}
	if order {
		betweenOpts = []int{0, 4}
	}
	if verifTier() == 1 {
		startOpts = []int{0, 1, 2, 3, 4, 5, 6}
		firstOpts = []int{vUseOpenOld, vUseOpenNew, vUseEnsureVerify, vUseVerify}
		betweenOpts = []int{0, 1, 2, 3, 4}
		secondOpts = []int{vUseOpenOld, vUseOpenNew, vUseEnsureVerify, vUseVerify}
	}

	// before the node starts
	switch f := startOpts[vChoice("atStart", len(startOpts))]; {
	case f == 0:
	case f <= len(w.files):
		vAlter(w.files[f-1])
		r.altered[f-1] = true
	default:
		i := f - 1 - len(w.files)
		vAlter(w.files[i])
		vWriteDisabledSidecar(w.files[i])
		r.altered[i], r.disabled[i] = true, true
	}
	if r.badNow() && !order && vChoice("fatal", 2) == 1 {
		// production: a bad verdict ends the process
		w.st.fatalFn = func(error) { panic(vErrFatal) }
	}
	first := firstOpts[vChoice("first", len(firstOpts))]
	vConsume(w, r, first, order)
	if w.died {
		return
	}

	// while the node runs
	switch a := betweenOpts[vChoice("between", len(betweenOpts))]; {
	case a == 0:
	case a == 1:
		// whatever was altered is put right again: a bad verdict stays
		for i, f := range w.files {
			if r.altered[i] && !r.disabled[i] {
				vRepair(f)
				r.altered[i] = false
			}
		}
	default:
		i := a - 2
		if !r.altered[i] {
			vAlter(w.files[i])
			r.altered[i] = true
		}
	}
	second := secondOpts[vChoice("second", len(secondOpts))]
	vConsume(w, r, second, order)
}

func VerifC12Consumers() { vScenario(false) }

// VerifC12Order: see the header comment (symbolic run only: natively the real file system keeps
// no journal).
func VerifC12Order() {
	if !verifSymbolic() {
		return
	}
	vScenario(true)
}

// ---------------------------------------------------------------- reap

// (symbolic run) plan.WriteToFile and (*Store).executeReapPlan: the plan's own machinery is the
// subject of C07; here it matters only whether a plan is made and run at all.
// encoding/json.Marshal (symbolic run; reapInternal encodes the consolidated snapshot's metadata)
func vJSONMarshal(v any) ([]byte, error) { return []byte("{json}"), nil }

func vPlanWriteToFile(p *plan.Plan, path string) error {
	vFS.note("plan-written")
	return os.WriteFile(path, []byte("{plan}"), 0o644)
}

func vExecuteReapPlan(s *Store, p *plan.Plan, planPath string) (int, int, error) {
	vFS.note("plan-executed")
	for _, op := range p.Ops {
		if op.Type == plan.OpRemoveAll {
			vMust(os.RemoveAll(op.Src))
		}
	}
	os.Remove(planPath)
	return p.NReaped, p.NCheckpointed, nil
}

var vReapSnapsPlain = []vSnap{
	{id: "1-10-100", full: true, term: 1, index: 10},
	{id: "1-20-200", full: true, term: 1, index: 20},
}

// VerifC12Reap: a reap verifies before it consolidates or removes anything (unless it resumes
// an interrupted reap): on a bad verdict - fresh or cached - it fails and leaves the directory
// exactly as it was.
func VerifC12Reap() {
	verifPanicsAreViolations()
	snaps := vReapSnapsPlain
	chain := vChoice("chain", 2) == 1
	if chain {
		snaps = vStoreSnaps // consolidation of WAL files into the database
	}
	w := vNewStoreWorld(snaps)
	defer w.drop()
	r := &vRef{altered: make([]bool, len(w.files)), disabled: make([]bool, len(w.files))}
	if vChoice("fatal", 2) == 1 {
		w.st.fatalFn = func(error) { panic(vErrFatal) }
	}
	if f := vChoice("atStart", 1+len(w.files)); f > 0 {
		vAlter(w.files[f-1])
		r.altered[f-1] = true
	}
	// optionally the store has been used before (verdict cached), and things change afterwards
	if vChoice("usedBefore", 2) == 1 {
		vConsume(w, r, vUseEnsureVerify, false)
		if w.died {
			return
		}
		switch a := vChoice("between", 3); a {
		case 1:
			for i, f := range w.files {
				if r.altered[i] {
					vRepair(f)
					r.altered[i] = false
				}
			}
		case 2:
			last := len(w.files) - 1
			if !r.altered[last] {
				vAlter(w.files[last])
				r.altered[last] = true
			}
		}
	}
	before := vTree(w.dir)
	j0 := 0
	if verifSymbolic() {
		j0 = len(vFS.journal)
	}
	hadVerdict := r.verdict != 0
	okWanted := r.useVerdict()
	if chain && okWanted && !verifSymbolic() {
		// natively the consolidation needs real SQLite files; the symbolic run covers this case
		return
	}
	var n int
	var err error
	died := vDies(func() { n, _, err = w.st.Reap() })
	if died {
		verifReach("reap-died")
		verifAssert("C12-process-ends-only-on-a-bad-verdict", !okWanted && w.st.fatalFn != nil)
	}
	if !okWanted {
		verifReach("reap-refused")
		if hadVerdict {
			verifReach("reap-refused-from-cache")
		}
		verifAssert("C12-reap-fails-on-bad-verdict", died || err != nil && n == 0)
		verifAssert("C12-refused-reap-leaves-directory-untouched", vSameStrings(before, vTree(w.dir)))
		if verifSymbolic() {
			for _, e := range vFS.journal[j0:] {
				verifAssert("C12-refused-reap-makes-no-plan", e != "plan-written" && e != "plan-executed")
			}
		}
		return
	}
	verifReach("reap-ok")
	verifAssert("C12-reap-ok-on-good-verdict", !died && err == nil)
	if !chain {
		verifAssert("C12-reap-removes-older-snapshot", n == 1 && !vExists(filepath.Join(w.dir, snaps[0].id)) && vExists(filepath.Join(w.dir, snaps[1].id)))
	}
	if verifSymbolic() {
		// the verification came first
		planAt, lastCRC := -1, -1
		for pos, e := range vFS.journal[j0:] {
			if e == "plan-written" && planAt < 0 {
				planAt = pos
			}
			if strings.HasPrefix(e, "crc ") {
				lastCRC = pos
			}
		}
		verifAssert("C12-reap-plans-after-verifying", planAt >= 0 && lastCRC < planAt)
		verifAssert("C12-reap-verifies-iff-no-verdict-yet", (lastCRC >= 0) == !hadVerdict)
	}
}

// vTree lists every path below dir (sorted walk).
func vTree(dir string) []string {
	var out []string
	for _, name := range vList(dir) {
		p := filepath.Join(dir, name)
		out = append(out, p)
		if vIsDir(p) {
			out = append(out, vTree(p)...)
		}
	}
	return out
}

// ---------------------------------------------------------------- headers

// VerifC12Header: the checksum put in a stream header is the recorded one, whatever the file
// holds now, unless the file is marked "not checksummed" - then, and only then, it is computed
// from the content; the size is the file's size.
func VerifC12Header() {
	verifPanicsAreViolations()
	root := vNewRoot("vc12")
	defer vDropRoot(root)
	nWAL := vChoice("wals", 3)
	var cfs []*ChecksummedFile
	var rec []uint32
	var dis []bool
	missing := -1
	for i := 0; i <= nWAL; i++ {
		p := filepath.Join(root, dbfileName)
		content := vSQLiteHdr
		if i > 0 {
			p = filepath.Join(root, vWALName(i-1))
			content = vGood[:len(vGood)-i]
		}
		vWriteData(p, content)
		st := vChoice(verifName("state", i), 3)
		if st == 1 {
			vWriteDisabledSidecar(p)
		}
		cf, err := NewChecksummedFileFromFiles(p, p+crcSuffix)
		verifAssert("C12-sidecar-loads", err == nil)
		// any recorded value: the header must carry it, not something recomputed
		cf.CRC32 = verifU32(verifName("recorded", i))
		if st == 2 && missing < 0 {
			vMust(os.Remove(p))
			missing = i
		}
		cfs = append(cfs, cf)
		rec = append(rec, cf.CRC32)
		dis = append(dis, st == 1)
	}
	sh, err := NewChecksummedSnapshotHeader(cfs[0], cfs[1:]...)
	if missing >= 0 {
		verifReach("header-missing-file")
		verifAssert("C12-header-fails-on-missing-file", err != nil && sh == nil)
		return
	}
	verifAssert("C12-header-ok", err == nil && sh != nil)
	full := sh.GetFull()
	verifAssert("C12-header-is-full-snapshot", full != nil && full.DbHeader != nil && len(full.WalHeaders) == nWAL)
	for i := 0; i <= nWAL; i++ {
		var h *proto.Header
		if i == 0 {
			h = full.DbHeader
		} else {
			h = full.WalHeaders[i-1]
		}
		fi, serr := os.Stat(cfs[i].Path)
		vMust(serr)
		verifAssert("C12-header-size-is-file-size", h.SizeBytes == uint64(fi.Size()))
		if dis[i] {
			verifReach("header-disabled")
			verifAssert("C12-header-live-checksum-when-not-checksummed", h.Crc32 == vLiveCRC(cfs[i].Path))
		} else {
			verifReach("header-recorded")
			verifAssert("C12-header-carries-recorded-checksum", h.Crc32 == rec[i])
		}
	}
	// an empty path is refused
	_, err = NewHeaderFromChecksummedFile(&ChecksummedFile{})
	verifAssert("C12-header-refuses-empty-path", err != nil)
}

// VerifC12Twin: claims that an altered file goes unnoticed at first use - must be violated.
func VerifC12Twin() {
	w := vNewStoreWorld(vStoreSnaps)
	defer w.drop()
	vAlter(w.files[2])
	_, rc, err := w.st.Open(w.snaps[1].id)
	verifAssert("twin", err == nil && rc != nil)
}
