package snapshot

// A small file-system model for the symbolic run (spec.json "models" maps the os / filepath /
// fsutil / sidecar / db helpers the snapshot package calls onto the v* functions below).
// In the native replay the real functions run against a real temporary directory, so every
// behaviour relied upon here is the documented POSIX behaviour of the real call:
//   rename: atomic; missing source fails; a directory cannot replace a non-empty directory,
//           a file cannot replace a directory and vice versa; the target's parent must exist
//   remove: fails on a missing path and on a non-empty directory
//   removeall: removes the subtree, no error when nothing is there
//   create/writefile: fails when the path is a directory or the parent is missing
// Paths are concrete, clean, absolute strings.

import (
	"errors"
	"io/fs"
	"os"
	"path/filepath"
	"strings"
	"time"

	"github.com/hashicorp/raft"
	"github.com/rqlite/rqlite/v10/internal/rsum"
	"github.com/rqlite/rqlite/v10/snapshot/sidecar"
)

type vNode struct {
	dir  bool
	data []byte
	meta *raft.SnapshotMeta // content of a meta.json written through writeMeta
	sc   *sidecar.Sidecar   // content of a sidecar written through sidecar.WriteFile
	crc  uint32             // what rsum.CRC32 computes for this file
	aux  any                // decoded content of any other structured file (a reap plan)
}

type vFSModel struct {
	nodes map[string]*vNode
	order []string // creation order of the keys (deterministic iteration)
	// journal of calls, for oracles that need "what happened before what"
	journal []string
	// process-crash model: the crashAt-th mutating call (counted in ticks) does not happen, the
	// process dies instead (panic(vCrash)); completed calls persist. -1 = never.
	ticks   int
	crashAt int
}

// vCrash is what a dying process unwinds with.
type vCrash struct{ why string }

var vFS *vFSModel

var (
	vErrNotExist = &fs.PathError{Op: "verif", Path: "?", Err: fs.ErrNotExist}
	vErrExist    = errors.New("verif-fs: file exists")
	vErrNotEmpty = errors.New("verif-fs: directory not empty")
	vErrIsDir    = errors.New("verif-fs: is a directory")
	vErrNotDir   = errors.New("verif-fs: not a directory")
	vErrBadData  = errors.New("verif-fs: undecodable content")
)

func vNewFS(root string) *vFSModel {
	m := &vFSModel{nodes: map[string]*vNode{}, crashAt: -1}
	m.put(root, &vNode{dir: true})
	return m
}

func (m *vFSModel) put(p string, n *vNode) {
	if _, ok := m.nodes[p]; !ok {
		m.order = append(m.order, p)
	}
	m.nodes[p] = n
}

func (m *vFSModel) del(p string) {
	delete(m.nodes, p)
	for i, k := range m.order {
		if k == p {
			m.order = append(m.order[:i:i], m.order[i+1:]...)
			break
		}
	}
}

func (m *vFSModel) note(s string) { m.journal = append(m.journal, s) }

// tick is called by every mutating call that is about to succeed, before it changes anything.
func (m *vFSModel) tick(s string) {
	if m.crashAt >= 0 && m.ticks == m.crashAt {
		m.crashAt = -1
		panic(vCrash{"instead of: " + s})
	}
	m.ticks++
	m.journal = append(m.journal, s)
}

// children returns the sorted base names of the entries of directory p.
func (m *vFSModel) children(p string) []string {
	var out []string
	pre := p + "/"
	for _, k := range m.order {
		if strings.HasPrefix(k, pre) && !strings.Contains(k[len(pre):], "/") {
			out = append(out, k[len(pre):])
		}
	}
	for i := 1; i < len(out); i++ {
		for j := i; j > 0 && out[j] < out[j-1]; j-- {
			out[j], out[j-1] = out[j-1], out[j]
		}
	}
	return out
}

func (m *vFSModel) parentIsDir(p string) bool {
	par, ok := m.nodes[filepath.Dir(p)]
	return ok && par.dir
}

// ---------------------------------------------------------------- os

type vDirEntry struct {
	name string
	dir  bool
}

func (e vDirEntry) Name() string { return e.name }
func (e vDirEntry) IsDir() bool  { return e.dir }
func (e vDirEntry) Type() fs.FileMode {
	if e.dir {
		return fs.ModeDir
	}
	return 0
}
func (e vDirEntry) Info() (fs.FileInfo, error) { return vFileInfo{e.name, e.dir, 0}, nil }

type vFileInfo struct {
	name string
	dir  bool
	size int64
}

func (fi vFileInfo) Name() string { return fi.name }
func (fi vFileInfo) Size() int64  { return fi.size }
func (fi vFileInfo) Mode() fs.FileMode {
	if fi.dir {
		return fs.ModeDir | 0o755
	}
	return 0o644
}
func (fi vFileInfo) ModTime() time.Time { return time.Time{} }
func (fi vFileInfo) IsDir() bool        { return fi.dir }
func (fi vFileInfo) Sys() any           { return nil }

// os.ReadDir
func vOsReadDir(name string) ([]os.DirEntry, error) {
	n, ok := vFS.nodes[name]
	if !ok {
		return nil, vErrNotExist
	}
	if !n.dir {
		return nil, vErrNotDir
	}
	var out []os.DirEntry
	for _, c := range vFS.children(name) {
		out = append(out, vDirEntry{c, vFS.nodes[name+"/"+c].dir})
	}
	return out, nil
}

// os.Stat
func vOsStat(name string) (os.FileInfo, error) {
	n, ok := vFS.nodes[name]
	if !ok {
		return nil, vErrNotExist
	}
	return vFileInfo{filepath.Base(name), n.dir, int64(len(n.data))}, nil
}

// os.MkdirAll
func vOsMkdirAll(path string, perm os.FileMode) error {
	if n, ok := vFS.nodes[path]; ok {
		if n.dir {
			return nil
		}
		return vErrNotDir
	}
	par := filepath.Dir(path)
	if par != path {
		if err := vOsMkdirAll(par, perm); err != nil {
			return err
		}
	}
	vFS.tick("mkdir " + path)
	vFS.put(path, &vNode{dir: true})
	return nil
}

// os.Rename
func vOsRename(oldpath, newpath string) error {
	src, ok := vFS.nodes[oldpath]
	if !ok {
		return vErrNotExist
	}
	if !vFS.parentIsDir(newpath) {
		return vErrNotExist
	}
	if oldpath == newpath {
		return nil
	}
	dst, replaces := vFS.nodes[newpath]
	if replaces {
		switch {
		case src.dir && !dst.dir:
			return vErrNotDir
		case !src.dir && dst.dir:
			return vErrIsDir
		case src.dir && len(vFS.children(newpath)) > 0:
			return vErrNotEmpty
		}
	}
	if src.dir && strings.HasPrefix(newpath, oldpath+"/") {
		return errors.New("verif-fs: rename into itself")
	}
	vFS.tick("rename " + oldpath + " " + newpath)
	if replaces {
		vFS.del(newpath)
	}
	// move the subtree
	keys := append([]string(nil), vFS.order...)
	for _, k := range keys {
		if k == oldpath || strings.HasPrefix(k, oldpath+"/") {
			n := vFS.nodes[k]
			vFS.del(k)
			vFS.put(newpath+k[len(oldpath):], n)
		}
	}
	return nil
}

// os.Remove
func vOsRemove(name string) error {
	n, ok := vFS.nodes[name]
	if !ok {
		return vErrNotExist
	}
	if n.dir && len(vFS.children(name)) > 0 {
		return vErrNotEmpty
	}
	vFS.tick("remove " + name)
	vFS.del(name)
	return nil
}

// os.RemoveAll
func vOsRemoveAll(path string) error {
	// (one step of the crash model; a real crash can leave part of the subtree behind, which for
	// the users of this model - temporary directories that are removed again at the next start,
	// snapshot directories handled by the reap plan of C07 - makes no difference)
	if _, ok := vFS.nodes[path]; ok {
		vFS.tick("removeall " + path)
	}
	keys := append([]string(nil), vFS.order...)
	for _, k := range keys {
		if k == path || strings.HasPrefix(k, path+"/") {
			vFS.del(k)
		}
	}
	return nil
}

func vCreateFile(name string, what string) (*vNode, error) {
	if n, ok := vFS.nodes[name]; ok && n.dir {
		return nil, vErrIsDir
	}
	if !vFS.parentIsDir(name) {
		return nil, vErrNotExist
	}
	vFS.tick(what + " " + name)
	n := &vNode{}
	vFS.put(name, n)
	return n, nil
}

// os.WriteFile
func vOsWriteFile(name string, data []byte, perm os.FileMode) error {
	n, err := vCreateFile(name, "write")
	if err != nil {
		return err
	}
	n.data = append([]byte(nil), data...)
	n.crc = vCRCOf(data)
	return nil
}

// vCRCOf is the model's checksum of a content: any function of the bytes will do, the code
// under test only ever compares such values (the native run uses the real CRC32).
func vCRCOf(data []byte) uint32 {
	var s uint32 = 17
	for _, b := range data {
		s = s*31 + uint32(b)
	}
	return s
}

// os.Create / (*os.File).Sync / (*os.File).Close, as used for flag files
func vOsCreate(name string) (*os.File, error) {
	if _, err := vCreateFile(name, "create"); err != nil {
		return nil, err
	}
	return new(os.File), nil
}
func vFileSync(f *os.File) error  { return nil }
func vFileClose(f *os.File) error { return nil }

// path/filepath.Glob for patterns of the form <dir>/*<suffix>
func vGlob(pattern string) ([]string, error) {
	dir, base := filepath.Dir(pattern), filepath.Base(pattern)
	if !strings.HasPrefix(base, "*") || strings.ContainsAny(base[1:], "*?[\\") {
		panic("verif-fs: unsupported glob pattern " + pattern)
	}
	n, ok := vFS.nodes[dir]
	if !ok || !n.dir {
		return nil, nil
	}
	var out []string
	for _, c := range vFS.children(dir) {
		if strings.HasSuffix(c, base[1:]) {
			out = append(out, dir+"/"+c)
		}
	}
	return out, nil
}

// ---------------------------------------------------------------- helpers of the snapshot package

// fsutil.SyncDirMaybe
func vSyncDirMaybe(dir string) error {
	n, ok := vFS.nodes[dir]
	if !ok || !n.dir {
		return vErrNotExist
	}
	vFS.tick("syncdir " + dir) // changes nothing, but is a point at which the process can die
	return nil
}

// readRaftMeta
func vReadRaftMeta(path string) (*raft.SnapshotMeta, error) {
	n, ok := vFS.nodes[path]
	if !ok || n.dir {
		return nil, vErrNotExist
	}
	if n.meta == nil {
		return nil, vErrBadData
	}
	c := *n.meta
	return &c, nil
}

// writeMeta
func vWriteMeta(dir string, meta *raft.SnapshotMeta) error {
	n, err := vCreateFile(metaPath(dir), "meta")
	if err != nil {
		return err
	}
	c := *meta
	n.meta = &c
	n.data = []byte("{meta}")
	return nil
}

// sidecar.ReadFile
func vSidecarRead(path string) (*sidecar.Sidecar, error) {
	n, ok := vFS.nodes[path]
	if !ok || n.dir {
		return nil, vErrNotExist
	}
	if n.sc == nil {
		return nil, vErrBadData
	}
	c := *n.sc
	return &c, nil
}

// sidecar.WriteFile
func vSidecarWrite(path string, sum uint32) error {
	n, err := vCreateFile(path, "sidecar")
	if err != nil {
		return err
	}
	n.sc = sidecar.NewCastagnoli(sum)
	n.data = []byte("{crc}")
	return nil
}

// rsum.CRC32
func vRsumCRC32(path string) (uint32, error) {
	n, ok := vFS.nodes[path]
	if !ok || n.dir {
		return 0, vErrNotExist
	}
	vFS.note("crc " + path) // the whole file is read
	return n.crc, nil
}

// os.Open
func vOsOpen(name string) (*os.File, error) {
	if _, ok := vFS.nodes[name]; !ok {
		return nil, vErrNotExist
	}
	vFS.note("open " + name)
	return new(os.File), nil
}

// vWriteDisabledSidecar marks the data file at path as "not checksummed" (a sidecar written by a
// newer release that was downgraded from).
func vWriteDisabledSidecar(path string) {
	if verifSymbolic() {
		n, err := vCreateFile(path+crcSuffix, "sidecar")
		vMust(err)
		n.sc = &sidecar.Sidecar{Type: sidecar.TypeCastagnoli, Disabled: true}
		n.data = []byte("{crc}")
		return
	}
	vMust(os.WriteFile(path+crcSuffix, []byte(`{"crc":"","type":"castagnoli","disabled":true}`), 0o644))
}

// db.IsValidSQLiteFile
func vIsValidSQLiteFile(path string) bool {
	n, ok := vFS.nodes[path]
	return ok && !n.dir && len(n.data) >= 16 && string(n.data[:13]) == "SQLite format"
}

// db.IsValidSQLiteWALFile
func vIsValidSQLiteWALFile(path string) bool {
	n, ok := vFS.nodes[path]
	if !ok || n.dir || len(n.data) < 8 {
		return false
	}
	d := n.data
	return d[0] == 0x37 && d[1] == 0x7f && d[2] == 0x06 && (d[3] == 0x82 || d[3] == 0x83) &&
		d[4] == 0x00 && d[5] == 0x2d && d[6] == 0xe2 && d[7] == 0x18
}

// ---------------------------------------------------------------- a store directory in either world

var vSQLiteHdr = append([]byte("SQLite format 3\x00"), make([]byte, 84)...)
var vWALHdr = []byte{0x37, 0x7f, 0x06, 0x82, 0x00, 0x2d, 0xe2, 0x18, 0, 0, 0x10, 0, 0, 0, 0, 0, 0, 0, 0, 0, 0, 0, 0, 0, 0, 0, 0, 0, 0, 0, 0, 0}

// vSnap describes one snapshot of a store directory.
type vSnap struct {
	id          string
	full        bool
	term, index uint64
	wals        int
}

func vWALName(i int) string { return "0000000" + string(rune('1'+i)) + walfileSuffix }

func vSameStrings(a, b []string) bool {
	if len(a) != len(b) {
		return false
	}
	for i := range a {
		if a[i] != b[i] {
			return false
		}
	}
	return true
}

func vMust(err error) {
	if err != nil {
		panic("verif: world setup: " + err.Error())
	}
}

// vNewRoot creates an empty scratch directory: a node of the model in the symbolic run, a real
// temporary directory natively. Everything below it is created with the ordinary os calls
// (which are the models above in the symbolic run).
func vNewRoot(tag string) string {
	if verifSymbolic() {
		root := "/" + tag
		vFS = vNewFS(root)
		return root
	}
	d, err := os.MkdirTemp("", tag+"-")
	vMust(err)
	return d
}

func vDropRoot(root string) {
	if !verifSymbolic() && root != "" {
		os.RemoveAll(root)
	}
}

func vDataCRC(path string) (uint32, error) { return rsum.CRC32(path) }

// vWriteData writes a data file with a correct checksum sidecar.
func vWriteData(path string, content []byte) {
	vMust(os.WriteFile(path, content, 0o644))
	sum, err := vDataCRC(path)
	vMust(err)
	vMust(sidecar.WriteFile(path+crcSuffix, sum))
}

// vPutSnapshot writes a complete snapshot directory.
func vPutSnapshot(dir string, sp vSnap) {
	sd := filepath.Join(dir, sp.id)
	vMust(os.MkdirAll(sd, 0o755))
	vMust(writeMeta(sd, &raft.SnapshotMeta{Version: 1, ID: sp.id, Index: sp.index, Term: sp.term}))
	if sp.full {
		vWriteData(filepath.Join(sd, dbfileName), vSQLiteHdr)
	}
	for i := 0; i < sp.wals; i++ {
		vWriteData(filepath.Join(sd, vWALName(i)), vWALHdr)
	}
}

// vExists / vIsDir / vList look at the directory tree in either world.
func vExists(p string) bool {
	_, err := os.Stat(p)
	return err == nil
}

func vIsDir(p string) bool {
	fi, err := os.Stat(p)
	return err == nil && fi.IsDir()
}

func vList(dir string) []string {
	ents, err := os.ReadDir(dir)
	if err != nil {
		return nil
	}
	var out []string
	for _, e := range ents {
		out = append(out, e.Name())
	}
	return out
}
