package rsync

// Engine self-test: ordinary Go whose assertions hold natively; the engine must agree.

import (
	"bytes"
	"context"
	"encoding/binary"
	"errors"
	"fmt"
	"io"
	"sort"
	"strings"
	"time"
)

type t00Err struct{ code int }

func (e *t00Err) Error() string { return fmt.Sprintf("t00 %d", e.code) }

var errT00 = errors.New("t00 sentinel")

func VerifT00Strings() {
	var sb strings.Builder
	sb.WriteString("hello")
	sb.WriteByte(' ')
	sb.WriteString("World")
	s := sb.String()
	verifAssert("builder", s == "hello World" && len(s) == 11)
	verifAssert("lower", strings.ToLower(s) == "hello world")
	verifAssert("contains", strings.Contains(s, "lo W") && !strings.Contains(s, "xyz"))
	verifAssert("prefix", strings.HasPrefix(s, "hell") && strings.HasSuffix(s, "rld"))
	verifAssert("index", strings.Index(s, "World") == 6 && strings.IndexByte(s, 'W') == 6)
	verifAssert("split", len(strings.Split("a,b,c", ",")) == 3 && strings.Split("a,b,c", ",")[1] == "b")
	verifAssert("trim", strings.TrimSpace("  x y \n") == "x y" && strings.Trim("--a--", "-") == "a")
	verifAssert("join", strings.Join([]string{"a", "b"}, "+") == "a+b")
	verifAssert("fields", len(strings.Fields(" a  b c ")) == 3)
	verifAssert("replace", strings.ReplaceAll("aXbXc", "X", "--") == "a--b--c")
	verifAssert("equalfold", strings.EqualFold("PRAGMA", "pragma"))
	verifAssert("sprintf", fmt.Sprintf("%d-%s-%v-%x", 42, "s", true, 255) == "42-s-true-ff")
	verifAssert("repeat", strings.Repeat("ab", 3) == "ababab")
	b := []byte(s)
	b[0] = 'H'
	verifAssert("bytes", string(b) == "Hello World" && s[0] == 'h')
	n := 0
	for i, r := range "aé" {
		n += i + int(r)
	}
	verifAssert("range-string", n == 0+'a'+1+'é')
}

func VerifT00Errors() {
	e1 := fmt.Errorf("wrap: %w", errT00)
	verifAssert("is", errors.Is(e1, errT00) && !errors.Is(e1, io.EOF))
	e2 := fmt.Errorf("again %d: %w", 3, e1)
	verifAssert("is2", errors.Is(e2, errT00) && e2.Error() == "again 3: wrap: t00 sentinel")
	var te *t00Err
	e3 := fmt.Errorf("x: %w", &t00Err{7})
	verifAssert("as", errors.As(e3, &te) && te.code == 7)
	verifAssert("unwrap", errors.Unwrap(e1) == errT00)
	verifAssert("join", errors.Is(errors.Join(io.EOF, errT00), errT00))
	var nilErr error
	verifAssert("nil", !errors.Is(nilErr, errT00))
}

func VerifT00Bytes() {
	var buf bytes.Buffer
	binary.Write(&buf, binary.BigEndian, uint32(0xdeadbeef))
	buf.WriteString("xyz")
	b := buf.Bytes()
	verifAssert("len", len(b) == 7)
	verifAssert("be", binary.BigEndian.Uint32(b) == 0xdeadbeef && binary.LittleEndian.Uint32(b) == 0xefbeadde)
	r := bytes.NewReader(b)
	hdr := make([]byte, 4)
	n, err := io.ReadFull(r, hdr)
	verifAssert("readfull", n == 4 && err == nil)
	rest, err := io.ReadAll(r)
	verifAssert("readall", err == nil && string(rest) == "xyz")
	_, err = io.ReadFull(r, hdr)
	verifAssert("eof", err == io.EOF)
	r2 := bytes.NewReader([]byte{1, 2})
	_, err = io.ReadFull(r2, hdr)
	verifAssert("unexpected", err == io.ErrUnexpectedEOF)
	var out bytes.Buffer
	nn, err := io.Copy(&out, io.LimitReader(bytes.NewReader([]byte("abcdef")), 4))
	verifAssert("copy", nn == 4 && err == nil && out.String() == "abcd")
	verifAssert("equal", bytes.Equal([]byte("ab"), []byte("ab")) && !bytes.Equal([]byte("ab"), []byte("ac")))
	x := binary.BigEndian.AppendUint64(nil, 0x0102030405060708)
	verifAssert("append64", len(x) == 8 && x[0] == 1 && x[7] == 8)
	v, k := binary.Uvarint([]byte{0xac, 0x02})
	verifAssert("uvarint", v == 300 && k == 2)
}

func VerifT00MapsSort() {
	m := map[string]int{"b": 2, "a": 1, "c": 3}
	m["d"] = 4
	delete(m, "b")
	_, ok := m["b"]
	verifAssert("map", len(m) == 3 && m["a"] == 1 && !ok && m["zz"] == 0)
	keys := make([]string, 0)
	sum := 0
	for k, v := range m {
		keys = append(keys, k)
		sum += v
	}
	sort.Strings(keys)
	verifAssert("keys", sum == 8 && strings.Join(keys, "") == "acd")
	type kv struct {
		k string
		v int
	}
	xs := []kv{{"x", 3}, {"y", 1}, {"z", 2}}
	sort.Slice(xs, func(i, j int) bool { return xs[i].v < xs[j].v })
	verifAssert("sortslice", xs[0].k == "y" && xs[1].k == "z" && xs[2].k == "x")
	ints := []int{5, 2, 9, 1}
	sort.Ints(ints)
	verifAssert("sortints", ints[0] == 1 && ints[3] == 9)
	i := sort.Search(len(ints), func(i int) bool { return ints[i] >= 5 })
	verifAssert("search", i == 2)
	type key struct {
		a int
		b string
	}
	sm := map[key]bool{{1, "x"}: true}
	verifAssert("structkey", sm[key{1, "x"}] && !sm[key{2, "x"}])
	im := map[any]int{1: 1, "s": 2}
	verifAssert("ifacekey", im[1] == 1 && im["s"] == 2 && im[2] == 0)
}

func VerifT00Context() {
	ctx, cancel := context.WithCancel(context.Background())
	verifAssert("live", ctx.Err() == nil)
	cancel()
	<-ctx.Done()
	verifAssert("cancelled", errors.Is(ctx.Err(), context.Canceled))
	ctx2, cancel2 := context.WithTimeout(context.Background(), 5*time.Second)
	defer cancel2()
	t0 := time.Now()
	<-ctx2.Done()
	verifAssert("deadline", errors.Is(ctx2.Err(), context.DeadlineExceeded) && time.Since(t0) == 5*time.Second)
	ctx3 := context.WithValue(context.Background(), "k", 7)
	verifAssert("value", ctx3.Value("k") == 7 && ctx3.Value("x") == nil)
}

type t00Shape interface{ Area() int }
type t00Sq struct{ s int }
type t00Rect struct{ w, h int }

func (s t00Sq) Area() int    { return s.s * s.s }
func (r *t00Rect) Area() int { return r.w * r.h }

func t00Sum[T int | int64](xs ...T) (s T) {
	for _, x := range xs {
		s += x
	}
	return
}

func VerifT00Lang() {
	shapes := []t00Shape{t00Sq{3}, &t00Rect{2, 5}}
	tot := 0
	for _, s := range shapes {
		switch v := s.(type) {
		case t00Sq:
			tot += v.Area()
		case *t00Rect:
			tot += v.Area() * 10
		}
	}
	verifAssert("typeswitch", tot == 109)
	verifAssert("generic", t00Sum(1, 2, 3) == 6 && t00Sum[int64](4, 5) == 9)
	f := func() (r int) {
		defer func() {
			if x := recover(); x != nil {
				r = 42
			}
		}()
		var p *t00Rect
		return p.w
	}
	verifAssert("recover", f() == 42)
	var arr [4]int
	sl := arr[1:3]
	sl = append(sl, 9)
	verifAssert("alias", arr[3] == 9 && len(sl) == 3 && cap(sl) == 3)
	sl = append(sl, 10)
	sl[0] = 7
	verifAssert("realloc", arr[1] == 0 && len(sl) == 4)
	x := int8(-128)
	y := uint8(200)
	verifAssert("wrap", x-1 == 127 && y+100 == 44 && -7/2 == -3 && -7%2 == -1 && int32(-8)>>1 == -4 && uint32(1)<<31>>31 == 1)
	ch := make(chan int, 2)
	done := make(chan struct{})
	go func() {
		s := 0
		for v := range ch {
			s += v
		}
		if s == 6 {
			close(done)
		}
	}()
	ch <- 1
	ch <- 2
	ch <- 3
	close(ch)
	<-done
	cnt := 0
	for i := range 3 {
		cnt += i
	}
	verifAssert("rangeint", cnt == 3)
	lbl := 0
outer:
	for i := 0; i < 3; i++ {
		for j := 0; j < 3; j++ {
			if j == 2 {
				continue outer
			}
			if i == 2 {
				break outer
			}
			lbl++
		}
	}
	verifAssert("labels", lbl == 4)
	verifAssert("minmax", min(3, 1, 2) == 1 && max(3, 1, 2) == 3)
}
