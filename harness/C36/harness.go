package throttler

import (
	"context"
	"errors"
	"sync/atomic"
	"time"
)

// verifCtx is a context whose Done channel and error are controlled by the harness.
type verifCtx struct {
	done chan struct{}
	err  error
}

func (c *verifCtx) Deadline() (time.Time, bool) { return time.Time{}, false }
func (c *verifCtx) Done() <-chan struct{}       { return c.done }
func (c *verifCtx) Err() error                  { return c.err }
func (c *verifCtx) Value(any) any               { return nil }

var _ context.Context = (*verifCtx)(nil)

func verifTable(n int) []time.Duration {
	d := make([]time.Duration, n)
	for i := range d {
		d[i] = time.Duration(verifI64(verifName("delay", i)))
		// durations in the table are within +-2^40 ns (about 18 minutes)
		verifAssume(d[i] > -(1<<40) && d[i] < (1<<40))
	}
	return d
}

// VerifC36Step: one operation from an arbitrary in-range state (inductive step).
func VerifC36Step() {
	n := 1 + verifChoice("tableLen", 4) // 1..4
	delays := verifTable(n)
	rate := int(verifI64("releaseRate"))
	idle := time.Duration(0)
	if verifChoice("idleOn", 2) == 1 {
		idle = 30 * time.Second
	}
	t := New(delays, rate, idle)
	lvl := verifInt("level", 0, n-1)
	t.delayFactor = lvl

	effRate := rate
	if effRate < 1 {
		effRate = 1
	}
	switch verifChoice("op", 4) {
	case 0:
		t.Signal()
		want := lvl + 1
		if want > n-1 {
			want = n - 1
			verifReach("signal-capped")
		}
		verifAssert("C36-signal-plus-one-capped", t.Level() == want)
	case 1:
		t.Release()
		want := 0
		if lvl >= effRate { // no overflow: lvl <= 3
			want = lvl - effRate
			verifReach("release-partial")
		}
		verifAssert("C36-release-minus-rate-floored", t.Level() == want)
	case 2:
		t.Reset()
		verifAssert("C36-reset-zero", t.Level() == 0)
	case 3:
		// idle: a signal arms the idle timer; after idleTimeout without signals the level is 0
		if idle == 0 {
			return
		}
		t.Signal()
		verifAdvanceClock(int64(idle) - 1)
		verifSettle()
		after := lvl + 1
		if after > n-1 {
			after = n - 1
		}
		verifAssert("C36-no-reset-before-idle-timeout", t.Level() == after)
		verifAdvanceClock(1)
		verifSettle()
		verifReach("idle-fired")
		verifAssert("C36-idle-resets-to-zero", t.Level() == 0)
	}
	l := t.Level()
	verifAssert("C36-level-in-range", l >= 0 && l <= n-1)
	verifAssert("C36-getdelay-is-table-entry", t.GetDelay() == delays[l])
}

// VerifC36Delay: Delay waits exactly the current delay on the model clock, or returns the
// context's error as soon as the context ends.
func VerifC36Delay() {
	n := 1 + verifChoice("tableLen", 3)
	delays := verifTable(n)
	t := New(delays, 1, 0)
	lvl := verifInt("level", 0, n-1)
	t.delayFactor = lvl
	d := delays[lvl]

	ctxErr := errors.New("ctx ended")
	ctx := &verifCtx{done: make(chan struct{})}
	mode := verifChoice("ctx", 3)
	cancelAfter := int64(0)
	switch mode {
	case 1: // already ended
		ctx.err = ctxErr
		close(ctx.done)
	case 2: // ends while waiting
		cancelAfter = verifI64("cancelAfter")
		verifAssume(cancelAfter > 0 && cancelAfter < (1<<41))
		go func() {
			time.Sleep(time.Duration(cancelAfter))
			ctx.err = ctxErr
			close(ctx.done)
		}()
	}
	t0 := verifClock()
	err := t.Delay(ctx)
	el := verifClock() - t0

	switch {
	case d == 0:
		verifAssert("C36-zero-delay-returns-at-once", err == nil && el == 0)
	case mode == 0:
		verifReach("waited")
		verifAssert("C36-delay-returns-nil", err == nil)
		if d > 0 {
			verifAssert("C36-delay-waits-exactly-d", el == int64(d))
		} else {
			verifAssert("C36-negative-delay-no-wait", el == 0)
		}
	case mode == 1:
		if d > 0 {
			verifReach("ctx-already-done")
			verifAssert("C36-ctx-done-returns-early", err == ctxErr && el == 0)
		}
	case mode == 2:
		if d > 0 && cancelAfter < int64(d) {
			verifReach("ctx-cancel-during-wait")
			verifAssert("C36-ctx-cancel-returns-its-error", err == ctxErr && el == cancelAfter)
		}
		if d > 0 && cancelAfter > int64(d) {
			verifAssert("C36-delay-wins", err == nil && el == int64(d))
		}
	}
	verifAssert("C36-never-longer-than-delay", d <= 0 || el <= int64(d))
}

// VerifC36Seq: bounded sequences from New against a reference level.
func VerifC36Seq() {
	n := 1 + verifChoice("tableLen", 3)
	delays := verifTable(n)
	rate := 1 + verifChoice("rate", 3)
	idle := 10 * time.Second
	t := New(delays, rate, idle)
	ref := 0
	K := 4
	if verifTier() == 1 {
		K = 6
	}
	for i := 0; i < K; i++ {
		switch verifChoice(verifName("op", i), 4) {
		case 0:
			t.Signal()
			if ref < n-1 {
				ref++
			}
		case 1:
			t.Release()
			ref -= rate
			if ref < 0 {
				ref = 0
			}
		case 2:
			t.Reset()
			ref = 0
		case 3:
			// let the idle period elapse; the timer is armed only after a Signal/Release
			verifAdvanceClock(int64(idle))
			verifSettle()
			ref = 0
		}
		verifAssert("C36-seq-level", t.Level() == ref)
		verifAssert("C36-seq-delay", t.GetDelay() == delays[ref])
	}
}

func VerifC36Twin() {
	delays := verifTable(2)
	t := New(delays, 1, 0)
	t.Signal()
	verifAssert("twin", t.Level() == 0)
}

// ---------------------------------------------------------------------------------------------
// Concurrent callers: requests (Delay), pressure signals (Signal/Release/Reset), observers
// (Level/GetDelay) and the idle timer act on one throttler at the same time.
//
// Every call runs on its own goroutine, so that a call which does not come back is observable:
// after each step the harness waits until every goroutine is finished or parked (verifSettle) and
// then looks at completion flags. The model clock only moves when the harness sleeps, and it
// sleeps either exactly up to the next instant at which the statement says something happens
// (a request's delay is over, the idle timeout expires) or to some instant strictly before it.
//
// Oracle, from the property statement:
//   - Signal, Release, Reset, Level and GetDelay return without any (model) time passing, whatever
//     requests are waiting ("never block behind a waiting request");
//   - the level follows the reference arithmetic, and is zero once the idle timeout after the last
//     Signal/Release has passed - also while requests are waiting;
//   - a request issued at clock s when the current delay was d returns at s+d with nil, not later
//     and not earlier, whatever happens to the level meanwhile; if its context ends first it
//     returns at that instant with the context's error.

// verifC36NativeRest is installed by rest_test.go (native replay build only): testing/synctest's
// Wait never returns while a goroutine of the bubble is parked on a sync.RWMutex whose holder waits
// for the fake clock, so the native verifSettle needs a wait that counts such a goroutine as parked -
// as the symbolic verifSettle does.
var verifC36NativeRest func()

func verifC36UseNativeRest() {
	if verifC36NativeRest != nil {
		verifWaitHook = verifC36NativeRest
	}
}

type verifC36Req struct {
	ctx      *verifCtx
	start    int64         // clock when the request was issued
	d        time.Duration // the delay current at that moment (reference)
	pre      bool          // its context had ended before it was issued
	canceled bool          // the harness ended its context while it was waiting ...
	cancelAt int64         // ... at this clock
	seen     bool          // completion already checked
	done     atomic.Int32
	end      int64
	err      error
}

type verifC36Call struct {
	done  atomic.Int32
	level int
	delay time.Duration
}

type verifC36H struct {
	t      *Throttler
	delays []time.Duration
	n      int
	rate   int
	idle   time.Duration
	ref    int   // reference level
	armed  bool  // reference: the idle timeout is running ...
	idleAt int64 // ... and expires at this clock
	reqs   []*verifC36Req
	ctxErr error
}

// Delay tables and idle timeouts of the concrete sequences: every order relation between the
// delays of neighbouring levels, the idle timeout and zero occurs.
var verifC36Tables = [][]time.Duration{
	{0, 100 * time.Millisecond, 250 * time.Millisecond},
	{0, 300 * time.Millisecond, 100 * time.Millisecond}, // not monotone
	{0, 0, 70 * time.Millisecond},                       // a level without delay
	{0, 50 * time.Millisecond},
}
var verifC36Idles = []time.Duration{0, 40 * time.Millisecond, 150 * time.Millisecond, time.Second}

func verifC36NewH(delays []time.Duration, rate int, idle time.Duration) *verifC36H {
	h := &verifC36H{n: len(delays), rate: rate, idle: idle, delays: delays, ctxErr: errors.New("ctx ended")}
	h.t = New(h.delays, rate, h.idle)
	return h
}

// verifC36SymH: any table of n non-negative durations below 2^40 ns (negative entries:
// VerifC36Delay; posOnly: the levels above zero have a delay), any idle timeout below 2^40 ns.
func verifC36SymH(n int, rate int, idleOn bool, posOnly bool) *verifC36H {
	delays := make([]time.Duration, n)
	for i := range delays {
		delays[i] = time.Duration(verifI64(verifName("delay", i)))
		if i == 0 || !posOnly {
			verifAssume(delays[i] >= 0)
		} else {
			verifAssume(delays[i] > 0)
		}
		verifAssume(delays[i] < (1 << 40))
	}
	idle := time.Duration(0)
	if idleOn {
		idle = time.Duration(verifI64("idle"))
		verifAssume(idle > 0)
		verifAssume(idle < (1 << 40))
	}
	return verifC36NewH(delays, rate, idle)
}

// cleanup ends the context of every request still waiting, so that no goroutine of the native
// replay stays behind when the entry is over (or has failed).
func (h *verifC36H) cleanup() {
	for _, r := range h.reqs {
		if r.done.Load() == 0 && r.ctx.err == nil {
			r.ctx.err = h.ctxErr
			close(r.ctx.done)
		}
	}
}

// call runs one of Signal/Release/Reset/observe on its own goroutine and waits for quiescence.
func (h *verifC36H) call(kind int) *verifC36Call {
	c := &verifC36Call{}
	go func() {
		switch kind {
		case 0:
			h.t.Signal()
		case 1:
			h.t.Release()
		case 2:
			h.t.Reset()
		case 3:
			c.level = h.t.Level()
			c.delay = h.t.GetDelay()
		}
		c.done.Store(1)
	}()
	verifSettle()
	return c
}

func (h *verifC36H) signal() {
	c := h.call(0)
	verifAssert("C36-signal-returns-at-once", c.done.Load() == 1)
	if h.ref < h.n-1 {
		h.ref++
	}
	h.touch()
}

func (h *verifC36H) release() {
	c := h.call(1)
	verifAssert("C36-release-returns-at-once", c.done.Load() == 1)
	h.ref -= h.rate
	if h.ref < 0 {
		h.ref = 0
	}
	h.touch()
}

func (h *verifC36H) reset() {
	c := h.call(2)
	verifAssert("C36-reset-returns-at-once", c.done.Load() == 1)
	h.ref = 0
	h.armed = false
}

// touch: a Signal or Release (re)starts the idle timeout.
func (h *verifC36H) touch() {
	if h.idle > 0 {
		h.armed = true
		h.idleAt = verifClock() + int64(h.idle)
	}
}

// observe: Level and GetDelay answer at once and agree with the reference.
func (h *verifC36H) observe() {
	c := h.call(3)
	verifAssert("C36-level-getdelay-never-block", c.done.Load() == 1)
	verifAssert("C36-conc-level", c.level == h.ref)
	verifAssert("C36-conc-getdelay", c.delay == h.delays[h.ref])
}

// request issues a Delay on its own goroutine.
func (h *verifC36H) request(ctxEnded bool) {
	r := &verifC36Req{ctx: &verifCtx{done: make(chan struct{})}, pre: ctxEnded}
	if ctxEnded {
		r.ctx.err = h.ctxErr
		close(r.ctx.done)
	}
	r.start = verifClock()
	r.d = h.delays[h.ref]
	h.reqs = append(h.reqs, r)
	go func() {
		err := h.t.Delay(r.ctx)
		r.end = verifClock()
		r.err = err
		r.done.Store(1)
	}()
	verifSettle()
}

// cancel ends the context of the oldest request that is still waiting; false if there is none.
func (h *verifC36H) cancel() bool {
	for _, r := range h.reqs {
		if r.done.Load() == 0 && r.ctx.err == nil {
			r.canceled = true
			r.cancelAt = verifClock()
			r.ctx.err = h.ctxErr
			close(r.ctx.done)
			verifSettle()
			return true
		}
	}
	return false
}

// nextEvent: the earliest coming instant at which the reference says something happens.
func (h *verifC36H) nextEvent() (int64, bool) {
	next, have := int64(0), false
	if h.armed {
		next, have = h.idleAt, true
	}
	for _, r := range h.reqs {
		if r.seen {
			continue
		}
		e := r.start + int64(r.d)
		if !have || e < next {
			next, have = e, true
		}
	}
	return next, have
}

// sleep moves the model clock: to the next event exactly (exact), or to an instant before it
// (name != "": any such instant; else half way, 10 ms if nothing is pending).
func (h *verifC36H) sleep(exact bool, name string) bool {
	next, have := h.nextEvent()
	now := verifClock()
	var a int64
	switch {
	case exact:
		if !have {
			return false
		}
		a = next - now
	case name != "":
		a = verifI64(name)
		verifAssume(a > 0)
		if have {
			verifAssume(a < next-now)
		} else {
			verifAssume(a < (1 << 40))
		}
	case have:
		a = (next - now) / 2
		if a < 1 {
			return false
		}
	default:
		a = int64(10 * time.Millisecond)
	}
	time.Sleep(time.Duration(a))
	verifSettle()
	if h.armed && verifClock() >= h.idleAt {
		// the idle timeout has passed without Signal/Release: back to zero, timer at rest
		verifReach("idle-expired")
		for _, r := range h.reqs {
			if !r.seen && r.done.Load() == 0 {
				verifReach("idle-expired-while-request-waits")
			}
		}
		h.ref = 0
		h.armed = false
	}
	return true
}

// checkRequests: every request is finished exactly when the statement says so.
func (h *verifC36H) checkRequests() {
	now := verifClock()
	for _, r := range h.reqs {
		if r.seen {
			continue
		}
		done := r.done.Load() == 1
		due := r.start + int64(r.d)
		switch {
		case r.pre && r.d > 0:
			// the context had ended already: no wait at all
			verifAssert("C36-ended-context-returns-at-once", done)
			verifAssert("C36-ended-context-error", r.err == h.ctxErr && r.end == r.start)
			r.seen = true
		case r.canceled:
			verifReach("context-ended-while-waiting")
			verifAssert("C36-context-end-stops-the-wait-at-once", done)
			verifAssert("C36-context-end-error", r.err == h.ctxErr && r.end == r.cancelAt)
			r.seen = true
		case done:
			verifAssert("C36-request-waits-the-delay-current-at-its-start", r.end == due)
			verifAssert("C36-request-returns-nil", r.err == nil)
			r.seen = true
		default:
			verifAssert("C36-request-waits-no-longer-than-delay", now < due)
		}
	}
}

func (h *verifC36H) waiting() int {
	k := 0
	for _, r := range h.reqs {
		if r.done.Load() == 0 {
			k++
		}
	}
	return k
}

// step performs operation op (0..7) and checks the oracle; false: op not applicable here.
func (h *verifC36H) step(op int, sleepName string) bool {
	w := h.waiting()
	switch op {
	case 0:
		h.signal()
		if w > 0 {
			verifReach("signal-while-request-waits")
		}
	case 1:
		h.release()
		if w > 0 {
			verifReach("release-while-request-waits")
		}
	case 2:
		h.reset()
		if w > 0 {
			verifReach("reset-while-request-waits")
		}
	case 3:
		h.request(false)
		if w > 0 {
			verifReach("two-requests-waiting")
		}
	case 4:
		h.request(true)
	case 5:
		if !h.cancel() {
			return false
		}
	case 6:
		if !h.sleep(true, "") {
			return false
		}
	case 7:
		if !h.sleep(false, sleepName) {
			return false
		}
	}
	h.checkRequests()
	h.observe()
	return true
}

// VerifC36Conc: every sequence of K concurrent operations (signal, release, reset, request,
// request with an ended context, context end, sleep to / to before the next event) on the
// concrete tables, against the reference.
func VerifC36Conc() {
	verifC36UseNativeRest()
	var delays []time.Duration
	var idle time.Duration
	rate := 1
	K := 3
	if verifTier() == 1 {
		// sequences of 4 on the first two tables, of 3 on the others; every idle timeout, both rates
		tb := verifChoice("table", len(verifC36Tables))
		if tb <= 1 {
			K = 4
		}
		delays = verifC36Tables[tb]
		idle = verifC36Idles[verifChoice("idle", len(verifC36Idles))]
		if len(delays) > 2 {
			rate = 1 + verifChoice("rate", 2)
		}
	} else {
		delays = verifC36Tables[0]
		idle = verifC36Idles[verifChoice("idle", 3)]
	}
	h := verifC36NewH(delays, rate, idle)
	defer h.cleanup()
	// reach the start level by pressure signals (this also starts the idle timeout)
	pre := 1 + verifChoice("startLevel", h.n-1)
	for i := 0; i < pre; i++ {
		h.signal()
	}
	for i := 0; i < K; i++ {
		if !h.step(verifChoice(verifName("op", i), 8), "") {
			return
		}
	}
}

// VerifC36ConcSym: the same oracle for ANY delay table and idle timeout on the scenario
// "a request is waiting; the level changes or the idle timeout expires; a second request
// arrives; its context ends or its delay passes".
func VerifC36ConcSym() {
	verifC36UseNativeRest()
	n, rate, pre := 2, 1, 1
	thorough := verifTier() == 1
	if thorough {
		// table length, release rate, start level
		cfg := [][3]int{{2, 1, 1}, {3, 1, 2}, {3, 2, 1}}[verifChoice("cfg", 3)]
		n, rate, pre = cfg[0], cfg[1], cfg[2]
	}
	// quick tier: every level above zero has a delay, and with an idle timeout only "time passes,
	// B arrives, time passes" (the other combinations: thorough)
	idleOn := verifChoice("idleOn", 2) == 1
	thin := idleOn && !thorough
	h := verifC36SymH(n, rate, idleOn, !thorough)
	defer h.cleanup()
	for i := 0; i < pre; i++ {
		h.signal()
	}
	h.step(3, "")        // request A
	h.step(7, "pauseNs") // part of A's delay passes (or of the idle timeout, if that is shorter)
	// the level changes / time passes up to the next event (A is over, or the idle timeout expires)
	change, ctxEnded, then := 3, 0, 1
	if !thin {
		change, ctxEnded, then = verifChoice("change", 4), verifChoice("ctxEnded", 2), verifChoice("then", 2)
	}
	h.step([]int{0, 1, 2, 6}[change], "")
	// request B, its context alive or ended
	h.step(3+ctxEnded, "")
	// B's context ends, or the next event comes
	if !h.step(5+then, "") {
		return
	}
	h.step(6, "")
}

// VerifC36Race: a request, a level change and an observer START at the same time; the scheduler
// (entry option max_preempt) interleaves them at their lock operations. Whatever the interleaving:
// the level change and the observer return without time passing, the observer sees the level before
// or after the change, the request waits exactly the delay of one of these two levels.
func VerifC36Race() {
	verifC36UseNativeRest()
	rate, table := 1, 0
	if verifTier() == 1 {
		rate, table = 1+verifChoice("rate", 2), verifChoice("table", 3)
	}
	h := verifC36NewH(verifC36Tables[table], rate, 0)
	defer h.cleanup()
	pre := 1 + verifChoice("startLevel", h.n-1)
	for i := 0; i < pre; i++ {
		h.signal()
	}
	before := h.ref
	after := 0
	kind := verifChoice("change", 3)
	switch kind {
	case 0:
		after = before
		if after < h.n-1 {
			after++
		}
	case 1:
		after = before - rate
		if after < 0 {
			after = 0
		}
	}
	r := &verifC36Req{ctx: &verifCtx{done: make(chan struct{})}}
	r.start = verifClock()
	h.reqs = append(h.reqs, r)
	w, o := &verifC36Call{}, &verifC36Call{}
	go func() {
		err := h.t.Delay(r.ctx)
		r.end = verifClock()
		r.err = err
		r.done.Store(1)
	}()
	go func() {
		switch kind {
		case 0:
			h.t.Signal()
		case 1:
			h.t.Release()
		case 2:
			h.t.Reset()
		}
		w.done.Store(1)
	}()
	go func() {
		o.level = h.t.Level()
		o.delay = h.t.GetDelay()
		o.done.Store(1)
	}()
	verifSettle()
	h.ref = after
	verifAssert("C36-race-change-returns-at-once", w.done.Load() == 1)
	verifAssert("C36-race-observer-returns-at-once", o.done.Load() == 1)
	verifAssert("C36-race-level-before-or-after", o.level == before || o.level == after)
	verifAssert("C36-race-getdelay-before-or-after", o.delay == h.delays[before] || o.delay == h.delays[after])
	// the request: the delay of the level before or after the change, nothing else
	lo, hi := h.delays[before], h.delays[after]
	if lo > hi {
		lo, hi = hi, lo
	}
	for _, d := range []time.Duration{lo, hi} {
		if r.done.Load() == 1 {
			break
		}
		if wait := r.start + int64(d) - verifClock(); wait > 0 {
			time.Sleep(time.Duration(wait))
			verifSettle()
		}
	}
	verifAssert("C36-race-request-waits-no-longer-than-delay", r.done.Load() == 1)
	el := time.Duration(r.end - r.start)
	if lo != hi && el == hi {
		verifReach("request-saw-the-longer-delay")
	}
	if lo != hi && el == lo {
		verifReach("request-saw-the-shorter-delay")
	}
	verifAssert("C36-race-request-waits-a-current-delay", el == lo || el == hi)
	verifAssert("C36-race-request-returns-nil", r.err == nil)
	h.observe()
}
