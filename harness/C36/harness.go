package throttler

import (
	"context"
	"errors"
	"time"
)

// verifCtx is a context whose Done channel and error are controlled by the harness.
type verifCtx struct {
	done chan struct{}
	err  error
}

func (c *verifCtx) Deadline() (time.Time, bool) { return time.Time{}, false }
func (c *verifCtx) Done() <-chan struct{}       { return c.done }
func (c *verifCtx) Err() error                  { return c.err }
func (c *verifCtx) Value(any) any               { return nil }

var _ context.Context = (*verifCtx)(nil)

func verifTable(n int) []time.Duration {
	d := make([]time.Duration, n)
	for i := range d {
		d[i] = time.Duration(verifI64(verifName("delay", i)))
		// durations in the table are within +-2^40 ns (about 18 minutes)
		verifAssume(d[i] > -(1<<40) && d[i] < (1<<40))
	}
	return d
}

// VerifC36Step: one operation from an arbitrary in-range state (inductive step).
func VerifC36Step() {
	n := 1 + verifChoice("tableLen", 4) // 1..4
	delays := verifTable(n)
	rate := int(verifI64("releaseRate"))
	idle := time.Duration(0)
	if verifChoice("idleOn", 2) == 1 {
		idle = 30 * time.Second
	}
	t := New(delays, rate, idle)
	lvl := verifInt("level", 0, n-1)
	t.delayFactor = lvl

	effRate := rate
	if effRate < 1 {
		effRate = 1
	}
	switch verifChoice("op", 4) {
	case 0:
		t.Signal()
		want := lvl + 1
		if want > n-1 {
			want = n - 1
			verifReach("signal-capped")
		}
		verifAssert("C36-signal-plus-one-capped", t.Level() == want)
	case 1:
		t.Release()
		want := 0
		if lvl >= effRate { // no overflow: lvl <= 3
			want = lvl - effRate
			verifReach("release-partial")
		}
		verifAssert("C36-release-minus-rate-floored", t.Level() == want)
	case 2:
		t.Reset()
		verifAssert("C36-reset-zero", t.Level() == 0)
	case 3:
		// idle: a signal arms the idle timer; after idleTimeout without signals the level is 0
		if idle == 0 {
			return
		}
		t.Signal()
		verifAdvanceClock(int64(idle) - 1)
		verifSettle()
		after := lvl + 1
		if after > n-1 {
			after = n - 1
		}
		verifAssert("C36-no-reset-before-idle-timeout", t.Level() == after)
		verifAdvanceClock(1)
		verifSettle()
		verifReach("idle-fired")
		verifAssert("C36-idle-resets-to-zero", t.Level() == 0)
	}
	l := t.Level()
	verifAssert("C36-level-in-range", l >= 0 && l <= n-1)
	verifAssert("C36-getdelay-is-table-entry", t.GetDelay() == delays[l])
}

// VerifC36Delay: Delay waits exactly the current delay on the model clock, or returns the
// context's error as soon as the context ends.
func VerifC36Delay() {
	n := 1 + verifChoice("tableLen", 3)
	delays := verifTable(n)
	t := New(delays, 1, 0)
	lvl := verifInt("level", 0, n-1)
	t.delayFactor = lvl
	d := delays[lvl]

	ctxErr := errors.New("ctx ended")
	ctx := &verifCtx{done: make(chan struct{})}
	mode := verifChoice("ctx", 3)
	cancelAfter := int64(0)
	switch mode {
	case 1: // already ended
		ctx.err = ctxErr
		close(ctx.done)
	case 2: // ends while waiting
		cancelAfter = verifI64("cancelAfter")
		verifAssume(cancelAfter > 0 && cancelAfter < (1<<41))
		go func() {
			time.Sleep(time.Duration(cancelAfter))
			ctx.err = ctxErr
			close(ctx.done)
		}()
	}
	t0 := verifClock()
	err := t.Delay(ctx)
	el := verifClock() - t0

	switch {
	case d == 0:
		verifAssert("C36-zero-delay-returns-at-once", err == nil && el == 0)
	case mode == 0:
		verifReach("waited")
		verifAssert("C36-delay-returns-nil", err == nil)
		if d > 0 {
			verifAssert("C36-delay-waits-exactly-d", el == int64(d))
		} else {
			verifAssert("C36-negative-delay-no-wait", el == 0)
		}
	case mode == 1:
		if d > 0 {
			verifReach("ctx-already-done")
			verifAssert("C36-ctx-done-returns-early", err == ctxErr && el == 0)
		}
	case mode == 2:
		if d > 0 && cancelAfter < int64(d) {
			verifReach("ctx-cancel-during-wait")
			verifAssert("C36-ctx-cancel-returns-its-error", err == ctxErr && el == cancelAfter)
		}
		if d > 0 && cancelAfter > int64(d) {
			verifAssert("C36-delay-wins", err == nil && el == int64(d))
		}
	}
	verifAssert("C36-never-longer-than-delay", d <= 0 || el <= int64(d))
}

// VerifC36Seq: bounded sequences from New against a reference level.
func VerifC36Seq() {
	n := 1 + verifChoice("tableLen", 3)
	delays := verifTable(n)
	rate := 1 + verifChoice("rate", 3)
	idle := 10 * time.Second
	t := New(delays, rate, idle)
	ref := 0
	K := 4
	if verifTier() == 1 {
		K = 6
	}
	for i := 0; i < K; i++ {
		switch verifChoice(verifName("op", i), 4) {
		case 0:
			t.Signal()
			if ref < n-1 {
				ref++
			}
		case 1:
			t.Release()
			ref -= rate
			if ref < 0 {
				ref = 0
			}
		case 2:
			t.Reset()
			ref = 0
		case 3:
			// let the idle period elapse; the timer is armed only after a Signal/Release
			verifAdvanceClock(int64(idle))
			verifSettle()
			ref = 0
		}
		verifAssert("C36-seq-level", t.Level() == ref)
		verifAssert("C36-seq-delay", t.GetDelay() == delays[ref])
	}
}

func VerifC36Twin() {
	delays := verifTable(2)
	t := New(delays, 1, 0)
	t.Signal()
	verifAssert("twin", t.Level() == 0)
}
