package throttler

// Native replay build only.
//
// The symbolic verifSettle returns when every other goroutine is finished or parked - parked on a
// channel, a timer or a lock alike. Its native counterpart inside a testing/synctest bubble is
// synctest.Wait, which only counts DURABLY blocked goroutines: a goroutine parked on a sync.Mutex
// or sync.RWMutex is not one of them, so Wait (and the fake clock) never get past a goroutine that
// is parked on a lock whose holder waits for the fake clock. That is exactly the situation the
// concurrent entries of this harness have to recognise, so they install verifC36Rest in place of
// synctest.Wait: it returns when every other goroutine of the bubble is durably blocked or parked
// in sync.(RW)Mutex.(R)Lock, read off the goroutine states the runtime reports.

import (
	"bytes"
	"context"
	"runtime"
	"sync"
	"testing"
	"testing/synctest"
	"time"
)

func init() { verifC36NativeRest = verifC36Rest }

func verifC36Rest() {
	buf := make([]byte, 1<<20)
	for spin := 0; ; spin++ {
		runtime.Gosched()
		n := runtime.Stack(buf, true)
		if verifC36AtRest(buf[:n]) {
			return
		}
		if spin > 50_000_000 {
			panic("verifC36Rest: the goroutines of the bubble do not come to rest")
		}
	}
}

// verifC36AtRest reads an all-goroutines stack dump (the calling goroutine comes first).
func verifC36AtRest(dump []byte) bool {
	first := true
	for _, blk := range bytes.Split(dump, []byte("\n\n")) {
		if !bytes.HasPrefix(blk, []byte("goroutine ")) {
			continue
		}
		if first {
			first = false // the caller
			continue
		}
		hdr := blk
		if i := bytes.IndexByte(hdr, '\n'); i >= 0 {
			hdr = hdr[:i]
		}
		lb, rb := bytes.IndexByte(hdr, '['), bytes.LastIndexByte(hdr, ']')
		if lb < 0 || rb < lb {
			continue
		}
		parts := bytes.Split(hdr[lb+1:rb], []byte(", "))
		inBubble := false
		for _, p := range parts[1:] {
			if bytes.HasPrefix(p, []byte("synctest bubble")) {
				inBubble = true
			}
		}
		if !inBubble {
			continue
		}
		st := string(parts[0])
		switch {
		case bytes.HasSuffix(parts[0], []byte("(durable)")):
		case st == "sync.RWMutex.Lock" || st == "sync.RWMutex.RLock" || st == "sync.Mutex.Lock":
		default:
			return false
		}
	}
	return true
}

// TestVerifC36NativeRWMutex: preconditions of the encoding, checked on the real runtime.
//  1. sync.RWMutex as the engine models it: while a writer waits for a read lock to be released,
//     a NEW reader parks behind it, and the writer's Unlock admits that reader.
//  2. verifC36Rest returns although goroutines are parked on the lock, and the fake clock of the
//     bubble is still where it was.
func TestVerifC36NativeRWMutex(t *testing.T) {
	synctest.Test(t, func(t *testing.T) {
		var mu sync.RWMutex
		t0 := time.Now()
		mu.RLock() // a reader holds the lock
		var om sync.Mutex
		var order []string
		note := func(s string) { om.Lock(); order = append(order, s); om.Unlock() }
		has := func(s string) bool {
			om.Lock()
			defer om.Unlock()
			for _, o := range order {
				if o == s {
					return true
				}
			}
			return false
		}
		go func() { mu.Lock(); note("w"); mu.Unlock() }()
		verifC36Rest()
		if has("w") {
			t.Fatalf("writer got the lock while a read lock was held")
		}
		if mu.TryRLock() {
			t.Fatalf("a new reader got in although a writer is waiting")
		}
		go func() { mu.RLock(); note("r"); mu.RUnlock() }()
		verifC36Rest()
		if has("r") {
			t.Fatalf("a new reader got in although a writer is waiting")
		}
		if !time.Now().Equal(t0) {
			t.Fatalf("the fake clock moved")
		}
		mu.RUnlock()
		verifC36Rest()
		if !has("w") || !has("r") || order[0] != "w" {
			t.Fatalf("after RUnlock: order=%v, want writer then reader", order)
		}
		// a request waiting out its delay does not keep the others from coming to rest
		th := New([]time.Duration{0, time.Second}, 1, 0)
		th.Signal()
		ctx, cancel := context.WithCancel(context.Background())
		go th.Delay(ctx)
		verifC36Rest()
		synctest.Wait()
		cancel()
	})
}
