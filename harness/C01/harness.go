package http

// =============================================================================================
// C01 obligation O1 (package http): every replicated write passes through the rewriter with the
// caller's opt-outs and nothing else.
//
// Database equality on the replicas is SQLite's business and outside; what rqlite's code owes is
// that no statement reaches the replicated log with a non-deterministic function still in it unless
// the caller asked for that. The real (*Service).ServeHTTP -> handleExecute / execute /
// queuedExecute / handleRequest / handleQuery run on hand-built requests; the real query-parameter
// parsing (NewQueryParams), the real proxy.Proxy and the real queue.Queue sit between the handlers
// and the sinks. The sinks are models of proxy.Store and proxy.Cluster (the local store, and the
// leader a request is forwarded to when the local node is not the leader) and the consumer side of
// the statement queue; they record the statements exactly as they arrive.
//
// Every statement of a request carries RANDOM() and datetime('now'). The observation at a sink is
// per statement: is a call of random( still there, is 'now' still there.
//   * engine: command/sql.Process is replaced (spec "models") by a marking stub with the rewriter's
//     contract (C14 decides the real one): with rwrand it replaces RANDOM() by a literal, with
//     rwtime it replaces 'now' by a literal, in place, and it records its calls; ParseRequest
//     (encoding/json) is replaced by a function returning fresh statements for the body's texts;
//     (*Service).writeResponse (encoding/json) is a no-op;
//   * native replay: nothing is replaced - the real JSON parser and the real rewriter run, and the
//     same observation is made on their output.
//
// Oracle (from the statement: writes whose values come from RANDOM() or date/time functions at
// 'now' converge; excluded by design: "requests that disable rewriting"):
//   * whatever reaches a sink that feeds the replicated log - Execute, Request, the queue, and
//     Query at level strong - is the request's statements, all of them, in order, and
//       random( is gone  iff  the caller did not pass norwrandom,
//       'now'   is gone  iff  the caller did not pass norwtime,
//     except that with noparse, on the endpoints that honour it (execute, request, query), every
//     statement arrives untouched; on the queued path, which never promised to honour noparse,
//     either reading is accepted (all untouched, or rewritten per the two opt-outs);
//   * a request forwarded to the leader carries the same (rewritten) statements as the local
//     attempt;
//   * engine only: the rewriter ran at most once per request, over the very slice that reached the
//     sink, with flags equal to the negated opt-outs.
// =============================================================================================

import (
	"context"
	"errors"
	"io"
	"log"
	"net"
	"net/http"
	"net/url"
	"strings"
	"time"

	clstrPB "github.com/rqlite/rqlite/v10/cluster/proto"
	command "github.com/rqlite/rqlite/v10/command/proto"
	"github.com/rqlite/rqlite/v10/proxy"
	"github.com/rqlite/rqlite/v10/queue"
	"github.com/rqlite/rqlite/v10/store"
)

// ---------------------------------------------------------------------------------------------
// request body, response writer

func voItoa(n int) string {
	if n == 0 {
		return "0"
	}
	var b []byte
	for n > 0 {
		b = append([]byte{byte('0' + n%10)}, b...)
		n /= 10
	}
	return string(b)
}

// voSQL is statement i of a request: a write (or, for the query endpoint, a read) that uses both
// kinds of non-deterministic function. 7001+i identifies it.
func voSQL(i int, read bool) string {
	id := voItoa(7001 + i)
	if read {
		return "SELECT " + id + ", RANDOM(), datetime('now')"
	}
	return "INSERT INTO t(id, r, ts) VALUES(" + id + ", RANDOM(), datetime('now'))"
}

type voBody struct {
	sqls []string
	text []byte
	off  int
}

// voJSONBody: the JSON array-of-strings form of a request.
func voJSONBody(sqls []string) *voBody {
	b := &voBody{sqls: sqls}
	b.text = append(b.text, '[')
	for i, s := range sqls {
		if i > 0 {
			b.text = append(b.text, ',')
		}
		b.text = append(b.text, '"')
		b.text = append(b.text, s...)
		b.text = append(b.text, '"')
	}
	b.text = append(b.text, ']')
	return b
}

// voTextBody: a text/plain request (one statement, the body is the SQL).
func voTextBody(sql string) *voBody {
	return &voBody{sqls: []string{sql}, text: []byte(sql)}
}

func (b *voBody) Read(p []byte) (int, error) {
	if b.off >= len(b.text) {
		return 0, io.EOF
	}
	n := copy(p, b.text[b.off:])
	b.off += n
	return n, nil
}
func (b *voBody) Close() error { return nil }

// voParseRequest: engine-side stand-in for ParseRequest (fresh statements for the body's texts).
func voParseRequest(r io.Reader) ([]*command.Statement, error) {
	b, ok := r.(*voBody)
	if !ok {
		return nil, ErrInvalidJSON
	}
	if len(b.sqls) == 0 {
		return nil, ErrNoStatements
	}
	var stmts []*command.Statement
	for _, s := range b.sqls {
		stmts = append(stmts, &command.Statement{Sql: s})
	}
	return stmts, nil
}

// voWriteResponse: engine-side stand-in for (*Service).writeResponse (encoding/json); what the
// client is told is not part of this claim.
func voWriteResponse(s *Service, w http.ResponseWriter, qp QueryParams, j Responser) {
	w.Write([]byte("{}"))
}

type voWriter struct {
	hdr  http.Header
	code int
	body []byte
}

func (w *voWriter) Header() http.Header { return w.hdr }
func (w *voWriter) WriteHeader(code int) {
	if w.code == 0 {
		w.code = code
	}
}
func (w *voWriter) Write(p []byte) (int, error) {
	if w.code == 0 {
		w.code = http.StatusOK
	}
	w.body = append(w.body, p...)
	return len(p), nil
}

// ---------------------------------------------------------------------------------------------
// the rewriter's contract (engine only)

type voProcCall struct {
	stmts          []*command.Statement
	rwrand, rwtime bool
}

var voProcCalls []voProcCall

const (
	voRandLiteral = "4611686018427387904"
	voTimeLiteral = "2460000.500000"
)

func voProcess(stmts []*command.Statement, rwrand, rwtime bool) error {
	voProcCalls = append(voProcCalls, voProcCall{stmts, rwrand, rwtime})
	for i := range stmts {
		if rwrand {
			stmts[i].Sql = strings.ReplaceAll(stmts[i].Sql, "RANDOM()", voRandLiteral)
		}
		if rwtime {
			stmts[i].Sql = strings.ReplaceAll(stmts[i].Sql, "'now'", voTimeLiteral)
		}
	}
	return nil
}

// ---------------------------------------------------------------------------------------------
// sinks

const (
	voSinkExecute = iota
	voSinkRequest
	voSinkQuery
	voSinkQueue
)

type voArrival struct {
	sink   int
	remote bool // at the leader, forwarded by the proxy
	level  command.ConsistencyLevel
	stmts  []*command.Statement
	sqls   []string // the texts at the instant of arrival
}

type voWorld struct {
	s        *Service
	arrivals []*voArrival
	outcome  int // what the local store answers: 0 done, 1 not the leader (the proxy forwards), 2 some error
}

func (w *voWorld) arrive(sink int, remote bool, level command.ConsistencyLevel, stmts []*command.Statement) {
	a := &voArrival{sink: sink, remote: remote, level: level, stmts: stmts}
	for _, st := range stmts {
		a.sqls = append(a.sqls, st.Sql)
	}
	w.arrivals = append(w.arrivals, a)
}

var voErrOther = errors.New("verif: some store error")

func (w *voWorld) localErr() error {
	switch w.outcome {
	case 1:
		return store.ErrNotLeader
	case 2:
		return voErrOther
	}
	return nil
}

// voStore is the http.Store (only Leader is used on these paths).
type voStore struct {
	Store
	w *voWorld
}

func (s *voStore) Leader() (*store.Server, error) {
	return &store.Server{ID: "1", Addr: "leader:4002"}, nil
}

// voPStore is the proxy.Store: the local node.
type voPStore struct {
	proxy.Store
	w *voWorld
}

func (p *voPStore) Execute(ctx context.Context, er *command.ExecuteRequest) ([]*command.ExecuteQueryResponse, uint64, error) {
	p.w.arrive(voSinkExecute, false, 0, er.Request.Statements)
	return nil, 1, p.w.localErr()
}

func (p *voPStore) Query(ctx context.Context, qr *command.QueryRequest) ([]*command.QueryRows, command.ConsistencyLevel, uint64, error) {
	p.w.arrive(voSinkQuery, false, qr.Level, qr.Request.Statements)
	return nil, qr.Level, 1, p.w.localErr()
}

func (p *voPStore) Request(ctx context.Context, eqr *command.ExecuteQueryRequest) ([]*command.ExecuteQueryResponse, uint64, uint64, error) {
	p.w.arrive(voSinkRequest, false, eqr.Level, eqr.Request.Statements)
	return nil, 1, 1, p.w.localErr()
}

func (p *voPStore) LeaderAddr() (string, error) { return "leader:4002", nil }

// voCluster is the proxy.Cluster: the leader, reached over the cluster connection.
type voCluster struct {
	proxy.Cluster
	w *voWorld
}

func (c *voCluster) Execute(ctx context.Context, er *command.ExecuteRequest, nodeAddr string, creds *clstrPB.Credentials,
	timeout time.Duration, retries int) ([]*command.ExecuteQueryResponse, uint64, error) {
	c.w.arrive(voSinkExecute, true, 0, er.Request.Statements)
	return nil, 1, nil
}

func (c *voCluster) Query(ctx context.Context, qr *command.QueryRequest, nodeAddr string, creds *clstrPB.Credentials,
	timeout time.Duration, retries int) ([]*command.QueryRows, uint64, error) {
	c.w.arrive(voSinkQuery, true, qr.Level, qr.Request.Statements)
	return nil, 1, nil
}

func (c *voCluster) Request(ctx context.Context, eqr *command.ExecuteQueryRequest, nodeAddr string, creds *clstrPB.Credentials,
	timeout time.Duration, retries int) ([]*command.ExecuteQueryResponse, uint64, uint64, error) {
	c.w.arrive(voSinkRequest, true, eqr.Level, eqr.Request.Statements)
	return nil, 1, 1, nil
}

// voHTTPCluster is the http.Cluster (redirects only; not reached without the redirect parameter).
type voHTTPCluster struct{ Cluster }

type voAddr struct{}

func (voAddr) Network() string { return "tcp" }
func (voAddr) String() string  { return "node:4001" }

type voListener struct{ net.Listener }

func (voListener) Addr() net.Addr { return voAddr{} }

func voNewWorld() *voWorld {
	voProcCalls = nil
	w := &voWorld{}
	s := &Service{
		closeCh:             make(chan struct{}),
		queueDone:           make(chan struct{}),
		ln:                  voListener{},
		statuses:            map[string]StatusReporter{},
		DefaultQueueCap:     16,
		DefaultQueueBatchSz: 1,
		DefaultQueueTimeout: 100 * time.Millisecond,
		DefaultQueueTx:      true,
		logger:              log.New(io.Discard, "", 0),
	}
	s.store = &voStore{w: w}
	s.cluster = &voHTTPCluster{}
	s.proxy = proxy.New(&voPStore{w: w}, &voCluster{w: w})
	w.s = s
	// as (*Service).Start does
	s.stmtQueue = queue.New[*command.Statement](s.DefaultQueueCap, s.DefaultQueueBatchSz, s.DefaultQueueTimeout)
	verifSettle()
	verifAdvanceClock(1) // lets the initial zero timer of the queue fire under every clock implementation
	verifSettle()
	return w
}

// drainQueue plays the consumer side of the statement queue (what runQueue reads; runQueue itself
// and the order of batches are C23).
func (w *voWorld) drainQueue() {
	verifSettle()
	select {
	case req := <-w.s.stmtQueue.C:
		w.arrive(voSinkQueue, false, 0, req.Objects)
	default:
	}
}

func (w *voWorld) cleanup() {
	if verifSymbolic() {
		return
	}
	w.s.stmtQueue.Close()
	verifSettle()
}

// ---------------------------------------------------------------------------------------------
// one request

const (
	voEpExecute = iota
	voEpQueued
	voEpRequest
	voEpQueryPost
	voEpQueryGet
	voEpN
)

type voReq struct {
	ep         int
	n          int // statements
	norwrandom bool
	norwtime   bool
	noparse    bool
	text       bool   // text/plain body (one statement)
	level      string // level parameter ("" = not given)
	wait       bool   // queued: wait parameter (nobody consumes: the handler gives up after its timeout)
	tx         bool
}

func (q *voReq) read() bool { return q.ep == voEpQueryPost || q.ep == voEpQueryGet }

func (q *voReq) sqls() []string {
	var out []string
	for i := 0; i < q.n; i++ {
		out = append(out, voSQL(i, q.read()))
	}
	return out
}

func (q *voReq) build() *http.Request {
	var params []string
	add := func(on bool, p string) {
		if on {
			params = append(params, p)
		}
	}
	add(q.ep == voEpQueued, "queue")
	add(q.tx, "transaction")
	add(q.norwrandom, "norwrandom")
	add(q.level != "", "level="+q.level)
	add(q.noparse, "noparse")
	add(q.norwtime, "norwtime")
	add(q.wait, "wait")
	add(q.wait, "timeout=50ms")
	sqls := q.sqls()
	r := &http.Request{Method: "POST", Header: http.Header{}, URL: &url.URL{}}
	switch q.ep {
	case voEpExecute, voEpQueued:
		r.URL.Path = "/db/execute"
	case voEpRequest:
		r.URL.Path = "/db/request"
	case voEpQueryPost:
		r.URL.Path = "/db/query"
	case voEpQueryGet:
		r.URL.Path = "/db/query"
		r.Method = "GET"
		params = append(params, "q="+url.QueryEscape(sqls[0]))
	}
	r.URL.RawQuery = strings.Join(params, "&")
	if q.text {
		r.Header.Set("Content-Type", "text/plain")
		r.Body = voTextBody(sqls[0])
	} else {
		r.Header.Set("Content-Type", "application/json")
		r.Body = voJSONBody(sqls)
	}
	return r
}

// voChoose picks the request. Every combination of the three opt-outs on every endpoint; the rest
// varies with the endpoint.
func voChoose() *voReq {
	q := &voReq{ep: verifChoice("endpoint", voEpN)}
	q.norwrandom = verifChoice("norwrandom", 2) == 1
	q.norwtime = verifChoice("norwtime", 2) == 1
	q.noparse = verifChoice("noparse", 2) == 1
	maxN := 2
	if verifTier() == 1 {
		maxN = 3
	}
	q.n = 1 + verifChoice("statements", maxN)
	thorough := verifTier() == 1
	switch q.ep {
	case voEpExecute:
		q.text = verifChoice("textPlain", 2) == 1
		if thorough {
			q.tx = verifChoice("transaction", 2) == 1
		}
	case voEpQueued:
		q.wait = verifChoice("wait", 2) == 1
	case voEpRequest:
		q.level = []string{"", "strong", "none"}[verifChoice("level", 3)]
		if thorough {
			q.tx = verifChoice("transaction", 2) == 1
		}
	case voEpQueryPost:
		levels := []string{"", "strong", "none", "STRONG"}
		if thorough {
			levels = []string{"", "strong", "none", "STRONG", "weak", "linearizable", "auto"}
		}
		q.level = levels[verifChoice("level", len(levels))]
		q.text = verifChoice("textPlain", 2) == 1
	case voEpQueryGet:
		q.level = []string{"", "strong", "none", "linearizable"}[verifChoice("level", 4)]
	}
	if q.text || q.ep == voEpQueryGet {
		q.n = 1
	}
	return q
}

// replicated: does what arrives at this sink go into the replicated log?
func (a *voArrival) replicated() bool {
	if a.sink == voSinkQuery {
		return a.level == command.ConsistencyLevel_STRONG
	}
	return true
}

func voHas(s, sub string) bool { return strings.Contains(strings.ToLower(s), sub) }

func voRun(twin bool) {
	verifPanicsAreViolations()
	w := voNewWorld()
	defer w.cleanup()
	q := voChoose()
	if q.ep != voEpQueued {
		w.outcome = verifChoice("localStore", 3)
	}
	orig := q.sqls()
	rw := &voWriter{hdr: http.Header{}}

	w.s.ServeHTTP(rw, q.build())
	if q.ep == voEpQueued {
		w.drainQueue()
	}

	// the request got to where it was meant to go
	wantSink := []int{voSinkExecute, voSinkQueue, voSinkRequest, voSinkQuery, voSinkQuery}[q.ep]
	verifAssert("C01-request-reaches-its-sink", len(w.arrivals) >= 1)
	if q.ep != voEpQueued && w.outcome == 1 {
		verifReach("forwarded-to-the-leader")
		verifAssert("C01-forwarded-once", len(w.arrivals) == 2 && !w.arrivals[0].remote && w.arrivals[1].remote)
	} else {
		verifAssert("C01-arrives-once", len(w.arrivals) == 1 && !w.arrivals[0].remote)
	}

	if twin {
		a := w.arrivals[0]
		verifAssume(a.replicated())
		verifAssert("twin", voHas(a.sqls[0], "random("))
		return
	}

	for _, a := range w.arrivals {
		verifAssert("C01-request-reaches-its-sink", a.sink == wantSink)
		if !a.replicated() {
			verifReach("query-below-strong-not-replicated")
			continue
		}
		// all statements of the request, in order
		verifAssert("C01-all-statements-arrive", len(a.sqls) == q.n)
		for i := range a.sqls {
			verifAssert("C01-statements-arrive-in-order", voHas(a.sqls[i], voItoa(7001+i)))
		}
		// the rewriter was applied with the caller's opt-outs and nothing else
		untouched, perFlags := true, true
		for i := range a.sqls {
			randLeft, nowLeft := voHas(a.sqls[i], "random("), voHas(a.sqls[i], "'now'")
			if a.sqls[i] != orig[i] {
				untouched = false
			}
			if randLeft != q.norwrandom || nowLeft != q.norwtime {
				perFlags = false
			}
		}
		switch {
		case q.noparse && q.ep == voEpQueued:
			verifReach("noparse-on-the-queued-path")
			verifAssert("C01-queued-noparse-untouched-or-rewritten-per-opt-outs", untouched || perFlags)
		case q.noparse:
			verifReach("noparse-honoured")
			verifAssert("C01-noparse-leaves-statements-untouched", untouched)
		default:
			if !q.norwrandom && !q.norwtime {
				verifReach("rewritten-random-and-time")
			}
			if q.norwrandom != q.norwtime {
				verifReach("one-opt-out-only")
			}
			if a.sink == voSinkQuery {
				verifReach("strong-query-rewritten")
			}
			if a.sink == voSinkQueue {
				verifReach("queued-write-rewritten")
			}
			verifAssert("C01-rewritten-with-exactly-the-callers-opt-outs", perFlags)
		}
	}
	// the leader is sent what the local attempt was given
	if len(w.arrivals) == 2 {
		a, b := w.arrivals[0], w.arrivals[1]
		verifAssert("C01-forwarded-statements-are-the-local-ones", len(a.sqls) == len(b.sqls))
		for i := range a.sqls {
			verifAssert("C01-forwarded-statements-are-the-local-ones", a.sqls[i] == b.sqls[i])
		}
	}

	// engine only: one call of the rewriter, over the slice that arrived, flags = negated opt-outs
	if verifSymbolic() && w.arrivals[0].replicated() {
		a := w.arrivals[0]
		verifAssert("C01-rewriter-called-at-most-once", len(voProcCalls) <= 1)
		if len(voProcCalls) == 1 {
			verifReach("rewriter-call-inspected")
			c := voProcCalls[0]
			verifAssert("C01-rewriter-flags-are-the-negated-opt-outs", c.rwrand == !q.norwrandom && c.rwtime == !q.norwtime)
			verifAssert("C01-rewriter-ran-over-the-slice-that-arrived", len(c.stmts) == len(a.stmts))
			for i := range c.stmts {
				verifAssert("C01-rewriter-ran-over-the-slice-that-arrived", c.stmts[i] == a.stmts[i])
			}
		}
	}
}

// VerifC01Rewrite: one request; every endpoint x opt-outs x the endpoint's other parameters x what
// the local store answers.
func VerifC01Rewrite() { voRun(false) }

// Vacuity twin: claims RANDOM() always survives on the way into the log.
func VerifC01Twin() { voRun(true) }
