package store

import (
	"time"

	"github.com/hashicorp/raft"
)

// =============================================================================================
// C01 obligation O2 (package store; the shared world is in world.go, identical to harness/C33):
// live apply and recovery replay hand a log entry's bytes, and nothing node-local, to the same
// processor - so two nodes that go through the same committed log by different apply paths end
// with the same contents.
//
// The same situation (snapshot or not, a log with symbolic entry types and terms) is taken through
// both apply paths:
//   * node A, live: the harness plays raft's FSM goroutine (dispatch rule of hashicorp/raft
//     runFSM: FSM.Apply is called for LogCommand entries only, in index order) and calls the REAL
//     FSM.Apply -> (*Store).fsmApply for every command entry after the snapshot, on a Store whose
//     node-local bookkeeping (fsmIdx, fsmTerm, dbAppliedIdx, numNoops, "first log applied") is
//     arbitrary; the observation is what a reader of the live database sees;
//   * node B, recovery: the REAL store.RecoverNode over the same log and snapshot; the observation
//     is what the new snapshot in the sink holds.
// Oracle (from the statement: "every node that applies the same sequence of committed writes ends
// with logically identical database contents, whether it applied the entries live ... [or]
// rebuilt them during manual recovery"): both observations equal the snapshot's state followed by
// one tag per command entry after the snapshot, in index order - each entry's own payload, once,
// for no other entry - and therefore each other.
// In the engine both paths reach the database through the one model of
// (*CommandProcessor).Process (any other way of applying an entry would execute unmodelled
// database code and make the run inconclusive); natively both run the real Process on real SQLite.
// =============================================================================================

type vcOutcome struct {
	live   []int
	liveOK bool
	rec    []int
	recOK  bool
	recErr error
}

// vcApplyLive plays raft's FSM goroutine on node A.
func vcApplyLive(sc *vrScenario, s *Store) {
	w := sc.w
	fsm := NewFSM(s)
	for p := sc.below; p < sc.n; p++ {
		e := w.ents[p]
		if e.typ != raft.LogCommand {
			continue // dispatch rule: barrier / no-op / configuration entries never reach FSM.Apply
		}
		idx := w.first + uint64(p)
		fsm.Apply(&raft.Log{Index: idx, Term: e.term, Type: e.typ, Data: e.data, AppendedAt: time.Now()})
		// the node-local bookkeeping follows the entry (not part of C01; it shows the real path ran)
		verifAssert("C01-live-apply-advances-the-fsm-index", s.fsmIdx.Load() == idx)
	}
}

func vcBothPaths(maxN int) (*vrScenario, *vcOutcome) {
	sc := vrSetup(maxN, false, 0)
	w := sc.w
	out := &vcOutcome{}

	// node A: live apply
	s := vrNewLiveStore(sc)
	vcApplyLive(sc, s)
	out.live, out.liveOK = vrLiveTags(w, s.db)
	s.db.Close()

	// node B: manual recovery from the same snapshot and log
	out.recErr = sc.recover()
	if out.recErr == nil && w.sink != nil {
		out.rec, out.recOK = vrSnapshotTags(w, w.sink.data)
	}
	return sc, out
}

func vcSame(a, b []int) bool {
	if len(a) != len(b) {
		return false
	}
	for i := range a {
		if a[i] != b[i] {
			return false
		}
	}
	return true
}

func vcRun(maxN int) {
	verifPanicsAreViolations()
	sc, out := vcBothPaths(maxN)
	defer sc.w.cleanup()
	want := sc.wantTags()

	verifAssert("C01-live-database-readable", out.liveOK)
	verifAssert("C01-live-apply-hands-each-command-entry-to-the-processor-once-in-order", vcSame(out.live, want))
	verifAssert("C01-recovery-succeeds", out.recErr == nil && out.recOK)
	verifAssert("C01-recovery-replays-each-command-entry-after-the-snapshot-once-in-order", vcSame(out.rec, want))
	verifAssert("C01-live-and-recovered-nodes-converge", vcSame(out.live, out.rec))

	cmds := len(want)
	if sc.hasSnap {
		cmds--
		verifReach("both-paths-start-from-the-snapshot")
	}
	if cmds >= 2 {
		verifReach("two-command-entries-on-both-paths")
	}
	if sc.n-sc.below > cmds {
		verifReach("non-command-entry-in-the-log")
	}
	if sc.below > 0 && sc.n > sc.below {
		verifReach("entries-covered-by-the-snapshot-not-applied-again")
	}
	if verifSymbolic() {
		verifAssert("C01-database-functions-used-sensibly", sc.w.badCalls == 0)
	}
}

// VerifC01bConverge: logs of up to 2 (quick) / 4 (thorough) entries.
func VerifC01bConverge() {
	n := 2
	if verifTier() == 1 {
		n = 4
	}
	vcRun(n)
}

// Vacuity twin: claims the two nodes never hold anything but the snapshot's state.
func VerifC01bTwin() {
	sc, out := vcBothPaths(1)
	defer sc.w.cleanup()
	verifAssume(out.recErr == nil)
	for _, t := range out.live {
		verifAssert("twin", t == vrMarker)
	}
	for _, t := range out.rec {
		verifAssert("twin", t == vrMarker)
	}
}
