package auth

import (
	"encoding/json"
	"errors"
	"io"
	"strings"
)

// C19: credential decisions follow the documented rule.
//
// The credentials file is an *abstract file*: a list of entries, each of the three fields
// (username, password, perms) absent, null, empty or given; every string in it (user names,
// passwords, permission names) and the query (username, password, perm) is made of symbolic bytes.
//
//   VerifC19Load       file  -> Load -> the store holds exactly "last definition of every user,
//                      absent field = empty" (the second sentence of the property)
//   VerifC19Decide     ANY store state of that form -> AA == the first sentence of the property
//   VerifC19Parts      the same states -> Check/Password/HasPerm/HasAnyPerm/CheckRequest/HasPermRequest
//   VerifC19EndToEnd   file -> Load -> AA == the whole statement evaluated on the file as written
//                      (one equivalence obligation, smaller bounds)
//
// Load + Decide compose: every file of the Load universe yields a state of the Decide universe.
//
// encoding/json is reflection based, so in the engine the three Decoder methods used by Load are
// replaced by the models at the bottom of this file (spec.json "models"); they serve the abstract
// file under the documented contract of Decode. Natively (replay) the very same entry functions
// render the abstract file as JSON text and run the REAL decoder on it, so every counterexample
// and finding witness is confirmed against encoding/json itself.

// field states
const (
	verifAbsent = 0 // key not in the object
	verifValue  = 1 // strings: one symbolic character; perms: a list
	verifEmpty  = 2 // strings only: present and ""
	verifNull   = 3 // JSON null
)

type verifEntry struct {
	uState, pState, permsState int
	user, pass                 string
	perms                      []string
}

type verifFile struct {
	entries []verifEntry
}

// The universe: a user name or password is "" or any one character (so AllUsers "*" is one of
// them); a permission is any three characters (so PermAll "all" is one of them).
const (
	verifNameLen = 1
	verifPermLen = 3
)

// verifStr is a string of exactly n arbitrary symbolic bytes (every comparison on it is decided by
// the solver over bit-vectors). Natively the bytes 0..255 are read as the code points
// U+0000..U+00FF (an injective map that fixes ASCII, hence "*" and "all"), so that the text is
// valid UTF-8 and goes through JSON unchanged.
func verifStr(name string, n int) string {
	b := verifBytes(name, n)
	if !verifSymbolic() {
		return verifLatin1(b)
	}
	return string(b)
}

func verifLatin1(s []byte) string {
	var b strings.Builder
	for i := 0; i < len(s); i++ {
		b.WriteRune(rune(s[i]))
	}
	return b.String()
}

type verifBounds struct {
	maxEntries, maxPerms int
	withNull             bool // JSON null as a field state
	fullFirst            bool // also give the first entry the states that equal "absent" there
	plain                bool // every field is absent or given with a non-empty value
}

// verifBuildFile chooses a file; shapes are enumerated, strings symbolic.
func verifBuildFile(b verifBounds) *verifFile {
	f := &verifFile{}
	n := verifChoice("entries", b.maxEntries+1)
	for i := 0; i < n; i++ {
		strStates, permStates, minPerms := 3, 2, 0
		if b.withNull {
			strStates, permStates = 4, 3
		}
		if (i == 0 && !b.fullFirst) || b.plain {
			// nothing precedes the first entry: "", null and [] all mean "absent" there
			strStates, permStates, minPerms = 2, 2, 1
		}
		var e verifEntry
		e.uState = verifChoice(verifName("usernameState", i), strStates)
		if e.uState == verifValue {
			e.user = verifStr(verifName("username", i), verifNameLen)
		}
		e.pState = verifChoice(verifName("passwordState", i), strStates)
		if e.pState == verifValue {
			e.pass = verifStr(verifName("password", i), verifNameLen)
		}
		e.permsState = verifChoice(verifName("permsState", i), permStates)
		if e.permsState == 2 {
			e.permsState = verifNull
		}
		if e.permsState == verifValue {
			k := minPerms + verifChoice(verifName("permsLen", i), b.maxPerms+1-minPerms)
			e.perms = []string{}
			for j := 0; j < k; j++ {
				e.perms = append(e.perms, verifStr(verifName(verifName("perm", i)+"_", j), verifPermLen))
			}
		}
		f.entries = append(f.entries, e)
	}
	return f
}

// verifQuery chooses the (username, password, perm) presented.
func verifQuery() (u, pw, perm string) {
	if verifChoice("queryUserGiven", 2) == 1 {
		u = verifStr("queryUser", verifNameLen)
	}
	if verifChoice("queryPasswordGiven", 2) == 1 {
		pw = verifStr("queryPassword", verifNameLen)
	}
	perm = verifStr("queryPerm", verifPermLen)
	return
}

// ---------------------------------------------------------------------------
// definitions: what the credentials say about one user

type verifDef struct {
	pass  string
	perms []string
}

func (d *verifDef) grants(perm string) bool {
	for _, p := range d.perms {
		if p == perm {
			return true
		}
	}
	return false
}

// verifDefs is either a file as written or a table of users.
type verifDefs interface {
	def(user string) *verifDef
}

// the file "as written": an absent (or null) field is empty ...
func (e *verifEntry) writtenUser() string {
	if e.uState == verifValue {
		return e.user
	}
	return ""
}

func (e *verifEntry) written() *verifDef {
	d := &verifDef{}
	if e.pState == verifValue {
		d.pass = e.pass
	}
	if e.permsState == verifValue {
		d.perms = e.perms
	}
	return d
}

// ... and when a user is defined more than once, the last definition wins.
func (f *verifFile) def(user string) *verifDef {
	var d *verifDef
	for i := range f.entries {
		if f.entries[i].writtenUser() == user {
			d = f.entries[i].written()
		}
	}
	return d
}

func (f *verifFile) definitions(user string) int {
	n := 0
	for i := range f.entries {
		if f.entries[i].writtenUser() == user {
			n++
		}
	}
	return n
}

// ---------------------------------------------------------------------------
// the documented rules

// ruleHolds: user holds perm "directly or through the all-users entry".
func ruleHolds(ds verifDefs, user, perm string) bool {
	if d := ds.def(user); d != nil && d.grants(perm) {
		return true
	}
	if d := ds.def(AllUsers); d != nil && d.grants(perm) {
		return true
	}
	return false
}

// ruleCheck: the password is exactly the one stored for that user.
func ruleCheck(ds verifDefs, user, pw string) bool {
	d := ds.def(user)
	return d != nil && d.pass == pw
}

// ruleAA is the property statement:
// authorised <=> perm or "all" is granted to all users, or a non-empty username presented with
// exactly its stored password holds perm or "all", directly or through the all-users entry.
func ruleAA(ds verifDefs, user, pw, perm string) bool {
	if a := ds.def(AllUsers); a != nil {
		if a.grants(perm) {
			return true
		}
		if a.grants(PermAll) {
			return true
		}
	}
	if user == "" {
		return false
	}
	if !ruleCheck(ds, user, pw) {
		return false
	}
	if ruleHolds(ds, user, perm) {
		return true
	}
	return ruleHolds(ds, user, PermAll)
}

// ---------------------------------------------------------------------------
// the recorded defect class C19-inherit-fields

// verifInheritShape: some entry leaves out a field (or gives a string field as null) while the
// most recent earlier entry that mentions the field gave it a non-empty value.
func (f *verifFile) verifInheritShape() bool {
	u, p, perms := false, false, false // a non-empty value is being carried
	for i := range f.entries {
		e := &f.entries[i]
		switch e.uState {
		case verifValue:
			u = true
		case verifEmpty:
			u = false
		default:
			if u {
				return true
			}
		}
		switch e.pState {
		case verifValue:
			p = true
		case verifEmpty:
			p = false
		default:
			if p {
				return true
			}
		}
		switch e.permsState {
		case verifValue:
			perms = len(e.perms) > 0
		case verifNull:
			perms = false
		default:
			if perms {
				return true
			}
		}
	}
	return false
}

// verifInherited is the file the defect makes Load see: a field left out of an entry carries the
// value of the previous entry. It is only used to decide whether a deviation belongs to the
// recorded class (the deviation must be exactly the one this explains).
func (f *verifFile) verifInherited() *verifFile {
	g := &verifFile{}
	var prev verifEntry
	for i := range f.entries {
		e := f.entries[i]
		if e.uState == verifAbsent || e.uState == verifNull {
			e.uState, e.user = prev.uState, prev.user
		}
		if e.pState == verifAbsent || e.pState == verifNull {
			e.pState, e.pass = prev.pState, prev.pass
		}
		if e.permsState == verifAbsent {
			e.permsState, e.perms = prev.permsState, prev.perms
		}
		g.entries = append(g.entries, e)
		prev = e
	}
	return g
}

// verifClassify: a deviation on a file that has the inheriting shape, and that is exactly the
// behaviour field inheritance explains, is the recorded finding (ends the path); every other
// deviation is left to the assertion that follows the call.
func verifClassify(f *verifFile, ok bool, explained func(inherited *verifFile) bool) {
	if !ok && f.verifInheritShape() {
		if explained(f.verifInherited()) {
			verifFinding("C19-inherit-fields")
		}
	}
}

// ---------------------------------------------------------------------------
// loading: models in the engine, the real decoder on generated text natively

type verifDecoderState struct {
	f     *verifFile
	phase int // 0 before '[', 1 inside the array, 2 after ']', 3 inside an object (tokenised)
	pos   int
}

var verifDec *verifDecoderState

type verifNoReader struct{}

func (verifNoReader) Read(p []byte) (int, error) {
	panic("C19 model: the reader must not be read directly; encoding/json is modelled")
}

func verifLoadFile(f *verifFile) (*CredentialsStore, error) {
	c := NewCredentialsStore()
	if verifSymbolic() {
		verifDec = &verifDecoderState{f: f}
		return c, c.Load(verifNoReader{})
	}
	return c, c.Load(strings.NewReader(f.jsonText()))
}

func verifQuote(s string) string {
	b, err := json.Marshal(s)
	if err != nil {
		panic(err)
	}
	return string(b)
}

// jsonText renders the abstract file (native mode only).
func (f *verifFile) jsonText() string {
	var b strings.Builder
	b.WriteString("[")
	for i := range f.entries {
		e := &f.entries[i]
		if i > 0 {
			b.WriteString(",\n ")
		}
		var fields []string
		switch e.uState {
		case verifValue, verifEmpty:
			fields = append(fields, `"username": `+verifQuote(e.user))
		case verifNull:
			fields = append(fields, `"username": null`)
		}
		switch e.pState {
		case verifValue, verifEmpty:
			fields = append(fields, `"password": `+verifQuote(e.pass))
		case verifNull:
			fields = append(fields, `"password": null`)
		}
		switch e.permsState {
		case verifValue:
			var ps []string
			for _, p := range e.perms {
				ps = append(ps, verifQuote(p))
			}
			fields = append(fields, `"perms": [`+strings.Join(ps, ", ")+`]`)
		case verifNull:
			fields = append(fields, `"perms": null`)
		}
		b.WriteString("{" + strings.Join(fields, ", ") + "}")
	}
	b.WriteString("]")
	return b.String()
}

// ---------------------------------------------------------------------------
// models of (*json.Decoder).Token / More / Decode over the abstract file (engine only).
// Contract (encoding/json documentation): Decode(&v) stores the next JSON value in v; for an
// object it sets exactly the struct fields whose keys are present and leaves the others untouched;
// JSON null has no effect on a string and sets a slice to nil; an array is stored in a slice by
// resetting its length to zero and appending (an empty array gives a new empty slice).

var errVerifSyntax = errors.New("json: syntax or type error (model)")

func verifJSONToken(dec *json.Decoder) (json.Token, error) {
	st := verifDec
	switch st.phase {
	case 0:
		st.phase = 1
		return json.Delim('['), nil
	case 1:
		if st.pos >= len(st.f.entries) {
			st.phase = 2
			return json.Delim(']'), nil
		}
		// the next token is the '{' of entry pos: the decoder is now inside that object
		st.phase = 3
		return json.Delim('{'), nil
	case 2:
		return nil, io.EOF
	}
	verifAssert("C19-model-decoder-used-outside-the-modelled-protocol", false)
	return nil, errVerifSyntax
}

func verifJSONMore(dec *json.Decoder) bool {
	st := verifDec
	switch st.phase {
	case 0:
		return true
	case 1:
		return st.pos < len(st.f.entries)
	case 2:
		return false
	}
	verifAssert("C19-model-decoder-used-outside-the-modelled-protocol", false)
	return false
}

func verifJSONDecode(dec *json.Decoder, v any) error {
	st := verifDec
	switch st.phase {
	case 0:
		return errVerifSyntax // an array cannot be stored in a struct
	case 1:
		if st.pos >= len(st.f.entries) {
			return errVerifSyntax // ']' where a value is expected
		}
	case 2:
		return io.EOF
	default:
		verifAssert("C19-model-decoder-used-outside-the-modelled-protocol", false)
		return errVerifSyntax
	}
	cred, ok := v.(*Credential)
	if !ok || cred == nil {
		verifAssert("C19-model-decode-target-is-a-credential", false)
		return errVerifSyntax
	}
	e := &st.f.entries[st.pos]
	st.pos++
	if e.uState == verifValue || e.uState == verifEmpty {
		cred.Username = e.user
	}
	if e.pState == verifValue || e.pState == verifEmpty {
		cred.Password = e.pass
	}
	switch e.permsState {
	case verifNull:
		cred.Perms = nil
	case verifValue:
		if len(e.perms) == 0 {
			cred.Perms = []string{}
		} else {
			cred.Perms = append(cred.Perms[:0], e.perms...)
		}
	}
	return nil
}

// ---------------------------------------------------------------------------
// VerifC19Load: what Load leaves in the store

// verifStoreDiffers compares the store with what ds says about the users named in f: every user
// named in the file is known with the password and exactly the permissions of its definition,
// and nobody else is known. It returns "" or the aspect that differs.
func verifStoreDiffers(c *CredentialsStore, f *verifFile, ds verifDefs) string {
	users := 0
	for i := range f.entries {
		name := f.entries[i].writtenUser()
		last := true
		for j := i + 1; j < len(f.entries); j++ {
			if f.entries[j].writtenUser() == name {
				last = false
			}
		}
		if !last {
			continue
		}
		users++
		d := ds.def(name)
		if d == nil {
			return "user-set"
		}
		pw, ok := c.store[name]
		if !ok {
			return "user-set"
		}
		if pw != d.pass {
			return "password"
		}
		m, ok := c.perms[name]
		if !ok {
			return "user-set"
		}
		distinct := 0
		for j, p := range d.perms {
			if !m[p] {
				return "perms"
			}
			first := true
			for k := 0; k < j; k++ {
				if d.perms[k] == p {
					first = false
				}
			}
			if first {
				distinct++
			}
		}
		if len(m) != distinct {
			return "perms"
		}
	}
	if len(c.store) != users || len(c.perms) != users {
		return "user-set"
	}
	return ""
}

func verifLoadBounds() verifBounds {
	if verifTier() == 1 {
		return verifBounds{maxEntries: 3, maxPerms: 2}
	}
	return verifBounds{maxEntries: 2, maxPerms: 2}
}

func verifCheckLoad(b verifBounds) {
	verifPanicsAreViolations()
	f := verifBuildFile(b)
	c, err := verifLoadFile(f)
	verifAssert("C19-load-accepts-well-formed-file", err == nil)
	diff := verifStoreDiffers(c, f, f)
	verifClassify(f, diff == "", func(g *verifFile) bool { return verifStoreDiffers(c, g, g) == "" })
	verifAssert("C19-load-same-users-as-file", diff != "user-set")
	verifAssert("C19-load-password-of-last-definition", diff != "password")
	verifAssert("C19-load-perms-of-last-definition", diff != "perms")
	verifAssert("C19-load-store-is-file-as-written", diff == "")

	if len(f.entries) >= 2 {
		n := len(f.entries)
		if f.definitions(f.entries[n-1].writtenUser()) > 1 {
			verifReach("user-redefined")
		}
		if f.entries[n-1].uState == verifAbsent {
			verifReach("later-entry-without-username")
		}
		if f.entries[n-1].pState == verifAbsent && f.entries[n-1].permsState == verifAbsent {
			verifReach("later-entry-with-name-only")
		}
	}
}

func VerifC19Load() { verifCheckLoad(verifLoadBounds()) }

// VerifC19LoadNull (thorough): the same with JSON null as a further field state.
func VerifC19LoadNull() {
	verifCheckLoad(verifBounds{maxEntries: 2, maxPerms: 2, withNull: true, fullFirst: true})
}

// ---------------------------------------------------------------------------
// store states: any table of distinct users

type verifUser struct {
	name string
	verifDef
}

type verifTable struct {
	users []verifUser
}

func (t *verifTable) def(user string) *verifDef {
	for i := range t.users {
		if t.users[i].name == user {
			return &t.users[i].verifDef
		}
	}
	return nil
}

// verifBuildTable chooses a table of at most maxUsers distinct users, each with at most maxPerms
// distinct permissions, and the store holding exactly it (the form VerifC19Load establishes).
func verifBuildTable(maxUsers, maxPerms int) (*verifTable, *CredentialsStore) {
	t := &verifTable{}
	c := NewCredentialsStore()
	n := verifChoice("users", maxUsers+1)
	for i := 0; i < n; i++ {
		var u verifUser
		if verifChoice(verifName("userNameGiven", i), 2) == 1 {
			u.name = verifStr(verifName("userName", i), verifNameLen)
		}
		for j := 0; j < i; j++ {
			verifAssume(u.name != t.users[j].name)
		}
		if verifChoice(verifName("userPasswordGiven", i), 2) == 1 {
			u.pass = verifStr(verifName("userPassword", i), verifNameLen)
		}
		k := verifChoice(verifName("userPerms", i), maxPerms+1)
		for j := 0; j < k; j++ {
			p := verifStr(verifName(verifName("userPerm", i)+"_", j), verifPermLen)
			for _, q := range u.perms {
				verifAssume(p != q)
			}
			u.perms = append(u.perms, p)
		}
		t.users = append(t.users, u)
		c.store[u.name] = u.pass
		m := make(map[string]bool)
		for _, p := range u.perms {
			m[p] = true
		}
		c.perms[u.name] = m
	}
	return t, c
}

func verifTableBounds() (maxUsers, maxPerms int) {
	if verifTier() == 1 {
		return 3, 2
	}
	return 2, 2
}

// verifMarkers: vacuity markers for an AA decision that agrees with the rule.
func verifMarkers(ds verifDefs, u, pw, perm string, want bool) {
	all := ds.def(AllUsers)
	viaAll := all != nil && (all.grants(perm) || all.grants(PermAll))
	switch {
	case want && viaAll:
		verifReach("granted-to-all-users")
		if u == "" {
			verifReach("granted-anonymous")
		}
	case want:
		verifReach("granted-to-authenticated-user")
		if !ds.def(u).grants(perm) {
			verifReach("granted-through-perm-all")
		}
	case u == "":
		verifReach("denied-anonymous")
	case ds.def(u) == nil:
		verifReach("denied-unknown-user")
	case !ruleCheck(ds, u, pw):
		verifReach("denied-wrong-password")
	default:
		verifReach("denied-authenticated-without-perm")
	}
}

// VerifC19Decide: AA against the first sentence of the property, for every store state.
func VerifC19Decide() {
	verifPanicsAreViolations()
	t, c := verifBuildTable(verifTableBounds())
	u, pw, perm := verifQuery()
	got := c.AA(u, pw, perm)
	want := ruleAA(t, u, pw, perm)
	verifAssert("C19-aa-rule", got == want)
	verifMarkers(t, u, pw, perm, want)
}

type verifBasicAuth struct {
	user, pw string
	ok       bool
}

func (b verifBasicAuth) BasicAuth() (string, string, bool) { return b.user, b.pw, b.ok }

// VerifC19Parts: the building blocks AA is documented to be made of, each against its own
// documentation, for every store state.
func VerifC19Parts() {
	verifPanicsAreViolations()
	maxUsers, maxPerms := 2, 1
	if verifTier() == 1 {
		maxUsers, maxPerms = 2, 2
	}
	t, c := verifBuildTable(maxUsers, maxPerms)
	u, pw, perm := verifQuery()

	switch verifChoice("op", 7) {
	case 0: // Check: the password is correct for the given username
		verifAssert("C19-check-rule", c.Check(u, pw) == ruleCheck(t, u, pw))
		verifReach("check")
	case 1: // Password: the stored password
		gotPw, gotOk := c.Password(u)
		d := t.def(u)
		verifAssert("C19-password-known-user", gotOk == (d != nil))
		if d != nil {
			verifAssert("C19-password-value", gotPw == d.pass)
		} else {
			verifAssert("C19-password-empty-for-unknown-user", gotPw == "")
		}
		verifReach("password")
	case 2: // HasPerm: directly or via AllUsers, no password checking
		verifAssert("C19-hasperm-rule", c.HasPerm(u, perm) == ruleHolds(t, u, perm))
		verifReach("hasperm")
	case 3: // HasAnyPerm: at least one of the given perms
		perm2 := verifStr("queryPerm2", verifPermLen)
		want := ruleHolds(t, u, perm)
		if !want {
			want = ruleHolds(t, u, perm2)
		}
		verifAssert("C19-hasanyperm-rule", c.HasAnyPerm(u, perm, perm2) == want)
		verifAssert("C19-hasanyperm-of-nothing", !c.HasAnyPerm(u))
		verifReach("hasanyperm")
	case 4: // CheckRequest: b contains a valid username and password
		b := verifBasicAuth{u, pw, verifBool("basicAuthPresent")}
		want := b.ok
		if want {
			want = ruleCheck(t, u, pw)
		}
		verifAssert("C19-checkrequest-rule", c.CheckRequest(b) == want)
		verifReach("checkrequest")
	case 5: // HasPermRequest: no username in the request => false; else HasPerm
		b := verifBasicAuth{u, pw, verifBool("basicAuthPresent")}
		want := b.ok
		if want {
			want = ruleHolds(t, u, perm)
		}
		verifAssert("C19-haspermrequest-rule", c.HasPermRequest(b, perm) == want)
		verifReach("haspermrequest")
	case 6: // no credential store: auth is not enabled, everything is allowed
		var none *CredentialsStore
		verifAssert("C19-nil-store-allows", none.AA(u, pw, perm))
		verifReach("nil-store")
	}
}

// ---------------------------------------------------------------------------
// end to end

func verifEndToEndBounds() verifBounds {
	if verifTier() == 1 {
		return verifBounds{maxEntries: 2, maxPerms: 2, fullFirst: true}
	}
	return verifBounds{maxEntries: 2, maxPerms: 1}
}

// VerifC19EndToEnd: Load then AA against the whole statement evaluated on the file as written.
func VerifC19EndToEnd() { verifCheckEndToEnd(verifEndToEndBounds()) }

// VerifC19EndToEnd3 (thorough): the same for files of up to three entries in which every field is
// absent or given with a non-empty value (the empty values are covered, for three entries, by
// VerifC19Load composed with VerifC19Decide).
func VerifC19EndToEnd3() { verifCheckEndToEnd(verifBounds{maxEntries: 3, maxPerms: 1, plain: true}) }

func verifCheckEndToEnd(b verifBounds) {
	verifPanicsAreViolations()
	f := verifBuildFile(b)
	u, pw, perm := verifQuery()
	c, err := verifLoadFile(f)
	verifAssert("C19-load-accepts-well-formed-file", err == nil)
	got := c.AA(u, pw, perm)
	want := ruleAA(f, u, pw, perm)
	verifClassify(f, got == want, func(g *verifFile) bool { return ruleAA(g, u, pw, perm) == got })
	verifAssert("C19-aa-rule-on-file", got == want)
	verifMarkers(f, u, pw, perm, want)
	if f.definitions(u) > 1 {
		if want {
			verifReach("granted-by-last-of-several-definitions")
		} else {
			verifReach("denied-by-last-of-several-definitions")
		}
	}
}

// VerifC19Twin (vacuity twin): same files and queries, but the oracle lets the FIRST definition
// of a user win; it must be violated.
func VerifC19Twin() {
	f := verifBuildFile(verifBounds{maxEntries: 2, maxPerms: 1})
	u, pw, perm := verifQuery()
	c, err := verifLoadFile(f)
	verifAssert("C19-load-accepts-well-formed-file", err == nil)
	got := c.AA(u, pw, perm)
	// reverse the file: "last wins" on the reversed file is "first wins" on the original
	r := &verifFile{}
	for i := len(f.entries) - 1; i >= 0; i-- {
		r.entries = append(r.entries, f.entries[i])
	}
	verifAssert("twin", got == ruleAA(r, u, pw, perm))
}
