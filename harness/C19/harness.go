package auth

import (
	"encoding/json"
	"errors"
	"io"
	"strings"
)

// C19: credential decisions follow the documented rule.
//
// The credentials file is an *abstract file*: a list of entries, each of the three fields
// (username, password, perms) absent, null or present; every string in it (user names,
// passwords, permission names) and the query (username, password, perm) is a solver-level string.
// The code under test is the real Load / AA / Check / HasPerm / HasAnyPerm / Password /
// CheckRequest / HasPermRequest.
//
// encoding/json is reflection based, so in the engine the three Decoder methods used by Load are
// replaced by the models at the bottom of this file (spec.json "models"); they serve the abstract
// file under the documented contract of Decode. Natively (replay) the very same entry functions
// render the abstract file as JSON text and run the REAL decoder on it, so every counterexample
// and finding witness is confirmed against encoding/json itself.

const verifStrMax = 3 // "all" must be expressible

// field states
const (
	verifAbsent  = 0
	verifPresent = 1
	verifNull    = 2 // JSON null
)

type verifEntry struct {
	uState, pState, permsState int
	user, pass                 string
	perms                      []string
}

type verifFile struct {
	entries []verifEntry
}

// verifStr is one string of the universe: any string of at most verifStrMax characters.
// Natively the solver's characters 0..255 are read as the code points U+0000..U+00FF (an injective
// map that fixes ASCII, hence "*", "all", ""), so the text is valid UTF-8 and survives JSON unchanged.
func verifStr(name string) string {
	s := verifString(name, verifStrMax)
	if !verifSymbolic() {
		s = verifLatin1(s)
	}
	return s
}

func verifLatin1(s string) string {
	var b strings.Builder
	for i := 0; i < len(s); i++ {
		b.WriteRune(rune(s[i]))
	}
	return b.String()
}

// verifBuildFile chooses a file of at most maxN entries; shapes are enumerated, strings symbolic.
func verifBuildFile(maxN, maxPerms int, withNull bool) *verifFile {
	states := 2
	if withNull {
		states = 3
	}
	f := &verifFile{}
	n := verifChoice("entries", maxN+1)
	for i := 0; i < n; i++ {
		var e verifEntry
		e.uState = verifChoice(verifName("usernameState", i), states)
		if e.uState == verifPresent {
			e.user = verifStr(verifName("username", i))
		}
		e.pState = verifChoice(verifName("passwordState", i), states)
		if e.pState == verifPresent {
			e.pass = verifStr(verifName("password", i))
		}
		e.permsState = verifChoice(verifName("permsState", i), states)
		if e.permsState == verifPresent {
			k := verifChoice(verifName("permsLen", i), maxPerms+1)
			e.perms = []string{}
			for j := 0; j < k; j++ {
				e.perms = append(e.perms, verifStr(verifName(verifName("perm", i)+"_", j)))
			}
		}
		f.entries = append(f.entries, e)
	}
	return f
}

// ---------------------------------------------------------------------------
// the file "as written": an absent (or null) field is empty

func (e *verifEntry) writtenUser() string {
	if e.uState == verifPresent {
		return e.user
	}
	return ""
}

func (e *verifEntry) writtenPass() string {
	if e.pState == verifPresent {
		return e.pass
	}
	return ""
}

func (e *verifEntry) writtenPerms() []string {
	if e.permsState == verifPresent {
		return e.perms
	}
	return nil
}

func (e *verifEntry) grants(perm string) bool {
	for _, p := range e.writtenPerms() {
		if p == perm {
			return true
		}
	}
	return false
}

// verifDefinition: when a user is defined more than once, the last definition wins.
func (f *verifFile) verifDefinition(user string) *verifEntry {
	var d *verifEntry
	for i := range f.entries {
		if f.entries[i].writtenUser() == user {
			d = &f.entries[i]
		}
	}
	return d
}

func (f *verifFile) definitions(user string) int {
	n := 0
	for i := range f.entries {
		if f.entries[i].writtenUser() == user {
			n++
		}
	}
	return n
}

// ---------------------------------------------------------------------------
// the documented rules, evaluated on the file as written

// specHolds: user holds perm "directly or through the all-users entry".
func (f *verifFile) specHolds(user, perm string) bool {
	if d := f.verifDefinition(user); d != nil && d.grants(perm) {
		return true
	}
	if d := f.verifDefinition(AllUsers); d != nil && d.grants(perm) {
		return true
	}
	return false
}

// specCheck: the password is the one stored for that user.
func (f *verifFile) specCheck(user, pw string) bool {
	d := f.verifDefinition(user)
	return d != nil && d.writtenPass() == pw
}

// specAA is the property statement:
// authorised <=> perm or "all" is granted to all users, or a non-empty username presented with
// exactly its stored password holds perm or "all", directly or through the all-users entry.
func (f *verifFile) specAA(user, pw, perm string) bool {
	if a := f.verifDefinition(AllUsers); a != nil {
		if a.grants(perm) {
			return true
		}
		if a.grants(PermAll) {
			return true
		}
	}
	if user == "" {
		return false
	}
	if !f.specCheck(user, pw) {
		return false
	}
	if f.specHolds(user, perm) {
		return true
	}
	return f.specHolds(user, PermAll)
}

// ---------------------------------------------------------------------------
// the recorded defect class C19-inherit-fields

// verifInheritShape: some entry after the first leaves out a field (or gives a string field as
// null) that an earlier entry has set.
func (f *verifFile) verifInheritShape() bool {
	uSet, pSet, permsSet := false, false, false
	for i := range f.entries {
		e := &f.entries[i]
		if e.uState != verifPresent && uSet {
			return true
		}
		if e.pState != verifPresent && pSet {
			return true
		}
		if e.permsState == verifAbsent && permsSet {
			return true
		}
		uSet = uSet || e.uState == verifPresent
		pSet = pSet || e.pState == verifPresent
		if e.permsState == verifPresent {
			permsSet = true
		}
		if e.permsState == verifNull {
			permsSet = false
		}
	}
	return false
}

// verifInherited is the file the defect makes Load see: a field left out of an entry carries the
// value of the previous entry. It is only used to decide whether a deviation belongs to the
// recorded class (the deviation must be exactly the one this explains).
func (f *verifFile) verifInherited() *verifFile {
	g := &verifFile{}
	var prev verifEntry
	for i := range f.entries {
		e := f.entries[i]
		if e.uState != verifPresent {
			e.uState, e.user = prev.uState, prev.user
		}
		if e.pState != verifPresent {
			e.pState, e.pass = prev.pState, prev.pass
		}
		if e.permsState == verifAbsent {
			e.permsState, e.perms = prev.permsState, prev.perms
		}
		g.entries = append(g.entries, e)
		prev = e
	}
	return g
}

// verifDecide: ok says that an answer of the implementation agrees with the rule. A deviation on
// a file that has the inheriting shape, and that is exactly the answer field inheritance explains,
// is the recorded finding; every other deviation is a violation of id.
func verifDecide(id string, f *verifFile, ok bool, explained func(inherited *verifFile) bool) {
	if !ok && f.verifInheritShape() {
		if explained(f.verifInherited()) {
			verifFinding("C19-inherit-fields")
		}
	}
	verifAssert(id, ok)
}

func verifDecideBool(id string, f *verifFile, got, want bool, rule func(g *verifFile) bool) {
	verifDecide(id, f, got == want, func(g *verifFile) bool { return rule(g) == got })
}

// ---------------------------------------------------------------------------
// loading: models in the engine, the real decoder on generated text natively

type verifDecoderState struct {
	f     *verifFile
	phase int // 0 before '[', 1 inside the array, 2 after ']', 3 inside an object (tokenised)
	pos   int
}

var verifDec *verifDecoderState

type verifNoReader struct{}

func (verifNoReader) Read(p []byte) (int, error) {
	panic("C19 model: the reader must not be read directly; encoding/json is modelled")
}

func verifLoadFile(f *verifFile) (*CredentialsStore, error) {
	c := NewCredentialsStore()
	if verifSymbolic() {
		verifDec = &verifDecoderState{f: f}
		return c, c.Load(verifNoReader{})
	}
	return c, c.Load(strings.NewReader(f.jsonText()))
}

func verifQuote(s string) string {
	b, err := json.Marshal(s)
	if err != nil {
		panic(err)
	}
	return string(b)
}

// jsonText renders the abstract file (native mode only).
func (f *verifFile) jsonText() string {
	var b strings.Builder
	b.WriteString("[")
	for i := range f.entries {
		e := &f.entries[i]
		if i > 0 {
			b.WriteString(",\n ")
		}
		var fields []string
		switch e.uState {
		case verifPresent:
			fields = append(fields, `"username": `+verifQuote(e.user))
		case verifNull:
			fields = append(fields, `"username": null`)
		}
		switch e.pState {
		case verifPresent:
			fields = append(fields, `"password": `+verifQuote(e.pass))
		case verifNull:
			fields = append(fields, `"password": null`)
		}
		switch e.permsState {
		case verifPresent:
			var ps []string
			for _, p := range e.perms {
				ps = append(ps, verifQuote(p))
			}
			fields = append(fields, `"perms": [`+strings.Join(ps, ", ")+`]`)
		case verifNull:
			fields = append(fields, `"perms": null`)
		}
		b.WriteString("{" + strings.Join(fields, ", ") + "}")
	}
	b.WriteString("]")
	return b.String()
}

// ---------------------------------------------------------------------------
// models of (*json.Decoder).Token / More / Decode over the abstract file (engine only).
// Contract (encoding/json documentation): Decode(&v) stores the next JSON value in v; for an
// object it sets exactly the struct fields whose keys are present and leaves the others untouched;
// JSON null has no effect on a string and sets a slice to nil; an array is stored in a slice by
// resetting its length to zero and appending (an empty array gives a new empty slice).

var errVerifSyntax = errors.New("json: syntax or type error (model)")

func verifJSONToken(dec *json.Decoder) (json.Token, error) {
	st := verifDec
	switch st.phase {
	case 0:
		st.phase = 1
		return json.Delim('['), nil
	case 1:
		if st.pos >= len(st.f.entries) {
			st.phase = 2
			return json.Delim(']'), nil
		}
		// the next token is the '{' of entry pos: the decoder is now inside that object
		st.phase = 3
		return json.Delim('{'), nil
	case 2:
		return nil, io.EOF
	}
	verifAssert("C19-model-decoder-used-outside-the-modelled-protocol", false)
	return nil, errVerifSyntax
}

func verifJSONMore(dec *json.Decoder) bool {
	st := verifDec
	switch st.phase {
	case 0:
		return true
	case 1:
		return st.pos < len(st.f.entries)
	case 2:
		return false
	}
	verifAssert("C19-model-decoder-used-outside-the-modelled-protocol", false)
	return false
}

func verifJSONDecode(dec *json.Decoder, v any) error {
	st := verifDec
	switch st.phase {
	case 0:
		return errVerifSyntax // an array cannot be stored in a struct
	case 1:
		if st.pos >= len(st.f.entries) {
			return errVerifSyntax // ']' where a value is expected
		}
	case 2:
		return io.EOF
	default:
		verifAssert("C19-model-decoder-used-outside-the-modelled-protocol", false)
		return errVerifSyntax
	}
	cred, ok := v.(*Credential)
	if !ok || cred == nil {
		verifAssert("C19-model-decode-target-is-a-credential", false)
		return errVerifSyntax
	}
	e := &st.f.entries[st.pos]
	st.pos++
	if e.uState == verifPresent {
		cred.Username = e.user
	}
	if e.pState == verifPresent {
		cred.Password = e.pass
	}
	switch e.permsState {
	case verifNull:
		cred.Perms = nil
	case verifPresent:
		if len(e.perms) == 0 {
			cred.Perms = []string{}
		} else {
			cred.Perms = append(cred.Perms[:0], e.perms...)
		}
	}
	return nil
}

// ---------------------------------------------------------------------------
// entries

func verifBounds() (maxN, maxPerms int, withNull bool) {
	if verifTier() == 1 {
		return 3, 2, true
	}
	return 2, 2, false
}

// VerifC19AA: Load then AA, for every file of the universe and every query.
func VerifC19AA() {
	verifPanicsAreViolations()
	maxN, maxPerms, withNull := verifBounds()
	f := verifBuildFile(maxN, maxPerms, withNull)
	u, pw, perm := verifStr("queryUser"), verifStr("queryPassword"), verifStr("queryPerm")

	c, err := verifLoadFile(f)
	verifAssert("C19-load-accepts-well-formed-file", err == nil)
	got := c.AA(u, pw, perm)
	want := f.specAA(u, pw, perm)
	verifDecideBool("C19-aa-rule", f, got, want, func(g *verifFile) bool { return g.specAA(u, pw, perm) })

	// vacuity markers (on paths where implementation and rule agree)
	all := f.verifDefinition(AllUsers)
	viaAll := all != nil && (all.grants(perm) || all.grants(PermAll))
	switch {
	case want && viaAll:
		verifReach("granted-to-all-users")
		if u == "" {
			verifReach("granted-anonymous")
		}
	case want:
		verifReach("granted-to-authenticated-user")
		if d := f.verifDefinition(u); !d.grants(perm) {
			verifReach("granted-through-perm-all")
		}
		if f.definitions(u) > 1 {
			verifReach("granted-by-last-of-several-definitions")
		}
	case u == "":
		verifReach("denied-anonymous")
	case f.verifDefinition(u) == nil:
		verifReach("denied-unknown-user")
	case !f.specCheck(u, pw):
		verifReach("denied-wrong-password")
		if f.definitions(u) > 1 {
			verifReach("denied-password-of-earlier-definition-or-other")
		}
	default:
		verifReach("denied-authenticated-without-perm")
		if f.definitions(u) > 1 {
			verifReach("denied-perm-only-in-earlier-definition-or-none")
		}
	}
}

type verifBasicAuth struct {
	user, pw string
	ok       bool
}

func (b verifBasicAuth) BasicAuth() (string, string, bool) { return b.user, b.pw, b.ok }

// VerifC19Parts: the building blocks AA is documented to be made of, each against its own
// documentation, on a loaded file.
func VerifC19Parts() {
	verifPanicsAreViolations()
	maxN, maxPerms, withNull := verifBounds()
	f := verifBuildFile(maxN, maxPerms, withNull)
	u, pw, perm := verifStr("queryUser"), verifStr("queryPassword"), verifStr("queryPerm")
	c, err := verifLoadFile(f)
	verifAssert("C19-load-accepts-well-formed-file", err == nil)

	switch verifChoice("op", 7) {
	case 0: // Check: the password is correct for the given username
		verifDecideBool("C19-check-rule", f, c.Check(u, pw), f.specCheck(u, pw),
			func(g *verifFile) bool { return g.specCheck(u, pw) })
		verifReach("check")
	case 1: // Password: the stored password of the last definition
		gotPw, gotOk := c.Password(u)
		d := f.verifDefinition(u)
		verifDecideBool("C19-password-known-user", f, gotOk, d != nil,
			func(g *verifFile) bool { return g.verifDefinition(u) != nil })
		if d != nil {
			verifDecide("C19-password-value", f, gotPw == d.writtenPass(), func(g *verifFile) bool {
				d2 := g.verifDefinition(u)
				return d2 != nil && gotPw == d2.writtenPass()
			})
		} else {
			verifAssert("C19-password-empty-for-unknown-user", gotPw == "")
		}
		verifReach("password")
	case 2: // HasPerm: directly or via AllUsers, no password checking
		verifDecideBool("C19-hasperm-rule", f, c.HasPerm(u, perm), f.specHolds(u, perm),
			func(g *verifFile) bool { return g.specHolds(u, perm) })
		verifReach("hasperm")
	case 3: // HasAnyPerm: at least one of the given perms
		perm2 := verifStr("queryPerm2")
		want := f.specHolds(u, perm)
		if !want {
			want = f.specHolds(u, perm2)
		}
		verifDecideBool("C19-hasanyperm-rule", f, c.HasAnyPerm(u, perm, perm2), want,
			func(g *verifFile) bool { return g.specHolds(u, perm) || g.specHolds(u, perm2) })
		verifAssert("C19-hasanyperm-of-nothing", !c.HasAnyPerm(u))
		verifReach("hasanyperm")
	case 4: // CheckRequest: b contains a valid username and password
		b := verifBasicAuth{u, pw, verifBool("basicAuthPresent")}
		want := b.ok
		if want {
			want = f.specCheck(u, pw)
		}
		verifDecideBool("C19-checkrequest-rule", f, c.CheckRequest(b), want,
			func(g *verifFile) bool { return b.ok && g.specCheck(u, pw) })
		verifReach("checkrequest")
	case 5: // HasPermRequest: no username in the request => false; else HasPerm
		b := verifBasicAuth{u, pw, verifBool("basicAuthPresent")}
		want := b.ok
		if want {
			want = f.specHolds(u, perm)
		}
		verifDecideBool("C19-haspermrequest-rule", f, c.HasPermRequest(b, perm), want,
			func(g *verifFile) bool { return b.ok && g.specHolds(u, perm) })
		verifReach("haspermrequest")
	case 6: // no credential store: auth is not enabled, everything is allowed
		var none *CredentialsStore
		verifAssert("C19-nil-store-allows", none.AA(u, pw, perm))
		verifReach("nil-store")
	}
}

// VerifC19Twin (vacuity twin): same files and queries, but the oracle lets the FIRST definition
// of a user win; it must be violated.
func VerifC19Twin() {
	maxN, maxPerms, withNull := verifBounds()
	f := verifBuildFile(maxN, maxPerms, withNull)
	u, pw, perm := verifStr("queryUser"), verifStr("queryPassword"), verifStr("queryPerm")
	c, err := verifLoadFile(f)
	verifAssert("C19-load-accepts-well-formed-file", err == nil)
	got := c.AA(u, pw, perm)
	// reverse the file: "last wins" on the reversed file is "first wins" on the original
	r := &verifFile{}
	for i := len(f.entries) - 1; i >= 0; i-- {
		r.entries = append(r.entries, f.entries[i])
	}
	verifAssert("twin", got == r.specAA(u, pw, perm))
}
