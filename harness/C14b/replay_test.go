package sql

import (
	"database/sql/driver"
	"fmt"
	"io"
	"os"
	"strings"
	"testing"
	"time"

	sqlite3 "github.com/mattn/go-sqlite3"

	"github.com/rqlite/rqlite/v10/command/proto"
)

// Native oracle for C14(a): evaluate the text on a scratch in-memory SQLite at two instants
// (1.1 s apart). It is non-deterministic if the results differ, or if the result shows today's
// (UTC) date although the text contains no such literal (date('now') only changes at midnight).
func init() {
	verifC14Nondet = verifC14NondetNative
}

func verifC14Eval(c driver.Conn, q string) string {
	rows, err := c.(driver.Queryer).Query(q, nil)
	if err != nil {
		return "ERR:" + err.Error()
	}
	defer rows.Close()
	out := ""
	vals := make([]driver.Value, len(rows.Columns()))
	for {
		if err := rows.Next(vals); err != nil {
			if err != io.EOF {
				return "ERR:" + err.Error()
			}
			break
		}
		out += fmt.Sprintf("%v;", vals)
	}
	return out
}

func verifC14NondetNative(q string) (bool, string) {
	c, err := (&sqlite3.SQLiteDriver{}).Open(":memory:")
	if err != nil {
		panic(err)
	}
	defer c.Close()
	v1 := verifC14Eval(c, q)
	if strings.HasPrefix(v1, "ERR:") {
		return false, v1
	}
	today := time.Now().UTC().Format("2006-01-02")
	if strings.Contains(v1, today) && !strings.Contains(q, today) {
		return true, "shows today's date: " + v1
	}
	time.Sleep(1100 * time.Millisecond)
	v2 := verifC14Eval(c, q)
	if v1 != v2 {
		return true, v1 + " != " + v2
	}
	return false, v1
}

func TestVerifC14Calibrate(t *testing.T) {
	if os.Getenv("VERIF_C14_CAL") == "" {
		t.Skip()
	}
	for _, s := range []string{
		"SELECT date('now')", "SELECT date ('now')", "SELECT time\t('NOW')", "SELECT datetime/**/('now')", "SELECT julianday--x\n('now')", "SELECT unixepoch ('now')",
		"SELECT strftime ('%s','now')", "SELECT timediff ('now','2000-01-01')", "SELECT timediff('2000-01-01','now')",
		"SELECT \"date\"('now')", "SELECT [time]('now')", "SELECT `unixepoch`('now')", "SELECT \"random\"()", "SELECT [randomblob](3)",
		"SELECT random ()", "SELECT randomblob (4)", "SELECT RaNdOm()", "select date('2020-01-01')", "SELECT 1", "SELECT date", "SELECT 'date ('",
	} {
		st := []*proto.Statement{{Sql: s}}
		Process(st, true, true)
		nd, why := verifC14NondetNative(st[0].Sql)
		fmt.Printf("CAL in=%q out=%q nondet-after-process=%v %s\n", s, st[0].Sql, nd, why)
	}
}
