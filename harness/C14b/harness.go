package sql

import (
	"errors"
	"regexp"

	"github.com/rqlite/rqlite/v10/command/proto"
	rsql "github.com/rqlite/sql"
)

// C14(a): the substring pre-filter of Process. For every text (<= 40 ASCII bytes) of a region of
// "statements SQLite evaluates non-deterministically because they call one of the nine functions"
// Process must hand the text to the parser (it must not `continue` past it).
//
// The regions are written from SQLite's tokenizer and expression grammar, not from the filter:
//   * function names are identifiers: ASCII case-insensitive, may be quoted ("x", [x], `x`);
//   * white space ([ \t\n\f\r]) and comments (/*..*/, --..\n) may separate any two tokens, in
//     particular the function name and its '(';
//   * date/time functions: the time value 'now' (case-insensitive) reads the clock.
//
// In the engine the parser is replaced by a model that records the call and fails (so Process
// takes its `continue` after the parser): "parser reached" is the observation. Natively the real
// Process runs on the witness; the witness counts only if the text is returned unchanged AND a
// scratch SQLite evaluates it to clock-dependent / differing values (verifC14Nondet).

// verifC14Nondet is the native oracle (set by replay_test.go; nil in the engine).
var verifC14Nondet func(sql string) (bool, string)

var verifC14Parsed int

// model of (*sql.Parser).ParseStatement (engine only)
func verifC14ParseStatement(p *rsql.Parser) (rsql.Statement, error) {
	verifC14Parsed++
	return nil, errors.New("verif: parser not modelled")
}

const (
	vWS   = `[ \t\n\f\r]`
	vGap  = `(?:` + vWS + `{1,3}|/\*[a-z ]{0,2}\*/|--[a-z ]{0,2}\n)` // non-empty token separator
	vNow  = `'(?i:now)'`
	vSel  = `^` + vWS + `*(?i:SELECT)` + vWS + `+`
	vEnd  = vWS + `*;?` + vWS + `*$`
	vTime = `(?i:date|time|datetime|julianday|unixepoch)`
)

type verifRegion struct {
	name    string
	time    bool   // needs rwtime (else rwrand)
	finding string // "" = must reach the parser
	re      *regexp.Regexp
}

func vQuoted(n string) string { return `(?:"` + n + `"|\[` + n + `\]|` + "`" + n + "`)" }

// call forms: name, separator between name and '(', argument list
func vTimeCall(name, gap string) string {
	return name + gap + `\(` + vWS + `*` + vNow + vWS + `*\)`
}
func vStrftime(name, gap string) string {
	return name + gap + `\('%[sYJ]',` + vWS + `?` + vNow + `\)`
}
func vTimediff(name, gap string) string {
	return name + gap + `\((?:` + vNow + `,'2000-01-01'|'2000-01-01',` + vNow + `)\)`
}
func vRandom(name, gap string) string     { return name + gap + `\(` + vWS + `*\)` }
func vRandomblob(name, gap string) string { return name + gap + `\(` + vWS + `*[1-9]` + vWS + `*\)` }

func vStmt(call string) *regexp.Regexp { return regexp.MustCompile(vSel + call + vEnd) }

var verifRegions = []verifRegion{
	// ---- baseline: name immediately followed by '(' : must reach the parser
	{"date(", true, "", vStmt(vTimeCall(`(?i:date)`, ``))},
	{"time(", true, "", vStmt(vTimeCall(`(?i:time)`, ``))},
	{"datetime(", true, "", vStmt(vTimeCall(`(?i:datetime)`, ``))},
	{"julianday(", true, "", vStmt(vTimeCall(`(?i:julianday)`, ``))},
	{"unixepoch(", true, "", vStmt(vTimeCall(`(?i:unixepoch)`, ``))},
	{"strftime(", true, "", vStmt(vStrftime(`(?i:strftime)`, ``))},
	{"timediff(", true, "", vStmt(vTimediff(`(?i:timediff)`, ``))},
	{"random(", false, "", vStmt(vRandom(`(?i:random)`, ``))},
	{"randomblob(", false, "", vStmt(vRandomblob(`(?i:randomblob)`, ``))},
	// ---- further forms SQLite accepts
	{"time fn, gap before paren", true, "C14-filter-gap-before-paren", vStmt(`(?:` + vTimeCall(vTime, vGap) + `|` + vStrftime(`(?i:strftime)`, vGap) + `|` + vTimediff(`(?i:timediff)`, vGap) + `)`)},
	{"random fn, gap before paren", false, "C14-filter-gap-before-paren", vStmt(`(?:` + vRandom(`(?i:random)`, vGap) + `|` + vRandomblob(`(?i:randomblob)`, vGap) + `)`)},
	{"time fn, quoted name", true, "C14-filter-quoted-function-name", vStmt(`(?:` + vTimeCall(vQuoted(vTime), ``) + `|` + vStrftime(vQuoted(`(?i:strftime)`), ``) + `)`)},
	{"random fn, quoted name", false, "C14-filter-quoted-function-name", vStmt(`(?:` + vRandom(vQuoted(`(?i:random)`), ``) + `|` + vRandomblob(vQuoted(`(?i:randomblob)`), ``) + `)`)},
}

const verifNBase = 9

var verifASCII = regexp.MustCompile(`^[ \t\n\f\r!-~]*$`)

func verifC14Region(k int) {
	r := verifRegions[k]
	s := verifString("sql", 40)
	verifAssume(verifASCII.MatchString(s))
	verifAssume(r.re.MatchString(s))
	rwrand, rwtime := verifBool("rwrand"), verifBool("rwtime")
	if r.time {
		verifAssume(rwtime)
	} else {
		verifAssume(rwrand)
	}
	verifReach("region-nonempty-" + r.name)

	verifC14Parsed = 0
	st := []*proto.Statement{{Sql: s}}
	err := Process(st, rwrand, rwtime)
	verifAssert("C14-process-no-error", err == nil)
	if verifSymbolic() {
		if verifC14Parsed > 0 {
			verifReach("parser-reached-" + r.name)
			return
		}
	} else {
		// native replay: real parser and rewriter. The witness counts only if the text comes
		// back unchanged and SQLite really evaluates it non-deterministically.
		if st[0].Sql != s {
			return
		}
		if nd, _ := verifC14Nondet(s); !nd {
			return
		}
	}
	if r.finding != "" {
		verifFinding(r.finding)
	}
	verifAssert("C14-filter-covers-"+r.name, false)
}

func VerifC14FilterBaseline() { verifC14Region(verifChoice("region", verifNBase)) }
func VerifC14FilterForms() {
	verifC14Region(verifNBase + verifChoice("form", len(verifRegions)-verifNBase))
}

// Twin: a text that mentions a function name without calling it need not reach the parser;
// asserting that it does must be violated.
func VerifC14FilterTwin() {
	s := verifString("sql", 24)
	verifAssume(verifASCII.MatchString(s))
	verifAssume(verifTwinRe.MatchString(s))
	verifC14Parsed = 0
	st := []*proto.Statement{{Sql: s}}
	Process(st, true, true)
	verifAssert("twin", verifC14Parsed > 0)
}

var verifTwinRe = regexp.MustCompile(`^(?i:SELECT)` + vWS + `+(?i:random|date)` + vWS + `*$`)
