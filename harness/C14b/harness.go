package sql

import (
	"errors"
	"regexp"

	"github.com/rqlite/rqlite/v10/command/proto"
	rsql "github.com/rqlite/sql"
)

// C14(a): the substring pre-filter of Process. For every text of a family of "statements SQLite
// evaluates non-deterministically because they call one of the nine functions" Process must hand
// the text to the parser (it must not `continue` past it).
//
// The family is written from SQLite's tokenizer and expression grammar, not from the filter:
//   * keywords and function names are ASCII case-insensitive; a function name is an identifier
//     and may be quoted ("x", [x], `x`);
//   * white space ([ \t\n\f\r]) and comments (/*..*/, --..\n) may separate any two tokens, in
//     particular the function name and its '(';
//   * date/time functions: the time value 'now' (case-insensitive) reads the clock.
//
// Two encodings of the family:
//   * byte vectors (all tiers): the text is generated token by token; the case of every letter,
//     every white-space byte and every comment byte is symbolic, the shape (function, kind and
//     length of the separator, quoting) is enumerated;
//   * solver-level strings constrained by regular expressions (thorough tier), which also cover
//     every mixture of separator lengths in one query.
//
// In the engine the parser is replaced by a model that records the call and fails (so Process
// takes its `continue` after the parser): "parser reached" is the observation. Natively the real
// Process runs on the witness; the witness counts only if the text is returned unchanged AND a
// scratch SQLite evaluates it to clock-dependent / differing values (verifC14Nondet).

// verifC14Nondet is the native oracle (set by replay_test.go; nil in the engine).
var verifC14Nondet func(sql string) (bool, string)

var verifC14Parsed int

// model of (*sql.Parser).ParseStatement (engine only)
func verifC14ParseStatement(p *rsql.Parser) (rsql.Statement, error) {
	verifC14Parsed++
	return nil, errors.New("verif: parser not modelled")
}

var verifFns = []string{"date", "time", "datetime", "julianday", "unixepoch", "strftime", "timediff", "random", "randomblob"}

const verifNTime = 7 // the first seven read the clock, the last two the random generator

// ---------------------------------------------------------------------------------------------
// byte-vector generator

type verifText struct {
	b    []byte
	pool []byte
	next int
	ok   bool // conjunction of the constraints on the symbolic bytes (assumed once, by done)
}

func (t *verifText) done() string { verifAssume(t.ok); return string(t.b) }

func (t *verifText) sym() byte { c := t.pool[t.next]; t.next++; return c }
func (t *verifText) lit(s string) {
	t.b = append(t.b, s...)
}

// word appends s with the case of every letter left to the solver.
func (t *verifText) word(s string) {
	for i := 0; i < len(s); i++ {
		c := t.sym()
		t.ok = verifAnd(t.ok, c|0x20 == s[i])
		t.b = append(t.b, c)
	}
}

// ws appends n white-space bytes (SQLite: space, \t, \n, \f, \r).
func (t *verifText) ws(n int) {
	for i := 0; i < n; i++ {
		c := t.sym()
		t.ok = verifAnd(t.ok, verifOr(verifOr(verifOr(c == ' ', c == '\t'), verifOr(c == '\n', c == '\f')), c == '\r'))
		t.b = append(t.b, c)
	}
}

// filler appends n comment bytes: printable ASCII except '*' and '/' (so a block comment does
// not end early).
func (t *verifText) filler(n int) {
	for i := 0; i < n; i++ {
		c := t.sym()
		t.ok = verifAnd(t.ok, verifAnd(verifAnd(c >= ' ', c <= '~'), verifAnd(c != '*', c != '/')))
		t.b = append(t.b, c)
	}
}

// gap kinds: 0 none; 1..3 white space of that length; 4..6 block comment with 0..2 bytes;
// 7..9 line comment with 0..2 bytes
const verifNGap = 10

func (t *verifText) gap(g int) {
	switch {
	case g == 0:
	case g <= 3:
		t.ws(g)
	case g <= 6:
		t.lit("/*")
		t.filler(g - 4)
		t.lit("*/")
	default:
		t.lit("--")
		t.filler(g - 7)
		t.lit("\n")
	}
}

func (t *verifText) now() { t.lit("'"); t.word("now"); t.lit("'") }

// verifGen builds `<pad>SELECT<ws><name><gap>(<args>)<pad>[;]`.
func verifGen(f, g, q, pad, variant int) string {
	t := &verifText{pool: verifBytes("t", 64), ok: true}
	t.ws(pad)
	t.word("select")
	t.ws(1)
	open, close := "", ""
	switch q {
	case 1:
		open, close = `"`, `"`
	case 2:
		open, close = "[", "]"
	case 3:
		open, close = "`", "`"
	}
	t.lit(open)
	t.word(verifFns[f])
	t.lit(close)
	t.gap(g)
	t.lit("(")
	t.ws(pad)
	switch verifFns[f] {
	case "strftime":
		t.lit([]string{"'%s',", "'%Y',", "'%J',"}[variant%3])
		t.ws(pad)
		t.now()
	case "timediff":
		if variant%2 == 0 {
			t.now()
			t.lit(",'2000-01-01'")
		} else {
			t.lit("'2000-01-01',")
			t.now()
		}
	case "random":
	case "randomblob":
		c := t.sym()
		t.ok = verifAnd(t.ok, verifAnd(c >= '1', c <= '9'))
		t.b = append(t.b, c)
	default:
		t.now()
	}
	t.ws(pad)
	t.lit(")")
	if variant%2 == 1 {
		t.lit(";")
	}
	return t.done()
}

func verifC14Check(s string, f int, name, finding string) {
	rwrand, rwtime := verifBool("rwrand"), verifBool("rwtime")
	if f < verifNTime {
		verifAssume(rwtime)
	} else {
		verifAssume(rwrand)
	}
	verifC14Parsed = 0
	st := []*proto.Statement{{Sql: s}}
	err := Process(st, rwrand, rwtime)
	verifAssert("C14-process-no-error", err == nil)
	if verifSymbolic() {
		if verifC14Parsed > 0 {
			verifReach("parser-reached-" + name)
			return
		}
	} else {
		// native replay: real parser and rewriter. The witness counts only if the text comes
		// back unchanged and SQLite really evaluates it non-deterministically.
		if st[0].Sql != s {
			return
		}
		if nd, _ := verifC14Nondet(s); !nd {
			return
		}
	}
	if finding != "" {
		verifFinding(finding)
	}
	verifAssert("C14-filter-covers-"+name, false)
}

// name directly followed by '(' : must reach the parser
func VerifC14FilterBaseline() {
	f := verifChoice("fn", len(verifFns))
	s := verifGen(f, 0, 0, verifChoice("pad", 2), verifChoice("variant", 2+verifTier()*4))
	verifC14Check(s, f, verifFns[f]+"(", "")
}

// white space or a comment between the name and '('
func VerifC14FilterGap() {
	f := verifChoice("fn", len(verifFns))
	var g int
	if verifTier() == 0 {
		g = []int{1, 3, 4, 6, 8}[verifChoice("gap", 5)]
	} else {
		g = 1 + verifChoice("gap", verifNGap-1)
	}
	s := verifGen(f, g, 0, verifChoice("pad", 1+verifTier()), verifChoice("variant", 1+verifTier()))
	verifReach("gap-generated")
	verifC14Check(s, f, "gap before paren", "C14-filter-gap-before-paren")
}

// quoted function name
func VerifC14FilterQuoted() {
	f := verifChoice("fn", len(verifFns))
	q := 1 + verifChoice("quote", 3)
	s := verifGen(f, 0, q, verifChoice("pad", 1+verifTier()), verifChoice("variant", 1+verifTier()))
	verifReach("quoted-generated")
	verifC14Check(s, f, "quoted name", "C14-filter-quoted-function-name")
}

// Twin: a text of the same shape that names none of the nine functions need not reach the
// parser; asserting that it does must be violated.
func VerifC14FilterTwin() {
	t := &verifText{pool: verifBytes("t", 64), ok: true}
	t.word("select")
	t.ws(1)
	t.word("total")
	verifC14Parsed = 0
	st := []*proto.Statement{{Sql: t.done()}}
	Process(st, true, true)
	verifAssert("twin", verifC14Parsed > 0)
}

// ---------------------------------------------------------------------------------------------
// regular-expression regions over solver-level strings (thorough tier)

const (
	vWS   = `[ \t\n\f\r]`
	vGap  = `(?:` + vWS + `{1,3}|/\*[a-z ]{0,2}\*/|--[a-z ]{0,2}\n)` // non-empty token separator
	vNow  = `'(?i:now)'`
	vSel  = `^(?i:SELECT)` + vWS + `+`
	vEnd  = `;?$`
	vTime = `(?i:date|time|datetime|julianday|unixepoch)`
)

type verifRegion struct {
	name    string
	time    bool   // needs rwtime (else rwrand)
	finding string // "" = must reach the parser
	re      *regexp.Regexp
}

func vQuoted(n string) string { return `(?:"` + n + `"|\[` + n + `\]|` + "`" + n + "`)" }

// call forms: name, separator between name and '(', argument list
func vTimeCall(name, gap string) string {
	return name + gap + `\(` + vWS + `*` + vNow + vWS + `*\)`
}
func vStrftime(name, gap string) string {
	return name + gap + `\('%[sYJ]',` + vWS + `?` + vNow + `\)`
}
func vTimediff(name, gap string) string {
	return name + gap + `\((?:` + vNow + `,'2000-01-01'|'2000-01-01',` + vNow + `)\)`
}
func vRandom(name, gap string) string     { return name + gap + `\(` + vWS + `*\)` }
func vRandomblob(name, gap string) string { return name + gap + `\(` + vWS + `*[1-9]` + vWS + `*\)` }

func vStmt(call string) *regexp.Regexp { return regexp.MustCompile(vSel + call + vEnd) }

var verifRegions = []verifRegion{
	// ---- baseline: name immediately followed by '(' : must reach the parser
	{"date(", true, "", vStmt(vTimeCall(`(?i:date)`, ``))},
	{"time(", true, "", vStmt(vTimeCall(`(?i:time)`, ``))},
	{"datetime(", true, "", vStmt(vTimeCall(`(?i:datetime)`, ``))},
	{"julianday(", true, "", vStmt(vTimeCall(`(?i:julianday)`, ``))},
	{"unixepoch(", true, "", vStmt(vTimeCall(`(?i:unixepoch)`, ``))},
	{"strftime(", true, "", vStmt(vStrftime(`(?i:strftime)`, ``))},
	{"timediff(", true, "", vStmt(vTimediff(`(?i:timediff)`, ``))},
	{"random(", false, "", vStmt(vRandom(`(?i:random)`, ``))},
	{"randomblob(", false, "", vStmt(vRandomblob(`(?i:randomblob)`, ``))},
	// ---- further forms SQLite accepts
	{"time fn, gap before paren", true, "C14-filter-gap-before-paren", vStmt(`(?:` + vTimeCall(vTime, vGap) + `|` + vStrftime(`(?i:strftime)`, vGap) + `|` + vTimediff(`(?i:timediff)`, vGap) + `)`)},
	{"random fn, gap before paren", false, "C14-filter-gap-before-paren", vStmt(`(?:` + vRandom(`(?i:random)`, vGap) + `|` + vRandomblob(`(?i:randomblob)`, vGap) + `)`)},
	{"time fn, quoted name", true, "C14-filter-quoted-function-name", vStmt(`(?:` + vTimeCall(vQuoted(vTime), ``) + `|` + vStrftime(vQuoted(`(?i:strftime)`), ``) + `)`)},
	{"random fn, quoted name", false, "C14-filter-quoted-function-name", vStmt(`(?:` + vRandom(vQuoted(`(?i:random)`), ``) + `|` + vRandomblob(vQuoted(`(?i:randomblob)`), ``) + `)`)},
}

const verifNBase = 9

var verifASCII = regexp.MustCompile(`^[ \t\n\f\r!-~]*$`)

func verifC14Region(k int) {
	r := verifRegions[k]
	s := verifString("sql", 40)
	verifAssume(verifASCII.MatchString(s))
	verifAssume(r.re.MatchString(s))
	verifReach("region-nonempty-" + r.name)
	f := verifNTime
	if r.time {
		f = 0
	}
	verifC14Check(s, f, "re "+r.name, r.finding)
}

func VerifC14FilterReBaseline() { verifC14Region(verifChoice("region", verifNBase)) }
func VerifC14FilterReForms() {
	verifC14Region(verifNBase + verifChoice("form", len(verifRegions)-verifNBase))
}
