package sql

import (
	"strconv"
	"strings"
	"time"

	"github.com/rqlite/rqlite/v10/command/proto"
	rsql "github.com/rqlite/sql"
)

// C14(d) traversal completeness: "FULLY rewritten".
//
// VerifC14Visit decides what happens to ONE *sql.Call the visitor is shown. This entry decides that
// every call of a statement IS shown to the visitor, by induction over the AST of the dependency
// github.com/rqlite/sql: rsql.Walk(rewriter, stmt) shows every descendant of stmt to the rewriter
// iff, for every struct kind K statements are made of and every child slot s of K under which a
// *Call can sit, a call placed under s is shown. The case list (kind, slot) is verifC14Slots; it is
// compared with the struct declarations of the dependency (go/types over the module's sources) by
// TestVerifC14WalkTable, so a new kind or slot in the dependency fails that test.
//
// Per row: a statement text that puts the non-deterministic call into the slot (where the slot's
// type is Expr or []Expr: directly into it; else at the nearest place below it). The entry
//   1. parses the text with the real parser and finds the non-deterministic calls and the slots that
//      lead to them with its OWN traversal (verifC14Children, generated from the struct
//      declarations; natively compared with a reflection walk of the same value on every replay;
//      it never uses rsql.Walk): the witness must have exactly one, under the row's (kind, slot);
//   2. runs the real Rewriter.Do with stubbed clock and random source and scans the RESULT with the
//      same traversal: no non-deterministic call may remain, the statement is reported as modified,
//      and what the result says (verifC14Shape: kinds, slots, names, literals, operators) is what
//      the original said with only the call replaced (random(): the drawn number; 'now': the
//      Julian day of the stubbed instant);
//   3. runs the real Process on the text and parses the text that would be replicated again: no
//      non-deterministic call in it, and everything around the call says what the original said
//      (so a clause the printer of rqlite/sql loses or changes on the way shows up here).
// Rows inside an ORDER BY term keep random() (the property's exception); rows of kinds that cannot
// occur below a SELECT/INSERT/UPDATE/DELETE statement (schema definitions, PRAGMA, ...) are outside
// the property's grammar: listed, witnessed, not asserted.

type verifC14Child struct {
	slot string
	n    any
}

// native: the reflection twin of verifC14Children (walktable_test.go); nil in the engine
var verifC14ChildrenHook func(n any) []verifC14Child

const (
	verifC14ScopeDML   = iota // kind can occur below a SELECT/INSERT/UPDATE/DELETE statement: asserted
	verifC14ScopeOther        // only below other statements: outside the property's grammar, observed
)

type verifC14SlotRow struct {
	kind, slot string // struct type and field of github.com/rqlite/sql
	typ        string // the field's type (checked against the dependency)
	sql        string // witness text, § = the call ("" = no text of the parser's language reaches the slot)
	scope      int
	orderBy    bool   // the slot lies inside an ORDER BY term: random()/randomblob() stay as they are
	finding    string // class recorded for the unchanged tree: Walk does not show the children of this slot
	why        string // scope other: why the property does not speak about it (and what was observed)
}

func verifC14Ins(e string) string { return "INSERT INTO t(a, v) VALUES (1, " + e + ")" }

const (
	verifC14FNull    = "C14-walk-skips-null-operand"
	verifC14FSubsel  = "C14-walk-skips-subselect-expression"
	verifC14FWith    = "C14-walk-skips-with-clause"
	verifC14WhyDDL   = "schema definition: the expression is stored and evaluated later, on every node; the property quantifies over SELECT/INSERT/UPDATE/DELETE/UPSERT/RETURNING/CTE forms (observed: Walk descends, the call is replaced by a constant in the stored definition)"
	verifC14WhyNoSQL = "not evaluated as an SQL expression by SQLite (observed: Walk does not descend, the text is replicated as written)"
)

var verifC14Slots = []verifC14SlotRow{
	// ---- statements
	{kind: "InsertStatement", slot: "WithClause", typ: "*WithClause", sql: "WITH c AS (SELECT § AS r) INSERT INTO t(v) SELECT r FROM c", finding: verifC14FWith},
	{kind: "InsertStatement", slot: "ValueLists", typ: "[]*ExprList", sql: "INSERT INTO t(v) VALUES (1), (§)"},
	{kind: "InsertStatement", slot: "Select", typ: "*SelectStatement", sql: "INSERT INTO t(v) SELECT §"},
	{kind: "InsertStatement", slot: "UpsertClause", typ: "*UpsertClause", sql: "INSERT INTO t(id, v) VALUES (1, 2) ON CONFLICT (id) DO UPDATE SET v = §"},
	{kind: "InsertStatement", slot: "ReturningClause", typ: "*ReturningClause", sql: "INSERT INTO t(v) VALUES (1) RETURNING §"},
	{kind: "UpdateStatement", slot: "WithClause", typ: "*WithClause", sql: "WITH c AS (SELECT § AS r) UPDATE t SET v = 1 WHERE a IN c", finding: verifC14FWith},
	{kind: "UpdateStatement", slot: "Assignments", typ: "[]*Assignment", sql: "UPDATE t SET a = 1, v = §"},
	{kind: "UpdateStatement", slot: "Source", typ: "Source", sql: "UPDATE t SET v = s.r FROM (SELECT § AS r) AS s"},
	{kind: "UpdateStatement", slot: "WhereExpr", typ: "Expr", sql: "UPDATE t SET v = 1 WHERE §"},
	{kind: "UpdateStatement", slot: "ReturningClause", typ: "*ReturningClause", sql: "UPDATE t SET v = 1 RETURNING §"},
	{kind: "DeleteStatement", slot: "WithClause", typ: "*WithClause", sql: "WITH c AS (SELECT § AS r) DELETE FROM t WHERE a IN c", finding: verifC14FWith},
	{kind: "DeleteStatement", slot: "WhereExpr", typ: "Expr", sql: "DELETE FROM t WHERE §"},
	{kind: "DeleteStatement", slot: "OrderingTerms", typ: "[]*OrderingTerm", sql: "DELETE FROM t WHERE a > 1 ORDER BY a, § LIMIT 1", orderBy: true},
	{kind: "DeleteStatement", slot: "LimitExpr", typ: "Expr", sql: "DELETE FROM t ORDER BY a LIMIT §"},
	{kind: "DeleteStatement", slot: "OffsetExpr", typ: "Expr", sql: "DELETE FROM t ORDER BY a LIMIT 1 OFFSET §"},
	{kind: "DeleteStatement", slot: "ReturningClause", typ: "*ReturningClause", sql: "DELETE FROM t RETURNING §"},
	{kind: "SelectStatement", slot: "WithClause", typ: "*WithClause", sql: "WITH c AS (SELECT § AS r) SELECT r FROM c", finding: verifC14FWith},
	{kind: "SelectStatement", slot: "ValueLists", typ: "[]*ExprList", sql: "INSERT INTO t(v) SELECT * FROM (VALUES (1), (§))"},
	{kind: "SelectStatement", slot: "Columns", typ: "[]*ResultColumn", sql: "INSERT INTO t(a, v) SELECT 1, §"},
	{kind: "SelectStatement", slot: "Source", typ: "Source", sql: "INSERT INTO t(v) SELECT r FROM (SELECT § AS r)"},
	{kind: "SelectStatement", slot: "WhereExpr", typ: "Expr", sql: "INSERT INTO t(v) SELECT a FROM t WHERE §"},
	{kind: "SelectStatement", slot: "GroupByExprs", typ: "[]Expr", sql: "INSERT INTO t(v) SELECT count(*) FROM t GROUP BY a, §"},
	{kind: "SelectStatement", slot: "HavingExpr", typ: "Expr", sql: "INSERT INTO t(v) SELECT count(*) FROM t GROUP BY a HAVING §"},
	{kind: "SelectStatement", slot: "Windows", typ: "[]*Window", sql: "INSERT INTO t(v) SELECT sum(a) OVER w FROM t WINDOW u AS (PARTITION BY a), w AS (PARTITION BY §)"},
	{kind: "SelectStatement", slot: "Compound", typ: "*SelectStatement", sql: "INSERT INTO t(v) SELECT 1 UNION ALL SELECT §"},
	{kind: "SelectStatement", slot: "OrderingTerms", typ: "[]*OrderingTerm", sql: "INSERT INTO t(v) SELECT a FROM t ORDER BY a, § LIMIT 1", orderBy: true},
	{kind: "SelectStatement", slot: "LimitExpr", typ: "Expr", sql: "INSERT INTO t(v) SELECT a FROM t LIMIT §"},
	{kind: "SelectStatement", slot: "OffsetExpr", typ: "Expr", sql: "INSERT INTO t(v) SELECT a FROM t LIMIT 1 OFFSET §"},
	// ---- clauses of statements
	{kind: "WithClause", slot: "CTEs", typ: "[]*CTE", sql: "WITH c AS (SELECT 1 AS r), d AS (SELECT § AS r) INSERT INTO t(v) SELECT r FROM d", finding: verifC14FWith},
	{kind: "CTE", slot: "Select", typ: "*SelectStatement", sql: "WITH c AS (SELECT § AS r) INSERT INTO t(v) SELECT r FROM c", finding: verifC14FWith},
	{kind: "UpsertClause", slot: "Columns", typ: "[]*IndexedColumn", sql: "INSERT INTO t(id, v) VALUES (1, 2) ON CONFLICT (id, §) DO NOTHING"},
	{kind: "UpsertClause", slot: "WhereExpr", typ: "Expr", sql: "INSERT INTO t(id, v) VALUES (1, 2) ON CONFLICT (id) WHERE § DO NOTHING"},
	{kind: "UpsertClause", slot: "Assignments", typ: "[]*Assignment", sql: "INSERT INTO t(id, v) VALUES (1, 2) ON CONFLICT (id) DO UPDATE SET a = 1, v = §"},
	{kind: "UpsertClause", slot: "UpdateWhereExpr", typ: "Expr", sql: "INSERT INTO t(id, v) VALUES (1, 2) ON CONFLICT (id) DO UPDATE SET v = 1 WHERE §"},
	{kind: "ReturningClause", slot: "Columns", typ: "[]*ResultColumn", sql: "INSERT INTO t(v) VALUES (1) RETURNING id, §"},
	{kind: "Assignment", slot: "Expr", typ: "Expr", sql: "UPDATE t SET v = §"},
	{kind: "IndexedColumn", slot: "X", typ: "Expr", sql: "INSERT INTO t(id, v) VALUES (1, 2) ON CONFLICT (§) DO NOTHING"},
	{kind: "ResultColumn", slot: "Expr", typ: "Expr", sql: "INSERT INTO t(v) SELECT § AS r"},
	{kind: "OrderingTerm", slot: "X", typ: "Expr", sql: "INSERT INTO t(v) SELECT a FROM t ORDER BY § LIMIT 1", orderBy: true},
	// ---- expressions
	{kind: "ExprList", slot: "Exprs", typ: "[]Expr", sql: verifC14Ins("§")},
	{kind: "BinaryExpr", slot: "X", typ: "Expr", sql: verifC14Ins("§ + 1")},
	{kind: "BinaryExpr", slot: "Y", typ: "Expr", sql: verifC14Ins("a || §")},
	{kind: "UnaryExpr", slot: "X", typ: "Expr", sql: verifC14Ins("-§")},
	{kind: "ParenExpr", slot: "X", typ: "Expr", sql: verifC14Ins("(§)")},
	{kind: "CastExpr", slot: "X", typ: "Expr", sql: verifC14Ins("CAST(§ AS TEXT)")},
	{kind: "CollateExpr", slot: "X", typ: "Expr", sql: verifC14Ins("§ COLLATE NOCASE")},
	{kind: "CaseExpr", slot: "Operand", typ: "Expr", sql: verifC14Ins("CASE § WHEN 1 THEN 2 END")},
	{kind: "CaseExpr", slot: "Blocks", typ: "[]*CaseBlock", sql: verifC14Ins("CASE WHEN a THEN 1 WHEN § THEN 2 END")},
	{kind: "CaseExpr", slot: "ElseExpr", typ: "Expr", sql: verifC14Ins("CASE WHEN a THEN 2 ELSE § END")},
	{kind: "CaseBlock", slot: "Condition", typ: "Expr", sql: verifC14Ins("CASE WHEN § THEN 1 END")},
	{kind: "CaseBlock", slot: "Body", typ: "Expr", sql: verifC14Ins("CASE WHEN a THEN § END")},
	{kind: "Exists", slot: "Select", typ: "*SelectStatement", sql: verifC14Ins("EXISTS (SELECT §)")},
	{kind: "Null", slot: "X", typ: "Expr", sql: verifC14Ins("§ IS NULL"), finding: verifC14FNull},
	{kind: "Range", slot: "X", typ: "Expr", sql: verifC14Ins("a BETWEEN § AND 2")},
	{kind: "Range", slot: "Y", typ: "Expr", sql: verifC14Ins("a BETWEEN 0 AND §")},
	{kind: "Call", slot: "Args", typ: "[]Expr", sql: verifC14Ins("max(a, §)")},
	{kind: "Call", slot: "Filter", typ: "*FilterClause", sql: "INSERT INTO t(v) SELECT count(*) FILTER (WHERE §) FROM t"},
	{kind: "Call", slot: "Over", typ: "*OverClause", sql: "INSERT INTO t(v) SELECT sum(a) OVER (PARTITION BY §) FROM t"},
	{kind: "FilterClause", slot: "X", typ: "Expr", sql: "INSERT INTO t(v) SELECT count(*) FILTER (WHERE §) FROM t"},
	{kind: "OverClause", slot: "Definition", typ: "*WindowDefinition", sql: "INSERT INTO t(v) SELECT sum(a) OVER (PARTITION BY §) FROM t"},
	{kind: "SelectExpr", slot: "SelectStatement", typ: "*SelectStatement", sql: verifC14Ins("(SELECT §)"), finding: verifC14FSubsel},
	// ---- windows
	{kind: "Window", slot: "Definition", typ: "*WindowDefinition", sql: "INSERT INTO t(v) SELECT sum(a) OVER w FROM t WINDOW w AS (PARTITION BY §)"},
	{kind: "WindowDefinition", slot: "Partitions", typ: "[]Expr", sql: "INSERT INTO t(v) SELECT sum(a) OVER (PARTITION BY a, §) FROM t"},
	{kind: "WindowDefinition", slot: "OrderingTerms", typ: "[]*OrderingTerm", sql: "INSERT INTO t(v) SELECT sum(a) OVER (ORDER BY a, §) FROM t", orderBy: true},
	{kind: "WindowDefinition", slot: "Frame", typ: "*FrameSpec", sql: "INSERT INTO t(v) SELECT sum(a) OVER (ORDER BY a ROWS § PRECEDING) FROM t"},
	{kind: "FrameSpec", slot: "X", typ: "Expr", sql: "INSERT INTO t(v) SELECT sum(a) OVER (ORDER BY a ROWS BETWEEN § PRECEDING AND 1 FOLLOWING) FROM t"},
	{kind: "FrameSpec", slot: "Y", typ: "Expr", sql: "INSERT INTO t(v) SELECT sum(a) OVER (ORDER BY a ROWS BETWEEN 1 PRECEDING AND § FOLLOWING) FROM t"},
	// ---- sources
	{kind: "ParenSource", slot: "X", typ: "Source", sql: "INSERT INTO t(v) SELECT r FROM (SELECT § AS r) AS s"},
	{kind: "JoinClause", slot: "X", typ: "Source", sql: "INSERT INTO t(v) SELECT r FROM (SELECT § AS r) AS s JOIN t"},
	{kind: "JoinClause", slot: "Y", typ: "Source", sql: "INSERT INTO t(v) SELECT r FROM t JOIN (SELECT § AS r) AS s"},
	{kind: "JoinClause", slot: "Constraint", typ: "JoinConstraint", sql: "INSERT INTO t(v) SELECT u.a FROM t JOIN t AS u ON §"},
	{kind: "OnConstraint", slot: "X", typ: "Expr", sql: "INSERT INTO t(v) SELECT u.a FROM t JOIN t AS u ON §"},
	{kind: "QualifiedTableFunctionName", slot: "Args", typ: "[]Expr", sql: "INSERT INTO t(v) SELECT value FROM generate_series(1, §)"},

	// ---- kinds that cannot occur below SELECT/INSERT/UPDATE/DELETE: outside the property's grammar
	{kind: "ExplainStatement", slot: "Stmt", typ: "Statement", sql: "EXPLAIN INSERT INTO t(v) VALUES (§)", scope: verifC14ScopeOther, why: "EXPLAIN does not execute the statement (observed: Walk descends, the explained statement is the rewritten one)"},
	{kind: "CreateTableStatement", slot: "Columns", typ: "[]*ColumnDefinition", sql: "CREATE TABLE x (a INTEGER, b INTEGER DEFAULT (§))", scope: verifC14ScopeOther, why: verifC14WhyDDL},
	{kind: "CreateTableStatement", slot: "Constraints", typ: "[]Constraint", sql: "CREATE TABLE x (a INTEGER, CHECK (a < §))", scope: verifC14ScopeOther, why: verifC14WhyDDL},
	{kind: "CreateTableStatement", slot: "Select", typ: "*SelectStatement", sql: "CREATE TABLE x AS SELECT § AS r", scope: verifC14ScopeOther, why: "CREATE TABLE ... AS SELECT carries data but is not one of the property's statement forms (observed: Walk descends, the call is replaced)"},
	{kind: "ColumnDefinition", slot: "Constraints", typ: "[]Constraint", sql: "CREATE TABLE x (a INTEGER NOT NULL DEFAULT (§))", scope: verifC14ScopeOther, why: verifC14WhyDDL},
	{kind: "CheckConstraint", slot: "Expr", typ: "Expr", sql: "CREATE TABLE x (a INTEGER CHECK (§))", scope: verifC14ScopeOther, why: verifC14WhyDDL},
	{kind: "DefaultConstraint", slot: "Expr", typ: "Expr", sql: "CREATE TABLE x (a INTEGER DEFAULT (§))", scope: verifC14ScopeOther, why: verifC14WhyDDL},
	{kind: "GeneratedConstraint", slot: "Expr", typ: "Expr", sql: "CREATE TABLE x (a INTEGER, b GENERATED ALWAYS AS (§))", scope: verifC14ScopeOther, why: verifC14WhyDDL},
	{kind: "UniqueConstraint", slot: "Columns", typ: "[]*IndexedColumn", sql: "CREATE TABLE x (a INTEGER, UNIQUE (a, §))", scope: verifC14ScopeOther, why: verifC14WhyDDL},
	{kind: "AlterTableStatement", slot: "ColumnDef", typ: "*ColumnDefinition", sql: "ALTER TABLE t ADD COLUMN c DEFAULT (§)", scope: verifC14ScopeOther, why: verifC14WhyDDL},
	{kind: "CreateIndexStatement", slot: "Columns", typ: "[]*IndexedColumn", sql: "CREATE INDEX i ON t (a, §)", scope: verifC14ScopeOther, why: verifC14WhyDDL},
	{kind: "CreateIndexStatement", slot: "WhereExpr", typ: "Expr", sql: "CREATE INDEX i ON t (a) WHERE §", scope: verifC14ScopeOther, why: verifC14WhyDDL},
	{kind: "CreateViewStatement", slot: "Select", typ: "*SelectStatement", sql: "CREATE VIEW x AS SELECT § AS r", scope: verifC14ScopeOther, why: verifC14WhyDDL},
	{kind: "CreateTriggerStatement", slot: "WhenExpr", typ: "Expr", sql: "CREATE TRIGGER tr AFTER INSERT ON t WHEN § BEGIN DELETE FROM t; END", scope: verifC14ScopeOther, why: verifC14WhyDDL},
	{kind: "CreateTriggerStatement", slot: "Body", typ: "[]Statement", sql: "CREATE TRIGGER tr AFTER INSERT ON t BEGIN DELETE FROM t; INSERT INTO t(v) VALUES (§); END", scope: verifC14ScopeOther, why: verifC14WhyDDL},
	{kind: "CreateVirtualTableStatement", slot: "Arguments", typ: "[]*ModuleArgument", sql: "CREATE VIRTUAL TABLE x USING m(a, b=§)", scope: verifC14ScopeOther, why: "module arguments are raw text handed to the virtual table module: " + verifC14WhyNoSQL},
	{kind: "ModuleArgument", slot: "Literal", typ: "Expr", sql: "CREATE VIRTUAL TABLE x USING m(a=§)", scope: verifC14ScopeOther, why: "module arguments are raw text handed to the virtual table module: " + verifC14WhyNoSQL},
	{kind: "PragmaStatement", slot: "Expr", typ: "Expr", sql: "", scope: verifC14ScopeOther, why: "the parser stores the whole PRAGMA body (name = value, name(value)) here, a pragma value is " + verifC14WhyNoSQL},
	{kind: "ReindexStatement", slot: "Name", typ: "Expr", sql: "", scope: verifC14ScopeOther, why: "the parser accepts a collation, table or index NAME only: no text puts a call here"},
}

// the call put into the slot: quick tier the first two, thorough tier all (implicit 'now' in both
// spellings SQLite has, randomblob)
var verifC14Markers = []string{"random()", "date('now')", "randomblob(4)", "strftime('%s')", "unixepoch()"}
var verifC14MarkerIsRandom = []bool{true, false, true, false, false}

// the order in which the flag combinations are chosen: bit 0 RewriteRand, bit 1 RewriteTime
var verifC14FlagSets = []int{3, 0, 1, 2}

// verifC14NonDet: is c a call the property wants replaced (wherever it stands)? From the SQLite
// documentation of the date/time and core functions (see the oracle at the top of harness.go).
func verifC14NonDet(c *rsql.Call) bool {
	if c.Name == nil {
		return false
	}
	now := func(i int) bool {
		if i >= len(c.Args) {
			return false
		}
		s, ok := c.Args[i].(*rsql.StringLit)
		return ok && s != nil && strings.EqualFold(s.Value, "now")
	}
	switch strings.ToLower(c.Name.Name) {
	case "random":
		return len(c.Args) == 0
	case "randomblob":
		if len(c.Args) != 1 {
			return false
		}
		_, isNum := c.Args[0].(*rsql.NumberLit)
		return isNum
	case "date", "time", "datetime", "julianday", "unixepoch":
		return len(c.Args) == 0 || now(0)
	case "strftime":
		return len(c.Args) == 1 || now(1)
	case "timediff":
		return now(0) || now(1)
	}
	return false
}

type verifC14Hit struct {
	call *rsql.Call
	path string // "/Kind.Slot/Kind.Slot...": the slots that lead from the statement to the call
}

// verifC14Scan collects the non-deterministic calls below n with the harness's own traversal.
func verifC14Scan(n any, path string, hits []verifC14Hit) []verifC14Hit {
	kind, ch := verifC14Children(n)
	if verifC14ChildrenHook != nil {
		refl := verifC14ChildrenHook(n)
		same := len(refl) == len(ch)
		for i := 0; same && i < len(ch); i++ {
			same = refl[i].slot == ch[i].slot && refl[i].n == ch[i].n
		}
		if !same || kind == "" {
			panic("verifC14Children disagrees with the reflection walk on a " + kind + " node below " + path)
		}
	}
	if c, ok := n.(*rsql.Call); ok && c != nil && verifC14NonDet(c) {
		hits = append(hits, verifC14Hit{call: c, path: path})
	}
	for _, c := range ch {
		hits = verifC14Scan(c.n, path+"/"+kind+"."+c.slot, hits)
	}
	return hits
}

// verifC14Shape renders what a statement SAYS as far as this harness reads it: the tree of kinds
// and child slots (own traversal), identifier names, literal values and operators. Positions and
// keyword flags (DISTINCT, ASC, OR REPLACE, ...) are not part of it. "LIMIT a, b" is read as SQLite
// reads it: a is the offset, b the limit (lang_select.html: "if a comma is used instead of the
// OFFSET keyword, then the offset is the first number and the limit is the second").
func verifC14Shape(n any) string {
	kind, ch := verifC14Children(n)
	s := "(" + kind
	comma := false
	switch x := n.(type) {
	case *rsql.Ident:
		s += " " + strconv.Quote(x.Name)
	case *rsql.StringLit:
		s += " " + strconv.Quote(x.Value)
	case *rsql.NumberLit:
		s += " " + x.Value
	case *rsql.BlobLit:
		s += " x" + strings.ToUpper(x.Value)
	case *rsql.BoolLit:
		s += " " + strconv.FormatBool(x.Value)
	case *rsql.TimestampLit:
		s += " " + strings.ToUpper(x.Value)
	case *rsql.BindExpr:
		s += " " + x.Name
	case *rsql.UnaryExpr:
		s += " op" + strconv.Itoa(int(x.Op))
	case *rsql.BinaryExpr:
		s += " op" + strconv.Itoa(int(x.Op))
	case *rsql.Null:
		s += " op" + strconv.Itoa(int(x.Op))
	case *rsql.SelectStatement:
		comma = x != nil && x.OffsetComma.IsValid()
	case *rsql.DeleteStatement:
		comma = x != nil && x.OffsetComma.IsValid()
	}
	if comma {
		li, oi := -1, -1
		for i, c := range ch {
			switch c.slot {
			case "LimitExpr":
				li = i
			case "OffsetExpr":
				oi = i
			}
		}
		if li >= 0 && oi >= 0 {
			ch[li].n, ch[oi].n = ch[oi].n, ch[li].n
		}
	}
	for _, c := range ch {
		s += " " + c.slot + "=" + verifC14Shape(c.n)
	}
	return s + ")"
}

// verifC14CommaLimit: does a SELECT or DELETE below n use the "LIMIT a, b" form?
func verifC14CommaLimit(n any) bool {
	switch x := n.(type) {
	case *rsql.SelectStatement:
		if x != nil && x.OffsetComma.IsValid() {
			return true
		}
	case *rsql.DeleteStatement:
		if x != nil && x.OffsetComma.IsValid() {
			return true
		}
	}
	_, ch := verifC14Children(n)
	for _, c := range ch {
		if verifC14CommaLimit(c.n) {
			return true
		}
	}
	return false
}

// verifC14Returning: the RETURNING clause of an UPDATE or DELETE statement
func verifC14Returning(st rsql.Statement) *rsql.ReturningClause {
	switch x := st.(type) {
	case *rsql.UpdateStatement:
		return x.ReturningClause
	case *rsql.DeleteStatement:
		return x.ReturningClause
	}
	return nil
}

// verifC14ExpectRewrite: must the call of row's witness be replaced under these flags?
func verifC14ExpectRewrite(row verifC14SlotRow, fn int, rwrand, rwtime bool) bool {
	if row.scope != verifC14ScopeDML || row.sql == "" {
		return false
	}
	if verifC14MarkerIsRandom[fn] {
		return rwrand && !row.orderBy
	}
	return rwtime
}

func VerifC14Traversal() {
	verifPanicsAreViolations()
	row := verifC14Slots[verifChoice("slot", len(verifC14Slots))]
	fn := verifChoice("fn", 2+(len(verifC14Markers)-2)*verifTier())
	flags := verifC14FlagSets[verifChoice("flags", 2+2*verifTier())]
	if row.sql == "" {
		verifReach("no-text-reaches-the-slot")
		return
	}
	verifC14Check(row, fn, flags&1 != 0, flags&2 != 0)
}

// Rendition: statement forms of the property (RETURNING, UPSERT, CTE, both LIMIT forms) with the
// call somewhere; no claim about a slot, only steps 2 and 3 of verifC14Check: what is replicated
// says what the original said, with only the call replaced.
var verifC14RenderTexts = []string{
	"UPDATE t SET v = § WHERE a = 1 RETURNING id, v",
	"DELETE FROM t WHERE a < § RETURNING id",
	"INSERT INTO t(v) VALUES (§) RETURNING id",
	"INSERT INTO t(id, v) VALUES (1, §) ON CONFLICT (id) DO UPDATE SET v = excluded.v WHERE t.a < 3 RETURNING v",
	"INSERT INTO t(v) SELECT a FROM t WHERE a < § ORDER BY a LIMIT 3 OFFSET 2",
	"INSERT INTO t(v) SELECT a FROM t WHERE a < § ORDER BY a LIMIT 2, 3",
	"DELETE FROM t WHERE a < § ORDER BY a LIMIT 2, 3",
	"UPDATE t SET (a, v) = (1, §) FROM (SELECT 1 AS r) AS s WHERE t.a = s.r",
}

func VerifC14Render() {
	verifPanicsAreViolations()
	row := verifC14SlotRow{sql: verifC14RenderTexts[verifChoice("text", len(verifC14RenderTexts))]}
	fn := verifChoice("fn", 2+(len(verifC14Markers)-2)*verifTier())
	verifC14Check(row, fn, true, true)
}

func verifC14Check(row verifC14SlotRow, fn int, rwrand, rwtime bool) {
	marker := verifC14Markers[fn]
	text := strings.Replace(row.sql, "§", marker, 1)

	// 1. the witness is what the table says it is
	parsed, err := rsql.NewParser(strings.NewReader(text)).ParseStatement()
	verifAssert("C14-walk-witness-parses", err == nil && parsed != nil)
	hits := verifC14Scan(parsed, "", nil)
	verifAssert("C14-walk-witness-has-one-call", len(hits) == 1)
	if row.kind != "" {
		where := "/" + row.kind + "." + row.slot
		if row.typ == "Expr" || row.typ == "[]Expr" {
			verifAssert("C14-walk-witness-call-directly-in-slot", strings.HasSuffix(hits[0].path, where))
		} else {
			verifAssert("C14-walk-witness-call-below-slot", strings.Contains(hits[0].path+"/", where+"/"))
		}
		verifAssert("C14-walk-order-by-mark-matches-path", row.orderBy == strings.Contains(hits[0].path, "/OrderingTerm.X"))
	}

	// 2. the real rewriter, stubbed sources
	now := time.Date(2024, 2, 29, 13, 14, 15, 250_000_000, time.UTC)
	wantJD := float64(now.UnixNano())/86400e9 + 2440587.5
	rw := NewRewriter()
	rw.RewriteRand, rw.RewriteTime = rwrand, rwtime
	rw.nowFn = func() time.Time { return now }
	rw.randFn = func() int64 { return 4242 }
	before := verifC14Shape(parsed)
	res, modified, _, derr := rw.Do(parsed)
	if row.scope != verifC14ScopeDML {
		verifReach("outside-the-grammar-observed")
		return
	}
	verifAssert("C14-walk-do-no-error", derr == nil && res != nil)
	left := verifC14Scan(res, "", nil)
	after := verifC14Shape(res)

	// 3. the real Process on the text (real clock; the engine models the random source)
	st := []*proto.Statement{{Sql: text}}
	perr := Process(st, rwrand, rwtime)
	verifAssert("C14-walk-process-no-error", perr == nil)
	out := st[0].Sql

	if row.orderBy && fn == 2 && rwrand {
		// randomblob() inside ORDER BY: the property names only random() for the exception; either
		// behaviour is accepted (as in VerifC14Visit)
		return
	}
	if row.kind != "" && !verifC14ExpectRewrite(row, fn, rwrand, rwtime) {
		// the ORDER BY exception, or rewriting switched off: everything stays
		verifReach("call-left-alone")
		verifAssert("C14-walk-left-alone-call-kept", len(left) == 1 && after == before)
		verifAssert("C14-walk-left-alone-not-reported", !modified)
		verifAssert("C14-walk-left-alone-text-byte-identical", out == text)
		return
	}
	if len(left) != 0 && !modified && after == before && out == text && row.finding != "" {
		// the call under this (kind, slot) was never shown to the visitor
		verifFinding(row.finding)
	}
	verifReach("call-shown-to-the-visitor")
	verifAssert("C14-walk-call-in-slot-reaches-visitor", len(left) == 0)
	verifAssert("C14-walk-rewrite-reported", modified)
	// only the call changed: the shape of the result is the shape of the original with the call's
	// subtree replaced by the literal / the call with a number for 'now'
	callShape := verifC14Shape(hits0Call(text))
	at := strings.Index(before, callShape)
	verifAssert("C14-walk-shape-has-the-call", at >= 0)
	pre, suf := before[:at], before[at+len(callShape):]
	switch fn {
	case 0:
		verifAssert("C14-walk-only-the-call-changed", after == pre+"(NumberLit 4242)"+suf)
	case 1:
		head := pre + "(Call Name=(Ident \"date\") Args=(NumberLit "
		verifAssert("C14-walk-only-the-call-changed", strings.HasPrefix(after, head) && strings.HasSuffix(after, "))"+suf) && len(after) > len(head)+len(suf)+2)
		jd, ferr := strconv.ParseFloat(after[len(head):len(after)-len(suf)-2], 64)
		d := jd - wantJD
		if d < 0 {
			d = -d
		}
		verifAssert("C14-walk-now-is-the-julian-day", ferr == nil && d <= 2e-6)
	default:
		// the other spellings (thorough tier): what the call becomes is VerifC14Visit's business
		verifAssert("C14-walk-only-the-call-changed", strings.HasPrefix(after, pre) && strings.HasSuffix(after, suf) && len(after) > len(pre)+len(suf))
	}

	// 3. what is replicated is the TEXT Process produced: read it again with the parser. It must say
	// what the original said, except for the call.
	verifAssert("C14-walk-process-call-gone", !strings.Contains(strings.ToLower(out), marker) && out != text)
	back, berr := rsql.NewParser(strings.NewReader(out)).ParseStatement()
	verifAssert("C14-render-process-output-parses", berr == nil && back != nil)
	verifAssert("C14-render-process-output-has-no-call", len(verifC14Scan(back, "", nil)) == 0)
	shape := verifC14Shape(back)
	kept := strings.HasPrefix(shape, pre) && strings.HasSuffix(shape, suf) && len(shape) > len(pre)+len(suf)
	if !kept {
		orig, _ := rsql.NewParser(strings.NewReader(text)).ParseStatement()
		if verifC14Returning(orig) != nil && verifC14Returning(back) == nil {
			verifFinding("C14-render-drops-returning-clause")
		}
		if verifC14CommaLimit(orig) && !verifC14CommaLimit(back) {
			verifFinding("C14-render-limit-comma-swapped")
		}
	}
	verifAssert("C14-render-process-output-says-the-rest", kept)
}

// hits0Call parses text again and returns its one non-deterministic call (untouched by Do).
func hits0Call(text string) *rsql.Call {
	st, err := rsql.NewParser(strings.NewReader(text)).ParseStatement()
	if err != nil {
		return nil
	}
	h := verifC14Scan(st, "", nil)
	if len(h) != 1 {
		return nil
	}
	return h[0].call
}
