package sql

import (
	"regexp"
	"strconv"
	"strings"
	"time"

	"github.com/rqlite/rqlite/v10/command/proto"
	rsql "github.com/rqlite/sql"
)

// C14(b) visitor and C14(c) glue. (The pre-filter, C14(a), is harness/C14b.)
//
// Oracle for the visitor, from the SQLite documentation (lang_datefunc.html, lang_corefunc.html):
//   * date(tv, mod...), time(..), datetime(..), julianday(..), unixepoch(..): the time value is
//     the FIRST argument; strftime(fmt, tv, mod...): the SECOND; timediff(tv, tv): both;
//   * "the time-value (and all modifiers) may be omitted, in which case a time value of 'now' is
//     assumed" (the first six functions);
//   * the time value 'now' is a string, compared case-insensitively; a number is a Julian day
//     number (days since noon in Greenwich on November 24, 4714 B.C., i.e. an instant, in UTC);
//   * random() has no argument; randomblob(N) returns N bytes (1 if N < 1); N may be written as
//     any integer literal (decimal or 0x hexadecimal);
//   * function names are ASCII case-insensitive.
// and from the property: after the rewrite no call keeps an explicit or implicit now / a random
// source (random() inside ORDER BY excepted); everything else is the same node with the same
// arguments, and the statement is not reported as modified.

var verifC14Fns = []string{"date", "time", "datetime", "julianday", "unixepoch", "strftime", "timediff", "random", "randomblob"}

var verifC14NameRe = func() []*regexp.Regexp {
	var out []*regexp.Regexp
	for _, f := range verifC14Fns {
		out = append(out, regexp.MustCompile(`^(?i:`+f+`)$`))
	}
	return out
}()

var verifC14IdentRe = regexp.MustCompile(`^[A-Za-z_][A-Za-z0-9_]*$`)
var verifC14NowRe = regexp.MustCompile(`^(?i:now)$`)
var verifC14ASCII = regexp.MustCompile(`^[ -~]*$`)

// instants the stubbed clock returns: the same oracle must hold in every time zone
var verifC14Zones = []*time.Location{time.UTC, time.FixedZone("W5", -5*3600), time.FixedZone("E9", 9*3600)}

// number literals as the scanner of rqlite/sql produces them (INTEGER and FLOAT tokens)
var verifC14Nums = []struct {
	lit   string
	isInt bool
	n     int
}{{"4", true, 4}, {"0", true, 0}, {"16", true, 16}, {"0x10", true, 16}, {"007", true, 7}, {"1.5", false, 0}, {"1e2", false, 0}}

// Quick tier: names, identifiers and strings come from tables (mixed case), so the run needs
// no string solving. Thorough tier: they are solver-level strings (any spelling).
var verifC14Spell = [][]string{{"Date", "date"}, {"TIME", "time"}, {"dateTime", "DATETIME"}, {"JulianDay", "julianday"}, {"UNIXEPOCH", "unixepoch"},
	{"strfTime", "strftime"}, {"TimeDiff", "timediff"}, {"Random", "random"}, {"RANDOMBLOB", "randomBlob"}, {"hex", "dates", "now", "randomx", "unixepoc"}}

type verifC14Arg struct {
	e        rsql.Expr
	kind     int  // 0 ident, 1 string literal, 2 number literal, 3 other
	now      bool // string literal 'now' in any case
	identNow bool // identifier spelled now
	quoted   bool
	num      int // index into verifC14Nums
}

const (
	verifMenuFull = iota // a time-value position: everything
	verifMenuMod         // a modifier / format position: string or NULL
	verifMenuNum         // the argument of randomblob: every number literal, or something else
)

var verifC14Idents = []struct {
	name   string
	quoted bool
}{{"now", false}, {"NoW", true}, {"col", false}}
var verifC14Strs = []string{"now", "NoW", "now ", "2020-01-01"}
var verifC14Mods = []string{"+1 day", "now", "%s"}

func verifC14MkArg(i int, menu int) verifC14Arg {
	symbolic := verifTier() == 1
	a := verifC14Arg{}
	switch menu {
	case verifMenuFull:
		a.kind = verifChoice(verifName("kind", i), 4)
	case verifMenuMod:
		a.kind = 1 + 2*verifChoice(verifName("kind", i), 2)
	default:
		a.kind = []int{2, 0, 1, 3}[verifChoice(verifName("kind", i), 4)]
	}
	switch a.kind {
	case 0:
		var n string
		if symbolic {
			n = verifString(verifName("ident", i), 6)
			verifAssume(verifC14IdentRe.MatchString(n))
			a.quoted = verifBool(verifName("quoted", i))
		} else {
			id := verifC14Idents[verifChoice(verifName("ident", i), len(verifC14Idents))]
			n, a.quoted = id.name, id.quoted
		}
		a.identNow = verifC14NowRe.MatchString(n)
		a.e = &rsql.Ident{Name: n, Quoted: a.quoted}
	case 1:
		var s string
		switch {
		case symbolic:
			s = verifString(verifName("str", i), 6)
			verifAssume(verifC14ASCII.MatchString(s))
		case menu == verifMenuMod:
			s = verifC14Mods[verifChoice(verifName("str", i), len(verifC14Mods))]
		default:
			s = verifC14Strs[verifChoice(verifName("str", i), len(verifC14Strs))]
		}
		a.now = verifC14NowRe.MatchString(s)
		a.e = &rsql.StringLit{Value: s}
	case 2:
		if menu == verifMenuNum {
			a.num = verifChoice(verifName("num", i), len(verifC14Nums))
		}
		a.e = &rsql.NumberLit{Value: verifC14Nums[a.num].lit}
	default:
		a.e = &rsql.NullLit{}
	}
	return a
}

func verifC14IsHex(s string) bool {
	if s == "" {
		return false
	}
	for i := 0; i < len(s); i++ {
		c := s[i]
		if !(c >= '0' && c <= '9' || c >= 'A' && c <= 'F' || c >= 'a' && c <= 'f') {
			return false
		}
	}
	return true
}

// VerifC14Visit: one call, any name, 0..3 arguments, both flags and the ORDER BY context.
func VerifC14Visit() {
	verifPanicsAreViolations()
	class := verifChoice("class", len(verifC14Fns)+1) // the nine functions, or any other name
	var name string
	if verifTier() == 1 {
		name = verifString("name", 12)
		verifAssume(verifC14IdentRe.MatchString(name))
		if class < len(verifC14Fns) {
			verifAssume(verifC14NameRe[class].MatchString(name))
		} else {
			for _, re := range verifC14NameRe {
				verifAssume(!re.MatchString(name))
			}
		}
	} else {
		nsp := 1 // the mixed-case spelling; the other names: three
		if class == len(verifC14Fns) {
			nsp = 3
		}
		name = verifC14Spell[class][verifChoice("spelling", nsp)]
	}
	isTime5, isStrftime, isTimediff := class < 5, class == 5, class == 6
	isTimeFn := class < 7
	isRandom, isRandomblob := class == 7, class == 8

	// time-value positions (see the oracle above)
	tv := map[int]bool{}
	switch {
	case isTime5:
		tv[0] = true
	case isStrftime:
		tv[1] = true
	case isTimediff:
		tv[0], tv[1] = true, true
	}
	maxArgs := 2
	switch {
	case isStrftime || isTimediff:
		maxArgs = 3
	case isRandom:
		maxArgs = 1
	}
	nargs := verifChoice("nargs", maxArgs+1)
	args := make([]verifC14Arg, nargs)
	exprs := make([]rsql.Expr, nargs)
	clockMatters := false
	for i := range args {
		menu := verifMenuMod
		switch {
		case isTimediff && nargs != 2:
		case (tv[i] || (!isTimeFn && !isRandomblob)) && i == 0, tv[i]:
			menu = verifMenuFull
		case isRandomblob && i == 0:
			menu = verifMenuNum
		}
		args[i] = verifC14MkArg(i, menu)
		exprs[i] = args[i].e
		if tv[i] && args[i].kind == 1 {
			clockMatters = true
		}
	}
	nameID := &rsql.Ident{Name: name}
	call := &rsql.Call{Name: nameID, Args: exprs}

	// stubs for the two sources of non-determinism
	zone := time.UTC
	if clockMatters {
		zone = verifC14Zones[verifChoice("zone", 2+verifTier())]
	}
	now := time.Date(2024, 2, 29, 13, 14, 15, 250_000_000, time.UTC).In(zone)
	wantJD := float64(now.UnixNano())/86400e9 + 2440587.5
	rnd := int64(4242)
	if isRandom && nargs == 0 {
		rnd = []int64{4242, 0, -7, 9223372036854775807, -9223372036854775808}[verifChoice("rand", 5)]
	}
	rw := NewRewriter()
	if verifTier() == 1 {
		rw.RewriteRand, rw.RewriteTime = verifBool("rwrand"), verifBool("rwtime")
	} else {
		rw.RewriteRand, rw.RewriteTime = verifChoice("rwrand", 2) == 1, verifChoice("rwtime", 2) == 1
	}
	rw.nowFn = func() time.Time { return now }
	rw.randFn = func() int64 { return rnd }

	// ORDER BY context through the visitor protocol: 0 outside; 1 inside an ordering term;
	// 2 after an ordering term has ended
	ctx := 0
	switch {
	case isRandom || isRandomblob:
		ctx = verifChoice("ctx", 3)
	case nargs == 1:
		ctx = verifChoice("ctx", 2+verifTier())
	}
	term := &rsql.OrderingTerm{X: call}
	if ctx != 0 {
		w, n, err := rw.Visit(term)
		verifAssert("C14-visit-ordering-term", err == nil && w != nil && n == rsql.Node(term))
	}
	if ctx == 2 {
		n, err := rw.VisitEnd(term)
		verifAssert("C14-visitend-ordering-term", err == nil && n == rsql.Node(term))
	}
	verifAssert("C14-ordering-term-alone-is-no-modification", !rw.modified)

	w, res, err := rw.Visit(call)
	verifAssert("C14-visit-no-error", err == nil)
	verifAssert("C14-visit-continues", w != nil)
	if res != nil {
		n2, err2 := rw.VisitEnd(res)
		verifAssert("C14-visitend-identity", err2 == nil && n2 == res)
	}
	if ctx == 1 {
		rw.VisitEnd(term)
	}
	inOrderBy := ctx == 1

	// ---- expectations
	implicitNow := (isTime5 && nargs == 0) || (isStrftime && nargs == 1)

	if isTimediff && nargs != 2 {
		return // not valid SQL (timediff takes exactly two time values): no expectation
	}
	if isTimeFn && rw.RewriteTime {
		verifReach("time-call")
		rc, ok := res.(*rsql.Call)
		verifAssert("C14-time-call-stays-a-call", ok && rc != nil)
		verifAssert("C14-time-call-name-kept", rc.Name != nil && rc.Name.Name == name)
		verifAssert("C14-time-call-arity-kept", len(rc.Args) == nargs || implicitNow)
		if implicitNow {
			// the call must no longer depend on the clock: a time value must have been supplied
			pos := 0
			if isStrftime {
				pos = 1
			}
			fixed := len(rc.Args) > pos
			if fixed {
				_, isNum := rc.Args[pos].(*rsql.NumberLit)
				fixed = isNum
			}
			if !fixed {
				if isStrftime {
					verifFinding("C14-implicit-now-format-only")
				}
				verifFinding("C14-implicit-now-zero-args")
			}
			verifAssert("C14-implicit-now-replaced", fixed)
			verifAssert("C14-implicit-now-modified", rw.modified)
			return
		}
		replaced := false
		for i := 0; i < nargs; i++ {
			a := args[i]
			same := rc.Args[i] == a.e
			switch {
			case tv[i] && a.now:
				verifReach("explicit-now")
				lit, isNum := rc.Args[i].(*rsql.NumberLit)
				verifAssert("C14-explicit-now-replaced-by-number", isNum && lit != nil)
				got, perr := strconv.ParseFloat(lit.Value, 64)
				verifAssert("C14-now-number-parses", perr == nil)
				d := got - wantJD
				if d < 0 {
					d = -d
				}
				if d > 2e-6 && zone != time.UTC {
					verifFinding("C14-now-in-local-time-zone")
				}
				verifAssert("C14-now-is-julian-day-of-the-instant", d <= 2e-6)
				replaced = true
			case tv[i] && a.kind == 0 && a.identNow && a.quoted:
				// "now" in double quotes: a column if one exists, else a string: either is defensible
				if !same {
					replaced = true
				}
			case tv[i] && a.kind == 0 && a.identNow:
				// a bare identifier is a column reference, never the string 'now'
				if !same {
					verifFinding("C14-bare-identifier-now-replaced")
				}
				verifAssert("C14-column-now-kept", same)
			default:
				verifAssert("C14-other-argument-kept", same)
			}
		}
		if replaced {
			verifAssert("C14-replacement-reported", rw.modified)
		} else {
			verifReach("time-call-without-now")
			if rw.modified {
				verifFinding("C14-modified-without-replacement")
			}
			verifAssert("C14-no-replacement-not-reported", !rw.modified)
		}
		return
	}

	if isRandom && rw.RewriteRand && !inOrderBy && nargs == 0 {
		verifReach("random-rewritten")
		lit, ok := res.(*rsql.NumberLit)
		verifAssert("C14-random-becomes-number", ok && lit != nil)
		v, perr := strconv.ParseInt(lit.Value, 10, 64)
		verifAssert("C14-random-is-the-drawn-integer", perr == nil && v == rnd)
		verifAssert("C14-random-reported", rw.modified)
		return
	}
	if isRandom && nargs > 0 {
		return // not valid SQL (wrong number of arguments): no expectation
	}
	if isRandomblob && rw.RewriteRand && nargs == 1 && args[0].kind == 2 && verifC14Nums[args[0].num].isInt {
		if inOrderBy {
			return // the property only names random() for the ORDER BY exception: either is accepted
		}
		verifReach("randomblob-rewritten")
		want := verifC14Nums[args[0].num].n
		if want < 1 {
			want = 1
		}
		lit, ok := res.(*rsql.BlobLit)
		if !ok && strings.HasPrefix(verifC14Nums[args[0].num].lit, "0x") {
			verifFinding("C14-randomblob-hex-literal")
		}
		verifAssert("C14-randomblob-becomes-blob", ok && lit != nil)
		verifAssert("C14-randomblob-length", len(lit.Value) == 2*want && verifC14IsHex(lit.Value))
		verifAssert("C14-randomblob-reported", rw.modified)
		return
	}

	// everything else: the same node, the same arguments, not reported as modified
	verifReach("unchanged-call")
	verifAssert("C14-unchanged-same-node", res == rsql.Node(call))
	verifAssert("C14-unchanged-name", call.Name == nameID && nameID.Name == name)
	verifAssert("C14-unchanged-arity", len(call.Args) == nargs)
	for i := 0; i < nargs && i < len(call.Args); i++ {
		verifAssert("C14-unchanged-argument", call.Args[i] == args[i].e)
	}
	verifAssert("C14-unchanged-not-reported", !rw.modified)
}

// ---------------------------------------------------------------------------------------------
// (c) glue: Process with the real parser and printer on concrete multi-statement texts

type verifC14Piece struct {
	sql      string
	rand     bool   // calls random()/randomblob(n)
	now      bool   // date/time call with an explicit 'now'
	implicit bool   // date/time call with an implicit now
	timeFn   bool   // any date/time call (reaches the visitor when rwtime)
	marker   string // the non-deterministic call as written
	keep     string // a substring every faithful rendition keeps
}

var verifC14Pieces = []verifC14Piece{
	{sql: "INSERT INTO foo(n) VALUES('a')", keep: "'a'"},
	{sql: "INSERT INTO foo(v) VALUES(random())", rand: true, marker: "random()", keep: "INSERT"},
	{sql: "UPDATE foo SET v=datetime('now')", now: true, timeFn: true, marker: "'now'", keep: "UPDATE"},
	{sql: "INSERT INTO foo(n) VALUES('x;y')", keep: "'x;y'"},
	{sql: "DELETE FROM foo WHERE n<date('2020-01-01')", timeFn: true, keep: "'2020-01-01'"},
	{sql: "INSERT INTO foo(v) VALUES(time())", implicit: true, timeFn: true, marker: "time()", keep: "INSERT"},
	{sql: "INSERT INTO foo(v) VALUES(hex(randomblob(4)))", rand: true, marker: "randomblob", keep: "hex"},
	// reach the parser and the visitor, nothing to replace
	{sql: "INSERT INTO foo(n) SELECT n FROM foo ORDER BY random() LIMIT 1", keep: "random()"},
	{sql: "INSERT INTO foo(n) VALUES('r') RETURNING id", keep: "RETURNING"},
}

// verifC14Split splits a text into its statements: ';' outside quotes ends a statement
// (SQLite tokenizer; the texts used here contain no comments).
func verifC14Split(s string) []string {
	var out []string
	cur := []byte{}
	var q byte
	for i := 0; i < len(s); i++ {
		c := s[i]
		switch {
		case q != 0:
			if c == q {
				q = 0
			}
		case c == '\'' || c == '"' || c == '`':
			q = c
		case c == ';':
			if t := strings.TrimSpace(string(cur)); t != "" {
				out = append(out, t)
			}
			cur = cur[:0]
			continue
		}
		cur = append(cur, c)
	}
	if t := strings.TrimSpace(string(cur)); t != "" {
		out = append(out, t)
	}
	return out
}

// native oracles (set by replay_test.go; nil in the engine)
var verifC14Effect func(sql string) string // deterministic part of the database after executing sql on a fresh scratch database
var verifC14Varies func(sql string) bool   // the whole effect differs between two executions 1.1 s apart

func verifC14RandInt64() int64 { return 4242 } // model of math/rand/v2.Int64 (engine only)
func verifC14RandBytes(n int) []byte { // model of internal/random.Bytes (engine only)
	b := make([]byte, n)
	for i := range b {
		b[i] = byte(0xA0 + i)
	}
	return b
}

// verifC14Alone is Process on one statement of the table alone.
func verifC14Alone(p int, rwrand, rwtime bool) string {
	st := []*proto.Statement{{Sql: verifC14Pieces[p].sql}}
	if err := Process(st, rwrand, rwtime); err != nil {
		return "error: " + err.Error()
	}
	return st[0].Sql
}

func VerifC14Glue() {
	verifPanicsAreViolations()
	k := 1 + verifChoice("stmts", 2+verifTier())
	idx := make([]int, k)
	for i := range idx {
		idx[i] = verifChoice(verifName("piece", i), len(verifC14Pieces))
	}
	sep := ";"
	if k == 2 {
		sep = []string{";", ";\n", "; "}[verifChoice("sep", 2+verifTier())]
	}
	in := ""
	for i, p := range idx {
		if i > 0 {
			in += sep
		}
		in += verifC14Pieces[p].sql
	}
	if (k == 1 || k == 2 && verifTier() == 1) && verifChoice("trailing", 2) == 1 {
		in += ";"
	}
	rwrand, rwtime := verifChoice("rwrand", 2) == 1, verifChoice("rwtime", 2) == 1

	st := []*proto.Statement{{Sql: in}}
	err := Process(st, rwrand, rwtime)
	verifAssert("C14-process-no-error", err == nil)
	out := st[0].Sql
	outs := verifC14Split(out)

	need := make([]bool, k)
	anyNeed := false
	for i, p := range idx {
		pc := verifC14Pieces[p]
		need[i] = (pc.rand && rwrand) || ((pc.now || pc.implicit) && rwtime)
		anyNeed = anyNeed || need[i]
	}
	first := verifC14Pieces[idx[0]]

	// 1. every statement of the text is still there
	if len(outs) != k {
		if k >= 2 && len(outs) == 1 && out != in && (need[0] || first.timeFn && rwtime) {
			verifFinding("C14-multi-statement-rest-dropped")
		}
		verifAssert("C14-every-statement-kept", false)
	}
	// 2. nothing to replace: byte-identical
	if !anyNeed {
		verifReach("nothing-to-replace")
		if out != in && rwtime {
			// the cause is a date/time call without 'now' if such a statement, processed
			// alone, is re-printed as well
			for _, p := range idx {
				if pc := verifC14Pieces[p]; pc.timeFn && verifC14Alone(p, rwrand, rwtime) != pc.sql {
					verifFinding("C14-modified-without-replacement")
				}
			}
		}
		verifAssert("C14-unchanged-text-byte-identical", out == in)
		return
	}
	// 3. every call that needs it has been replaced
	for i := range idx {
		pc := verifC14Pieces[idx[i]]
		if need[i] && strings.Contains(outs[i], pc.marker) {
			if verifSymbolic() || verifC14Varies(out) {
				// which defect? Process the statement alone: if the call stays there as well it
				// is the statement's own class, else the position in the text is the cause
				aloneKept := strings.Contains(verifC14Alone(idx[i], rwrand, rwtime), pc.marker)
				if !aloneKept && i >= 1 && out == in {
					verifFinding("C14-multi-statement-later-not-rewritten")
				}
				if aloneKept && pc.implicit {
					verifFinding("C14-implicit-now-zero-args")
				}
			}
			verifAssert("C14-call-replaced", false)
		}
	}
	verifReach("rewritten")
	// 4. the other statements survive the rewrite
	for i := range idx {
		verifAssert("C14-statement-recognisable", strings.Contains(outs[i], verifC14Pieces[idx[i]].keep))
	}
	if !verifSymbolic() {
		verifAssert("C14-deterministic-effect-kept", verifC14Effect(in) == verifC14Effect(out))
		verifAssert("C14-result-deterministic", !verifC14Varies(out))
	}
}

// Twin: the same visitor run, asserting that a call of any OTHER function is rewritten.
func VerifC14Twin() {
	name := verifString("name", 12)
	verifAssume(verifC14IdentRe.MatchString(name))
	for _, re := range verifC14NameRe {
		verifAssume(!re.MatchString(name))
	}
	call := &rsql.Call{Name: &rsql.Ident{Name: name}, Args: []rsql.Expr{&rsql.StringLit{Value: "now"}}}
	rw := NewRewriter()
	rw.nowFn = func() time.Time { return time.Date(2024, 2, 29, 13, 14, 15, 0, time.UTC) }
	rw.randFn = func() int64 { return 1 }
	_, res, _ := rw.Visit(call)
	verifAssert("twin", res != rsql.Node(call) || rw.modified)
}
