package sql

// Native checks behind VerifC14Traversal (run: ./bin/symgo nativetest C14 TestVerifC14Walk).
//
//   TestVerifC14WalkTable   type-checks the sources of the dependency github.com/rqlite/sql as they are
//                           in the module cache (go/parser + go/types) and FAILS if
//                             - an AST struct kind or one of its child slots is missing from (or stale in)
//                               the generated children function verifC14Children / verifC14Kinds,
//                             - a call-capable child slot (one that can hold, directly or further down, a
//                               *Call) of a kind reachable from a Statement is missing from (or stale in)
//                               the case table verifC14Slots, or is listed with another field type,
//                             - a row's scope disagrees with type-level reachability from the four DML
//                               statement kinds,
//                             - verifC14Children disagrees with a reflection walk of the struct fields.
//                           VERIF_C14_GEN=1 prints the generated file children_gen.go instead.
//   TestVerifC14WalkSweep   runs every (row, function) of the table natively through the entry itself
//                           (real parser, real Rewriter, real Process, real random source) and prints
//                           the outcome per row; any outcome other than "ok" or the row's recorded
//                           finding class fails.

import (
	"encoding/json"
	"fmt"
	"go/ast"
	"go/parser"
	"go/token"
	"go/types"
	"os"
	"path/filepath"
	"reflect"
	"runtime"
	"sort"
	"strings"
	"testing"

	rsql "github.com/rqlite/sql"
)

const verifC14DepPath = "github.com/rqlite/sql"

// verifC14DepDir is the directory the dependency was compiled from.
func verifC14DepDir(t *testing.T) string {
	f := runtime.FuncForPC(reflect.ValueOf(rsql.Walk).Pointer())
	if f == nil {
		t.Fatal("cannot locate rqlite/sql.Walk")
	}
	file, _ := f.FileLine(f.Entry())
	if _, err := os.Stat(file); err != nil {
		t.Fatalf("source of the dependency not found at %s: %v", file, err)
	}
	return filepath.Dir(file)
}

type verifC14FakeImporter struct{}

func (verifC14FakeImporter) Import(path string) (*types.Package, error) {
	p := types.NewPackage(path, filepath.Base(path))
	p.MarkComplete()
	return p, nil
}

type verifC14Field struct {
	name, typ string // typ as written, package-local
	base      string // named type of this package at the bottom of pointers/slices ("" = none)
	ptr, list bool
	iface     bool
	embedded  bool
}

type verifC14Dep struct {
	structs map[string][]verifC14Field // every named struct type
	impl    map[string][]string        // interface -> implementing struct types
	recv    map[string]string          // struct type implementing Node: "pointer" or "value"
	order   []string
}

func verifC14LoadDep(t *testing.T) *verifC14Dep {
	dir := verifC14DepDir(t)
	fset := token.NewFileSet()
	pkgs, err := parser.ParseDir(fset, dir, func(fi os.FileInfo) bool { return !strings.HasSuffix(fi.Name(), "_test.go") }, 0)
	if err != nil {
		t.Fatal(err)
	}
	var files []*ast.File
	for _, p := range pkgs {
		var names []string
		for n := range p.Files {
			names = append(names, n)
		}
		sort.Strings(names)
		for _, n := range names {
			files = append(files, p.Files[n])
		}
	}
	// Only declarations that refer to the package's own types matter here: imports are faked and
	// the resulting errors (uses of fmt, io, ...) ignored.
	conf := types.Config{Importer: verifC14FakeImporter{}, Error: func(error) {}}
	pkg, _ := conf.Check(verifC14DepPath, fset, files, nil)
	if pkg == nil {
		t.Fatal("type check of the dependency produced nothing")
	}
	d := &verifC14Dep{structs: map[string][]verifC14Field{}, impl: map[string][]string{}, recv: map[string]string{}}
	scope := pkg.Scope()
	var ifaces []*types.Named
	var structs []*types.Named
	for _, n := range scope.Names() {
		tn, ok := scope.Lookup(n).(*types.TypeName)
		if !ok {
			continue
		}
		nt, ok := tn.Type().(*types.Named)
		if !ok {
			continue
		}
		switch nt.Underlying().(type) {
		case *types.Struct:
			structs = append(structs, nt)
		case *types.Interface:
			ifaces = append(ifaces, nt)
		}
	}
	own := func(t types.Type) (string, bool) {
		nt, ok := t.(*types.Named)
		if !ok || nt.Obj().Pkg() != pkg {
			return "", false
		}
		_, isIface := nt.Underlying().(*types.Interface)
		return nt.Obj().Name(), isIface
	}
	qual := func(*types.Package) string { return "" }
	for _, s := range structs {
		st := s.Underlying().(*types.Struct)
		name := s.Obj().Name()
		d.order = append(d.order, name)
		d.structs[name] = nil
		for i := 0; i < st.NumFields(); i++ {
			f := st.Field(i)
			fl := verifC14Field{name: f.Name(), typ: types.TypeString(f.Type(), qual), embedded: f.Embedded()}
			ty := f.Type()
			if sl, ok := ty.(*types.Slice); ok {
				fl.list = true
				ty = sl.Elem()
			}
			if p, ok := ty.(*types.Pointer); ok {
				fl.ptr = true
				ty = p.Elem()
			}
			if b, isIface := own(ty); b != "" {
				if _, isStruct := ty.Underlying().(*types.Struct); isStruct || isIface {
					fl.base, fl.iface = b, isIface
				}
			}
			d.structs[name] = append(d.structs[name], fl)
		}
	}
	// a struct embedded BY VALUE is a child slot only if it has child slots itself (Pos is plain data)
	for changed := true; changed; {
		changed = false
		for name, fs := range d.structs {
			for i, f := range fs {
				if f.base == "" || f.ptr || f.list || f.iface {
					continue
				}
				has := false
				for _, g := range d.structs[f.base] {
					has = has || g.base != ""
				}
				if !has {
					d.structs[name][i].base, changed = "", true
				}
			}
		}
	}
	nodeI := scope.Lookup("Node").Type().Underlying().(*types.Interface)
	for _, s := range structs {
		switch {
		case types.Implements(s, nodeI):
			d.recv[s.Obj().Name()] = "value"
		case types.Implements(types.NewPointer(s), nodeI):
			d.recv[s.Obj().Name()] = "pointer"
		}
	}
	for _, i := range ifaces {
		it := i.Underlying().(*types.Interface)
		if it.NumMethods() == 0 {
			continue
		}
		for _, s := range structs {
			if types.Implements(s, it) || types.Implements(types.NewPointer(s), it) {
				d.impl[i.Obj().Name()] = append(d.impl[i.Obj().Name()], s.Obj().Name())
			}
		}
	}
	return d
}

// reach: the struct types reachable from the given ones through fields (interfaces: every implementer).
func (d *verifC14Dep) reach(roots []string) map[string]bool {
	seen := map[string]bool{}
	var todo []string
	push := func(n string) {
		if _, isStruct := d.structs[n]; isStruct {
			if !seen[n] {
				seen[n] = true
				todo = append(todo, n)
			}
			return
		}
		for _, s := range d.impl[n] {
			if !seen[s] {
				seen[s] = true
				todo = append(todo, s)
			}
		}
	}
	for _, r := range roots {
		push(r)
	}
	for len(todo) > 0 {
		n := todo[len(todo)-1]
		todo = todo[:len(todo)-1]
		for _, f := range d.structs[n] {
			if f.base != "" {
				push(f.base)
			}
		}
	}
	return seen
}

// capable: the named types (structs and interfaces) under which a *Call can sit.
func (d *verifC14Dep) capable() map[string]bool {
	c := map[string]bool{"Call": true}
	for changed := true; changed; {
		changed = false
		for s, fs := range d.structs {
			if c[s] {
				continue
			}
			for _, f := range fs {
				if f.base != "" && c[f.base] {
					c[s], changed = true, true
					break
				}
			}
		}
		for i, ss := range d.impl {
			if c[i] {
				continue
			}
			for _, s := range ss {
				if c[s] {
					c[i], changed = true, true
					break
				}
			}
		}
	}
	return c
}

// astKinds: the struct types that make up statements (reachable from any Statement implementer).
func (d *verifC14Dep) astKinds() []string {
	r := d.reach([]string{"Statement"})
	var out []string
	for _, n := range d.order {
		if r[n] {
			out = append(out, n)
		}
	}
	sort.Strings(out)
	return out
}

func (d *verifC14Dep) generate() string {
	var sb strings.Builder
	sb.WriteString("package sql\n\n// GENERATED by TestVerifC14WalkTable (VERIF_C14_GEN=1) from the struct declarations of\n// github.com/rqlite/sql; checked against the dependency by the same test. DO NOT EDIT.\n\nimport rsql \"github.com/rqlite/sql\"\n\n")
	sb.WriteString("// verifC14Kinds: one value of every struct kind statements are made of.\nvar verifC14Kinds = []any{\n")
	kinds := d.astKinds()
	for _, k := range kinds {
		if d.recv[k] == "value" {
			fmt.Fprintf(&sb, "\trsql.%s{},\n", k)
		} else {
			fmt.Fprintf(&sb, "\t&rsql.%s{},\n", k)
		}
	}
	sb.WriteString("}\n\n")
	sb.WriteString("// verifC14Children lists the non-nil children of n slot by slot: every field whose type is a\n// struct or interface type of the package (behind pointers and slices). It never calls rsql.Walk.\nfunc verifC14Children(n any) (kind string, out []verifC14Child) {\n\tswitch x := n.(type) {\n")
	for _, k := range kinds {
		if d.recv[k] == "value" {
			fmt.Fprintf(&sb, "\tcase rsql.%s:\n\t\tkind = %q\n", k, k)
		} else {
			fmt.Fprintf(&sb, "\tcase *rsql.%s:\n\t\tkind = %q\n\t\tif x == nil {\n\t\t\treturn\n\t\t}\n", k, k)
		}
		for _, f := range d.structs[k] {
			if f.base == "" {
				continue
			}
			switch {
			case f.list:
				fmt.Fprintf(&sb, "\t\tfor _, c := range x.%s {\n\t\t\tif c != nil {\n\t\t\t\tout = append(out, verifC14Child{%q, c})\n\t\t\t}\n\t\t}\n", f.name, f.name)
			case f.ptr || f.iface:
				fmt.Fprintf(&sb, "\t\tif x.%s != nil {\n\t\t\tout = append(out, verifC14Child{%q, x.%s})\n\t\t}\n", f.name, f.name, f.name)
			default:
				fmt.Fprintf(&sb, "\t\tout = append(out, verifC14Child{%q, x.%s})\n", f.name, f.name)
			}
		}
	}
	sb.WriteString("\t}\n\treturn\n}\n")
	return sb.String()
}

func TestVerifC14WalkTable(t *testing.T) {
	d := verifC14LoadDep(t)
	if os.Getenv("VERIF_C14_GEN") != "" {
		fmt.Print("-----8<----- children_gen.go\n" + d.generate() + "-----8<-----\n")
		return
	}
	kinds := d.astKinds()
	capable := d.capable()
	dml := d.reach([]string{"SelectStatement", "InsertStatement", "UpdateStatement", "DeleteStatement"})

	// 1. the generated traversal knows every kind and every child slot, and agrees with reflection
	byName := map[string]any{}
	for _, k := range verifC14Kinds {
		rt := reflect.TypeOf(k)
		if rt.Kind() == reflect.Pointer {
			rt = rt.Elem()
		}
		byName[rt.Name()] = k
	}
	for _, k := range kinds {
		if byName[k] == nil {
			t.Errorf("dependency has AST struct kind %s that verifC14Kinds/verifC14Children do not know: regenerate children_gen.go and extend verifC14Slots", k)
		}
	}
	if len(byName) != len(kinds) {
		t.Errorf("verifC14Kinds has %d kinds, the dependency %d", len(byName), len(kinds))
	}
	for _, k := range kinds {
		proto := byName[k]
		if proto == nil {
			continue
		}
		inst, want := verifC14Fill(t, proto, byName, d)
		kind, got := verifC14Children(inst)
		if kind != k {
			t.Errorf("verifC14Children(%T) reports kind %q", inst, kind)
		}
		var gotS []string
		for _, c := range got {
			gotS = append(gotS, fmt.Sprintf("%s=%p", c.slot, c.n))
		}
		if strings.Join(gotS, " ") != strings.Join(want, " ") {
			t.Errorf("verifC14Children(%s): got %v, reflection finds %v", k, gotS, want)
		}
		// and against the declarations
		var decl []string
		for _, f := range d.structs[k] {
			if f.base != "" {
				decl = append(decl, f.name)
			}
		}
		var refl []string
		for _, w := range want {
			n := w[:strings.Index(w, "=")]
			if len(refl) == 0 || refl[len(refl)-1] != n {
				refl = append(refl, n)
			}
		}
		if strings.Join(decl, " ") != strings.Join(refl, " ") {
			t.Errorf("%s: declared child slots %v, reflection %v", k, decl, refl)
		}
	}

	// 2. the case table = the call-capable slots of the kinds statements are made of
	type key struct{ kind, slot string }
	want := map[key]verifC14Field{}
	for _, k := range kinds {
		for _, f := range d.structs[k] {
			if f.base != "" && capable[f.base] {
				want[key{k, f.name}] = f
			}
		}
	}
	have := map[key]bool{}
	for _, r := range verifC14Slots {
		k := key{r.kind, r.slot}
		if have[k] {
			t.Errorf("verifC14Slots lists %s.%s twice", r.kind, r.slot)
		}
		have[k] = true
		f, ok := want[k]
		if !ok {
			t.Errorf("verifC14Slots lists %s.%s, which is not a call-capable child slot of the dependency", r.kind, r.slot)
			continue
		}
		if f.typ != r.typ {
			t.Errorf("%s.%s has type %s in the dependency, %s in verifC14Slots", r.kind, r.slot, f.typ, r.typ)
		}
		if dml[r.kind] != (r.scope == verifC14ScopeDML) {
			t.Errorf("%s.%s: reachable from a SELECT/INSERT/UPDATE/DELETE statement: %v, but the row's scope says %v", r.kind, r.slot, dml[r.kind], r.scope == verifC14ScopeDML)
		}
		if r.scope == verifC14ScopeDML && r.sql == "" {
			t.Errorf("%s.%s is in scope and has no witness", r.kind, r.slot)
		}
		if r.scope != verifC14ScopeDML && (r.finding != "" || r.why == "") {
			t.Errorf("%s.%s: a row outside the property's scope carries no finding and needs a reason", r.kind, r.slot)
		}
	}
	var missing []string
	for k, f := range want {
		if !have[k] {
			missing = append(missing, fmt.Sprintf("%s.%s %s (DML-reachable: %v)", k.kind, k.slot, f.typ, dml[k.kind]))
		}
	}
	sort.Strings(missing)
	for _, m := range missing {
		t.Errorf("the dependency has a call-capable child slot the induction does not cover: %s", m)
	}
	t.Logf("dependency %s: %d AST struct kinds, %d call-capable child slots (%d rows in the table)", verifC14DepDir(t), len(kinds), len(want), len(verifC14Slots))
}

// verifC14Fill returns a value of the kind of proto with every child slot filled (lists: two
// elements) and, by reflection over the fields, the expected children "slot=pointer".
func verifC14Fill(t *testing.T, proto any, byName map[string]any, d *verifC14Dep) (any, []string) {
	rt := reflect.TypeOf(proto)
	isPtr := rt.Kind() == reflect.Pointer
	if isPtr {
		rt = rt.Elem()
	}
	v := reflect.New(rt).Elem()
	pkgPath := rt.PkgPath()
	var want []string
	mk := func(ft reflect.Type) reflect.Value {
		switch ft.Kind() {
		case reflect.Pointer:
			return reflect.New(ft.Elem())
		case reflect.Interface:
			// any implementer: the first kind (pointer or value) assignable to the interface
			var names []string
			for n := range byName {
				names = append(names, n)
			}
			sort.Strings(names)
			for _, n := range names {
				pt := reflect.TypeOf(byName[n])
				if pt.Kind() == reflect.Pointer && pt.AssignableTo(ft) {
					return reflect.New(pt.Elem())
				}
			}
		}
		t.Fatalf("cannot make a value of %v", ft)
		return reflect.Value{}
	}
	own := func(ft reflect.Type) bool {
		switch ft.Kind() {
		case reflect.Pointer:
			return ft.Elem().Kind() == reflect.Struct && ft.Elem().PkgPath() == pkgPath
		case reflect.Interface:
			return ft.PkgPath() == pkgPath
		case reflect.Struct:
			if ft.PkgPath() != pkgPath {
				return false
			}
			for i := 0; i < ft.NumField(); i++ { // plain data (Pos) is no child slot
				switch k := ft.Field(i).Type.Kind(); k {
				case reflect.Pointer, reflect.Interface, reflect.Slice, reflect.Struct:
					return true
				}
			}
		}
		return false
	}
	for i := 0; i < rt.NumField(); i++ {
		f := rt.Field(i)
		ft := f.Type
		switch {
		case ft.Kind() == reflect.Slice && own(ft.Elem()):
			s := reflect.MakeSlice(ft, 0, 2)
			for j := 0; j < 2; j++ {
				e := mk(ft.Elem())
				s = reflect.Append(s, e)
				want = append(want, fmt.Sprintf("%s=%p", f.Name, e.Interface()))
			}
			v.Field(i).Set(s)
		case own(ft) && ft.Kind() != reflect.Struct:
			e := mk(ft)
			v.Field(i).Set(e)
			want = append(want, fmt.Sprintf("%s=%p", f.Name, e.Interface()))
		case own(ft):
			t.Fatalf("%s.%s: struct-valued child slot: extend verifC14Fill", rt.Name(), f.Name)
		}
	}
	if isPtr {
		p := reflect.New(rt)
		p.Elem().Set(v)
		return p.Interface(), want
	}
	return v.Interface(), want
}

// verifC14ReflectChildren is the reflection twin of verifC14Children (installed as a hook so that
// every native replay of VerifC14Traversal compares the two on the real parsed statements).
func verifC14ReflectChildren(n any) []verifC14Child {
	v := reflect.ValueOf(n)
	if v.Kind() == reflect.Pointer {
		if v.IsNil() {
			return nil
		}
		v = v.Elem()
	}
	if v.Kind() != reflect.Struct {
		return nil
	}
	pkgPath := reflect.TypeOf(rsql.Call{}).PkgPath()
	var out []verifC14Child
	add := func(name string, e reflect.Value) {
		switch e.Kind() {
		case reflect.Pointer, reflect.Interface:
			if e.IsNil() {
				return
			}
			if e.Kind() == reflect.Interface && e.Elem().Kind() == reflect.Pointer && e.Elem().IsNil() {
				return
			}
		}
		out = append(out, verifC14Child{name, e.Interface()})
	}
	own := func(ft reflect.Type) bool {
		switch ft.Kind() {
		case reflect.Pointer:
			return ft.Elem().Kind() == reflect.Struct && ft.Elem().PkgPath() == pkgPath
		case reflect.Interface:
			return ft.PkgPath() == pkgPath
		}
		return false
	}
	for i := 0; i < v.NumField(); i++ {
		ft := v.Type().Field(i)
		switch {
		case ft.Type.Kind() == reflect.Slice && own(ft.Type.Elem()):
			for j := 0; j < v.Field(i).Len(); j++ {
				add(ft.Name, v.Field(i).Index(j))
			}
		case own(ft.Type):
			add(ft.Name, v.Field(i))
		}
	}
	return out
}

func init() {
	verifC14ChildrenHook = verifC14ReflectChildren
}

func TestVerifC14WalkSweep(t *testing.T) {
	dir := t.TempDir()
	file := filepath.Join(dir, "replay.json")
	old := os.Getenv("VERIF_REPLAY")
	defer os.Setenv("VERIF_REPLAY", old)
	os.Setenv("VERIF_REPLAY", file)
	counts := map[string]int{}
	for r, row := range verifC14Slots {
		for fn := 0; fn < len(verifC14Markers); fn++ {
			for flags := 0; flags < 4; flags++ {
				vals := map[string]any{"slot": r, "fn": fn, "flags": flags}
				b, _ := json.Marshal(map[string]any{"values": vals})
				if err := os.WriteFile(file, b, 0o644); err != nil {
					t.Fatal(err)
				}
				out := verifRun("VerifC14Traversal", VerifC14Traversal)
				res := "ok"
				if len(out) > 0 {
					res = strings.Join(out, "; ")
				}
				want := "ok"
				fl := verifC14FlagSets[flags]
				if row.finding != "" && verifC14ExpectRewrite(row, fn, fl&1 != 0, fl&2 != 0) {
					want = "finding " + row.finding
				}
				counts[res]++
				if fl == 3 || res != "ok" {
					fmt.Printf("SWEEP %-28s %-11s rwrand=%v rwtime=%v %-45s %s\n", row.kind+"."+row.slot, verifC14Markers[fn], fl&1 != 0, fl&2 != 0, res, strings.Replace(row.sql, "§", verifC14Markers[fn], 1))
				}
				// (classes of the rendition, C14-render-*, are not the table's business: printed only)
				if res != want && res != "ok" && !strings.HasPrefix(res, "finding C14-render-") {
					t.Errorf("%s.%s %s rwrand=%v rwtime=%v: %s (table expects %s)", row.kind, row.slot, verifC14Markers[fn], fl&1 != 0, fl&2 != 0, res, want)
				}
				if res == "ok" && want != "ok" {
					fmt.Printf("SWEEP   (the table records %s for this row: not reproduced on this tree)\n", row.finding)
				}
			}
		}
	}
	fmt.Printf("SWEEP totals: %v\n", counts)
	// the rendition texts: outcomes are printed; which of them are recorded classes is decided by
	// the check (known_findings.json), not here
	for i, tx := range verifC14RenderTexts {
		for fn := range verifC14Markers {
			b, _ := json.Marshal(map[string]any{"values": map[string]any{"text": i, "fn": fn}})
			if err := os.WriteFile(file, b, 0o644); err != nil {
				t.Fatal(err)
			}
			out := verifRun("VerifC14Render", VerifC14Render)
			res := "ok"
			if len(out) > 0 {
				res = strings.Join(out, "; ")
			}
			fmt.Printf("RENDER %-45s %s\n", res, strings.Replace(tx, "§", verifC14Markers[fn], 1))
			if res != "ok" && !strings.HasPrefix(res, "finding C14-render-") {
				t.Errorf("%s: %s", tx, res)
			}
		}
	}
}
