package sql

import (
	"database/sql/driver"
	"fmt"
	"io"
	"os"
	"testing"
	"time"

	sqlite3 "github.com/mattn/go-sqlite3"

	"github.com/rqlite/rqlite/v10/command/proto"
)

// Native oracles for C14(c): execute a text on a fresh scratch SQLite database.
func init() {
	verifC14Effect = func(q string) string { return verifC14Run(q, "SELECT count(*), group_concat(coalesce(n,'<null>'),'|') FROM foo") }
	verifC14Varies = func(q string) bool {
		a := verifC14Run(q, "SELECT id, n, v FROM foo")
		time.Sleep(1100 * time.Millisecond)
		return a != verifC14Run(q, "SELECT id, n, v FROM foo")
	}
}

func verifC14Query(c driver.Conn, q string) string {
	rows, err := c.(driver.Queryer).Query(q, nil)
	if err != nil {
		return "ERR:" + err.Error()
	}
	defer rows.Close()
	out := ""
	vals := make([]driver.Value, len(rows.Columns()))
	for {
		if err := rows.Next(vals); err != nil {
			if err != io.EOF {
				return "ERR:" + err.Error()
			}
			break
		}
		out += fmt.Sprintf("%v;", vals)
	}
	return out
}

func verifC14Run(text, dump string) string {
	c, err := (&sqlite3.SQLiteDriver{}).Open(":memory:")
	if err != nil {
		panic(err)
	}
	defer c.Close()
	ex := c.(driver.Execer)
	for _, s := range []string{"CREATE TABLE foo(id INTEGER PRIMARY KEY, n TEXT, v)", "INSERT INTO foo(n, v) VALUES('seed', 1)", "INSERT INTO foo(n, v) VALUES('2019-01-01', 2)"} {
		if _, err := ex.Exec(s, nil); err != nil {
			panic(err)
		}
	}
	res := ""
	if _, err := ex.Exec(text, nil); err != nil {
		res = "EXEC-ERR:" + err.Error() + " "
	}
	return res + verifC14Query(c, dump)
}

// TestVerifC14Calibrate shows the recorded classes on a real SQLite (VERIF_C14_CAL=1).
func TestVerifC14Calibrate(t *testing.T) {
	if os.Getenv("VERIF_C14_CAL") == "" {
		t.Skip()
	}
	for _, s := range []string{
		"INSERT INTO foo(v) VALUES(random()); INSERT INTO foo(n) VALUES('a')",
		"INSERT INTO foo(n) VALUES('a'); INSERT INTO foo(v) VALUES(random())",
		"INSERT INTO foo(v) VALUES(time())", "INSERT INTO foo(v) VALUES(strftime('%s'))",
		"INSERT INTO foo(v) VALUES(hex(randomblob(0x4)))",
		"DELETE FROM foo WHERE n<date('2020-01-01')",
		"INSERT INTO foo(v) VALUES(datetime('now'))",
	} {
		st := []*proto.Statement{{Sql: s}}
		Process(st, true, true)
		fmt.Printf("CAL in=%q\n    out=%q\n    effect in=%s out=%s varies-after-process=%v\n", s, st[0].Sql, verifC14Effect(s), verifC14Effect(st[0].Sql), verifC14Varies(st[0].Sql))
	}
}
