package db

import (
	"errors"
	"expvar"
	"io"
	"os"
	"time"

	"github.com/rqlite/rqlite/v10/db/wal"
)

// C06: incremental WAL segments stay correct under busy and partial checkpoints.
//
// Code under test (executed for real, symbolically and natively): (*CheckpointManager).Checkpoint
// with all its outcomes, WALResetWatch.Arm/Disarm/Check, wal.ReadSaltAt, wal.Salt.Equal.
//
// The harness plays the caller (store.fsmSnapshot): it hands Checkpoint a staged segment, keeps the
// segment iff the returned error is nil and drops it otherwise (that fsmSnapshot really does this is
// checked by harness/C06b). SQLite is
//   * in the engine: the WAL contract of DESIGN 4.4 (verifC06Wal) behind the concrete functions the
//     manager calls (fsutil.FileSize, os.Open, (*os.File).ReadAt/Close, (*DB).CheckpointWithTimeout);
//     NewCompactingFrameScanner(start)+Writer.WriteTo is summarised as "captures the committed frames
//     [start, mxFrame) of the current generation" (established by C05);
//   * natively: a real WAL-mode database with real read transactions (replay_test.go). The same
//     contract model then runs next to the real database as the oracle's expectation and is compared
//     with the real WAL file after every operation (a disagreement is reported as a panic, i.e. an
//     unconfirmed result, never as a finding).
//
// The oracle keeps its own bookkeeping, written from the property statement:
//   captured     = number of frames of the current WAL generation that are already contained in kept
//                  segments (0 after the generation changes),
//   pendingReset = frames of an earlier generation were kept while the WAL was left un-reset, a writer
//                  has since restarted the WAL, and no attempt has looked at the WAL yet.
// A kept segment must be exactly the frames [captured, mxFrame) of the current generation (as a set of
// page images: frames superseded inside the segment are compacted away, which is unobservable), an
// attempt must report WALReset exactly when pendingReset holds, a generation that a writer ends by
// restarting the WAL must have been captured completely, and base + kept segments applied in order
// must equal the live database.
//
// Protocol assumption (checked on store.fsmSnapshot by harness/C06b VerifC06bFailedFull, which also
// carries the recorded defect class C06-failed-full-then-incremental-loses-frames): after a failed
// full-snapshot checkpoint (nil writer) the store keeps asking for a full snapshot until one
// succeeds. Such a failed checkpoint may leave frames in the database file that no kept segment holds
// (ghost "exposed"); when a writer then restarts the WAL they are gone from the WAL too (ghost
// "lost"), so an incremental snapshot taken before a full one succeeds would be wrong: write {0,1};
// reader pins frame 2; Checkpoint(nil) fails with (1,2,2); reader stops; write {0} restarts the WAL;
// Checkpoint(w) succeeds with page 0 only (reproduced on a real database while building this check).

const (
	verifC06NP      = 3 // pages (natively: one single-row table per page) a write transaction can touch
	verifC06NR      = 2 // concurrent readers
	verifC06Timeout = 25 * time.Millisecond
)

// ---------------------------------------------------------------------------------------------
// SQLite WAL contract (DESIGN 4.4)

type verifC06Reader struct {
	active bool
	lock0  bool // began when the WAL was completely back-filled: reads the database file only, holds WAL_READ_LOCK(0)
	mark   int  // otherwise: mxFrame when the read transaction began, holds a read lock >= 1 ("pins" the WAL)
}

type verifC06Wal struct {
	sizeZero bool // the -wal file has length 0 (after a successful TRUNCATE checkpoint, until the next commit)
	gen      int  // generation: changes whenever the WAL is restarted
	salt     wal.Salt
	mx, nb   int // mxFrame, nBackfill
	rd       [verifC06NR]verifC06Reader

	// engine-side bookkeeping of the function models
	armedSalt  *wal.Salt // (inductive entry) a salt of an older generation that the new generation must differ from
	ckptCalls  int
	ckptFail   bool
	scanStart  int64
	scanned    bool
	tok        *verifC06Tok
	headerRead int
}

// verifC06Tok is what the summarised scanner+writer hands to the io.Writer: "frames [start,end) of generation gen".
type verifC06Tok struct {
	gen        int
	start, end int64
}

// pinned: some reader holds a read lock >= 1 (blocks WAL restart and WAL reset).
func (m *verifC06Wal) pinned() bool {
	for i := range m.rd {
		if m.rd[i].active && !m.rd[i].lock0 {
			return true
		}
	}
	return false
}

// lock0Held: some reader reads the database file directly (blocks back-filling).
func (m *verifC06Wal) lock0Held() bool {
	for i := range m.rd {
		if m.rd[i].active && m.rd[i].lock0 {
			return true
		}
	}
	return false
}

// restart: new generation. File format: "salt-1 is incremented and salt-2 randomised on each restart".
func (m *verifC06Wal) restart() {
	m.gen++
	m.salt = wal.Salt{m.salt[0] + 1, verifU32(verifName("salt2_gen", m.gen))}
	if m.armedSalt != nil {
		// generations have pairwise different salts (fewer than 2^32 restarts apart)
		verifAssume(verifOr(m.salt[0] != m.armedSalt[0], m.salt[1] != m.armedSalt[1]))
	}
	m.mx = 0
	m.nb = 0
}

// commit: a write transaction of n frames commits. Iff every frame is back-filled and no reader pins
// the WAL the writer restarts the WAL first. Reports whether it did.
func (m *verifC06Wal) commit(n int) bool {
	restarted := false
	if m.mx > 0 && m.nb == m.mx && !m.pinned() {
		m.restart()
		restarted = true
	}
	m.mx += n
	m.sizeZero = false
	return restarted
}

func (m *verifC06Wal) readerStart(i int) {
	r := &m.rd[i]
	r.active = true
	if m.nb == m.mx {
		r.lock0, r.mark = true, 0
	} else {
		r.lock0, r.mark = false, m.mx
	}
}

func (m *verifC06Wal) readerStop(i int) { m.rd[i] = verifC06Reader{} }

// checkpointTruncate: wal_checkpoint(TRUNCATE) with a busy handler that gives up (the readers of the
// model do not go away while the checkpoint waits): returns the (busy, log, checkpointed) row.
func (m *verifC06Wal) checkpointTruncate() (busy, log, ckpt int) {
	safe := m.mx
	for i := range m.rd {
		r := &m.rd[i]
		if r.active && !r.lock0 && r.mark < safe {
			safe = r.mark
		}
	}
	if m.nb < safe && !m.lock0Held() {
		m.nb = safe
	}
	if m.nb < m.mx {
		return 1, m.mx, m.nb
	}
	if m.pinned() {
		return 1, m.mx, m.nb
	}
	m.restart()
	m.sizeZero = true
	return 0, 0, 0
}

// ---------------------------------------------------------------------------------------------
// engine-side models of the concrete functions the manager calls (spec.json "models")

var verifC06M *verifC06Wal

func verifC06FileSize(path string) (int64, error) {
	m := verifC06M
	if m.sizeZero {
		return 0, nil
	}
	return 32 + int64(m.mx)*(24+4096), nil
}

func verifC06OsOpen(name string) (*os.File, error) { return &os.File{}, nil }

func verifC06FileClose(f *os.File) error { return nil }

// verifC06FileReadAt serves the 32-byte WAL header of the model (big-endian fields, as in the file format).
func verifC06FileReadAt(f *os.File, b []byte, off int64) (int, error) {
	m := verifC06M
	m.headerRead++
	var hdr [32]byte
	put := func(o int, v uint32) {
		hdr[o], hdr[o+1], hdr[o+2], hdr[o+3] = byte(v>>24), byte(v>>16), byte(v>>8), byte(v)
	}
	put(0, 0x377f0682)
	put(4, 3007000)
	put(8, 4096)
	put(12, uint32(m.gen))
	put(16, m.salt[0])
	put(20, m.salt[1])
	put(24, verifU32(verifName("hdrck1_", m.headerRead)))
	put(28, verifU32(verifName("hdrck2_", m.headerRead)))
	n := 0
	for i := range b {
		p := off + int64(i)
		if p < 0 || p >= 32 {
			return n, io.EOF
		}
		b[i] = hdr[p]
		n++
	}
	return n, nil
}

func verifC06NewScanner(r io.ReadSeeker, startFrame int64, fullScan bool) (*wal.CompactingFrameScanner, error) {
	if startFrame < 0 {
		return nil, errors.New("startFrame must not be negative")
	}
	m := verifC06M
	m.scanStart = startFrame
	m.scanned = true
	return &wal.CompactingFrameScanner{}, nil
}

func verifC06NewWriter(r wal.WALIterator) (*wal.Writer, error) { return &wal.Writer{}, nil }

func verifC06WriteTo(w *wal.Writer, ww io.Writer) (int64, error) {
	m := verifC06M
	verifAssume(m.scanned)
	m.scanned = false
	end := int64(m.mx)
	if m.scanStart > end {
		end = m.scanStart // nothing valid at or after the start offset: header only
	}
	m.tok = &verifC06Tok{gen: m.gen, start: m.scanStart, end: end}
	n, err := ww.Write([]byte{0x37})
	return int64(n), err
}

func verifC06CheckpointWithTimeout(d *DB, mode CheckpointMode, dur time.Duration) (*CheckpointMeta, error) {
	m := verifC06M
	m.ckptCalls++
	if m.ckptFail {
		return nil, errors.New("error checkpointing WAL: model fault")
	}
	verifAssume(mode == CheckpointTruncate)
	busy, log, ckpt := m.checkpointTruncate()
	return &CheckpointMeta{Code: busy, Pages: log, Moved: ckpt}, nil
}

// ---------------------------------------------------------------------------------------------
// native side (hooks set by replay_test.go)

type verifC06Native struct {
	Open        func() *DB
	Close       func()
	Write       func(pages []int, ver int)
	ReaderStart func(i int)
	ReaderStop  func(i int)
	WALState    func() (size int64, salt wal.Salt, pages []int, images []string) // valid frames of the current generation
	SegImages   func(seg []byte) (salt wal.Salt, images []string, ok bool)
	TakeBase    func()
	Matches     func(segs [][]byte) bool
}

var verifC06N *verifC06Native

// ---------------------------------------------------------------------------------------------
// harness state: contract model + the oracle's bookkeeping

type verifC06Frame struct{ page, ver int }

type verifC06Seg struct {
	data []byte
	tok  *verifC06Tok
}

func (s *verifC06Seg) Write(p []byte) (int, error) {
	s.data = append(s.data, p...)
	if verifC06M != nil && verifC06M.tok != nil {
		s.tok = verifC06M.tok
		verifC06M.tok = nil
	}
	return len(p), nil
}

type verifC06H struct {
	m  *verifC06Wal
	cm *CheckpointManager

	captured     int
	pendingReset bool
	exposed      bool // a failed full-snapshot checkpoint back-filled frames that no kept segment holds; the next writer may restart the WAL
	lost         bool // ... and a writer did: frames committed since the base are neither in the WAL nor in a kept segment
	fullDue      bool // a full-snapshot attempt failed: the store asks for a full snapshot again (no incremental attempt meanwhile)

	// bounded entries only: page-version abstraction
	content bool
	hist    [][]verifC06Frame // frames per generation
	live    [verifC06NP]int
	base    [verifC06NP]int
	segs    []*verifC06Seg
	nver    int

	deferInv bool
	invBad   [6]bool

	// native only
	native   bool
	genSalts []wal.Salt
}

func verifC06New(content bool) *verifC06H {
	h := &verifC06H{content: content}
	h.m = &verifC06Wal{sizeZero: true}
	h.hist = [][]verifC06Frame{nil}
	if verifSymbolic() {
		h.m.salt = wal.Salt{verifU32("salt1_gen0"), verifU32("salt2_gen0")}
		verifC06M = h.m
		verifC06Stats()
		h.cm = &CheckpointManager{db: &DB{}, dbPath: "verif.db", walPath: "verif.db-wal", resetWatch: &WALResetWatch{}}
		return h
	}
	h.native = true
	d := verifC06N.Open()
	cm, err := NewCheckpointManager(d)
	if err != nil {
		panic(err)
	}
	h.cm = cm
	h.agree("open")
	return h
}

// verifC06Stats (engine only): the package's func init() cannot run symbolically (it asks the cgo
// SQLite library for its version); set up the expvar statistics it would have created.
func verifC06Stats() {
	stats = expvar.NewMap("db")
	ResetStats()
}

func (h *verifC06H) close() {
	if h.native {
		verifC06N.Close()
	}
	verifC06M = nil
}

func (h *verifC06H) syncGen() {
	for len(h.hist) <= h.m.gen {
		h.hist = append(h.hist, nil)
	}
}

// agree (native only): the contract model and the real WAL file must tell the same story.
func (h *verifC06H) agree(where string) {
	if !h.native {
		return
	}
	m := h.m
	size, salt, pages, _ := verifC06N.WALState()
	if (size == 0) != m.sizeZero {
		panic("C06-MODEL " + where + ": WAL size disagrees with the contract model")
	}
	if size == 0 {
		return
	}
	if len(pages) != m.mx {
		panic("C06-MODEL " + where + ": mxFrame disagrees with the contract model")
	}
	if h.content {
		fr := h.hist[m.gen]
		if len(fr) != len(pages) {
			panic("C06-MODEL " + where + ": frame history disagrees")
		}
		for i := range fr {
			if fr[i].page != pages[i] {
				panic("C06-MODEL " + where + ": frame page order disagrees")
			}
		}
	}
	for len(h.genSalts) <= m.gen {
		h.genSalts = append(h.genSalts, wal.Salt{})
	}
	if h.genSalts[m.gen] == (wal.Salt{}) {
		h.genSalts[m.gen] = salt
		for g := 0; g < m.gen; g++ {
			if h.genSalts[g] == salt {
				panic("C06-MODEL " + where + ": two generations with the same salt")
			}
		}
	} else if h.genSalts[m.gen] != salt {
		panic("C06-MODEL " + where + ": salt changed without a generation change")
	}
}

func (h *verifC06H) curSalt() wal.Salt {
	if h.native {
		_, salt, _, _ := verifC06N.WALState()
		return salt
	}
	return h.m.salt
}

// ---------------------------------------------------------------------------------------------
// operations

// write: a transaction touching the given pages (ascending), or - inductive entry - n anonymous frames.
func (h *verifC06H) write(pages []int, n int) {
	if pages != nil {
		n = len(pages)
	}
	capBefore, mxBefore := h.captured, h.m.mx
	restarted := h.m.commit(n)
	h.syncGen()
	if restarted {
		verifReach("writer-restarted-wal")
		if capBefore < mxBefore {
			// the generation that just ended had frames that no kept segment contains
			if !h.exposed {
				verifAssert("C06-ended-generation-was-captured", false)
			}
			h.lost = true
		}
		h.exposed = false
		if h.captured > 0 {
			h.pendingReset = true
		}
		h.captured = 0
	}
	if pages != nil {
		h.nver++
		for _, p := range pages {
			h.live[p] = h.nver
			h.hist[h.m.gen] = append(h.hist[h.m.gen], verifC06Frame{p, h.nver})
		}
		if h.native {
			verifC06N.Write(pages, h.nver)
		}
	}
	h.agree("write")
}

func (h *verifC06H) readerStart(i int) {
	h.m.readerStart(i)
	if h.native {
		verifC06N.ReaderStart(i)
	}
}

func (h *verifC06H) readerStop(i int) {
	h.m.readerStop(i)
	if h.native {
		verifC06N.ReaderStop(i)
	}
}

// compact: the page images a segment with frames [start,end) of generation gen carries (last frame per page).
func (h *verifC06H) compact(gen int, start, end int64) [verifC06NP]int {
	var out [verifC06NP]int
	if gen < 0 || gen >= len(h.hist) {
		return out
	}
	fr := h.hist[gen]
	for i := range fr {
		if int64(i) >= start && int64(i) < end {
			out[fr[i].page] = fr[i].ver
		}
	}
	return out
}

// attemptInc: one incremental snapshot attempt as store.fsmSnapshot makes it.
func (h *verifC06H) attemptInc() {
	m := h.m
	if m.sizeZero {
		return // fsmSnapshot: no WAL data -> ErrNoWALToSnapshot, the manager is not called
	}
	expStart, expEnd, expGen, expReset := int64(h.captured), int64(m.mx), m.gen, h.pendingReset
	var preSalt wal.Salt
	var preImages []string
	if h.native {
		_, preSalt, _, preImages = verifC06N.WALState()
	}
	m.ckptCalls = 0
	seg := &verifC06Seg{}
	meta, _, err := h.cm.Checkpoint(seg, verifC06Timeout)
	if h.native {
		busy, log, ckpt := m.checkpointTruncate()
		if meta != nil && (meta.Code != busy || meta.Pages != log || meta.Moved != ckpt) {
			panic("C06-MODEL checkpoint: (busy, log, checkpointed) disagrees with the contract model")
		}
	}
	h.syncGen()
	h.agree("attempt")
	wasReset := m.gen != expGen // this checkpoint itself reset (truncated) the WAL

	if err == nil {
		// the caller keeps the staged segment
		verifAssert("C06-success-has-meta", meta != nil)
		written := len(seg.data) > 0
		verifAssert("C06-kept-segment-was-written", written)
		if !h.native {
			verifAssert("C06-kept-segment-was-written", seg.tok != nil)
			// the frames behind a kept segment are all in the database file: the next writer may restart the WAL
			verifAssert("C06-one-checkpoint-per-attempt", m.ckptCalls == 1)
		}
		if h.content {
			verifAssert("C06-segment-tiles-frames", h.segMatches(seg, preSalt, preImages, expGen, expStart, expEnd))
		} else {
			verifAssert("C06-segment-generation", seg.tok.gen == expGen)
			verifAssert("C06-segment-starts-after-captured", seg.tok.start == expStart)
			verifAssert("C06-segment-ends-at-mxframe", seg.tok.end == expEnd)
		}
		h.segs = append(h.segs, seg)
		if wasReset {
			verifReach("outcome-reset")
			h.captured = 0
		} else {
			verifReach("outcome-all-moved-not-reset")
			h.captured = int(expEnd)
		}
		if expStart > 0 {
			verifReach("resumed-after-captured-frames")
		}
		h.exposed = false // [captured, mxFrame) - whatever a failed full checkpoint back-filled of it - is in this segment
		if h.content {
			verifAssert("C06-incremental-only-when-nothing-lost", !h.lost)
			verifAssert("C06-base-plus-segments-is-live", h.contentOK())
		}
	} else {
		// the caller cancels the staged segment; a non-retryable error makes the store exit
		verifReach("outcome-failed")
		if !m.ckptFail {
			var re RetryableError
			verifAssert("C06-busy-is-retryable", errors.As(err, &re) && re.Retryable())
			verifAssert("C06-failed-means-not-reset", !wasReset)
		}
	}
	// the attempt looked at the WAL header: a reset is reported once
	h.pendingReset = false
	if meta != nil {
		if expReset {
			verifReach("walreset-detected")
		}
		verifAssert("C06-walreset-reported-iff-reset", meta.WALReset == expReset)
	}
}

// attemptFull: the checkpoint of a full snapshot (nil writer); on success fsmSnapshot copies the
// database file, which becomes the new base.
func (h *verifC06H) attemptFull() {
	m := h.m
	wasZero := m.sizeZero
	m.ckptCalls = 0
	meta, _, err := h.cm.Checkpoint(nil, verifC06Timeout)
	if h.native && !wasZero {
		m.checkpointTruncate()
	}
	h.syncGen()
	h.agree("full attempt")
	if err == nil && meta != nil && meta.Success() {
		verifReach("full-succeeded")
		verifAssert("C06-full-success-means-wal-empty", m.sizeZero)
		h.base = h.live
		h.segs = nil
		h.captured = 0
		h.pendingReset = false
		h.exposed, h.lost, h.fullDue = false, false, false
		if h.native {
			verifC06N.TakeBase()
		}
	} else {
		verifReach("full-failed")
		verifAssert("C06-full-failure-reports-error", err != nil)
		h.fullDue = true
		if verifAnd(m.nb == m.mx, h.captured < m.mx) {
			// every frame is now in the database file, some of them in no kept segment, and nothing
			// stops the next writer from restarting the WAL: only a full snapshot can still be right
			verifReach("failed-full-exposes-uncaptured-frames")
			h.exposed = true
		}
	}
}

func (h *verifC06H) segMatches(seg *verifC06Seg, preSalt wal.Salt, preImages []string, expGen int, expStart, expEnd int64) bool {
	if h.native {
		salt, images, ok := verifC06N.SegImages(seg.data)
		if !ok || salt != preSalt {
			return false
		}
		if expEnd > int64(len(preImages)) {
			panic("C06-MODEL: expected end beyond the real WAL")
		}
		// expected: last image per page among the real frames [expStart, expEnd)
		want := map[string]bool{}
		lastOfPage := map[string]string{}
		for i := expStart; i < expEnd; i++ {
			img := preImages[i]
			pg := img[:4] // images are "pgno(4 bytes) + page data"
			lastOfPage[pg] = img
		}
		for _, img := range lastOfPage {
			want[img] = true
		}
		if len(images) != len(want) {
			return false
		}
		for _, img := range images {
			if !want[img] {
				return false
			}
			delete(want, img)
		}
		return len(want) == 0
	}
	if seg.tok == nil || seg.tok.gen != expGen {
		return false
	}
	return h.compact(expGen, seg.tok.start, seg.tok.end) == h.compact(expGen, expStart, expEnd)
}

// contentOK: base + kept segments applied in order == live database (page-version abstraction;
// natively: rebuilt database file vs the live database, table by table).
func (h *verifC06H) contentOK() bool {
	if h.native {
		var segs [][]byte
		for _, s := range h.segs {
			segs = append(segs, s.data)
		}
		return verifC06N.Matches(segs)
	}
	st := h.base
	for _, s := range h.segs {
		if s.tok == nil {
			return false
		}
		c := h.compact(s.tok.gen, s.tok.start, s.tok.end)
		for p := range c {
			if c[p] != 0 {
				st[p] = c[p]
			}
		}
	}
	return st == h.live
}

// checkInv: the relation between the oracle's bookkeeping and the manager's carried-over state
// (DESIGN section 6 C06): armed => (salt = salt at arming and resume = frames already captured in
// this generation) or the generation changed.
func (h *verifC06H) checkInv() {
	h.checkCaptured()
	w := h.cm.resetWatch
	tracking := verifOr(h.captured > 0, h.pendingReset)
	h.inv(0, w.armed == tracking)
	h.inv(1, h.captured <= h.m.mx)
	if h.m.sizeZero {
		return // no header to compare with; captured == 0 and not tracking here
	}
	cur := h.curSalt()
	same := verifAnd(w.salt[0] == cur[0], w.salt[1] == cur[1])
	h.inv(2, verifImplies(h.captured > 0, w.resumeFrameIdx == int64(h.captured)))
	h.inv(3, verifImplies(h.captured > 0, same))
	h.inv(4, verifImplies(h.pendingReset, !same))
}

// checkCaptured: unless a failed full-snapshot checkpoint interfered, a completely back-filled WAL
// (the only kind a writer restarts) is completely captured.
func (h *verifC06H) checkCaptured() {
	h.inv(5, verifOr(h.exposed, verifImplies(h.m.nb == h.m.mx, h.captured == h.m.mx)))
}

var verifC06InvNames = [6]string{"C06-inv-armed-iff-tracking", "C06-inv-captured-within-wal", "C06-inv-resume-is-captured",
	"C06-inv-armed-salt-is-current", "C06-inv-armed-salt-is-stale", "C06-inv-backfilled-means-captured"}

// inv: the inductive entry asserts an invariant conjunct at once. The bounded entries only remember
// it and assert it when the schedule is over (finishInv), so that a broken manager is first of all
// reported through what the property itself is about (segments, WALReset, rebuilt database) whenever
// that shows within the bound.
func (h *verifC06H) inv(k int, ok bool) {
	if !h.deferInv {
		verifAssert(verifC06InvNames[k], ok)
		return
	}
	h.invBad[k] = verifOr(h.invBad[k], !ok)
}

func (h *verifC06H) finishInv() {
	for k := range h.invBad {
		verifAssert(verifC06InvNames[k], !h.invBad[k])
	}
}

// ---------------------------------------------------------------------------------------------
// entry (b): bounded schedules from an empty WAL

var verifC06WriteKinds = [][]int{{0, 1}, {0}, {1}, {2}}

// step: operation i of a schedule; kinds = how many of the write page sets may be chosen.
func (h *verifC06H) step(i int, kinds int, full bool) {
	m := h.m
	switch verifChoice(verifName("op", i), 5) {
	case 0:
		k := verifChoice(verifName("pages", i), kinds)
		h.write(verifC06WriteKinds[k], 0)
	case 1:
		free := -1
		for r := verifC06NR - 1; r >= 0; r-- {
			if !m.rd[r].active {
				free = r
			}
		}
		verifAssume(free >= 0)
		h.readerStart(free)
		if m.rd[free].lock0 {
			verifReach("reader-on-database-file")
		} else {
			verifReach("reader-pins-wal")
		}
	case 2:
		r := verifChoice(verifName("which", i), verifC06NR)
		verifAssume(m.rd[r].active)
		h.readerStop(r)
	case 3:
		verifAssume(!m.sizeZero)
		verifAssume(!h.fullDue) // a full snapshot stays due until one succeeds (C06b)
		h.attemptInc()
	case 4:
		verifAssume(full)
		h.attemptFull()
	}
	h.checkInv()
}

// VerifC06Sched: every schedule of K operations {write (3 page sets), reader start, reader stop,
// incremental attempt, full attempt} from an empty WAL.
func VerifC06Sched() {
	verifPanicsAreViolations()
	k := 4
	if verifTier() == 1 {
		k = 6
	}
	h := verifC06New(true)
	defer h.close()
	h.deferInv = true
	for i := 0; i < k; i++ {
		h.step(i, 3, true)
	}
	h.finishInv()
}

// VerifC06SchedLong (thorough tier): schedules of 7 operations over the smaller alphabet {write of
// two pages, reader start, reader stop, incremental attempt}.
func VerifC06SchedLong() {
	verifPanicsAreViolations()
	h := verifC06New(true)
	defer h.close()
	h.deferInv = true
	for i := 0; i < 7; i++ {
		h.step(i, 1, false)
	}
	h.finishInv()
}

// VerifC06SchedArmed: the same, after the three operations that leave the manager carrying state over
// (write; reader pins the end of the WAL; attempt moves every frame but cannot reset the WAL).
func VerifC06SchedArmed() {
	verifPanicsAreViolations()
	k := 3
	if verifTier() == 1 {
		k = 4
	}
	h := verifC06New(true)
	defer h.close()
	h.deferInv = true
	h.write([]int{0, 1}, 0)
	h.readerStart(0)
	h.attemptInc()
	h.checkInv()
	verifAssert("C06-prefix-kept-a-segment", len(h.segs) == 1)
	verifAssert("C06-prefix-left-wal-unreset", h.captured == 2)
	for i := 0; i < k; i++ {
		h.step(i, 3, true)
	}
	h.finishInv()
}

// ---------------------------------------------------------------------------------------------
// entry (a): inductive step from an arbitrary related state

func verifC06Arbitrary() *verifC06H {
	h := &verifC06H{}
	m := &verifC06Wal{}
	h.m = m
	m.mx = verifInt("mx", 0, 1<<30)
	m.nb = verifInt("nb", 0, 1<<30)
	verifAssume(m.nb <= m.mx)
	m.sizeZero = m.mx == 0
	m.salt = wal.Salt{verifU32("salt1"), verifU32("salt2")}
	for i := range m.rd {
		switch verifChoice(verifName("reader", i), 3) {
		case 1:
			m.rd[i] = verifC06Reader{active: true, lock0: true}
		case 2:
			mk := verifInt(verifName("mark", i), 1, 1<<30)
			verifAssume(mk >= m.nb)
			verifAssume(mk <= m.mx)
			m.rd[i] = verifC06Reader{active: true, mark: mk}
		}
	}
	verifC06M = m
	verifC06Stats()

	// the oracle's bookkeeping and the manager's carried-over state, related by the invariant
	h.captured = verifInt("captured", 0, 1<<30)
	verifAssume(h.captured <= m.mx)
	h.pendingReset = verifBool("pendingReset")
	verifAssume(!verifAnd(h.captured > 0, h.pendingReset))
	verifAssume(verifImplies(m.nb == m.mx, h.captured == m.mx))
	verifAssume(verifImplies(h.pendingReset, m.mx > 0))
	w := &WALResetWatch{
		armed:          verifBool("armed"),
		salt:           wal.Salt{verifU32("armedSalt1"), verifU32("armedSalt2")},
		resumeFrameIdx: verifI64("resume"),
	}
	same := verifAnd(w.salt[0] == m.salt[0], w.salt[1] == m.salt[1])
	verifAssume(w.armed == verifOr(h.captured > 0, h.pendingReset))
	verifAssume(verifImplies(h.captured > 0, verifAnd(same, w.resumeFrameIdx == int64(h.captured))))
	verifAssume(verifImplies(h.pendingReset, !same))
	if w.armed {
		s := w.salt
		m.armedSalt = &s
	}
	h.cm = &CheckpointManager{db: &DB{}, dbPath: "verif.db", walPath: "verif.db-wal", resetWatch: w}
	h.hist = [][]verifC06Frame{nil}
	return h
}

// VerifC06Step: one operation from an arbitrary WAL state and manager state related by the invariant.
func VerifC06Step() {
	verifPanicsAreViolations()
	h := verifC06Arbitrary()
	m := h.m
	switch verifChoice("op", 6) {
	case 0:
		n := verifInt("frames", 1, 1<<20)
		h.write(nil, n)
	case 1:
		r := verifChoice("which", verifC06NR)
		verifAssume(!m.rd[r].active)
		h.readerStart(r)
	case 2:
		r := verifChoice("which", verifC06NR)
		verifAssume(m.rd[r].active)
		h.readerStop(r)
	case 3:
		verifAssume(!m.sizeZero)
		h.attemptInc()
	case 4:
		h.attemptFull()
	case 5:
		// the checkpoint call itself fails (no statement about the WAL: it is left as it was)
		verifAssume(!m.sizeZero)
		m.ckptFail = true
		if verifChoice("writer", 2) == 0 {
			h.attemptInc()
		} else {
			h.attemptFull()
		}
		verifReach("checkpoint-call-failed")
	}
	h.checkInv()
}

// VerifC06Twin: same assumptions as the step, with a claim that is false (a kept segment does not
// always come with a reset WAL).
func VerifC06Twin() {
	h := verifC06Arbitrary()
	verifAssume(!h.m.sizeZero)
	h.attemptInc()
	h.checkInv()
	verifAssert("C06-twin-every-kept-segment-resets-the-wal", verifImplies(len(h.segs) > 0, h.captured == 0))
}
