package db

import (
	"context"
	"database/sql"
	"encoding/binary"
	"encoding/json"
	"fmt"
	"io"
	"os"
	"path/filepath"
	"testing"

	"github.com/rqlite/rqlite/v10/db/wal"
)

// Native side of C06: a real WAL-mode db.DB in a scratch directory.
//   page p of the model  = table t<p> (one row, its own root page); version v = the value of t<p>.v
//   write {p,q} version v = BEGIN; UPDATE tp SET v=v; UPDATE tq SET v=v; COMMIT on the write connection
//   reader i             = a dedicated read-only connection inside BEGIN + SELECT (holds its WAL read lock until stopped)
//   base                 = copy of the database file taken when the WAL is empty
//   rebuilt              = copy of the base with every kept segment put in place as -wal and checkpointed, in order

type verifC06Real struct {
	dir     string
	db      *DB
	base    string
	readers [verifC06NR]*sql.Conn
	pgno    [verifC06NP]uint32
	nbuild  int
}

var verifC06R *verifC06Real

func init() {
	verifC06N = &verifC06Native{
		Open:        verifC06RealOpen,
		Close:       verifC06RealClose,
		Write:       verifC06RealWrite,
		ReaderStart: verifC06RealReaderStart,
		ReaderStop:  verifC06RealReaderStop,
		WALState:    verifC06RealWALState,
		SegImages:   verifC06RealSegImages,
		TakeBase:    verifC06RealTakeBase,
		Matches:     verifC06RealMatches,
	}
}

func verifC06Must(err error) {
	if err != nil {
		panic("C06-NATIVE: " + err.Error())
	}
}

func verifC06RealOpen() *DB {
	dir, err := os.MkdirTemp("", "verif-c06-")
	verifC06Must(err)
	d, err := Open(filepath.Join(dir, "live.db"), false, true)
	verifC06Must(err)
	r := &verifC06Real{dir: dir, db: d, base: filepath.Join(dir, "base.db")}
	verifC06R = r
	for p := 0; p < verifC06NP; p++ {
		_, err := d.rwDB.Exec(fmt.Sprintf("CREATE TABLE t%d (id INTEGER PRIMARY KEY, v INTEGER)", p))
		verifC06Must(err)
		_, err = d.rwDB.Exec(fmt.Sprintf("INSERT INTO t%d(id, v) VALUES(1, 1000000)", p))
		verifC06Must(err)
	}
	for p := 0; p < verifC06NP; p++ {
		var root uint32
		verifC06Must(d.rwDB.QueryRow(fmt.Sprintf("SELECT rootpage FROM sqlite_schema WHERE name='t%d'", p)).Scan(&root))
		r.pgno[p] = root
	}
	meta, err := d.Checkpoint(CheckpointTruncate)
	verifC06Must(err)
	if !meta.Success() {
		panic("C06-NATIVE: initial checkpoint did not truncate the WAL")
	}
	verifC06RealTakeBase()
	return d
}

func verifC06RealClose() {
	r := verifC06R
	if r == nil {
		return
	}
	for i := range r.readers {
		if r.readers[i] != nil {
			verifC06RealReaderStop(i)
		}
	}
	r.db.Close()
	os.RemoveAll(r.dir)
	verifC06R = nil
}

func verifC06RealWrite(pages []int, ver int) {
	r := verifC06R
	ctx := context.Background()
	conn, err := r.db.rwDB.Conn(ctx)
	verifC06Must(err)
	defer conn.Close()
	_, err = conn.ExecContext(ctx, "BEGIN")
	verifC06Must(err)
	for _, p := range pages {
		_, err = conn.ExecContext(ctx, fmt.Sprintf("UPDATE t%d SET v=%d WHERE id=1", p, 1000000+ver))
		verifC06Must(err)
	}
	_, err = conn.ExecContext(ctx, "COMMIT")
	verifC06Must(err)
}

func verifC06RealReaderStart(i int) {
	r := verifC06R
	ctx := context.Background()
	conn, err := r.db.roDB.Conn(ctx)
	verifC06Must(err)
	_, err = conn.ExecContext(ctx, "BEGIN")
	verifC06Must(err)
	var v int
	verifC06Must(conn.QueryRowContext(ctx, "SELECT v FROM t0").Scan(&v))
	r.readers[i] = conn
}

func verifC06RealReaderStop(i int) {
	r := verifC06R
	conn := r.readers[i]
	r.readers[i] = nil
	_, err := conn.ExecContext(context.Background(), "COMMIT")
	verifC06Must(err)
	verifC06Must(conn.Close())
}

// verifC06ParseWAL: header salt and the leading frames that carry it (page index of the model, or -1,
// and "pgno + page data" as the image). Frames of an earlier generation further down the file do not count.
func verifC06ParseWAL(b []byte) (salt wal.Salt, pages []int, images []string, ok bool) {
	if len(b) < 32 {
		return salt, nil, nil, false
	}
	pageSize := int(binary.BigEndian.Uint32(b[8:12]))
	salt = wal.Salt{binary.BigEndian.Uint32(b[16:20]), binary.BigEndian.Uint32(b[20:24])}
	for off := 32; off+24+pageSize <= len(b); off += 24 + pageSize {
		fs := wal.Salt{binary.BigEndian.Uint32(b[off+8 : off+12]), binary.BigEndian.Uint32(b[off+12 : off+16])}
		if fs != salt {
			break
		}
		pgno := binary.BigEndian.Uint32(b[off : off+4])
		idx := -1
		if verifC06R != nil {
			for p, n := range verifC06R.pgno {
				if n == pgno {
					idx = p
				}
			}
		}
		pages = append(pages, idx)
		images = append(images, string(b[off:off+4])+string(b[off+24:off+24+pageSize]))
	}
	return salt, pages, images, true
}

func verifC06RealWALState() (int64, wal.Salt, []int, []string) {
	b, err := os.ReadFile(verifC06R.db.WALPath())
	verifC06Must(err)
	if len(b) == 0 {
		return 0, wal.Salt{}, nil, nil
	}
	salt, pages, images, ok := verifC06ParseWAL(b)
	if !ok {
		panic("C06-NATIVE: short WAL file")
	}
	return int64(len(b)), salt, pages, images
}

func verifC06RealSegImages(seg []byte) (wal.Salt, []string, bool) {
	salt, _, images, ok := verifC06ParseWAL(seg)
	if ok {
		// every byte of the segment must be header + whole frames of that salt
		pageSize := int(binary.BigEndian.Uint32(seg[8:12]))
		if 32+len(images)*(24+pageSize) != len(seg) {
			return salt, images, false
		}
	}
	return salt, images, ok
}

func verifC06Copy(dst, src string) {
	in, err := os.Open(src)
	verifC06Must(err)
	defer in.Close()
	out, err := os.Create(dst)
	verifC06Must(err)
	_, err = io.Copy(out, in)
	verifC06Must(err)
	verifC06Must(out.Close())
}

// verifC06RealTakeBase: the WAL is empty, the database file is the whole database.
func verifC06RealTakeBase() {
	r := verifC06R
	verifC06Copy(r.base, r.db.Path())
}

func verifC06Values(q interface {
	QueryRow(string, ...any) *sql.Row
}) (out [verifC06NP]int, err error) {
	for p := 0; p < verifC06NP; p++ {
		if err = q.QueryRow(fmt.Sprintf("SELECT v FROM t%d WHERE id=1", p)).Scan(&out[p]); err != nil {
			return
		}
	}
	return
}

// verifC06RealMatches: base + segments in order, rebuilt the way the snapshot store does it
// (segment renamed to -wal, checkpointed and removed), equals the live database.
func verifC06RealMatches(segs [][]byte) bool {
	r := verifC06R
	r.nbuild++
	path := filepath.Join(r.dir, fmt.Sprintf("rebuilt%d.db", r.nbuild))
	verifC06Copy(path, r.base)
	for _, s := range segs {
		verifC06Must(os.WriteFile(path+"-wal", s, 0o644))
		if err := CheckpointRemove(path); err != nil {
			fmt.Println("C06 rebuild: checkpoint of a segment failed:", err)
			return false
		}
	}
	rb, err := Open(path, false, true)
	if err != nil {
		fmt.Println("C06 rebuild: open failed:", err)
		return false
	}
	defer rb.Close()
	got, err := verifC06Values(rb.rwDB)
	if err != nil {
		fmt.Println("C06 rebuild: read failed:", err)
		return false
	}
	want, err := verifC06Values(r.db.rwDB)
	verifC06Must(err)
	if got != want {
		fmt.Println("C06 rebuild: rebuilt", got, "live", want)
	}
	return got == want
}

// ---------------------------------------------------------------------------------------------
// Calibration of the WAL contract model against real SQLite (VERIF_C06_CAL=<depth>): every schedule
// of up to <depth> operations {write (3 page sets), reader start, reader stop, incremental attempt,
// full attempt} is run through the harness natively: after every operation the real WAL file (size,
// salt, number and page order of valid frames) and every checkpoint's (busy, log, checkpointed) row
// must equal what the contract model says, and all C06 assertions must hold.
func TestVerifC06Calibrate(t *testing.T) {
	depthS := os.Getenv("VERIF_C06_CAL")
	if depthS == "" {
		t.Skip()
	}
	depth := 0
	fmt.Sscan(depthS, &depth)
	runs, bad, known := 0, 0, 0
	var rec func(seq []int)
	// one op = op*8 + sub
	run := func(seq []int) (valid bool) {
		vals := map[string]any{}
		for i, o := range seq {
			vals[fmt.Sprintf("op%d", i)] = jsonNum(o / 8)
			vals[fmt.Sprintf("pages%d", i)] = jsonNum(o % 8)
			vals[fmt.Sprintf("which%d", i)] = jsonNum(o % 8)
		}
		verifVals = vals
		verifOutcome = nil
		valid = true
		func() {
			defer func() {
				if r := recover(); r != nil {
					if s, ok := r.(verifStop); ok {
						if s.why == "assume" {
							valid = false
							return
						}
						if s.why == "finding" {
							known++ // recorded defect class reproduced on the real database; its extensions are not explored
							valid = false
							return
						}
						bad++
						t.Errorf("schedule %v: %v", seq, verifOutcome)
						return
					}
					bad++
					t.Errorf("schedule %v: panic %v", seq, r)
				}
			}()
			h := verifC06New(true)
			defer h.close()
			h.deferInv = true
			for i := range seq {
				h.step(i, 3, true)
			}
			h.finishInv()
		}()
		if valid {
			runs++
		}
		return valid
	}
	subs := []int{3, 1, verifC06NR, 1, 1}
	rec = func(seq []int) {
		if len(seq) > 0 && !run(seq) {
			return // invalid operation: every extension is invalid too
		}
		if len(seq) == depth || bad > 5 {
			return
		}
		for op := 0; op < 5; op++ {
			for sub := 0; sub < subs[op]; sub++ {
				rec(append(append([]int(nil), seq...), op*8+sub))
			}
		}
	}
	rec(nil)
	t.Logf("C06 calibration: %d schedules up to length %d, %d disagreements, %d witnesses of the recorded defect class", runs, depth, bad, known)
}

func jsonNum(i int) any { return json.Number(fmt.Sprint(i)) }
