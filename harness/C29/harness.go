package command

// C29 "Commands survive encoding into the log unchanged".
//
// Code under test (package command, run from its real source): (*RequestMarshaler).Marshal,
// Marshal/Unmarshal, UnmarshalSubCommand, MarshalLoadRequest/UnmarshalLoadRequest,
// MarshalNoop/UnmarshalNoop, MarshalLoadChunkRequest/UnmarshalLoadChunkRequest,
// Marshal/UnmarshalAppendEntriesExtension, gzCompress, gzUncompress.
//
// The harness plays the two nodes around that code: the sender wraps what the marshaler returns
// into a proto.Command exactly as the store does (type, payload, Compressed flag), the bytes
// travel as a copy, the receiver decodes the Command, picks the message type from Command.Type
// (as CommandProcessor.Process does) and decodes the payload.
//
// Natively (replay of every counterexample) the real google.golang.org/protobuf and the real
// compress/gzip run. In the engine both are replaced by the codec algebra at the bottom of this
// file (spec.json "models"): an encoded message is a 4 byte token {magic, magic, id, type tag}
// with an abstract, symbolic length (verifAbstractLen: `len(b)` in the code under test yields that
// length); gzip wraps a token into {magic, magic, id, 'z'} token {end} with a symbolic length of
// its own; decoding checks tags and framing.
//
// SIZE is decided abstractly (entry VerifC29Size): the plain and the gzip form carry symbolic
// lengths related only by what DEFLATE guarantees (gzip form >= 18 bytes; at most 1032 bytes of
// content per byte of deflate data). The modelled gzip reader delivers exactly the abstract
// uncompressed length - as the content token itself, or as fragment tokens {from, n} when something
// (a chunked Read, an io.LimitedReader) takes only part of it; fragments reassemble to the message
// only when they cover it completely. The native replay builds a real request with exactly the
// solver's plain and gzip lengths (a blob of incompressible bytes followed by zeros).

import (
	"bytes"
	"compress/gzip"
	"errors"
	"io"
	"runtime/debug"
	"sync"

	"github.com/rqlite/rqlite/v10/command/proto"
	pb "google.golang.org/protobuf/proto"
)

// verifAbstractLen is intercepted by the engine (engine/sym/intr_C29.go); natively lengths are real.
func verifAbstractLen(key int, n int) {}

// ---------------------------------------------------------------------------
// building requests

const (
	verifKindExecute = iota
	verifKindQuery
	verifKindExecuteQuery
	verifKinds
)

// verifWindow: the difference len(gzip form) - len(plain form) is reproduced exactly by the native
// replay when it lies within +-verifWindow, and by sign beyond that.
const verifWindow = 12

// Abstract lengths. verifGzMin: RFC 1952 (10 bytes of header, 8 of trailer). In the entries whose
// content is a few concrete bytes the encoded forms have lengths up to verifSmallRaw/verifSmallGz;
// in the size entry (verifSizeMode) any length up to verifAnyLen.
const (
	verifGzMin    = 18
	verifSmallRaw = 4095
	verifSmallGz  = 8191
	verifAnyLen   = 1 << 40
	// the native replay builds payloads of up to verifSizeCap bytes
	verifSizeCap = 1 << 24
)

// verifDeflate: all that is taken for granted about the length g of the gzip form of u bytes - the
// framing, and RFC 1951: one length/distance pair stands for at most 258 bytes and costs at least
// two bits, i.e. at most 1032 bytes of content per byte of deflate data. Nothing else: the gzip
// form may be longer than the content by any amount.
func verifDeflate(u, g int) bool {
	return verifAnd(g >= verifGzMin, u <= 1032*(g-verifGzMin))
}

// size entry: the lengths chosen for the message on this path
var verifSizeMode bool
var verifSizeRaw, verifSizeGz int

// verifRealisable: lengths that the native replay reproduces EXACTLY (verifRealiseSize): a plain
// form of 4 KiB..16 MiB whose gzip form lies between "nearly all zeros" and "half incompressible".
func verifRealisable(raw, gz int) bool {
	ok := verifAnd(raw >= 4096, raw <= verifSizeCap)
	ok = verifAnd(ok, gz >= raw/1000+1024)
	return verifAnd(ok, gz <= raw/2)
}

const verifBeyondReplay = " (lengths the replay cannot build exactly)"

// verifPrefer is intercepted by the engine (engine/sym/intr_C29b.go): if the path allows c, c is
// assumed and the result is true; else nothing is assumed and the result is false. No fork.
func verifPrefer(c bool) bool { return c }

// verifCheck is verifAssert. In the size entry a FAILING check first looks for a counterexample
// among the lengths the native replay builds exactly (same id); only when the failing path has
// none is the counterexample reported under a suffixed id - it is still reported, and replayed
// with the nearest payload the replay can build.
func verifCheck(id string, cond bool) {
	if verifSizeMode {
		if !cond {
			if !verifPrefer(verifRealisable(verifSizeRaw, verifSizeGz)) {
				// at least a payload that can be built, with the nearest gzip length
				verifPrefer(verifAnd(verifSizeRaw <= verifSizeCap, verifSizeGz <= 2*verifSizeCap))
				verifAssert(id+verifBeyondReplay, false)
			}
		}
	}
	verifAssert(id, cond)
}

func verifBounds() (maxStmts, maxSQL int) {
	if verifTier() == 1 {
		return 8, 64
	}
	return 3, 16
}

// verifText turns a solver-chosen string into valid UTF-8 of the same length for the native run
// (proto3 string fields must be UTF-8). The characters are pseudo-random printable ASCII so that
// the text itself hardly compresses; the symbolic run keeps the solver's string.
func verifText(s string, salt int) string {
	if verifSymbolic() {
		return s
	}
	out := make([]byte, len(s))
	x := uint32(2463534242) + uint32(salt)*7919
	for i := range out {
		x ^= x << 13
		x ^= x >> 17
		x ^= x << 5
		out[i] = byte(0x20 + x%95)
	}
	return string(out)
}

// verifSQL[i] is the text of statement i as handed to the marshaler (the oracle's own copy).
var verifSQL []string

func verifBuildRequest(n, maxSQL int) *proto.Request {
	verifSQL = nil
	return verifBuildRequestP("", n, maxSQL)
}

// verifBuildRequestP: the nondet names of the request carry prefix pre (two requests on one path).
func verifBuildRequestP(pre string, n, maxSQL int) *proto.Request {
	salt := 1000 * len(pre)
	req := &proto.Request{
		Transaction:     verifBool(pre + "transaction"),
		DbTimeout:       verifI64(pre + "dbTimeout"),
		RollbackOnError: verifBool(pre + "rollbackOnError"),
		QualifyColumns:  verifBool(pre + "qualifyColumns"),
	}
	for i := 0; i < n; i++ {
		sql := verifText(verifString(verifName(pre+"sql", i), maxSQL), salt+i)
		verifSQL = append(verifSQL, sql)
		st := &proto.Statement{
			Sql:        sql,
			ForceQuery: verifBool(verifName(pre+"forceQuery", i)),
			ForceStall: verifBool(verifName(pre+"forceStall", i)),
			SqlExplain: verifBool(verifName(pre+"sqlExplain", i)),
		}
		if i == 0 {
			// one parameter of every kind, values symbolic (the float stays concrete)
			st.Parameters = []*proto.Parameter{
				{Value: &proto.Parameter_I{I: verifI64(pre + "paramI")}, Name: verifText(verifString(pre+"paramName", 4), salt+100)},
				{Value: &proto.Parameter_D{D: -2.5}},
				{Value: &proto.Parameter_B{B: verifBool(pre + "paramB")}},
				{Value: &proto.Parameter_Y{Y: verifBytes(pre+"paramY", 2)}, Name: "blob"},
				{Value: &proto.Parameter_S{S: verifText(verifString(pre+"paramS", 4), salt+101)}},
				{Name: "novalue"},
			}
		}
		req.Statements = append(req.Statements, st)
	}
	return req
}

func verifBuildMessage(kind int, req *proto.Request) Requester {
	return verifBuildMessageP("", kind, req)
}

func verifBuildMessageP(pre string, kind int, req *proto.Request) Requester {
	switch kind {
	case verifKindExecute:
		return &proto.ExecuteRequest{Request: req, Timings: verifBool(pre + "timings")}
	case verifKindQuery:
		return &proto.QueryRequest{
			Request:             req,
			Timings:             verifBool(pre + "timings"),
			Level:               proto.ConsistencyLevel(int32(verifInt(pre+"level", 0, 4))),
			Freshness:           verifI64(pre + "freshness"),
			FreshnessStrict:     verifBool(pre + "freshnessStrict"),
			LinearizableTimeout: verifI64(pre + "linearizableTimeout"),
		}
	}
	return &proto.ExecuteQueryRequest{
		Request:             req,
		Timings:             verifBool(pre + "timings"),
		Level:               proto.ConsistencyLevel(int32(verifInt(pre+"level", 0, 4))),
		Freshness:           verifI64(pre + "freshness"),
		FreshnessStrict:     verifBool(pre + "freshnessStrict"),
		LinearizableTimeout: verifI64(pre + "linearizableTimeout"),
	}
}

func verifCommandType(kind int) proto.Command_Type {
	switch kind {
	case verifKindExecute:
		return proto.Command_COMMAND_TYPE_EXECUTE
	case verifKindQuery:
		return proto.Command_COMMAND_TYPE_QUERY
	}
	return proto.Command_COMMAND_TYPE_EXECUTE_QUERY
}

// verifFreshFor is the receiver's dispatch: the message type is chosen from Command.Type alone.
func verifFreshFor(t proto.Command_Type) pb.Message {
	switch t {
	case proto.Command_COMMAND_TYPE_EXECUTE:
		return &proto.ExecuteRequest{}
	case proto.Command_COMMAND_TYPE_QUERY:
		return &proto.QueryRequest{}
	case proto.Command_COMMAND_TYPE_EXECUTE_QUERY:
		return &proto.ExecuteQueryRequest{}
	}
	return nil
}

// ---------------------------------------------------------------------------
// copies and comparison (hand written: no reflection, so the engine can run them)

func verifCloneBytes(b []byte) []byte {
	if b == nil {
		return nil
	}
	return append([]byte{}, b...)
}

func verifCloneParam(p *proto.Parameter) *proto.Parameter {
	if p == nil {
		return nil
	}
	out := &proto.Parameter{Name: p.Name}
	switch v := p.Value.(type) {
	case *proto.Parameter_I:
		out.Value = &proto.Parameter_I{I: v.I}
	case *proto.Parameter_D:
		out.Value = &proto.Parameter_D{D: v.D}
	case *proto.Parameter_B:
		out.Value = &proto.Parameter_B{B: v.B}
	case *proto.Parameter_Y:
		out.Value = &proto.Parameter_Y{Y: verifCloneBytes(v.Y)}
	case *proto.Parameter_S:
		out.Value = &proto.Parameter_S{S: v.S}
	}
	return out
}

func verifCloneRequest(r *proto.Request) *proto.Request {
	if r == nil {
		return nil
	}
	out := &proto.Request{Transaction: r.Transaction, DbTimeout: r.DbTimeout, RollbackOnError: r.RollbackOnError, QualifyColumns: r.QualifyColumns}
	for _, s := range r.Statements {
		c := &proto.Statement{Sql: s.Sql, ForceQuery: s.ForceQuery, ForceStall: s.ForceStall, SqlExplain: s.SqlExplain}
		for _, p := range s.Parameters {
			c.Parameters = append(c.Parameters, verifCloneParam(p))
		}
		out.Statements = append(out.Statements, c)
	}
	return out
}

// verifClone copies every message type the harness sends; nil for other types.
func verifClone(m pb.Message) pb.Message {
	switch x := m.(type) {
	case *proto.ExecuteRequest:
		return &proto.ExecuteRequest{Request: verifCloneRequest(x.Request), Timings: x.Timings}
	case *proto.QueryRequest:
		return &proto.QueryRequest{Request: verifCloneRequest(x.Request), Timings: x.Timings, Level: x.Level,
			Freshness: x.Freshness, FreshnessStrict: x.FreshnessStrict, LinearizableTimeout: x.LinearizableTimeout}
	case *proto.ExecuteQueryRequest:
		return &proto.ExecuteQueryRequest{Request: verifCloneRequest(x.Request), Timings: x.Timings, Level: x.Level,
			Freshness: x.Freshness, FreshnessStrict: x.FreshnessStrict, LinearizableTimeout: x.LinearizableTimeout}
	case *proto.Command:
		return &proto.Command{Type: x.Type, SubCommand: verifCloneBytes(x.SubCommand), Compressed: x.Compressed}
	case *proto.LoadRequest:
		return &proto.LoadRequest{Data: verifCloneBytes(x.Data)}
	case *proto.LoadChunkRequest:
		return &proto.LoadChunkRequest{StreamId: x.StreamId, SequenceNum: x.SequenceNum, IsLast: x.IsLast, Data: verifCloneBytes(x.Data), Abort: x.Abort}
	case *proto.Noop:
		return &proto.Noop{Id: x.Id}
	case *proto.AppendEntriesExtension:
		return &proto.AppendEntriesExtension{CdcHWM: x.CdcHWM}
	}
	return nil
}

// verifSameBytes: equal content (nil and empty are the same payload); straight-line per byte.
func verifSameBytes(a, b []byte) bool {
	if len(a) != len(b) {
		return false
	}
	same := true
	for i := range a {
		same = verifAnd(same, a[i] == b[i])
	}
	return same
}

func verifSameParam(a, b *proto.Parameter) bool {
	same := a.GetName() == b.GetName()
	switch x := a.GetValue().(type) {
	case nil:
		return verifAnd(same, b.GetValue() == nil)
	case *proto.Parameter_I:
		y, ok := b.GetValue().(*proto.Parameter_I)
		if !ok {
			return false
		}
		return verifAnd(same, x.I == y.I)
	case *proto.Parameter_D:
		y, ok := b.GetValue().(*proto.Parameter_D)
		if !ok {
			return false
		}
		return verifAnd(same, x.D == y.D)
	case *proto.Parameter_B:
		y, ok := b.GetValue().(*proto.Parameter_B)
		if !ok {
			return false
		}
		return verifAnd(same, x.B == y.B)
	case *proto.Parameter_Y:
		y, ok := b.GetValue().(*proto.Parameter_Y)
		if !ok {
			return false
		}
		return verifAnd(same, verifSameBytes(x.Y, y.Y))
	case *proto.Parameter_S:
		y, ok := b.GetValue().(*proto.Parameter_S)
		if !ok {
			return false
		}
		return verifAnd(same, x.S == y.S)
	}
	return false
}

func verifSameRequest(a, b *proto.Request) bool {
	if (a == nil) != (b == nil) {
		return false
	}
	if a == nil {
		return true
	}
	if len(a.Statements) != len(b.Statements) {
		return false
	}
	same := verifAnd(a.Transaction == b.Transaction, a.DbTimeout == b.DbTimeout)
	same = verifAnd(same, a.RollbackOnError == b.RollbackOnError)
	same = verifAnd(same, a.QualifyColumns == b.QualifyColumns)
	for i, s := range a.Statements {
		t := b.Statements[i]
		if (s == nil) != (t == nil) {
			return false
		}
		if s == nil {
			continue
		}
		same = verifAnd(same, s.Sql == t.Sql)
		same = verifAnd(same, s.ForceQuery == t.ForceQuery)
		same = verifAnd(same, s.ForceStall == t.ForceStall)
		same = verifAnd(same, s.SqlExplain == t.SqlExplain)
		if len(s.Parameters) != len(t.Parameters) {
			return false
		}
		for j := range s.Parameters {
			same = verifAnd(same, verifSameParam(s.Parameters[j], t.Parameters[j]))
		}
	}
	return same
}

// verifSame: a and b are the same type of message with the same content.
func verifSame(a, b pb.Message) bool {
	switch x := a.(type) {
	case *proto.ExecuteRequest:
		y, ok := b.(*proto.ExecuteRequest)
		if !ok || y == nil {
			return false
		}
		return verifAnd(verifSameRequest(x.Request, y.Request), x.Timings == y.Timings)
	case *proto.QueryRequest:
		y, ok := b.(*proto.QueryRequest)
		if !ok || y == nil {
			return false
		}
		same := verifAnd(verifSameRequest(x.Request, y.Request), x.Timings == y.Timings)
		same = verifAnd(same, x.Level == y.Level)
		same = verifAnd(same, x.Freshness == y.Freshness)
		same = verifAnd(same, x.FreshnessStrict == y.FreshnessStrict)
		return verifAnd(same, x.LinearizableTimeout == y.LinearizableTimeout)
	case *proto.ExecuteQueryRequest:
		y, ok := b.(*proto.ExecuteQueryRequest)
		if !ok || y == nil {
			return false
		}
		same := verifAnd(verifSameRequest(x.Request, y.Request), x.Timings == y.Timings)
		same = verifAnd(same, x.Level == y.Level)
		same = verifAnd(same, x.Freshness == y.Freshness)
		same = verifAnd(same, x.FreshnessStrict == y.FreshnessStrict)
		return verifAnd(same, x.LinearizableTimeout == y.LinearizableTimeout)
	case *proto.Command:
		y, ok := b.(*proto.Command)
		if !ok || y == nil {
			return false
		}
		return verifAnd(verifAnd(x.Type == y.Type, x.Compressed == y.Compressed), verifSameBytes(x.SubCommand, y.SubCommand))
	case *proto.LoadRequest:
		y, ok := b.(*proto.LoadRequest)
		if !ok || y == nil {
			return false
		}
		return verifSameBytes(x.Data, y.Data)
	case *proto.LoadChunkRequest:
		y, ok := b.(*proto.LoadChunkRequest)
		if !ok || y == nil {
			return false
		}
		same := verifAnd(x.StreamId == y.StreamId, x.SequenceNum == y.SequenceNum)
		same = verifAnd(same, x.IsLast == y.IsLast)
		same = verifAnd(same, x.Abort == y.Abort)
		return verifAnd(same, verifSameBytes(x.Data, y.Data))
	case *proto.Noop:
		y, ok := b.(*proto.Noop)
		if !ok || y == nil {
			return false
		}
		return x.Id == y.Id
	case *proto.AppendEntriesExtension:
		y, ok := b.(*proto.AppendEntriesExtension)
		if !ok || y == nil {
			return false
		}
		return x.CdcHWM == y.CdcHWM
	}
	return false
}

// verifIdentical is the oracle "decodes to an identical request": the hand-written comparison,
// and natively also protobuf's own notion of equality.
func verifIdentical(want, got pb.Message) bool {
	if !verifSymbolic() {
		if !pb.Equal(want, got) {
			return false
		}
	}
	return verifSame(want, got)
}

// ---------------------------------------------------------------------------
// the observer's own codec (what any node can do with a payload)

// verifGunzip: the gzip content of b, or an error if b is not one complete gzip stream.
func verifGunzip(b []byte) ([]byte, error) {
	zr, err := gzip.NewReader(bytes.NewReader(b))
	if err != nil {
		return nil, err
	}
	out, err := io.ReadAll(zr)
	if err != nil {
		return nil, err
	}
	if err := zr.Close(); err != nil {
		return nil, err
	}
	return out, nil
}

// verifGzip: the gzip form of b as any sender would produce it.
func verifGzip(b []byte) []byte {
	var buf bytes.Buffer
	zw, err := gzip.NewWriterLevel(&buf, gzip.DefaultCompression)
	if err != nil {
		panic(err)
	}
	if _, err := zw.Write(b); err != nil {
		panic(err)
	}
	if err := zw.Close(); err != nil {
		panic(err)
	}
	return buf.Bytes()
}

// verifLen: the number of bytes of an encoded form (the abstract length in the symbolic run).
func verifLen(b []byte) int {
	if verifSymbolic() {
		if e := verifEntryOf(b); e != nil {
			return e.n
		}
	}
	return len(b)
}

// verifSent: what arrives on another node (no sharing of memory with the sender).
func verifSent(b []byte) []byte { return append([]byte{}, b...) }

// ---------------------------------------------------------------------------
// native only: make the real codecs produce the length relation the solver chose

func verifPad(a, z int) []byte {
	out := make([]byte, a+z)
	x := uint32(88172645)
	for i := 0; i < a; i++ {
		x ^= x << 13
		x ^= x >> 17
		x ^= x << 5
		out[i] = byte(x >> 11)
	}
	return out
}

func verifRealDiff(m pb.Message) (int, bool) {
	raw, err := pb.Marshal(m)
	if err != nil {
		return 0, false
	}
	return len(verifGzip(raw)) - len(raw), true
}

// verifTune appends a blob parameter (a incompressible bytes followed by z zero bytes) to the first
// statement so that len(gzip(encoding)) - len(encoding) lies in [lo, hi]. false: not achievable.
func verifTune(m pb.Message, req *proto.Request, lo, hi int) bool {
	if d, ok := verifRealDiff(m); ok && d >= lo && d <= hi {
		return true
	}
	if len(req.Statements) == 0 {
		return false
	}
	st := req.Statements[0]
	p := &proto.Parameter_Y{}
	st.Parameters = append(st.Parameters, &proto.Parameter{Value: p, Name: "pad"})
	for a := 0; a <= 160; a += 8 {
		for z := 0; z <= 700; z++ {
			p.Y = verifPad(a, z)
			d, ok := verifRealDiff(m)
			if ok && d >= lo && d <= hi {
				return true
			}
			if ok && d < lo-8 {
				break // more zeros only make the gzip form relatively smaller
			}
		}
	}
	return false
}

// verifRealise (native replay): shape the request so that the real gzip form relates to the real
// plain encoding as gzLen relates to rawLen in the solver's model.
func verifRealise(m pb.Message, req *proto.Request, rawLen, gzLen int) {
	if verifSymbolic() {
		return
	}
	d := gzLen - rawLen
	lo, hi := d, d
	if d > verifWindow {
		lo, hi = verifWindow+1, 1<<30
	}
	if d < -verifWindow {
		lo, hi = -(1 << 30), -verifWindow-1
	}
	verifAssume(verifTune(m, req, lo, hi))
}

// verifSetPad (native replay): the first statement carries, as its last parameter, a blob "pad".
func verifSetPad(req *proto.Request, pad []byte) {
	st := req.Statements[0]
	if k := len(st.Parameters); k > 0 && st.Parameters[k-1].Name == "pad" {
		st.Parameters[k-1].Value = &proto.Parameter_Y{Y: pad}
		return
	}
	st.Parameters = append(st.Parameters, &proto.Parameter{Value: &proto.Parameter_Y{Y: pad}, Name: "pad"})
}

// verifRealiseSize (native replay of the size entry): give the message a blob - a incompressible
// bytes followed by zeros - such that the real plain encoding has EXACTLY rawLen bytes and the real
// gzip form gzLen bytes (or, when no blob does that, the nearest length). Lengths below 4 KiB are
// handled as in the other entries (verifRealise, requests only); payloads above verifSizeCap are
// not built.
func verifRealiseSize(m pb.Message, req *proto.Request, setPad func([]byte), rawLen, gzLen int) {
	if verifSymbolic() {
		return
	}
	if rawLen < 4096 {
		if req != nil {
			verifRealise(m, req, rawLen, gzLen)
		}
		return
	}
	verifAssume(rawLen <= verifSizeCap)
	// the blob length that makes the plain encoding rawLen bytes long
	setPad([]byte{})
	l := rawLen - pb.Size(m)
	verifAssume(l >= 0)
	for i := 0; i < 8; i++ {
		setPad(make([]byte, l))
		d := pb.Size(m) - rawLen
		if d == 0 {
			break
		}
		l -= d
		verifAssume(l >= 0)
	}
	setPad(make([]byte, l))
	verifAssume(pb.Size(m) == rawLen)
	// the number a of incompressible bytes (and h of bytes that carry half a byte of information
	// each) that makes the gzip form gzLen bytes long
	real := func(a, h int) int {
		setPad(verifPad2(a, h, l))
		raw, err := pb.Marshal(m)
		if err != nil {
			panic(err)
		}
		return len(verifGzip(raw))
	}
	a, h := 0, 0
	g := real(0, 0)
	bestA, bestH, bestD := 0, 0, verifAbs(g-gzLen)
	note := func(a, h, g int) {
		if d := verifAbs(g - gzLen); d < bestD {
			bestA, bestH, bestD = a, h, d
		}
	}
	for i := 0; i < 16 && g != gzLen; i++ {
		next := a + gzLen - g
		if next < 0 {
			next = 0
		}
		if next > l {
			next = l
		}
		if next == a {
			break
		}
		a = next
		g = real(a, 0)
		note(a, 0, g)
	}
	centre := bestA
	for d := 0; d <= 12 && bestD != 0; d++ {
		cands := []int{centre - d, centre + d}
		if d == 0 {
			cands = cands[:1]
		}
		for _, c := range cands {
			for h = 0; h <= 3 && bestD != 0; h++ {
				if c < 0 || c+h > l || (d == 0 && h == 0) {
					continue
				}
				note(c, h, real(c, h))
			}
		}
	}
	setPad(verifPad2(bestA, bestH, l))
}

func verifAbs(x int) int {
	if x < 0 {
		return -x
	}
	return x
}

// verifPad2: l bytes - a incompressible ones, h that take one of 16 values, zeros.
func verifPad2(a, h, l int) []byte {
	out := verifPad(a+h, l-a-h)
	for i := a; i < a+h; i++ {
		out[i] &= 0x0f
	}
	return out
}

// ---------------------------------------------------------------------------
// entries

type verifOutcome29 struct {
	payload    []byte
	compressed bool
	plain      []byte // the plain encoding found in the payload
	isGz       bool
	exceeded   bool
	force      bool
	byBatch    bool
	bySize     bool
}

// verifSendRequest builds a request of any kind, runs the real marshaler with any thresholds and
// checks everything that can be said about its result. It returns the original (a private copy).
func verifSendRequest(kind, n int) (pb.Message, *verifOutcome29) {
	_, maxSQL := verifBounds()
	batchThr := int(verifI64("batchThreshold"))
	sizeThr := int(verifI64("sizeThreshold"))
	force := verifBool("forceCompression")
	maxRaw, maxGz := verifSmallRaw, verifSmallGz
	if verifSizeMode {
		maxRaw, maxGz = verifAnyLen, verifAnyLen
	}
	rawLen := verifInt("rawLen", 0, maxRaw)
	gzLen := verifInt("gzLen", verifGzMin, maxGz) // RFC 1952: 10 bytes of header, 8 bytes of trailer
	verifAssume(verifDeflate(rawLen, gzLen))
	if n == 0 {
		// a request without statements has nothing the native replay could pad: only "gzip is larger"
		verifAssume(gzLen > rawLen+verifWindow)
	}
	req := verifBuildRequest(n, maxSQL)
	msg := verifBuildMessage(kind, req)
	if verifSizeMode {
		verifSizeRaw, verifSizeGz = rawLen, gzLen
		verifRealiseSize(msg, req, func(pad []byte) { verifSetPad(req, pad) }, rawLen, gzLen)
	} else {
		verifRealise(msg, req, rawLen, gzLen)
	}
	verifPlanLens(rawLen, gzLen)
	orig := verifClone(msg)

	m := &RequestMarshaler{BatchThreshold: batchThr, SizeThreshold: sizeThr, ForceCompression: force}
	b, compressed, err := m.Marshal(msg)
	verifCheck("C29-request-marshals", err == nil)
	verifCheck("C29-marshal-leaves-request-alone", verifIdentical(orig, msg))

	// what the thresholds say (documentation: -compression-batch / -compression-size are the
	// request sizes from which compression is attempted)
	byBatch := n >= batchThr
	bySize := false
	for i := 0; i < n; i++ {
		bySize = verifOr(bySize, len(verifSQL[i]) >= sizeThr)
	}
	exceeded := verifOr(byBatch, bySize)

	out := &verifOutcome29{payload: b, compressed: compressed, exceeded: exceeded, force: force, byBatch: byBatch, bySize: bySize}
	plain, gzErr := verifGunzip(b)
	out.isGz = gzErr == nil
	// the flag in the command must say exactly whether the payload is the gzip form
	verifCheck("C29-compressed-flag-matches-payload", compressed == out.isGz)
	if !out.isGz {
		plain = b
	}
	out.plain = plain
	direct := verifFreshFor(verifCommandType(kind))
	verifCheck("C29-payload-holds-the-request-encoding", pb.Unmarshal(plain, direct) == nil)
	verifCheck("C29-payload-holds-the-request", verifIdentical(orig, direct))

	// compression is used only from the thresholds on (or when forced) ...
	verifCheck("C29-compressed-only-from-threshold-or-forced", verifOr(!compressed, verifOr(exceeded, force)))
	// ... and only when it makes the entry smaller (or when forced)
	if compressed {
		verifCheck("C29-compressed-only-if-smaller-or-forced", verifOr(verifLen(b) < verifLen(plain), force))
	}
	return orig, out
}

// verifThroughLog wraps the payload as the store does, ships it, and decodes it as the applying
// side does. It returns the decoded message.
func verifThroughLog(t proto.Command_Type, payload []byte, compressed bool) pb.Message {
	cmd := &proto.Command{Type: t, SubCommand: payload, Compressed: compressed}
	wire, err := Marshal(cmd)
	verifCheck("C29-command-marshals", err == nil)

	got := &proto.Command{}
	err = Unmarshal(verifSent(wire), got)
	verifCheck("C29-command-unmarshals", err == nil)
	verifCheck("C29-command-type-survives", got.Type == t)
	verifCheck("C29-command-flag-survives", got.Compressed == compressed)
	verifCheck("C29-command-payload-survives", verifSameBytes(got.SubCommand, payload))

	dec := verifFreshFor(got.Type)
	verifCheck("C29-dispatch-knows-type", dec != nil)
	err = UnmarshalSubCommand(got, dec)
	verifCheck("C29-subcommand-decodes", err == nil)
	return dec
}

// VerifC29Request: every kind of request, 0..N statements, any thresholds, forced or not, any
// relation between the length of the gzip form and the plain form; sender and receiver.
func VerifC29Request() {
	verifPanicsAreViolations()
	maxStmts, _ := verifBounds()
	kind := verifChoice("kind", verifKinds)
	n := verifChoice("nStmts", maxStmts+1)
	orig, out := verifSendRequest(kind, n)
	dec := verifThroughLog(verifCommandType(kind), out.payload, out.compressed)
	verifAssert("C29-decoded-request-identical", verifIdentical(orig, dec))

	// vacuity markers (forks at the very end of the path only)
	smaller := verifLen(out.payload) < verifLen(out.plain)
	if out.compressed {
		if smaller {
			verifReach("compressed-and-smaller")
		} else {
			verifReach("forced-although-not-smaller")
		}
		if out.byBatch {
			verifReach("batch-threshold-reached")
		}
		if out.bySize {
			verifReach("size-threshold-reached")
		}
	} else {
		if out.exceeded {
			verifReach("tried-but-kept-plain")
		} else {
			verifReach("below-thresholds")
		}
	}
}

// VerifC29Load: a load request (database image) through MarshalLoadRequest, the log and
// UnmarshalLoadRequest.
func VerifC29Load() {
	verifPanicsAreViolations()
	max := 3
	if verifTier() == 1 {
		max = 8
	}
	n := verifChoice("len", max+1)
	lr := &proto.LoadRequest{Data: verifBytes("data", n)}
	orig := verifClone(lr)

	b, err := MarshalLoadRequest(lr)
	verifAssert("C29-load-marshals", err == nil)
	cmd := &proto.Command{Type: proto.Command_COMMAND_TYPE_LOAD, SubCommand: b}
	wire, err := Marshal(cmd)
	verifAssert("C29-command-marshals", err == nil)

	got := &proto.Command{}
	verifAssert("C29-command-unmarshals", Unmarshal(verifSent(wire), got) == nil)
	verifAssert("C29-command-type-survives", got.Type == proto.Command_COMMAND_TYPE_LOAD)
	var dec proto.LoadRequest
	err = UnmarshalLoadRequest(got.SubCommand, &dec)
	verifAssert("C29-load-decodes", err == nil)
	verifAssert("C29-decoded-load-identical", verifIdentical(orig, &dec))
	if n == 0 {
		verifReach("empty-image")
	} else {
		verifReach("image")
	}
}

// VerifC29Plain: the command types that are never compressed.
func VerifC29Plain() {
	verifPanicsAreViolations()
	switch verifChoice("what", 3) {
	case 0:
		m := &proto.Noop{Id: verifText(verifString("id", 8), 7)}
		orig := verifClone(m)
		b, err := MarshalNoop(m)
		verifAssert("C29-noop-marshals", err == nil)
		wire, err := Marshal(&proto.Command{Type: proto.Command_COMMAND_TYPE_NOOP, SubCommand: b})
		verifAssert("C29-command-marshals", err == nil)
		got := &proto.Command{}
		verifAssert("C29-command-unmarshals", Unmarshal(verifSent(wire), got) == nil)
		verifAssert("C29-command-type-survives", got.Type == proto.Command_COMMAND_TYPE_NOOP)
		var dec proto.Noop
		verifAssert("C29-noop-decodes", UnmarshalNoop(got.SubCommand, &dec) == nil)
		verifAssert("C29-decoded-noop-identical", verifIdentical(orig, &dec))
		verifReach("noop")
	case 1:
		m := &proto.LoadChunkRequest{
			StreamId:    verifText(verifString("streamId", 8), 8),
			SequenceNum: verifI64("sequenceNum"),
			IsLast:      verifBool("isLast"),
			Data:        verifBytes("chunk", verifChoice("chunkLen", 3)),
			Abort:       verifBool("abort"),
		}
		orig := verifClone(m)
		b, err := MarshalLoadChunkRequest(m)
		verifAssert("C29-chunk-marshals", err == nil)
		wire, err := Marshal(&proto.Command{Type: proto.Command_COMMAND_TYPE_LOAD_CHUNK, SubCommand: b})
		verifAssert("C29-command-marshals", err == nil)
		got := &proto.Command{}
		verifAssert("C29-command-unmarshals", Unmarshal(verifSent(wire), got) == nil)
		verifAssert("C29-command-type-survives", got.Type == proto.Command_COMMAND_TYPE_LOAD_CHUNK)
		var dec proto.LoadChunkRequest
		verifAssert("C29-chunk-decodes", UnmarshalLoadChunkRequest(got.SubCommand, &dec) == nil)
		verifAssert("C29-decoded-chunk-identical", verifIdentical(orig, &dec))
		verifReach("load-chunk")
	case 2:
		m := &proto.AppendEntriesExtension{CdcHWM: verifU64("cdcHWM")}
		orig := verifClone(m)
		b, err := MarshalAppendEntriesExtension(m)
		verifAssert("C29-extension-marshals", err == nil)
		var dec proto.AppendEntriesExtension
		verifAssert("C29-extension-decodes", UnmarshalAppendEntriesExtension(verifSent(b), &dec) == nil)
		verifAssert("C29-decoded-extension-identical", verifIdentical(orig, &dec))
		verifReach("append-entries-extension")
	}
}

// VerifC29Decode: the applying side alone, given ANY combination of Compressed flag and payload
// form. A payload whose form matches the flag decodes to the request; any other combination is
// refused - it never decodes to a different request.
func VerifC29Decode() {
	verifPanicsAreViolations()
	kind := verifChoice("kind", verifKinds)
	req := verifBuildRequest(1, 8)
	msg := verifBuildMessage(kind, req)
	orig := verifClone(msg)
	plain, err := pb.Marshal(msg)
	verifAssume(err == nil)
	gz := verifGzip(plain)

	var payload []byte
	form := verifChoice("form", 4)
	switch form {
	case 0:
		payload = plain
	case 1:
		payload = gz
	case 2: // the gzip form cut short
		payload = gz[:len(gz)-1]
	case 3: // gzip applied twice
		payload = verifGzip(gz)
	}
	flag := verifBool("compressedFlag")
	cmd := &proto.Command{Type: verifCommandType(kind), SubCommand: verifSent(payload), Compressed: flag}
	dec := verifFreshFor(cmd.Type)
	err = UnmarshalSubCommand(cmd, dec)
	if (form == 0 && !flag) || (form == 1 && flag) {
		verifAssert("C29-matching-form-decodes", err == nil)
		verifAssert("C29-decoded-request-identical", verifIdentical(orig, dec))
		if flag {
			verifReach("decoded-compressed")
		} else {
			verifReach("decoded-plain")
		}
		return
	}
	verifAssert("C29-mismatching-form-refused", err != nil)
	switch form {
	case 0:
		verifReach("plain-flagged-compressed")
	case 1:
		verifReach("gzip-not-flagged")
	case 2:
		verifReach("cut-gzip")
	}
}

// ---------------------------------------------------------------------------
// an encoding stays valid while later encodings are produced

// verifKept is one encoding whose bytes a caller still holds (exactly the slice it was given).
type verifKept struct {
	orig       pb.Message
	t          proto.Command_Type
	payload    []byte
	compressed bool
}

// verifPending is a message that is ready to be encoded (built, and natively shaped, beforehand so
// that nothing else happens between two encodings).
type verifPending struct {
	msg  pb.Message // *proto.LoadRequest or a Requester
	m    *RequestMarshaler
	kind int
}

// verifPrepareRequest: a request of the given kind for marshaler m; it will be compressed (the
// batch threshold is reached; kept because forced, or because the gzip form is smaller).
func verifPrepareRequest(pre string, m *RequestMarshaler, kind int) *verifPending {
	req := verifBuildRequestP(pre, 1, 8)
	msg := verifBuildMessageP(pre, kind, req)
	if !m.ForceCompression && !verifSymbolic() {
		verifAssume(verifTune(msg, req, -(1 << 30), -1)) // natively: content that really compresses
	}
	return &verifPending{msg: msg, m: m, kind: kind}
}

func verifPrepareLoad(pre string) *verifPending {
	return &verifPending{msg: &proto.LoadRequest{Data: verifBytes(pre+"data", 2)}}
}

// verifEncode runs the real encoder and keeps exactly the slice it returns.
func verifEncode(p *verifPending) *verifKept {
	if lr, ok := p.msg.(*proto.LoadRequest); ok {
		k := &verifKept{orig: verifClone(lr), t: proto.Command_COMMAND_TYPE_LOAD}
		b, err := MarshalLoadRequest(lr)
		verifAssert("C29-load-marshals", err == nil)
		k.payload = b
		return k
	}
	k := &verifKept{orig: verifClone(p.msg), t: verifCommandType(p.kind)}
	b, compressed, err := p.m.Marshal(p.msg.(Requester))
	verifAssert("C29-request-marshals", err == nil)
	verifAssume(compressed)
	k.payload, k.compressed = b, compressed
	return k
}

// verifStillDecodes: the held bytes, wrapped and shipped now, decode to the request they were
// made from. One verdict (natively a clobbered gzip stream usually fails to decode at all, in the
// model it decodes to the other request).
func verifStillDecodes(k *verifKept) bool {
	wire, err := Marshal(&proto.Command{Type: k.t, SubCommand: k.payload, Compressed: k.compressed})
	if err != nil {
		return false
	}
	got := &proto.Command{}
	if Unmarshal(verifSent(wire), got) != nil || got.Type != k.t {
		return false
	}
	if k.t == proto.Command_COMMAND_TYPE_LOAD {
		var dec proto.LoadRequest
		if UnmarshalLoadRequest(got.SubCommand, &dec) != nil {
			return false
		}
		return verifIdentical(k.orig, &dec)
	}
	dec := verifFreshFor(got.Type)
	if UnmarshalSubCommand(got, dec) != nil {
		return false
	}
	return verifIdentical(k.orig, dec)
}

// VerifC29Kept: encoding A is produced and its bytes are kept; then encoding B is produced (same
// marshaler, a second marshaler, or a load request; both orders); A's bytes must still decode to
// A, and B's to B. A third encoding follows in the thorough tier.
func VerifC29Kept() {
	verifPanicsAreViolations()
	m1 := &RequestMarshaler{BatchThreshold: 0, SizeThreshold: 1 << 30, ForceCompression: verifChoice("force1", 2) == 1}
	m2 := &RequestMarshaler{BatchThreshold: 1, SizeThreshold: 1 << 30, ForceCompression: !m1.ForceCompression}
	if verifTier() == 1 {
		m2.ForceCompression = verifChoice("force2", 2) == 1
	}
	scenario := verifChoice("scenario", 5)
	kindA := scenario % verifKinds
	if verifTier() == 1 {
		kindA = verifChoice("kindA", verifKinds)
	}
	kindB := (kindA + verifChoice("kindBOffset", 2)) % verifKinds
	var pa, pb2 *verifPending
	switch scenario {
	case 0:
		pa, pb2 = verifPrepareRequest("a.", m1, kindA), verifPrepareRequest("b.", m1, kindB)
		verifReach("same-marshaler")
	case 1:
		pa, pb2 = verifPrepareRequest("a.", m1, kindA), verifPrepareRequest("b.", m2, kindB)
		verifReach("two-marshalers")
	case 2:
		pa, pb2 = verifPrepareRequest("a.", m1, kindA), verifPrepareLoad("b.")
		verifReach("request-then-load")
	case 3:
		pa, pb2 = verifPrepareLoad("a."), verifPrepareRequest("b.", m1, kindB)
		verifReach("load-then-request")
	case 4:
		pa, pb2 = verifPrepareLoad("a."), verifPrepareLoad("b.")
		verifReach("two-loads")
	}
	var pc *verifPending
	if verifTier() == 1 {
		pc = verifPrepareRequest("c.", m2, kindA)
	}
	if !verifSymbolic() {
		// the real sync.Pool forgets its content after two garbage collections; keep the collector
		// out of the few steps below so that the replay is deterministic
		defer debug.SetGCPercent(debug.SetGCPercent(-1))
	}
	a := verifEncode(pa)
	b := verifEncode(pb2)
	var c *verifKept
	if pc != nil {
		c = verifEncode(pc)
	}
	verifAssert("C29-kept-encoding-still-decodes-to-its-request", verifStillDecodes(a))
	verifAssert("C29-later-encoding-decodes-to-its-request", verifStillDecodes(b))
	if c != nil {
		verifAssert("C29-later-encoding-decodes-to-its-request", verifStillDecodes(c))
	}
	// and once more: decoding must not have disturbed anything either
	verifAssert("C29-kept-encoding-still-decodes-to-its-request", verifStillDecodes(a))
}

// VerifC29Size: SIZE decided abstractly. A request of every kind with 1..N statements (or a load
// request), any thresholds, forced or not; its plain encoding has ANY length, its gzip form any
// length that DEFLATE allows for it (verifDeflate) - in particular payloads that shrink a thousand
// times. Sender, log, receiver; the receiver's gzip reader hands the content over in one piece or
// in two pieces of any size. Oracle of the statement: the decoded request is identical.
func VerifC29Size() {
	verifPanicsAreViolations()
	maxStmts, _ := verifBounds()
	verifSizeMode = true
	what := verifChoice("what", verifKinds+1)
	if what == verifKinds {
		verifSizeLoad()
		return
	}
	if verifTier() == 0 {
		maxStmts = 2 // VerifC29Request goes to 3
	}
	n := 1 + verifChoice("nStmts", maxStmts)
	orig, out := verifSendRequest(what, n)
	verifChunkBudget = 1
	dec := verifThroughLog(verifCommandType(what), out.payload, out.compressed)
	verifCheck("C29-decoded-request-identical", verifIdentical(orig, dec))

	// vacuity markers (forks at the very end of the path only)
	if out.compressed {
		if verifSizeRaw > 1000*verifSizeGz {
			verifReach("compressed-more-than-1000-times")
		} else if verifSizeRaw > verifSizeGz {
			verifReach("compressed-and-smaller")
		} else {
			verifReach("forced-although-not-smaller")
		}
		if verifChunkBudget == 0 && verifChunkSplit {
			verifReach("content-delivered-in-two-pieces")
		}
	} else {
		if out.exceeded {
			verifReach("tried-but-kept-plain")
		} else {
			verifReach("below-thresholds")
		}
	}
}

// verifSizeLoad: a load request (database image) of any size; load requests are always compressed.
func verifSizeLoad() {
	rawLen := verifInt("rawLen", 0, verifAnyLen)
	gzLen := verifInt("gzLen", verifGzMin, verifAnyLen)
	verifAssume(verifDeflate(rawLen, gzLen))
	verifSizeRaw, verifSizeGz = rawLen, gzLen
	head := verifBytes("data", 2)
	lr := &proto.LoadRequest{Data: head}
	verifRealiseSize(lr, nil, func(pad []byte) { lr.Data = append(verifCloneBytes(head), pad...) }, rawLen, gzLen)
	verifPlanLens(rawLen, gzLen)
	orig := verifClone(lr)

	b, err := MarshalLoadRequest(lr)
	verifCheck("C29-load-marshals", err == nil)
	verifCheck("C29-marshal-leaves-request-alone", verifIdentical(orig, lr))
	plain, gzErr := verifGunzip(b)
	verifCheck("C29-load-payload-is-gzip", gzErr == nil)
	var direct proto.LoadRequest
	verifCheck("C29-payload-holds-the-request-encoding", pb.Unmarshal(plain, &direct) == nil)
	verifCheck("C29-payload-holds-the-request", verifIdentical(orig, &direct))

	wire, err := Marshal(&proto.Command{Type: proto.Command_COMMAND_TYPE_LOAD, SubCommand: b})
	verifCheck("C29-command-marshals", err == nil)
	got := &proto.Command{}
	verifCheck("C29-command-unmarshals", Unmarshal(verifSent(wire), got) == nil)
	verifCheck("C29-command-type-survives", got.Type == proto.Command_COMMAND_TYPE_LOAD)
	verifCheck("C29-command-payload-survives", verifSameBytes(got.SubCommand, b))
	verifChunkBudget = 1
	var dec proto.LoadRequest
	err = UnmarshalLoadRequest(got.SubCommand, &dec)
	verifCheck("C29-load-decodes", err == nil)
	verifCheck("C29-decoded-load-identical", verifIdentical(orig, &dec))
	if rawLen > 1000*gzLen {
		verifReach("image-compressed-more-than-1000-times")
	} else {
		verifReach("image")
	}
}

// VerifC29Twin: same set-up as VerifC29Request; the final claim is false (compression does happen).
func VerifC29Twin() {
	maxStmts, _ := verifBounds()
	kind := verifChoice("kind", verifKinds)
	n := verifChoice("nStmts", maxStmts+1)
	orig, out := verifSendRequest(kind, n)
	dec := verifThroughLog(verifCommandType(kind), out.payload, out.compressed)
	verifAssert("C29-decoded-request-identical", verifIdentical(orig, dec))
	verifAssert("C29-twin-never-compressed", !out.compressed)
}

// ---------------------------------------------------------------------------
// codec algebra: the models that replace protobuf and gzip in the symbolic run (spec "models").
// None of this runs natively.

const (
	verifMagic0  = 0xF5
	verifMagic1  = 0xC9
	verifTagGz   = 0x7A
	verifTagFrag = 0x66
	verifGzEnd   = 0xE0
	verifTokLen  = 4
)

// verifEnc is one encoded form: a message (tag 1..8 + snapshot) or a gzip stream (verifTagGz).
type verifEnc struct {
	tag byte
	msg pb.Message
	n   int // abstract length in bytes
	// fragments (verifTagFrag): bytes [from, from+n) of encoded form number src
	src  int
	from int
}

var verifEncs []*verifEnc
var verifPlanned bool
var verifPlanRaw, verifPlanGz int

var verifErrCodec = errors.New("verif: cannot parse")

// verifPlanLens: the lengths the entry has chosen for the request's plain and gzip forms.
func verifPlanLens(raw, gz int) {
	verifPlanned, verifPlanRaw, verifPlanGz = true, raw, gz
}

// verifIsPlanned: the message types whose lengths the entry plans (requests and load requests).
func verifIsPlanned(tag byte) bool { return tag <= 3 || tag == 5 }

func verifTagOf(m pb.Message) byte {
	switch m.(type) {
	case *proto.ExecuteRequest:
		return 1
	case *proto.QueryRequest:
		return 2
	case *proto.ExecuteQueryRequest:
		return 3
	case *proto.Command:
		return 4
	case *proto.LoadRequest:
		return 5
	case *proto.LoadChunkRequest:
		return 6
	case *proto.Noop:
		return 7
	case *proto.AppendEntriesExtension:
		return 8
	}
	return 0
}

func verifIsToken(b []byte) bool {
	return len(b) >= verifTokLen && b[0] == verifMagic0 && b[1] == verifMagic1 && int(b[2]) < len(verifEncs) && verifEncs[b[2]].tag == b[3]
}

func verifEntryOf(b []byte) *verifEnc {
	if !verifIsToken(b) {
		return nil
	}
	return verifEncs[b[2]]
}

func verifNewEnc(tag byte, msg pb.Message, n int) []byte {
	id := len(verifEncs)
	if id >= verifGzEnd {
		panic("verif: too many encoded forms")
	}
	verifEncs = append(verifEncs, &verifEnc{tag: tag, msg: msg, n: n})
	verifAbstractLen(id, n)
	return []byte{verifMagic0, verifMagic1, byte(id), tag}
}

// verifPbMarshal models proto.Marshal: a token that stands for "the encoding of this message as
// it is now", with an abstract length.
func verifPbMarshal(m pb.Message) ([]byte, error) {
	tag := verifTagOf(m)
	snap := verifClone(m)
	if tag == 0 || snap == nil {
		return nil, errors.New("verif: message type outside the codec model")
	}
	n := 0
	if verifPlanned && verifIsPlanned(tag) {
		n = verifPlanRaw
	} else {
		n = verifInt(verifName("encodedLen", len(verifEncs)), 0, verifSmallRaw)
	}
	return verifNewEnc(tag, snap, n), nil
}

// verifPbUnmarshal models proto.Unmarshal: only the token of a message of m's own type decodes.
func verifPbUnmarshal(b []byte, m pb.Message) error {
	if len(b) == 0 || len(b)%verifTokLen != 0 {
		return verifErrCodec
	}
	e := verifEntryOf(b[:verifTokLen])
	if e != nil && e.tag == verifTagFrag {
		e = verifReassemble(b)
	} else if len(b) != verifTokLen {
		return verifErrCodec
	}
	if e == nil || e.tag == verifTagGz || e.tag == verifTagFrag || e.tag != verifTagOf(m) {
		return verifErrCodec
	}
	switch dst := m.(type) {
	case *proto.ExecuteRequest:
		s := verifClone(e.msg).(*proto.ExecuteRequest)
		dst.Request, dst.Timings = s.Request, s.Timings
	case *proto.QueryRequest:
		s := verifClone(e.msg).(*proto.QueryRequest)
		dst.Request, dst.Timings, dst.Level = s.Request, s.Timings, s.Level
		dst.Freshness, dst.FreshnessStrict, dst.LinearizableTimeout = s.Freshness, s.FreshnessStrict, s.LinearizableTimeout
	case *proto.ExecuteQueryRequest:
		s := verifClone(e.msg).(*proto.ExecuteQueryRequest)
		dst.Request, dst.Timings, dst.Level = s.Request, s.Timings, s.Level
		dst.Freshness, dst.FreshnessStrict, dst.LinearizableTimeout = s.Freshness, s.FreshnessStrict, s.LinearizableTimeout
	case *proto.Command:
		s := verifClone(e.msg).(*proto.Command)
		dst.Type, dst.SubCommand, dst.Compressed = s.Type, s.SubCommand, s.Compressed
	case *proto.LoadRequest:
		dst.Data = verifClone(e.msg).(*proto.LoadRequest).Data
	case *proto.LoadChunkRequest:
		s := verifClone(e.msg).(*proto.LoadChunkRequest)
		dst.StreamId, dst.SequenceNum, dst.IsLast, dst.Data, dst.Abort = s.StreamId, s.SequenceNum, s.IsLast, s.Data, s.Abort
	case *proto.Noop:
		dst.Id = verifClone(e.msg).(*proto.Noop).Id
	case *proto.AppendEntriesExtension:
		dst.CdcHWM = verifClone(e.msg).(*proto.AppendEntriesExtension).CdcHWM
	default:
		return verifErrCodec
	}
	return nil
}

// verifNewFrag: a token for bytes [from, from+n) of encoded form number src.
func verifNewFrag(src, from, n int) []byte {
	tok := verifNewEnc(verifTagFrag, nil, n)
	e := verifEncs[tok[2]]
	e.src, e.from = src, from
	return tok
}

// verifReassemble: b is a sequence of fragment tokens; the encoded form they make up when they are
// consecutive pieces of one form that cover it from its first to its last byte, else nil (a cut or
// shuffled protobuf encoding is taken not to decode to the message).
func verifReassemble(b []byte) *verifEnc {
	src, pos := -1, 0
	for i := 0; i+verifTokLen <= len(b); i += verifTokLen {
		f := verifEntryOf(b[i : i+verifTokLen])
		if f == nil || f.tag != verifTagFrag {
			return nil
		}
		if src < 0 {
			src = f.src
		}
		if f.src != src {
			return nil
		}
		if f.from != pos {
			return nil
		}
		pos += f.n
	}
	if src < 0 || pos != verifEncs[src].n {
		return nil
	}
	return verifEncs[src]
}

// gzip writer model: the header (with the stream's abstract length) goes out with the first
// Write, the content and the end marker with Close.
type verifGzW struct {
	zw      *gzip.Writer
	dst     io.Writer
	pending []byte
	header  bool
	closed  bool
	planned bool // the stream's length was planned by the entry (and related to the content there)
	n       int  // the stream's abstract length
}

var verifGzWs []*verifGzW

func verifGzWOf(z *gzip.Writer) *verifGzW {
	for _, w := range verifGzWs {
		if w.zw == z {
			return w
		}
	}
	panic("verif: gzip.Writer not created by NewWriterLevel")
}

func verifGzNewWriterLevel(w io.Writer, level int) (*gzip.Writer, error) {
	if level < gzip.HuffmanOnly || level > gzip.BestCompression {
		return nil, errors.New("gzip: invalid compression level")
	}
	zw := new(gzip.Writer)
	verifGzWs = append(verifGzWs, &verifGzW{zw: zw, dst: w})
	return zw, nil
}

// Reset(w): the writer starts a new stream into w (a Writer that was never created is adopted).
func verifGzWriterReset(z *gzip.Writer, w io.Writer) {
	for _, st := range verifGzWs {
		if st.zw == z {
			st.dst, st.pending, st.header, st.closed, st.planned, st.n = w, nil, false, false, false, 0
			return
		}
	}
	verifGzWs = append(verifGzWs, &verifGzW{zw: z, dst: w})
}

func verifGzWriterWrite(z *gzip.Writer, p []byte) (int, error) {
	w := verifGzWOf(z)
	if w.closed {
		return 0, errors.New("gzip: write to closed writer")
	}
	if !w.header {
		w.header = true
		n := 0
		e := verifEntryOf(p)
		if verifPlanned && e != nil && verifIsPlanned(e.tag) {
			n, w.planned = verifPlanGz, true
		} else {
			n = verifInt(verifName("encodedLen", len(verifEncs)), verifGzMin, verifSmallGz)
		}
		w.n = n
		if _, err := w.dst.Write(verifNewEnc(verifTagGz, nil, n)); err != nil {
			return 0, err
		}
	}
	w.pending = append(w.pending, p...)
	return len(p), nil
}

func verifGzWriterClose(z *gzip.Writer) error {
	w := verifGzWOf(z)
	if w.closed {
		return nil
	}
	w.closed = true
	if !w.header {
		w.header = true
		w.n = verifInt(verifName("encodedLen", len(verifEncs)), verifGzMin, verifSmallGz)
		if _, err := w.dst.Write(verifNewEnc(verifTagGz, nil, w.n)); err != nil {
			return err
		}
	}
	if !w.planned {
		// the stream is as long as DEFLATE allows for its content
		verifAssume(verifDeflate(verifAbstractSize(w.pending), w.n))
	}
	_, err := w.dst.Write(append(verifCloneBytes(w.pending), verifGzEnd))
	return err
}

// verifAbstractSize: the number of bytes b stands for (a single token: its abstract length).
func verifAbstractSize(b []byte) int {
	if len(b) == verifTokLen {
		if e := verifEntryOf(b); e != nil {
			return e.n
		}
	}
	return len(b)
}

// gzip reader model: header checked by NewReader; a stream without its end marker delivers its
// content and then io.ErrUnexpectedEOF.
//
// Content that is one token is an ABSTRACT stream of as many bytes as the token's abstract length
// (symbolic). A Read hands over all of it that the reader may still take - everything, or, below
// an io.LimitedReader, at most its N bytes, or (verifChunkBudget) a first piece of any size - as
// the token itself or as a fragment token; the destination buffer only has to hold the 4 token
// bytes. io.LimitedReader counts the abstract bytes (verifLimitedRead). Other content is delivered
// byte by byte as before.
type verifGzR struct {
	zr   *gzip.Reader
	data []byte
	off  int
	end  error
	// abstract stream
	abs    *verifEnc
	absID  int
	absOff int // abstract bytes handed over so far
	done   bool
}

var verifGzRs []*verifGzR

// verifChunkBudget: that many abstract streams on this path may be handed over in two pieces.
var verifChunkBudget int
var verifChunkSplit bool

func verifGzRFind(z *gzip.Reader) *verifGzR {
	for _, r := range verifGzRs {
		if r.zr == z {
			return r
		}
	}
	return nil
}

func verifGzROf(z *gzip.Reader) *verifGzR {
	if r := verifGzRFind(z); r != nil {
		return r
	}
	panic("verif: gzip.Reader not created by NewReader")
}

func verifGzNewReader(r io.Reader) (*gzip.Reader, error) {
	all, err := io.ReadAll(r)
	if err != nil {
		return nil, err
	}
	if len(all) == 0 {
		return nil, io.EOF
	}
	if len(all) < verifTokLen {
		return nil, io.ErrUnexpectedEOF
	}
	if e := verifEntryOf(all); e == nil || e.tag != verifTagGz {
		return nil, gzip.ErrHeader
	}
	st := &verifGzR{zr: new(gzip.Reader), data: all[verifTokLen:], end: io.ErrUnexpectedEOF}
	if k := len(st.data); k > 0 && st.data[k-1] == verifGzEnd {
		st.data, st.end = st.data[:k-1], io.EOF
	}
	if len(st.data) == verifTokLen {
		if e := verifEntryOf(st.data); e != nil {
			st.abs, st.absID = e, int(st.data[2])
		}
	}
	verifGzRs = append(verifGzRs, st)
	return st.zr, nil
}

const verifNoLimit = 1 << 62

// verifAbsDeliver: one Read of an abstract stream that may take at most limit (>= 1) bytes.
// Returns the concrete count (token bytes), the abstract count, and the error.
func verifAbsDeliver(r *verifGzR, p []byte, limit int) (int, int, error) {
	if r.done {
		return 0, 0, r.end
	}
	if len(p) == 0 {
		return 0, 0, nil
	}
	if len(p) < verifTokLen {
		panic("verif: abstract gzip content read into a buffer of fewer than 4 bytes (outside the codec model)")
	}
	total := r.abs.n
	take := total - r.absOff
	if limit < take {
		take = limit
	}
	if verifChunkBudget > 0 {
		verifChunkBudget--
		if verifChoice("chunk.split", 2) == 1 {
			k := verifInt("chunk.first", 1, verifAnyLen)
			verifAssume(k < take)
			take = k
			verifChunkSplit = true
		}
	}
	tok := r.data
	if take != total {
		tok = verifNewFrag(r.absID, r.absOff, take)
	}
	r.absOff += take
	if r.absOff == total {
		r.done = true
	}
	copy(p, tok)
	return verifTokLen, take, nil
}

// verifAbsStream: the abstract stream at the bottom of r (through any number of LimitedReaders).
func verifAbsStream(r io.Reader) *verifGzR {
	switch x := r.(type) {
	case *gzip.Reader:
		if st := verifGzRFind(x); st != nil && st.abs != nil {
			return st
		}
	case *io.LimitedReader:
		return verifAbsStream(x.R)
	}
	return nil
}

// verifAbsRead: Read on r (verifAbsStream(r) != nil), at most limit abstract bytes.
func verifAbsRead(r io.Reader, p []byte, limit int) (int, int, error) {
	if l, ok := r.(*io.LimitedReader); ok {
		if l.N <= 0 {
			return 0, 0, io.EOF
		}
		if l.N < int64(limit) {
			limit = int(l.N)
		}
		n, abs, err := verifAbsRead(l.R, p, limit)
		l.N -= int64(abs)
		return n, abs, err
	}
	return verifAbsDeliver(verifGzROf(r.(*gzip.Reader)), p, limit)
}

// verifLimitedRead models (*io.LimitedReader).Read: its own code, except that above an abstract
// stream N counts the abstract bytes that were handed over.
func verifLimitedRead(l *io.LimitedReader, p []byte) (int, error) {
	if verifAbsStream(l) != nil {
		n, _, err := verifAbsRead(l, p, verifNoLimit)
		return n, err
	}
	if l.N <= 0 {
		return 0, io.EOF
	}
	if int64(len(p)) > l.N {
		p = p[0:l.N]
	}
	n, err := l.R.Read(p)
	l.N -= int64(n)
	return n, err
}

func verifGzReaderRead(z *gzip.Reader, p []byte) (int, error) {
	r := verifGzROf(z)
	if r.abs != nil {
		n, _, err := verifAbsDeliver(r, p, verifNoLimit)
		return n, err
	}
	if r.off >= len(r.data) {
		return 0, r.end
	}
	if len(p) == 0 {
		return 0, nil
	}
	n := copy(p, r.data[r.off:])
	r.off += n
	return n, nil
}

func verifGzReaderClose(z *gzip.Reader) error { return nil }

// sync.Pool: last-in-first-out reuse, what one goroutine observes from the real pool between
// garbage collections (the engine's own intrinsic never reuses, which would hide aliasing).
var verifPools = map[*sync.Pool][]any{}

func verifPoolGet(p *sync.Pool) any {
	l := verifPools[p]
	if n := len(l); n > 0 {
		x := l[n-1]
		verifPools[p] = l[:n-1]
		return x
	}
	if p.New != nil {
		return p.New()
	}
	return nil
}

func verifPoolPut(p *sync.Pool, x any) {
	if x == nil {
		return
	}
	verifPools[p] = append(verifPools[p], x)
}
