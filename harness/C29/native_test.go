package command

// Native replay build only: preconditions of the abstract-size encoding (spec "native_checks").
//
// The symbolic run of harness/C29 replaces compress/gzip and protobuf by a codec algebra with
// abstract lengths. What that algebra takes for granted about the real codecs is checked here
// against the real ones:
//
//  1. verifDeflate is a guarantee: the real gzip form of every sampled content (zeros, periodic,
//     incompressible, mixtures; 0 bytes .. 4 MiB) satisfies it - and the bound is nearly reached
//     (zeros shrink more than 1000 times), so the abstract run must cope with such ratios;
//  2. the real gzip reader delivers exactly the content; below an io.LimitedReader exactly
//     min(N, length) bytes of it and NO error (what verifLimitedRead / verifAbsDeliver do);
//  3. a protobuf encoding of a request cut at any of the sampled positions does not decode to the
//     request (it fails, or gives a different request) - the model's "fragments that do not cover
//     the whole encoding do not decode";
//  4. verifRealiseSize builds a real request whose plain and gzip forms have exactly the demanded
//     lengths, for demanded lengths inside verifRealisable.

import (
	"bytes"
	"compress/gzip"
	"io"
	"testing"

	"github.com/rqlite/rqlite/v10/command/proto"
	pb "google.golang.org/protobuf/proto"
)

func verifC29Content(kind, n int) []byte {
	b := make([]byte, n)
	switch kind {
	case 0: // zeros
	case 1: // period 2
		for i := range b {
			b[i] = byte(0x55 + 0x55*(i&1))
		}
	case 2: // incompressible
		copy(b, verifPad(n, 0))
	case 3: // a tenth incompressible, then zeros
		copy(b, verifPad(n/10, 0))
	case 4: // text with a short period
		for i := range b {
			b[i] = "INSERT INTO foo(name) VALUES('fiona');"[i%38]
		}
	}
	return b
}

func TestVerifC29NativeCodecLengths(t *testing.T) {
	sizes := []int{0, 1, 2, 17, 258, 259, 1031, 1032, 1033, 4096, 9217, 65535, 65536, 65537, 200000, 1<<20 + 1, 1 << 22}
	best := 0
	for kind := 0; kind < 5; kind++ {
		for _, n := range sizes {
			if kind != 0 && n > 1<<20 {
				continue
			}
			raw := verifC29Content(kind, n)
			gz := verifGzip(raw)
			if !verifDeflate(len(raw), len(gz)) {
				t.Fatalf("verifDeflate does not hold: content kind %d, %d bytes -> gzip form of %d bytes", kind, n, len(gz))
			}
			if r := len(raw) / len(gz); r > best {
				best = r
			}
			// 2. reading back
			back, err := verifGunzip(gz)
			if err != nil || !bytes.Equal(back, raw) {
				t.Fatalf("gzip round trip: kind %d, %d bytes: %v", kind, n, err)
			}
			for _, lim := range []int64{0, int64(n) / 2, int64(n) - 1, int64(n), 512 * int64(len(gz))} {
				if lim < 0 {
					continue
				}
				zr, err := gzip.NewReader(bytes.NewReader(gz))
				if err != nil {
					t.Fatal(err)
				}
				got, err := io.ReadAll(io.LimitReader(zr, lim))
				want := int64(n)
				if lim < want {
					want = lim
				}
				if err != nil || int64(len(got)) != want || !bytes.Equal(got, raw[:want]) {
					t.Fatalf("limited read: kind %d, %d bytes, limit %d: %d bytes, err %v", kind, n, lim, len(got), err)
				}
			}
		}
	}
	if best < 1000 {
		t.Fatalf("highest ratio seen is %d:1; the model expects real ratios above 1000:1", best)
	}

	// 3. cut encodings
	req := &proto.Request{Transaction: true, DbTimeout: 7, Statements: []*proto.Statement{
		{Sql: "INSERT INTO foo(id, v) VALUES(?, ?)", Parameters: []*proto.Parameter{{Value: &proto.Parameter_I{I: 5}}, {Value: &proto.Parameter_Y{Y: make([]byte, 70000)}, Name: "v"}}},
		{Sql: "SELECT 1", ForceQuery: true},
	}}
	msgs := []pb.Message{
		&proto.ExecuteRequest{Request: req, Timings: true},
		&proto.QueryRequest{Request: req, Freshness: 9, Level: proto.ConsistencyLevel_STRONG},
		&proto.ExecuteQueryRequest{Request: req, Timings: true, LinearizableTimeout: 3},
		&proto.LoadRequest{Data: make([]byte, 70000)},
	}
	for _, m := range msgs {
		raw, err := pb.Marshal(m)
		if err != nil {
			t.Fatal(err)
		}
		cuts := []int{0, 1, 2, 3, 5, 40, 41, 42, 43, 60, 1000, 65536, len(raw) - 20, len(raw) - 11, len(raw) - 10, len(raw) - 3, len(raw) - 2, len(raw) - 1}
		for _, c := range cuts {
			if c < 0 || c >= len(raw) {
				continue
			}
			got := m.ProtoReflect().New().Interface()
			if err := pb.Unmarshal(raw[:c], got); err == nil && pb.Equal(got, m) {
				t.Fatalf("%T: the first %d of %d bytes decode to the same message", m, c, len(raw))
			}
		}
	}

	// 4. exact realisation
	samples := [][2]int{{4096, 1028}, {50000, 1074}, {50000, 25000}, {1 << 20, 3000}, {3000000, 4024}, {1<<22 - 1, 1 << 20}}
	for g := 1100; g < 30000; g += 2999 {
		samples = append(samples, [2]int{60001 + g%7, g})
	}
	for i, want := range samples {
		if !verifRealisable(want[0], want[1]) {
			t.Fatalf("sample %v is not inside verifRealisable", want)
		}
		r := &proto.Request{Statements: []*proto.Statement{{Sql: verifText("0123456789abcdef", i)}, {Sql: "x"}}}
		var m pb.Message = &proto.QueryRequest{Request: r, Freshness: int64(i) << 40}
		setPad := func(pad []byte) { verifSetPad(r, pad) }
		if i%3 == 2 {
			lr := &proto.LoadRequest{}
			m, r = lr, nil
			setPad = func(pad []byte) { lr.Data = append([]byte{1, 2}, pad...) }
		}
		verifRealiseSize(m, r, setPad, want[0], want[1])
		raw, err := pb.Marshal(m)
		if err != nil {
			t.Fatal(err)
		}
		if g := len(verifGzip(raw)); len(raw) != want[0] || g != want[1] {
			t.Fatalf("realisation of %v gave plain %d, gzip %d", want, len(raw), g)
		}
	}
}
