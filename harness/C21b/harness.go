package cluster

// C21 "Backups are complete ..." - cluster half: a backup fetched from another node.
//
// Decided here: cluster.(*Client).Backup and the BACKUP / BACKUP_STREAM arms of
// (*Service).handleConn never turn a backup that was not produced or not transferred completely
// into a success. The real client talks to the real handleConn over a harness net.Conn: what the
// client writes is handed to handleConn, and of the bytes handleConn wrote the client is given a
// solver-chosen PREFIX (the stream is cut), followed by EOF or a connection error. The node's
// store is a harness Database that honours the contract decided in the store half (it writes the
// artifact, gzip-compressed when asked to, and fails - after a solver-chosen number of bytes -
// only with an error). Oracle (from the property statement): a nil result of Client.Backup means
// the io.Writer holds the complete artifact (for Compress requests: exactly one gzip member that
// decodes to the image) and nothing else; a BACKUP reply without an error carries the complete
// artifact; after an error reply nothing is produced or streamed.
//
// Natively (replay) protobuf and compress/gzip are real; in the engine they are replaced
// (spec.json "models") by the codec models at the bottom of this file. Cut positions are given
// relative to the start or to the END of what the server sent, so that a witness "the last byte
// of the gzip member is missing" means the same natively although real encodings are longer.

import (
	"bytes"
	"compress/gzip"
	"context"
	"encoding/binary"
	"errors"
	"io"
	"log"
	"net"
	"time"

	"github.com/rqlite/rqlite/v10/cluster/proto"
	command "github.com/rqlite/rqlite/v10/command/proto"
	pb "google.golang.org/protobuf/proto"
)

// ---------------------------------------------------------------------------
// the node's store: cluster.Database as the store half guarantees it

var (
	verifC21ErrStore = errors.New("verif store model: backup failed")
	verifC21ErrReset = errors.New("verif conn model: connection reset by peer")
	verifC21ErrSink  = errors.New("verif: destination write failed")
)

// verifC21Limit passes budget bytes on and then fails (budget < 0: never).
type verifC21Limit struct {
	w      io.Writer
	budget int
	n      int
	failed bool
}

func (l *verifC21Limit) Write(p []byte) (int, error) {
	if l.failed {
		return 0, verifC21ErrStore
	}
	if l.budget < 0 || len(p) <= l.budget-l.n {
		n, err := l.w.Write(p)
		l.n += n
		return n, err
	}
	room := l.budget - l.n
	n, err := l.w.Write(p[:room])
	l.n += n
	l.failed = true
	if err != nil {
		return n, err
	}
	return n, verifC21ErrStore
}

type verifC21DB struct {
	Database    // the other methods are not used by the arms under test
	img         []byte
	failAt      int // the store gives up after this many artifact bytes (< 0: never)
	calls       int
	sawCompress []bool
}

func (d *verifC21DB) Backup(ctx context.Context, br *command.BackupRequest, dst io.Writer) error {
	d.calls++
	d.sawCompress = append(d.sawCompress, br.Compress)
	lim := &verifC21Limit{w: dst, budget: d.failAt}
	if !br.Compress {
		_, err := lim.Write(d.img)
		return err
	}
	zw, err := gzip.NewWriterLevel(lim, gzip.BestSpeed)
	if err != nil {
		return err
	}
	_, werr := zw.Write(d.img)
	cerr := zw.Close()
	if werr != nil {
		return werr
	}
	return cerr
}

type verifC21Creds struct{ ok bool }

func (c *verifC21Creds) AA(username, password, perm string) bool { return c.ok }

// verifC21Artifact is the complete artifact of a request, produced without the code under test.
func verifC21Artifact(img []byte, compress bool) []byte {
	var buf bytes.Buffer
	d := &verifC21DB{img: img, failAt: -1}
	if err := d.Backup(context.Background(), &command.BackupRequest{Compress: compress}, &buf); err != nil {
		panic(err)
	}
	return buf.Bytes()
}

// ---------------------------------------------------------------------------
// connections

type verifC21Addr struct{}

func (verifC21Addr) Network() string { return "verif" }
func (verifC21Addr) String() string  { return "verif-node:4002" }

// verifC21SrvConn is the server's end: it reads what the peer sent and records what is written.
type verifC21SrvConn struct {
	in     []byte
	rd     int
	out    []byte
	closed bool
}

func (c *verifC21SrvConn) Read(p []byte) (int, error) {
	if c.closed {
		return 0, net.ErrClosed
	}
	if len(p) == 0 {
		return 0, nil
	}
	if c.rd >= len(c.in) {
		return 0, io.EOF // the peer has nothing more to say
	}
	n := copy(p, c.in[c.rd:])
	c.rd += n
	return n, nil
}

func (c *verifC21SrvConn) Write(p []byte) (int, error) {
	if c.closed {
		return 0, net.ErrClosed
	}
	c.out = append(c.out, p...)
	return len(p), nil
}

func (c *verifC21SrvConn) Close() error                       { c.closed = true; return nil }
func (c *verifC21SrvConn) LocalAddr() net.Addr                { return verifC21Addr{} }
func (c *verifC21SrvConn) RemoteAddr() net.Addr               { return verifC21Addr{} }
func (c *verifC21SrvConn) SetDeadline(t time.Time) error      { return nil }
func (c *verifC21SrvConn) SetReadDeadline(t time.Time) error  { return nil }
func (c *verifC21SrvConn) SetWriteDeadline(t time.Time) error { return nil }

// verifC21Serve runs the real handleConn on one connection; a Go panic inside is reported.
func verifC21Serve(svc *Service, sc *verifC21SrvConn) (panicked bool) {
	defer func() {
		if r := recover(); r != nil {
			if _, ok := r.(verifStop); ok {
				panic(r)
			}
			panicked = true
		}
	}()
	svc.handleConn(sc)
	return false
}

// verifC21CliConn is the client's end. The server runs when the client first waits for bytes;
// of what the server wrote the client gets the first `deliver` bytes (deliver < 0: all of it,
// then EOF: the server hung up or its idle timeout fired), then endErr.
type verifC21CliConn struct {
	svc      *Service
	sent     []byte
	served   bool
	srv      *verifC21SrvConn
	panicked bool
	// cut: fromEnd/off are applied once the server's output is known
	cut     bool
	fromEnd bool
	off     int
	endErr  error
	avail   []byte
	rd      int
	closed  bool
}

func (c *verifC21CliConn) serve() {
	if c.served {
		return
	}
	c.served = true
	c.srv = &verifC21SrvConn{in: c.sent}
	c.panicked = verifC21Serve(c.svc, c.srv)
	out := c.srv.out
	deliver := len(out)
	if c.cut {
		// a proper prefix: deliver in 0..len(out)-1 (off was chosen below the length of an
		// undisturbed exchange; anything else delivers nothing)
		deliver = 0
		if c.off >= 0 && c.off < len(out) {
			deliver = c.off
			if c.fromEnd {
				deliver = len(out) - 1 - c.off
			}
		}
	}
	c.avail = out[:deliver]
}

func (c *verifC21CliConn) Read(p []byte) (int, error) {
	if c.closed {
		return 0, net.ErrClosed
	}
	c.serve()
	if len(p) == 0 {
		return 0, nil
	}
	if c.rd >= len(c.avail) {
		return 0, c.endErr
	}
	n := copy(p, c.avail[c.rd:])
	c.rd += n
	return n, nil
}

func (c *verifC21CliConn) Write(p []byte) (int, error) {
	if c.closed {
		return 0, net.ErrClosed
	}
	c.sent = append(c.sent, p...)
	return len(p), nil
}

func (c *verifC21CliConn) Close() error                       { c.closed = true; return nil }
func (c *verifC21CliConn) LocalAddr() net.Addr                { return verifC21Addr{} }
func (c *verifC21CliConn) RemoteAddr() net.Addr               { return verifC21Addr{} }
func (c *verifC21CliConn) SetDeadline(t time.Time) error      { return nil }
func (c *verifC21CliConn) SetReadDeadline(t time.Time) error  { return nil }
func (c *verifC21CliConn) SetWriteDeadline(t time.Time) error { return nil }

type verifC21Dialer struct{ conn *verifC21CliConn }

func (d *verifC21Dialer) Dial(address string, timeout time.Duration) (net.Conn, error) {
	return d.conn, nil
}

// verifC21Sink is the caller's io.Writer.
type verifC21Sink struct{ got []byte }

func (w *verifC21Sink) Write(p []byte) (int, error) {
	w.got = append(w.got, p...)
	return len(p), nil
}

func verifC21Service(db *verifC21DB, authOK bool) *Service {
	return &Service{
		db:              db,
		credentialStore: &verifC21Creds{ok: authOK},
		logger:          log.New(io.Discard, "", 0),
		connTimeout:     connReadTimeout,
	}
}

// ---------------------------------------------------------------------------
// decoding helpers for the oracle

// verifC21Gunzip decodes b as exactly one gzip member with nothing after it.
func verifC21Gunzip(b []byte) ([]byte, bool) {
	if verifSymbolic() {
		return verifC21ModelGunzip(b)
	}
	br := bytes.NewReader(b)
	zr, err := gzip.NewReader(br)
	if err != nil {
		return nil, false
	}
	zr.Multistream(false)
	out, err := io.ReadAll(zr)
	if err != nil {
		return nil, false
	}
	if br.Len() != 0 {
		return nil, false
	}
	return out, true
}

// verifC21ProperPrefix: got is full with its end missing.
func verifC21ProperPrefix(got, full []byte) bool {
	return len(got) < len(full) && bytes.Equal(got, full[:len(got)])
}

func verifC21Complete(got []byte, compress bool, img []byte) bool {
	if !compress {
		return len(got) == len(img) && bytes.Equal(got, img)
	}
	plain, ok := verifC21Gunzip(got)
	if !ok {
		return false
	}
	return len(plain) == len(img) && bytes.Equal(plain, img)
}

// verifC21Frame splits what a server wrote into the first length-prefixed message and the rest.
func verifC21Frame(out []byte) (msg, rest []byte, ok bool) {
	if len(out) < protoBufferLengthSize {
		return nil, nil, false
	}
	sz := binary.LittleEndian.Uint64(out[:protoBufferLengthSize])
	if sz > uint64(len(out)-protoBufferLengthSize) {
		return nil, nil, false
	}
	end := protoBufferLengthSize + int(sz)
	return out[protoBufferLengthSize:end], out[end:], true
}

func verifC21ImageLen() int {
	lens := []int{0, 2}
	if verifTier() == 1 {
		lens = []int{0, 1, 2, 3, 5, 8, 16}
	}
	return lens[verifChoice("imageLen", len(lens))]
}

// ---------------------------------------------------------------------------
// entries

// VerifC21bClient: the real Client.Backup against the real handleConn.
// fault 0: nothing goes wrong; 1: the stream is cut (any proper prefix of the server's bytes
// arrives, then EOF or a reset); 2: the leader's store fails after some bytes of the artifact;
// 3: the credentials are refused.
func VerifC21bClient() {
	verifPanicsAreViolations()
	compress := verifChoice("compress", 2) == 1
	img := verifBytes("image", verifC21ImageLen())
	fault := verifChoice("fault", 4)
	want := append([]byte{}, img...)

	db := &verifC21DB{img: img, failAt: -1}
	conn := &verifC21CliConn{endErr: io.EOF}
	switch fault {
	case 1:
		// what the server sends when nothing goes wrong, to know how long it is
		dry := &verifC21CliConn{endErr: io.EOF, svc: verifC21Service(&verifC21DB{img: img, failAt: -1}, true)}
		derr := NewClient(&verifC21Dialer{conn: dry}, 30*time.Second).Backup(context.Background(),
			&command.BackupRequest{Compress: compress}, "verif-node:4002", nil, 30*time.Second, &verifC21Sink{})
		verifAssert("C21-undisturbed-remote-backup-succeeds", derr == nil && dry.srv != nil)
		total := len(dry.srv.out)
		conn.cut = true
		conn.fromEnd = verifBool("fromEnd")
		limit := total - 1
		if !conn.fromEnd && limit > 13 {
			limit = 13 // from the start: the reply and the first bytes of the stream
		}
		conn.off = verifInt("off", 0, limit)
		if verifChoice("end", 2) == 1 {
			conn.endErr = verifC21ErrReset
		}
	case 2:
		// the store always compresses for the stream: fail inside the gzip member
		total := len(verifC21Artifact(img, true))
		fromEnd := verifBool("dbFromEnd")
		limit := total - 1
		if !fromEnd && limit > 11 {
			limit = 11
		}
		off := verifInt("dbOff", 0, limit)
		db.failAt = off
		if fromEnd {
			db.failAt = total - 1 - off
		}
	}
	svc := verifC21Service(db, fault != 3)
	conn.svc = svc
	cl := NewClient(&verifC21Dialer{conn: conn}, 30*time.Second)
	br := &command.BackupRequest{Format: command.BackupRequest_BACKUP_REQUEST_FORMAT_BINARY, Compress: compress}
	creds := &proto.Credentials{Username: "u", Password: "p"}
	w := &verifC21Sink{}

	err := cl.Backup(context.Background(), br, "verif-node:4002", creds, 30*time.Second, w)

	verifAssert("C21-server-did-not-panic", !conn.panicked)
	verifAssert("C21-caller-request-not-modified", br.Compress == compress)
	complete := verifC21Complete(w.got, compress, want)
	switch fault {
	case 0:
		verifReach("undisturbed")
		verifAssert("C21-undisturbed-remote-backup-succeeds", err == nil)
	case 1:
		verifReach("stream-cut")
	case 2:
		verifReach("leader-store-failed")
	case 3:
		verifReach("refused")
		verifAssert("C21-refused-backup-is-an-error", err != nil)
		verifAssert("C21-refused-backup-writes-nothing", len(w.got) == 0)
	}
	if err == nil {
		if !complete && compress && fault != 0 && verifC21ProperPrefix(w.got, verifC21Artifact(img, true)) {
			// recorded class: Compress=true, the client copies raw bytes until the connection
			// ends and takes any end (cut stream, leader gave up) for the end of the backup:
			// the writer holds a truncated gzip member
			verifFinding("C21-compressed-remote-backup-accepts-cut-stream")
		}
		verifAssert("C21-success-means-complete-artifact", complete)
	}
}

// VerifC21bServer: handleConn alone, one BACKUP or BACKUP_STREAM command from a raw peer.
func VerifC21bServer() {
	verifPanicsAreViolations()
	stream := verifChoice("stream", 2) == 1
	compress := verifChoice("compress", 2) == 1
	img := verifBytes("image", verifC21ImageLen())
	// 0: fine; 1: store fails after some bytes; 2: not authorized; 3: command without a request
	fault := verifChoice("fault", 4)
	db := &verifC21DB{img: img, failAt: -1}
	if fault == 1 {
		total := len(verifC21Artifact(img, compress || stream))
		if total == 0 {
			return
		}
		fromEnd := verifBool("dbFromEnd")
		limit := total - 1
		if !fromEnd && limit > 11 {
			limit = 11
		}
		off := verifInt("dbOff", 0, limit)
		db.failAt = off
		if fromEnd {
			db.failAt = total - 1 - off
		}
	}
	svc := verifC21Service(db, fault != 2)
	cmd := &proto.Command{Type: proto.Command_COMMAND_TYPE_BACKUP, Credentials: &proto.Credentials{Username: "u", Password: "p"}}
	if stream {
		cmd.Type = proto.Command_COMMAND_TYPE_BACKUP_STREAM
	}
	if fault != 3 {
		cmd.Request = &proto.Command_BackupRequest{BackupRequest: &command.BackupRequest{
			Format: command.BackupRequest_BACKUP_REQUEST_FORMAT_BINARY, Compress: compress}}
	}
	p, err := pb.Marshal(cmd)
	if err != nil {
		panic(err)
	}
	in := make([]byte, protoBufferLengthSize)
	binary.LittleEndian.PutUint64(in, uint64(len(p)))
	sc := &verifC21SrvConn{in: append(in, p...)}

	panicked := verifC21Serve(svc, sc)

	msg, rest, ok := verifC21Frame(sc.out)
	refused := fault == 2 || fault == 3
	if !stream {
		verifAssert("C21-server-did-not-panic", !panicked)
		verifAssert("C21-backup-reply-framed", ok && len(rest) == 0)
		plain, gzok := verifC21Gunzip(msg)
		verifAssert("C21-backup-reply-decodes", gzok)
		resp := &proto.CommandBackupResponse{}
		verifAssert("C21-backup-reply-decodes", pb.Unmarshal(plain, resp) == nil)
		if resp.Error == "" {
			verifReach("backup-reply-with-data")
			verifAssert("C21-reply-without-error-carries-complete-artifact", verifC21Complete(resp.Data, compress, img))
			verifAssert("C21-reply-without-error-only-when-nothing-failed", fault == 0)
		} else {
			verifReach("backup-reply-with-error")
			verifAssert("C21-error-reply-only-with-a-reason", fault != 0)
			verifAssert("C21-error-reply-carries-no-data", len(resp.Data) == 0)
		}
		if refused {
			verifAssert("C21-refused-backup-not-produced", db.calls == 0)
		}
		return
	}
	// BACKUP_STREAM: a reply, then (only after a reply without error) the gzip-compressed artifact
	verifAssert("C21-stream-reply-framed", ok)
	resp := &proto.CommandBackupResponse{}
	verifAssert("C21-stream-reply-decodes", pb.Unmarshal(msg, resp) == nil)
	if refused {
		verifReach("stream-refused")
		verifAssert("C21-refused-stream-gets-an-error-reply", resp.Error != "")
	}
	if resp.Error != "" {
		if refused && (panicked || db.calls > 0 || len(rest) > 0) {
			// recorded class: BACKUP_STREAM sends the error reply and then carries on with the
			// request it has just refused (nil request: nil dereference; unauthorized: the
			// whole backup is streamed to the peer, behind the error reply)
			verifFinding("C21-backup-stream-continues-after-error-reply")
		}
		verifAssert("C21-nothing-after-an-error-reply", !panicked && db.calls == 0 && len(rest) == 0)
		return
	}
	verifAssert("C21-server-did-not-panic", !panicked)
	verifAssert("C21-stream-reply-without-error-only-for-accepted-requests", !refused)
	verifAssert("C21-stream-is-always-compressed", len(db.sawCompress) == 1 && db.sawCompress[0])
	if fault == 0 {
		verifReach("stream-complete")
		verifAssert("C21-stream-carries-complete-artifact", verifC21Complete(rest, true, img))
	} else {
		verifReach("stream-aborted")
		// the peer must be able to notice: the member is incomplete and the connection is closed
		verifAssert("C21-aborted-stream-is-not-a-complete-member", !verifC21Complete(rest, true, img))
		verifAssert("C21-aborted-stream-closes-the-connection", sc.closed)
	}
}

// VerifC21bTwin: vacuity guard - undisturbed remote backup, final claim is false.
func VerifC21bTwin() {
	img := verifBytes("image", 2)
	db := &verifC21DB{img: img, failAt: -1}
	conn := &verifC21CliConn{endErr: io.EOF}
	conn.svc = verifC21Service(db, true)
	cl := NewClient(&verifC21Dialer{conn: conn}, 30*time.Second)
	br := &command.BackupRequest{Format: command.BackupRequest_BACKUP_REQUEST_FORMAT_BINARY}
	w := &verifC21Sink{}
	err := cl.Backup(context.Background(), br, "verif-node:4002", nil, 30*time.Second, w)
	verifAssume(err == nil)
	verifAssert("twin", !verifC21Complete(w.got, false, img))
}

// ---------------------------------------------------------------------------
// engine-only models (spec.json "models"); never called natively

// --- protobuf: Marshal returns a 4-byte token that stands for the encoding of a snapshot of the
// message; Unmarshal restores the snapshot into a message of the same type only.

const (
	verifC21PbMagic0 = 0xF6
	verifC21PbMagic1 = 0xCA
)

var verifC21ErrCodec = errors.New("verif protobuf model: cannot parse")

type verifC21Enc struct {
	tag byte
	msg pb.Message
}

var verifC21Encs []*verifC21Enc

func verifC21CloneBR(b *command.BackupRequest) *command.BackupRequest {
	if b == nil {
		return nil
	}
	return &command.BackupRequest{Format: b.Format, Leader: b.Leader, Vacuum: b.Vacuum, Compress: b.Compress,
		Tables: append([]string(nil), b.Tables...)}
}

func verifC21Clone(m pb.Message) (pb.Message, byte) {
	switch s := m.(type) {
	case *proto.Command:
		out := &proto.Command{Type: s.Type}
		if s.Credentials != nil {
			out.Credentials = &proto.Credentials{Username: s.Credentials.Username, Password: s.Credentials.Password}
		}
		switch r := s.Request.(type) {
		case nil:
		case *proto.Command_BackupRequest:
			out.Request = &proto.Command_BackupRequest{BackupRequest: verifC21CloneBR(r.BackupRequest)}
		default:
			return nil, 0
		}
		return out, 1
	case *proto.CommandBackupResponse:
		out := &proto.CommandBackupResponse{Error: s.Error}
		if s.Data != nil {
			out.Data = append([]byte{}, s.Data...)
		}
		return out, 2
	}
	return nil, 0
}

func verifC21PbMarshal(m pb.Message) ([]byte, error) {
	snap, tag := verifC21Clone(m)
	if snap == nil {
		return nil, errors.New("verif protobuf model: message type outside the codec model")
	}
	id := len(verifC21Encs)
	if id > 250 {
		panic("verif: too many encoded messages")
	}
	verifC21Encs = append(verifC21Encs, &verifC21Enc{tag: tag, msg: snap})
	return []byte{verifC21PbMagic0, verifC21PbMagic1, byte(id), tag}, nil
}

func verifC21PbUnmarshal(b []byte, m pb.Message) error {
	if len(b) != 4 || b[0] != verifC21PbMagic0 || b[1] != verifC21PbMagic1 || int(b[2]) >= len(verifC21Encs) {
		return verifC21ErrCodec
	}
	e := verifC21Encs[b[2]]
	if e.tag != b[3] {
		return verifC21ErrCodec
	}
	snap, tag := verifC21Clone(e.msg)
	switch dst := m.(type) {
	case *proto.Command:
		if tag != 1 {
			return verifC21ErrCodec
		}
		s := snap.(*proto.Command)
		dst.Type, dst.Request, dst.Credentials = s.Type, s.Request, s.Credentials
	case *proto.CommandBackupResponse:
		if tag != 2 {
			return verifC21ErrCodec
		}
		s := snap.(*proto.CommandBackupResponse)
		dst.Error, dst.Data = s.Error, s.Data
	default:
		return verifC21ErrCodec
	}
	return nil
}

// --- gzip (same framing as the store half): the real 10-byte header, one "stored" block
// (final-block byte, length, complemented length, data), an 8-byte trailer (a fixed mark where
// the CRC-32 would be, then the real ISIZE). The writer emits the header with the first Write and
// everything else on Close and keeps the first error; the reader checks the header when it is
// created, turns a short member into io.ErrUnexpectedEOF, checks the trailer, and after the
// member either stops (Multistream(false)) or looks for another one.

var verifC21GzHeader = []byte{0x1f, 0x8b, 8, 0, 0, 0, 0, 0, 4, 0xff}
var verifC21GzMark = []byte{0xC2, 0x1C, 0x2C, 0x12}

var (
	verifC21ErrGzLevel  = errors.New("verif gzip model: invalid compression level")
	verifC21ErrGzClosed = errors.New("verif gzip model: write to closed writer")
)

type verifC21GzW struct {
	w      io.Writer
	buf    []byte
	header bool
	closed bool
	err    error
}

type verifC21GzR struct {
	r     io.Reader
	multi bool
	state int // 0: block header due, 1: data, 2: trailer due, 3: member done
	left  int
	size  int
	err   error
}

var verifC21GzWs map[*gzip.Writer]*verifC21GzW
var verifC21GzRs map[*gzip.Reader]*verifC21GzR

func verifC21GzNewWriterLevel(w io.Writer, level int) (*gzip.Writer, error) {
	if level < gzip.HuffmanOnly || level > gzip.BestCompression {
		return nil, verifC21ErrGzLevel
	}
	if verifC21GzWs == nil {
		verifC21GzWs = map[*gzip.Writer]*verifC21GzW{}
	}
	z := new(gzip.Writer)
	verifC21GzWs[z] = &verifC21GzW{w: w}
	return z, nil
}

func verifC21GzHeaderOut(st *verifC21GzW) {
	if st.header {
		return
	}
	st.header = true
	_, st.err = st.w.Write(verifC21GzHeader)
}

func verifC21GzWrite(z *gzip.Writer, p []byte) (int, error) {
	st := verifC21GzWs[z]
	if st.err != nil {
		return 0, st.err
	}
	if st.closed {
		return 0, verifC21ErrGzClosed
	}
	verifC21GzHeaderOut(st)
	if st.err != nil {
		return 0, st.err
	}
	st.buf = append(st.buf, p...)
	return len(p), nil
}

func verifC21GzClose(z *gzip.Writer) error {
	st := verifC21GzWs[z]
	if st.err != nil {
		return st.err
	}
	if st.closed {
		return nil
	}
	st.closed = true
	verifC21GzHeaderOut(st)
	if st.err != nil {
		return st.err
	}
	n := len(st.buf)
	block := append([]byte{1, byte(n), byte(n >> 8), ^byte(n), ^byte(n >> 8)}, st.buf...)
	if _, st.err = st.w.Write(block); st.err != nil {
		return st.err
	}
	trailer := append(append([]byte{}, verifC21GzMark...), byte(n), byte(n>>8), byte(n>>16), byte(n>>24))
	_, st.err = st.w.Write(trailer)
	return st.err
}

func verifC21ModelGunzip(b []byte) ([]byte, bool) {
	if len(b) < 10+5+8 || !bytes.Equal(b[:10], verifC21GzHeader) {
		return nil, false
	}
	if b[10] != 1 {
		return nil, false
	}
	n := int(b[11]) | int(b[12])<<8
	if b[13] != ^b[11] || b[14] != ^b[12] {
		return nil, false
	}
	if len(b) != 10+5+n+8 {
		return nil, false
	}
	t := b[15+n:]
	if !bytes.Equal(t[:4], verifC21GzMark) {
		return nil, false
	}
	if int(t[4])|int(t[5])<<8|int(t[6])<<16|int(t[7])<<24 != n {
		return nil, false
	}
	return b[15 : 15+n], true
}

// verifC21GzFill reads exactly len(p) bytes; a stream that ends early is io.ErrUnexpectedEOF
// (atStart: a stream that ends before its first byte is io.EOF), other errors pass through.
func verifC21GzFill(r io.Reader, p []byte, atStart bool) error {
	n, err := io.ReadFull(r, p)
	if err == nil {
		return nil
	}
	if err == io.EOF || err == io.ErrUnexpectedEOF {
		if atStart && n == 0 {
			return io.EOF
		}
		return io.ErrUnexpectedEOF
	}
	return err
}

func verifC21GzNewReader(r io.Reader) (*gzip.Reader, error) {
	var hdr [10]byte
	if err := verifC21GzFill(r, hdr[:], true); err != nil {
		return nil, err
	}
	if !bytes.Equal(hdr[:], verifC21GzHeader) {
		return nil, gzip.ErrHeader
	}
	if verifC21GzRs == nil {
		verifC21GzRs = map[*gzip.Reader]*verifC21GzR{}
	}
	z := new(gzip.Reader)
	verifC21GzRs[z] = &verifC21GzR{r: r, multi: true}
	return z, nil
}

func verifC21GzMultistream(z *gzip.Reader, ok bool) { verifC21GzRs[z].multi = ok }

func verifC21GzRead(z *gzip.Reader, p []byte) (int, error) {
	st := verifC21GzRs[z]
	if st.err != nil {
		return 0, st.err
	}
	if len(p) == 0 {
		return 0, nil
	}
	for {
		switch st.state {
		case 0:
			var bh [5]byte
			if st.err = verifC21GzFill(st.r, bh[:], false); st.err != nil {
				return 0, st.err
			}
			if bh[0] != 1 || bh[3] != ^bh[1] || bh[4] != ^bh[2] {
				st.err = errors.New("verif gzip model: corrupt input")
				return 0, st.err
			}
			st.left = int(bh[1]) | int(bh[2])<<8
			st.size = st.left
			st.state = 1
		case 1:
			if st.left == 0 {
				st.state = 2
				continue
			}
			n := len(p)
			if n > st.left {
				n = st.left
			}
			k, err := st.r.Read(p[:n])
			st.left -= k
			if err != nil {
				if err == io.EOF {
					err = io.ErrUnexpectedEOF
				}
				st.err = err
			}
			if k > 0 {
				return k, nil
			}
			if st.err != nil {
				return 0, st.err
			}
		case 2:
			var t [8]byte
			if st.err = verifC21GzFill(st.r, t[:], false); st.err != nil {
				return 0, st.err
			}
			if !bytes.Equal(t[:4], verifC21GzMark) || int(t[4])|int(t[5])<<8|int(t[6])<<16|int(t[7])<<24 != st.size {
				st.err = gzip.ErrChecksum
				return 0, st.err
			}
			st.state = 3
		case 3:
			if !st.multi {
				st.err = io.EOF
				return 0, st.err
			}
			var hdr [10]byte
			if st.err = verifC21GzFill(st.r, hdr[:], true); st.err != nil {
				return 0, st.err
			}
			if !bytes.Equal(hdr[:], verifC21GzHeader) {
				st.err = gzip.ErrHeader
				return 0, st.err
			}
			st.state = 0
		}
	}
}

func verifC21GzReaderClose(z *gzip.Reader) error { return nil }
