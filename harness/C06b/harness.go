package store

// C06, store half: what (*Store).fsmSnapshot does with the result of the checkpoint manager on the
// incremental path - "a failed checkpoint never leaves a captured segment behind", and a successful
// one leaves exactly the captured bytes staged (with their CRC sidecar) for the snapshot store.
// harness/C06 (package db) checks the manager itself and there plays the caller by this contract:
// keep the staged segment iff Checkpoint returned nil; do not call the manager when the WAL is empty.
//
// Code under test (real, symbolically and natively): (*Store).fsmSnapshot incremental branch,
// snapshot.(*StagingDir).CreateWAL, snapshot.(*WALWriter).Write/Close/Cancel, snapshotDueNext,
// dbModified. The checkpoint manager and the snapshot store are handed in through the interfaces
// the Store already takes (Checkpointer, SnapshotStore), so the same stubs run natively.
// Engine only (spec.json "models"): the os/fsutil/sidecar file calls go to a small in-memory file
// table, the two SwappableDB calls are no-ops, CRC-32 is a byte sum. Natively everything is real: a
// WAL-mode database in a scratch directory and a real staging directory.

import (
	"errors"
	"expvar"
	"hash"
	"io"
	"log"
	"os"
	"path/filepath"
	"sort"
	"strings"
	"syscall"
	"time"

	sql "github.com/rqlite/rqlite/v10/db"
	"github.com/rqlite/rqlite/v10/internal/rsum"
	"github.com/rqlite/rqlite/v10/internal/rsync"
	"github.com/rqlite/rqlite/v10/snapshot"
)

// ---------------------------------------------------------------------------------------------
// stubs handed in through the Store's own interfaces (run natively and in the engine)

const (
	verifC06bReset    = iota // WAL reset: (code 0), nil
	verifC06bAllMoved        // every frame moved, WAL not reset: nil
	verifC06bBusy            // some frames not moved: ErrDatabaseCheckpointBusy
	verifC06bError           // the checkpoint call itself failed: plain (retryable by default) error
	verifC06bOutcomes
)

type verifC06bCheckpointer struct {
	outcomes []int
	calls    int
	payloads [][]byte

	// full-snapshot checkpoints (nil writer): always fail, by error or by an unsuccessful meta
	fullCalls      int
	fullNotSuccess bool
}

func verifC06bPayload(i int) []byte { return []byte{'W', 'A', 'L', byte('0' + i)} }

// Checkpoint behaves like the manager: the compacted WAL is written to w BEFORE the checkpoint is
// attempted, whatever its outcome then is.
func (c *verifC06bCheckpointer) Checkpoint(w io.Writer, timeout time.Duration) (*sql.CheckpointManagerMeta, int64, error) {
	if w == nil {
		c.fullCalls++
		if c.fullNotSuccess {
			return &sql.CheckpointManagerMeta{CheckpointMeta: sql.CheckpointMeta{Code: 1, Pages: 2, Moved: 2}}, 0, nil
		}
		return nil, 0, errors.New("checkpoint did not complete within 1s")
	}
	i := c.calls
	c.calls++
	p := verifC06bPayload(i)
	n, err := w.Write(p)
	if err != nil {
		return nil, 0, err
	}
	switch c.outcomes[i] {
	case verifC06bReset:
		return &sql.CheckpointManagerMeta{}, int64(n), nil
	case verifC06bAllMoved:
		return &sql.CheckpointManagerMeta{CheckpointMeta: sql.CheckpointMeta{Code: 1, Pages: 2, Moved: 2}}, 0, nil
	case verifC06bBusy:
		return &sql.CheckpointManagerMeta{CheckpointMeta: sql.CheckpointMeta{Code: 1, Pages: 2, Moved: 1}}, 0, sql.ErrDatabaseCheckpointBusy
	}
	return nil, 0, errors.New("checkpoint: error checkpointing WAL")
}

// verifC06bSnapStore: snapshots exist, so an incremental snapshot is due unless the full-needed flag
// is set (snapshot.Store.DueNext/SetDueNext); nothing else is consulted by fsmSnapshot.
type verifC06bSnapStore struct {
	SnapshotStore // nil: any other method panics
	fullNeeded    bool
}

func (s *verifC06bSnapStore) DueNext() (snapshot.Type, error) {
	if s.fullNeeded {
		return snapshot.Full, nil
	}
	return snapshot.Incremental, nil
}
func (s *verifC06bSnapStore) SetDueNext(t snapshot.Type) error {
	s.fullNeeded = t == snapshot.Full
	return nil
}

// ---------------------------------------------------------------------------------------------
// engine-side file table and models

type verifC06bFile struct {
	data   []byte
	closed bool
}

var verifC06bFS map[string]*verifC06bFile
var verifC06bNames map[*os.File]string
var verifC06bWALHasData bool

func verifC06bPathExistsWithData(p string) bool { return verifC06bWALHasData }
func verifC06bEnsureDirExists(p string) error   { return nil }
func verifC06bSyncDirMaybe(p string) error      { return nil }

func verifC06bCreate(name string) (*os.File, error) {
	f := &os.File{}
	verifC06bFS[name] = &verifC06bFile{}
	verifC06bNames[f] = name
	return f, nil
}

func verifC06bFileName(f *os.File) string { return verifC06bNames[f] }

func verifC06bFileWrite(f *os.File, p []byte) (int, error) {
	n := verifC06bFS[verifC06bNames[f]]
	if n == nil || n.closed {
		return 0, os.ErrClosed
	}
	n.data = append(n.data, p...)
	return len(p), nil
}

func verifC06bFileSync(f *os.File) error { return nil }

func verifC06bFileClose(f *os.File) error {
	n := verifC06bFS[verifC06bNames[f]]
	if n == nil {
		return nil // unlinked while open
	}
	if n.closed {
		return os.ErrClosed
	}
	n.closed = true
	return nil
}

func verifC06bRemove(name string) error {
	if _, ok := verifC06bFS[name]; !ok {
		for n := range verifC06bFS {
			if strings.HasPrefix(n, name+"/") {
				// a directory that still has entries (directories exist implicitly in this model)
				return &os.PathError{Op: "remove", Path: name, Err: syscall.ENOTEMPTY}
			}
		}
		return os.ErrNotExist
	}
	delete(verifC06bFS, name)
	return nil
}

// verifC06bRemoveAll: os.RemoveAll - the path itself and everything beneath it.
func verifC06bRemoveAll(name string) error {
	for n := range verifC06bFS {
		if n == name || strings.HasPrefix(n, name+"/") {
			delete(verifC06bFS, n)
		}
	}
	return nil
}

func verifC06bSidecarWriteFile(path string, sum uint32) error {
	verifC06bFS[path] = &verifC06bFile{data: []byte{byte(sum >> 24), byte(sum >> 16), byte(sum >> 8), byte(sum)}, closed: true}
	return nil
}

// byte-sum stand-in for CRC-32 (the value is only stored in the sidecar, never compared here)
type verifC06bSum struct{ s uint32 }

func (h *verifC06bSum) Write(p []byte) (int, error) {
	for _, b := range p {
		h.s += uint32(b)
	}
	return len(p), nil
}
func (h *verifC06bSum) Sum(b []byte) []byte { return b }
func (h *verifC06bSum) Reset()              { h.s = 0 }
func (h *verifC06bSum) Size() int           { return 4 }
func (h *verifC06bSum) BlockSize() int      { return 1 }
func (h *verifC06bSum) Sum32() uint32       { return h.s }

var _ hash.Hash32 = (*verifC06bSum)(nil)

func verifC06bNewCRC32Writer(w io.Writer) *rsum.CRC32Writer {
	return rsum.VerifNewCRC32Writer(w, &verifC06bSum{})
}

func verifC06bNewSnapshotPathStreamer(walDirPath string) (*snapshot.SnapshotPathStreamer, error) {
	if walDirPath == "" {
		return nil, errors.New("walDirPath must be non-empty")
	}
	return &snapshot.SnapshotPathStreamer{}, nil
}

func verifC06bSetSynchronousMode(d *sql.SwappableDB, m sql.SynchronousMode) error { return nil }
func verifC06bDBLastModified(d *sql.SwappableDB) (time.Time, error)               { return verifC06bDBTime, nil }

var verifC06bDBTime time.Time

// ---------------------------------------------------------------------------------------------
// the world

var verifC06bOpenNative func(dir string, walHasData bool) *sql.SwappableDB

type verifC06bEnv struct {
	s       *Store
	ck      *verifC06bCheckpointer
	ss      *verifC06bSnapStore
	dir     string
	cleanup func()
}

func verifC06bNewEnv(outcomes []int, walHasData bool) *verifC06bEnv {
	e := &verifC06bEnv{ck: &verifC06bCheckpointer{outcomes: outcomes}, ss: &verifC06bSnapStore{}}
	s := &Store{
		open:           rsync.NewAtomicBool(),
		snapshotCAS:    rsync.NewCheckAndSet(),
		snapshotSync:   rsync.NewSyncChannels(),
		dbModifiedTime: rsync.NewAtomicTime(),
		logger:         log.New(io.Discard, "", 0),
		RaftLogLevel:   "WARN",
		raftID:         "verif",
	}
	s.open.Set()
	s.checkpointer = e.ck
	s.snapshotStore = e.ss
	e.s = s
	if verifSymbolic() {
		stats = expvar.NewMap("store")
		ResetStats()
		verifC06bFS = map[string]*verifC06bFile{}
		verifC06bNames = map[*os.File]string{}
		verifC06bWALHasData = walHasData
		verifC06bDBTime = time.Time{}
		e.dir = "/verif-c06b"
		s.db = new(sql.SwappableDB)
		s.dbPath = e.dir + "/db.sqlite"
		s.walPath = s.dbPath + "-wal"
		s.walStagingDir = e.dir + "/" + walStagingDirName
		e.cleanup = func() {}
		return e
	}
	dir, err := os.MkdirTemp("", "verif-c06b-")
	if err != nil {
		panic(err)
	}
	e.dir = dir
	s.dbPath = filepath.Join(dir, "db.sqlite")
	s.walPath = s.dbPath + "-wal"
	s.walStagingDir = filepath.Join(dir, walStagingDirName)
	s.db = verifC06bOpenNative(s.dbPath, walHasData)
	e.cleanup = func() {
		s.db.Close()
		os.RemoveAll(dir)
	}
	return e
}

// staged: names (sorted = creation order: the name starts with a zero-padded timestamp and a
// sequence number) and contents of the files in the staging directory.
func (e *verifC06bEnv) staged() (wals []string, content map[string][]byte) {
	content = map[string][]byte{}
	dir := e.s.walStagingDir
	if verifSymbolic() {
		for name, f := range verifC06bFS {
			if strings.HasPrefix(name, dir+"/") {
				content[name[len(dir)+1:]] = f.data
			}
		}
	} else {
		ents, err := os.ReadDir(dir)
		if err != nil && !os.IsNotExist(err) {
			panic(err)
		}
		for _, en := range ents {
			b, err := os.ReadFile(filepath.Join(dir, en.Name()))
			if err != nil {
				panic(err)
			}
			content[en.Name()] = b
		}
	}
	for name := range content {
		if strings.HasSuffix(name, ".wal") {
			wals = append(wals, name)
		}
	}
	sort.Strings(wals)
	return wals, content
}

// check: the staging directory holds exactly the segments of the successful attempts so far, in
// order, each with its sidecar, and nothing else.
func (e *verifC06bEnv) check(kept [][]byte) {
	wals, content := e.staged()
	verifAssert("C06-staged-segments-are-the-kept-ones", len(wals) == len(kept))
	for i := range kept {
		got := content[wals[i]]
		same := len(got) == len(kept[i])
		for j := 0; same && j < len(got); j++ {
			same = got[j] == kept[i][j]
		}
		verifAssert("C06-staged-segment-has-the-captured-bytes", same)
		_, ok := content[wals[i]+".crc32"]
		verifAssert("C06-staged-segment-has-its-checksum", ok)
	}
	verifAssert("C06-nothing-else-is-staged", len(content) == 2*len(kept))
}

// VerifC06bSnapshot: N incremental snapshot attempts, each with any of the manager's outcomes.
func VerifC06bSnapshot() {
	verifPanicsAreViolations()
	n := 2
	if verifTier() == 1 {
		n = 3
	}
	outcomes := make([]int, n)
	for i := range outcomes {
		outcomes[i] = verifChoice(verifName("outcome", i), verifC06bOutcomes)
	}
	e := verifC06bNewEnv(outcomes, true)
	defer e.cleanup()
	var kept [][]byte
	for i := 0; i < n; i++ {
		snap, err := e.s.fsmSnapshot()
		verifAssert("C06-one-manager-call-per-attempt", e.ck.calls == i+1)
		ok := outcomes[i] == verifC06bReset || outcomes[i] == verifC06bAllMoved
		if ok {
			verifReach("segment-kept")
			verifAssert("C06-good-checkpoint-gives-a-snapshot", err == nil && snap != nil)
			kept = append(kept, verifC06bPayload(i))
		} else {
			verifReach("segment-cancelled")
			verifAssert("C06-failed-checkpoint-fails-the-snapshot", err != nil && snap == nil)
		}
		e.check(kept)
		if snap != nil {
			// raft did not get to persist it: the staged segments stay for the next attempt
			snap.Release()
			e.check(kept)
		}
	}
}

// VerifC06bEmptyWAL: with no WAL data fsmSnapshot reports ErrNoWALToSnapshot without calling the manager.
func VerifC06bEmptyWAL() {
	verifPanicsAreViolations()
	e := verifC06bNewEnv([]int{verifC06bReset}, false)
	defer e.cleanup()
	snap, err := e.s.fsmSnapshot()
	verifReach("no-wal-data")
	verifAssert("C06-empty-wal-is-no-snapshot", err == ErrNoWALToSnapshot && snap == nil)
	verifAssert("C06-empty-wal-manager-not-called", e.ck.calls == 0)
	e.check(nil)
}

// VerifC06bFailedFull: a full snapshot is due - because the snapshot store says so, or only because the
// database file looks modified behind the store's back - and its checkpoint fails (error, or a meta
// that is not Success). Such a checkpoint may already have moved WAL frames into the database file
// that no incremental snapshot captured (harness/C06), so the next snapshot must be a full one again.
func VerifC06bFailedFull() {
	verifPanicsAreViolations()
	reason := verifChoice("reason", 2)
	e := verifC06bNewEnv([]int{verifC06bBusy}, true)
	defer e.cleanup()
	e.ck.fullNotSuccess = verifChoice("failure", 2) == 1
	if reason == 0 {
		e.ss.fullNeeded = true
	} else {
		// last recorded modification time long ago, the file is newer: dbModified() is true
		e.s.dbModifiedTime.Store(time.Unix(1, 0))
		if verifSymbolic() {
			verifC06bDBTime = time.Unix(1000, 0)
		}
	}
	snap, err := e.s.fsmSnapshot()
	verifAssert("C06-first-attempt-is-full", e.ck.fullCalls == 1 && e.ck.calls == 0)
	verifAssert("C06-failed-full-checkpoint-fails-the-snapshot", err != nil && snap == nil)
	e.s.fsmSnapshot()
	again := e.ck.fullCalls == 2 && e.ck.calls == 0
	if again {
		verifReach("full-asked-again")
	}
	if !again && reason == 1 {
		// recorded defect class: the full snapshot was due only because dbModified() was true; the
		// deferred dbModifiedTime.Store of the failed attempt forgets that, an incremental snapshot follows
		verifFinding("C06-failed-full-then-incremental-loses-frames")
	}
	verifAssert("C06-failed-full-keeps-full-due", again)
	e.check(nil)
}

// VerifC06bTwin: same shape; the false claim is that a busy checkpoint still leaves its segment staged.
func VerifC06bTwin() {
	e := verifC06bNewEnv([]int{verifC06bBusy}, true)
	defer e.cleanup()
	e.s.fsmSnapshot()
	e.check([][]byte{verifC06bPayload(0)})
}
