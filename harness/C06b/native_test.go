package store

import (
	"github.com/rqlite/rqlite/v10/command/proto"
	sql "github.com/rqlite/rqlite/v10/db"
)

// Native side of C06b: a real WAL-mode database; with walHasData one committed write sits in the WAL,
// otherwise the WAL file is empty (as after a successful TRUNCATE checkpoint).
func init() {
	verifC06bOpenNative = func(path string, walHasData bool) *sql.SwappableDB {
		db, err := sql.OpenSwappable(path, nil, false, true, 2)
		if err != nil {
			panic(err)
		}
		if walHasData {
			r, err := db.Execute(&proto.Request{Statements: []*proto.Statement{{Sql: "CREATE TABLE foo (id INTEGER NOT NULL PRIMARY KEY, v TEXT)"}}}, false)
			if err != nil || len(r) != 1 || r[0].GetError() != "" {
				panic("verif: cannot fill the native database")
			}
		}
		return db
	}
}
