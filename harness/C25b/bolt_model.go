package cdc

// bbolt model for the symbolic run: a verbatim copy of the model section of
// /verif/harness/C26/harness.go (C26 decides the queue against it; see the assumptions there).
// A database file is a list of buckets, a bucket an ordered key/value list, Update is
// all-or-nothing, View sees the last committed state, byte slices handed out by a transaction
// are overwritten when it ends. The native replay runs the real bbolt on a temporary file.

import (
	"encoding/binary"
	"errors"
	"os"

	"go.etcd.io/bbolt"
)

// ---------------------------------------------------------------- bbolt model (symbolic run only)

type verifKV struct {
	key []byte
	ik  uint64 // value of an 8-byte key (big endian): byte order = numeric order
	val []byte
}

type verifMBucket struct {
	name string
	kvs  []verifKV
	gen  int // bumped by every Put/Delete (cursor validity)
}

// verifMFile is a database file on disk: the committed state.
type verifMFile struct {
	path     string
	buckets  []*verifMBucket
	lockedBy *verifMDB
}

type verifMDB struct {
	db         *bbolt.DB
	file       *verifMFile
	open       bool
	failCommit bool // the next Update fails at commit (after its function returned nil)
	failed     int
}

type verifMTx struct {
	tx       *bbolt.Tx
	mdb      *verifMDB
	buckets  []*verifMBucket
	writable bool
	live     bool
	handed   [][]byte
}

type verifMBkt struct {
	b   *bbolt.Bucket
	mtx *verifMTx
	mb  *verifMBucket
}

type verifMCur struct {
	c   *bbolt.Cursor
	bk  *verifMBkt
	pos int
	gen int
}

var verifDisk []*verifMFile
var verifDBs []*verifMDB
var verifTxs []*verifMTx
var verifBkts []*verifMBkt
var verifCurs []*verifMCur

var verifErrDBNotOpen = errors.New("verif bbolt model: database not open")
var verifErrTimeout = errors.New("verif bbolt model: timeout (file locked by another open handle)")
var verifErrTxNotWritable = errors.New("verif bbolt model: tx not writable")
var verifErrTxClosed = errors.New("verif bbolt model: tx closed")
var verifErrKeyRequired = errors.New("verif bbolt model: key required")
var verifErrCommit = errors.New("verif bbolt model: commit failed (database reached maximum size)")

func verifResetModel() {
	verifDisk, verifDBs, verifTxs, verifBkts, verifCurs = nil, nil, nil, nil, nil
}

func verifFileOf(path string, create bool) *verifMFile {
	for _, f := range verifDisk {
		if f.path == path {
			return f
		}
	}
	if !create {
		return nil
	}
	f := &verifMFile{path: path}
	verifDisk = append(verifDisk, f)
	return f
}

func verifDBOf(db *bbolt.DB) *verifMDB {
	for _, m := range verifDBs {
		if m.db == db {
			return m
		}
	}
	panic("verif bbolt model: unknown *bbolt.DB")
}

func verifTxOf(tx *bbolt.Tx) *verifMTx {
	for _, m := range verifTxs {
		if m.tx == tx {
			return m
		}
	}
	panic("verif bbolt model: unknown *bbolt.Tx")
}

func verifBktOf(b *bbolt.Bucket) *verifMBkt {
	for _, m := range verifBkts {
		if m.b == b {
			return m
		}
	}
	panic("verif bbolt model: unknown *bbolt.Bucket")
}

func verifCurOf(c *bbolt.Cursor) *verifMCur {
	for _, m := range verifCurs {
		if m.c == c {
			return m
		}
	}
	panic("verif bbolt model: unknown *bbolt.Cursor")
}

func verifCloneBuckets(bs []*verifMBucket) []*verifMBucket {
	out := make([]*verifMBucket, 0, len(bs))
	for _, b := range bs {
		nb := &verifMBucket{name: b.name, kvs: make([]verifKV, len(b.kvs))}
		copy(nb.kvs, b.kvs) // keys and values are never modified in place
		out = append(out, nb)
	}
	return out
}

func verifCopyBytes(b []byte) []byte {
	out := make([]byte, len(b))
	copy(out, b)
	return out
}

func verifIK(k []byte) uint64 {
	if len(k) == 8 {
		return binary.BigEndian.Uint64(k)
	}
	return 0
}

// verifCmpKey compares the stored pair's key with key (byte-wise order): -1, 0, 1.
func verifCmpKey(kv *verifKV, key []byte, ik uint64) int {
	if len(kv.key) == 8 && len(key) == 8 {
		if kv.ik < ik {
			return -1
		}
		if kv.ik == ik {
			return 0
		}
		return 1
	}
	n := len(kv.key)
	if len(key) < n {
		n = len(key)
	}
	for i := 0; i < n; i++ {
		if kv.key[i] < key[i] {
			return -1
		}
		if kv.key[i] > key[i] {
			return 1
		}
	}
	if len(kv.key) < len(key) {
		return -1
	}
	if len(kv.key) > len(key) {
		return 1
	}
	return 0
}

func verifBoltOpen(path string, mode os.FileMode, o *bbolt.Options) (*bbolt.DB, error) {
	f := verifFileOf(path, true)
	if f.lockedBy != nil {
		return nil, verifErrTimeout
	}
	m := &verifMDB{db: &bbolt.DB{}, file: f, open: true}
	f.lockedBy = m
	verifDBs = append(verifDBs, m)
	return m.db, nil
}

func verifBoltClose(db *bbolt.DB) error {
	m := verifDBOf(db)
	if m.open {
		m.open = false
		m.file.lockedBy = nil
	}
	return nil
}

func verifBeginTx(m *verifMDB, writable bool) *verifMTx {
	mtx := &verifMTx{tx: &bbolt.Tx{}, mdb: m, writable: writable, live: true}
	if writable {
		mtx.buckets = verifCloneBuckets(m.file.buckets)
	} else {
		mtx.buckets = m.file.buckets
	}
	verifTxs = append(verifTxs, mtx)
	return mtx
}

// verifEndTx: memory handed out by a transaction is only valid for its life.
func verifEndTx(mtx *verifMTx) {
	mtx.live = false
	for _, b := range mtx.handed {
		for i := range b {
			b[i] = 0xEE
		}
	}
	mtx.handed = nil
	// forget the handles of finished transactions (keeps the look-ups short); a later use of
	// one of them panics with "unknown ..."
	txs := verifTxs[:0:0]
	for _, t := range verifTxs {
		if t.live {
			txs = append(txs, t)
		}
	}
	verifTxs = txs
	bks := verifBkts[:0:0]
	for _, b := range verifBkts {
		if b.mtx.live {
			bks = append(bks, b)
		}
	}
	verifBkts = bks
	cs := verifCurs[:0:0]
	for _, c := range verifCurs {
		if c.bk.mtx.live {
			cs = append(cs, c)
		}
	}
	verifCurs = cs
}

func verifBoltUpdate(db *bbolt.DB, fn func(*bbolt.Tx) error) error {
	m := verifDBOf(db)
	if !m.open {
		return verifErrDBNotOpen
	}
	mtx := verifBeginTx(m, true)
	err := fn(mtx.tx)
	if err == nil && m.failCommit {
		m.failed++
		err = verifErrCommit
	}
	if err == nil {
		m.file.buckets = mtx.buckets
	}
	verifEndTx(mtx)
	return err
}

func verifBoltView(db *bbolt.DB, fn func(*bbolt.Tx) error) error {
	m := verifDBOf(db)
	if !m.open {
		return verifErrDBNotOpen
	}
	mtx := verifBeginTx(m, false)
	err := fn(mtx.tx)
	verifEndTx(mtx)
	return err
}

func verifNewBkt(mtx *verifMTx, mb *verifMBucket) *bbolt.Bucket {
	bk := &verifMBkt{b: &bbolt.Bucket{}, mtx: mtx, mb: mb}
	verifBkts = append(verifBkts, bk)
	return bk.b
}

func verifBoltTxBucket(tx *bbolt.Tx, name []byte) *bbolt.Bucket {
	mtx := verifTxOf(tx)
	for _, mb := range mtx.buckets {
		if mb.name == string(name) {
			return verifNewBkt(mtx, mb)
		}
	}
	return nil
}

func verifBoltTxCreateBucketIfNotExists(tx *bbolt.Tx, name []byte) (*bbolt.Bucket, error) {
	mtx := verifTxOf(tx)
	if !mtx.live {
		return nil, verifErrTxClosed
	}
	if !mtx.writable {
		return nil, verifErrTxNotWritable
	}
	if len(name) == 0 {
		return nil, verifErrKeyRequired
	}
	for _, mb := range mtx.buckets {
		if mb.name == string(name) {
			return verifNewBkt(mtx, mb), nil
		}
	}
	mb := &verifMBucket{name: string(name)}
	mtx.buckets = append(mtx.buckets, mb)
	return verifNewBkt(mtx, mb), nil
}

func verifHand(mtx *verifMTx, b []byte) []byte {
	c := verifCopyBytes(b)
	mtx.handed = append(mtx.handed, c)
	return c
}

func verifBoltBucketGet(b *bbolt.Bucket, key []byte) []byte {
	bk := verifBktOf(b)
	ik := verifIK(key)
	for i := range bk.mb.kvs {
		if verifCmpKey(&bk.mb.kvs[i], key, ik) == 0 {
			return verifHand(bk.mtx, bk.mb.kvs[i].val)
		}
	}
	return nil
}

func verifBoltBucketPut(b *bbolt.Bucket, key []byte, value []byte) error {
	bk := verifBktOf(b)
	if !bk.mtx.live {
		return verifErrTxClosed
	}
	if !bk.mtx.writable {
		return verifErrTxNotWritable
	}
	if len(key) == 0 {
		return verifErrKeyRequired
	}
	k, v := verifCopyBytes(key), verifCopyBytes(value)
	ik := verifIK(k)
	mb := bk.mb
	mb.gen++
	i := 0
	for i < len(mb.kvs) {
		c := verifCmpKey(&mb.kvs[i], k, ik)
		if c == 0 {
			mb.kvs[i] = verifKV{key: k, ik: ik, val: v}
			return nil
		}
		if c > 0 {
			break
		}
		i++
	}
	kvs := make([]verifKV, 0, len(mb.kvs)+1)
	kvs = append(kvs, mb.kvs[:i]...)
	kvs = append(kvs, verifKV{key: k, ik: ik, val: v})
	kvs = append(kvs, mb.kvs[i:]...)
	mb.kvs = kvs
	return nil
}

func verifBoltBucketDelete(b *bbolt.Bucket, key []byte) error {
	bk := verifBktOf(b)
	if !bk.mtx.live {
		return verifErrTxClosed
	}
	if !bk.mtx.writable {
		return verifErrTxNotWritable
	}
	ik := verifIK(key)
	mb := bk.mb
	for i := range mb.kvs {
		if verifCmpKey(&mb.kvs[i], key, ik) == 0 {
			mb.gen++
			kvs := make([]verifKV, 0, len(mb.kvs))
			kvs = append(kvs, mb.kvs[:i]...)
			kvs = append(kvs, mb.kvs[i+1:]...)
			mb.kvs = kvs
			return nil
		}
	}
	return nil
}

func verifBoltBucketStats(b *bbolt.Bucket) bbolt.BucketStats {
	bk := verifBktOf(b)
	return bbolt.BucketStats{KeyN: len(bk.mb.kvs)}
}

func verifBoltBucketCursor(b *bbolt.Bucket) *bbolt.Cursor {
	bk := verifBktOf(b)
	c := &verifMCur{c: &bbolt.Cursor{}, bk: bk, pos: -1, gen: bk.mb.gen}
	verifCurs = append(verifCurs, c)
	return c.c
}

func verifCurAt(c *verifMCur) ([]byte, []byte) {
	c.gen = c.bk.mb.gen
	if c.pos < 0 || c.pos >= len(c.bk.mb.kvs) {
		c.pos = len(c.bk.mb.kvs)
		return nil, nil
	}
	kv := &c.bk.mb.kvs[c.pos]
	return verifHand(c.bk.mtx, kv.key), verifHand(c.bk.mtx, kv.val)
}

func verifBoltCursorFirst(cur *bbolt.Cursor) ([]byte, []byte) {
	c := verifCurOf(cur)
	c.pos = 0
	return verifCurAt(c)
}

func verifBoltCursorNext(cur *bbolt.Cursor) ([]byte, []byte) {
	c := verifCurOf(cur)
	// bbolt: changing the bucket while iterating leaves the cursor position undefined
	// (https://github.com/etcd-io/bbolt/pull/611); the model refuses to guess.
	verifAssert("C25-bbolt-contract-no-change-while-iterating", c.gen == c.bk.mb.gen)
	c.pos++
	return verifCurAt(c)
}

func verifBoltCursorSeek(cur *bbolt.Cursor, seek []byte) ([]byte, []byte) {
	c := verifCurOf(cur)
	ik := verifIK(seek)
	kvs := c.bk.mb.kvs
	i := 0
	for i < len(kvs) && verifCmpKey(&kvs[i], seek, ik) < 0 {
		i++
	}
	c.pos = i
	return verifCurAt(c)
}
