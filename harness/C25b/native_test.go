package cdc

import (
	"io"
	"net/http"
	"net/http/httptest"
	"strings"
	"sync"
	"sync/atomic"
	"testing"
	"time"

	"github.com/rqlite/rqlite/v10/command/proto"
)

type c25Endpoint struct {
	mu     sync.Mutex
	bodies []string
	down   atomic.Bool
	refused atomic.Int64
}

func (e *c25Endpoint) ServeHTTP(w http.ResponseWriter, r *http.Request) {
	b, _ := io.ReadAll(r.Body)
	if e.down.Load() {
		e.refused.Add(1)
		w.WriteHeader(http.StatusServiceUnavailable)
		return
	}
	e.mu.Lock()
	e.bodies = append(e.bodies, string(b))
	e.mu.Unlock()
	w.WriteHeader(http.StatusOK)
}
func (e *c25Endpoint) all() string {
	e.mu.Lock()
	defer e.mu.Unlock()
	return strings.Join(e.bodies, "\n")
}

func c25Group(idx uint64, row int64) *proto.CDCIndexedEventGroup {
	return &proto.CDCIndexedEventGroup{Index: idx, Events: []*proto.CDCEvent{{Op: proto.CDCEvent_INSERT, Table: "t", NewRowId: row}}}
}

func c25Service(t *testing.T, url string, batchSz int) (*Service, *mockCluster) {
	cfg := DefaultConfig()
	cfg.Endpoint = url
	cfg.MaxBatchSz = batchSz
	cfg.MaxBatchDelay = 50 * time.Millisecond
	cfg.HighWatermarkInterval = 100 * time.Millisecond
	cfg.TransmitMinBackoff = 300 * time.Millisecond
	cfg.TransmitMaxBackoff = 300 * time.Millisecond
	cl := newMockCluster()
	svc, err := NewService("node1", t.TempDir(), cl, cfg)
	if err != nil {
		t.Fatal(err)
	}
	if err := svc.Start(); err != nil {
		t.Fatal(err)
	}
	return svc, cl
}

// Two groups of ONE log entry (index 7), batch size 1: two batches with the same highest index.
func Test_C25_SecondGroupOfEntry(t *testing.T) {
	ep := &c25Endpoint{}
	ts := httptest.NewServer(ep)
	defer ts.Close()
	svc, _ := c25Service(t, ts.URL, 1)
	defer svc.Stop()
	svc.SetLeader(true)
	svc.C() <- c25Group(7, 1001)
	svc.C() <- c25Group(7, 1002)
	time.Sleep(time.Second)
	got := ep.all()
	t.Logf("endpoint received:\n%s\nHWM=%d", got, svc.HighWatermark())
	if !strings.Contains(got, "1001") {
		t.Fatalf("first group not delivered")
	}
	if !strings.Contains(got, "1002") {
		t.Errorf("DEFECT REPRODUCED: second group of entry 7 (row 1002) never delivered; HWM=%d", svc.HighWatermark())
	}
}

// A transmission is in its retry wait when the node steps down; it becomes leader again.
func Test_C25_InFlightAtStepDown(t *testing.T) {
	ep := &c25Endpoint{}
	ts := httptest.NewServer(ep)
	defer ts.Close()
	svc, _ := c25Service(t, ts.URL, 1)
	defer svc.Stop()
	ep.down.Store(true)
	svc.SetLeader(true)
	svc.C() <- c25Group(3, 2001)
	for ep.refused.Load() == 0 {
		time.Sleep(5 * time.Millisecond)
	}
	svc.SetLeader(false) // during the 300 ms retry wait
	time.Sleep(50 * time.Millisecond)
	ep.down.Store(false)
	svc.SetLeader(true)
	svc.C() <- c25Group(4, 2002)
	time.Sleep(1500 * time.Millisecond)
	got := ep.all()
	t.Logf("endpoint received:\n%s\nHWM=%d fifoLen=%d", got, svc.HighWatermark(), svc.fifo.Len())
	if !strings.Contains(got, "2002") {
		t.Fatalf("second entry not delivered")
	}
	if !strings.Contains(got, "2001") {
		t.Errorf("DEFECT REPRODUCED: entry 3 (row 2001) never delivered although the node is leader and the endpoint is up; HWM=%d fifoLen=%d", svc.HighWatermark(), svc.fifo.Len())
	}
}
