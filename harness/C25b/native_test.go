package cdc

import (
	"io"
	"net/http"
	"net/http/httptest"
	"strconv"
	"strings"
	"sync"
	"sync/atomic"
	"testing"
	"time"

	"github.com/rqlite/rqlite/v10/command/proto"
)

type c25Endpoint struct {
	mu     sync.Mutex
	bodies []string
	down   atomic.Bool
	refused atomic.Int64
}

func (e *c25Endpoint) ServeHTTP(w http.ResponseWriter, r *http.Request) {
	b, _ := io.ReadAll(r.Body)
	if e.down.Load() {
		e.refused.Add(1)
		w.WriteHeader(http.StatusServiceUnavailable)
		return
	}
	e.mu.Lock()
	e.bodies = append(e.bodies, string(b))
	e.mu.Unlock()
	w.WriteHeader(http.StatusOK)
}
func (e *c25Endpoint) all() string {
	e.mu.Lock()
	defer e.mu.Unlock()
	return strings.Join(e.bodies, "\n")
}

func c25Group(idx uint64, row int64) *proto.CDCIndexedEventGroup {
	return &proto.CDCIndexedEventGroup{Index: idx, Events: []*proto.CDCEvent{{Op: proto.CDCEvent_INSERT, Table: "t", NewRowId: row}}}
}

func c25Service(t *testing.T, url string, batchSz int) (*Service, *mockCluster) {
	cfg := DefaultConfig()
	cfg.Endpoint = url
	cfg.MaxBatchSz = batchSz
	cfg.MaxBatchDelay = 50 * time.Millisecond
	cfg.HighWatermarkInterval = 100 * time.Millisecond
	cfg.TransmitMinBackoff = 300 * time.Millisecond
	cfg.TransmitMaxBackoff = 300 * time.Millisecond
	cl := newMockCluster()
	svc, err := NewService("node1", t.TempDir(), cl, cfg)
	if err != nil {
		t.Fatal(err)
	}
	if err := svc.Start(); err != nil {
		t.Fatal(err)
	}
	return svc, cl
}

// Two groups of ONE log entry (index 7), batch size 1: two batches with the same highest index.
func Test_C25_SecondGroupOfEntry(t *testing.T) {
	ep := &c25Endpoint{}
	ts := httptest.NewServer(ep)
	defer ts.Close()
	svc, _ := c25Service(t, ts.URL, 1)
	defer svc.Stop()
	svc.SetLeader(true)
	svc.C() <- c25Group(7, 1001)
	svc.C() <- c25Group(7, 1002)
	time.Sleep(time.Second)
	got := ep.all()
	t.Logf("endpoint received:\n%s\nHWM=%d", got, svc.HighWatermark())
	if !strings.Contains(got, "1001") {
		t.Fatalf("first group not delivered")
	}
	if !strings.Contains(got, "1002") {
		t.Errorf("DEFECT REPRODUCED: second group of entry 7 (row 1002) never delivered; HWM=%d", svc.HighWatermark())
	}
}

// A transmission is in its retry wait when the node steps down; it becomes leader again.
func Test_C25_InFlightAtStepDown(t *testing.T) {
	ep := &c25Endpoint{}
	ts := httptest.NewServer(ep)
	defer ts.Close()
	svc, _ := c25Service(t, ts.URL, 1)
	defer svc.Stop()
	ep.down.Store(true)
	svc.SetLeader(true)
	svc.C() <- c25Group(3, 2001)
	for ep.refused.Load() == 0 {
		time.Sleep(5 * time.Millisecond)
	}
	svc.SetLeader(false) // during the 300 ms retry wait
	time.Sleep(50 * time.Millisecond)
	ep.down.Store(false)
	svc.SetLeader(true)
	svc.C() <- c25Group(4, 2002)
	time.Sleep(1500 * time.Millisecond)
	got := ep.all()
	t.Logf("endpoint received:\n%s\nHWM=%d fifoLen=%d", got, svc.HighWatermark(), svc.fifo.Len())
	if !strings.Contains(got, "2002") {
		t.Fatalf("second entry not delivered")
	}
	if !strings.Contains(got, "2001") {
		t.Errorf("DEFECT REPRODUCED: entry 3 (row 2001) never delivered although the node is leader and the endpoint is up; HWM=%d fifoLen=%d", svc.HighWatermark(), svc.fifo.Len())
	}
}

func c25ServiceIn(t *testing.T, dir, url string, batchSz int, cl Cluster) *Service {
	cfg := DefaultConfig()
	cfg.Endpoint = url
	cfg.MaxBatchSz = batchSz
	cfg.MaxBatchDelay = 50 * time.Millisecond
	cfg.HighWatermarkInterval = 100 * time.Millisecond
	cfg.TransmitMinBackoff = 20 * time.Millisecond
	cfg.TransmitMaxBackoff = 20 * time.Millisecond
	svc, err := NewService("node1", dir, cl, cfg)
	if err != nil {
		t.Fatal(err)
	}
	if err := svc.Start(); err != nil {
		t.Fatal(err)
	}
	return svc
}

// The store hands over the groups of the entries it applied and requests the snapshot sync right
// away (fsmApply and fsmSnapshot run on one goroutine). With N groups still in the hand-off
// channel, writeToBatcher's select takes the request before the last group with probability
// 1 - 2^-N. After the answered sync the log is truncated: stop, start, become leader.
func Test_C25_SnapshotSyncOvertakesHandOff(t *testing.T) {
	ep := &c25Endpoint{}
	ts := httptest.NewServer(ep)
	defer ts.Close()
	dir := t.TempDir()
	cl := newMockCluster()
	svc := c25ServiceIn(t, dir, ts.URL, 100, cl)
	const n = 20
	for i := 1; i <= n; i++ {
		svc.C() <- c25Group(uint64(i), int64(3000+i))
	}
	if err := cl.RequestSnapshotSync(2 * time.Second); err != nil {
		t.Fatal(err)
	}
	inFIFO := svc.fifo.Len()
	svc.Stop() // the snapshot has truncated the log: nothing is applied again after the restart

	svc2 := c25ServiceIn(t, dir, ts.URL, 100, newMockCluster())
	defer svc2.Stop()
	svc2.SetLeader(true)
	time.Sleep(time.Second)
	got := ep.all()
	missing := 0
	for i := 1; i <= n; i++ {
		if !strings.Contains(got, strconv.Itoa(3000+i)) {
			missing++
		}
	}
	t.Logf("items in the FIFO when the sync was answered: %d; rows missing at the endpoint after restart: %d of %d", inFIFO, missing, n)
	if missing > 0 {
		t.Errorf("DEFECT REPRODUCED: %d of %d groups handed over BEFORE the answered snapshot sync never reach the endpoint", missing, n)
	}
}

type c25RecCluster struct {
	*mockCluster
	mu   sync.Mutex
	hwms []uint64
}

func (c *c25RecCluster) BroadcastHighWatermark(v uint64) error {
	c.mu.Lock()
	c.hwms = append(c.hwms, v)
	c.mu.Unlock()
	return nil
}

// Entries 3 and 4 sit in the FIFO as ONE item (key 4), never transmitted. After a restart the
// high watermark is "first key - 1" = 3, and the leader broadcasts it while the endpoint is down.
func Test_C25_StartupHWMGuessIsBroadcast(t *testing.T) {
	ep := &c25Endpoint{}
	ep.down.Store(true)
	ts := httptest.NewServer(ep)
	defer ts.Close()
	dir := t.TempDir()
	svc := c25ServiceIn(t, dir, ts.URL, 2, newMockCluster()) // follower
	svc.C() <- c25Group(3, 4003)
	svc.C() <- c25Group(4, 4004)
	for svc.fifo.Len() == 0 {
		time.Sleep(5 * time.Millisecond)
	}
	svc.Stop()

	cl := &c25RecCluster{mockCluster: newMockCluster()}
	svc2 := c25ServiceIn(t, dir, ts.URL, 2, cl)
	defer svc2.Stop()
	first, _ := svc2.fifo.FirstKey()
	t.Logf("after restart: FIFO first key %d, HighWatermark() %d", first, svc2.HighWatermark())
	svc2.SetLeader(true)
	time.Sleep(350 * time.Millisecond)
	cl.mu.Lock()
	hwms := append([]uint64(nil), cl.hwms...)
	cl.mu.Unlock()
	t.Logf("endpoint accepted %d requests, refused %d; broadcasts: %v", len(ep.bodies), ep.refused.Load(), hwms)
	for _, v := range hwms {
		if v >= 3 && !strings.Contains(ep.all(), "4003") {
			t.Fatalf("DEFECT REPRODUCED: high watermark %d broadcast although entry 3 (row 4003) was never sent", v)
		}
	}
}
