package cdc

// C25 (part b, package cdc): the CDC service delivers every event group it is handed, labelled
// with the index of its log entry, at least once.
//
// The real Service (NewService, Start, Stop, writeToBatcher, mainLoop with the batcher arm and its
// highest-index computation, leaderLoop with retries and the high-watermark, leaderHWMLoop and
// followerLoop pruning), the real batching queue (package queue), the real disk queue (fifo.go,
// decided on its own by C26) and the real envelope builder (cdc/json.MarshalToEnvelopeJSON) run
// under a scripted environment:
//   - the event source is the harness: it plays store.fsmApply + db.CDCStreamer AS SPECIFIED
//     (every group of a log entry carries the entry's index; harness/C25 decides the streamer and
//     records where the real one deviates). Log entries have increasing indexes and 1..2 groups
//     (one per SQLite commit of the entry), every group has one row event with a unique row id;
//   - the Cluster interface is a harness type (leader changes, snapshot sync, HWM updates from /
//     broadcasts to the other nodes);
//   - the endpoint is a Sink recording every payload; it can be made to fail the next writes;
//   - time is the model clock; the harness performs one stimulus at a time and lets every
//     goroutine come to rest before the next one. One stimulus is itself a race: "burst +
//     snapshot sync" writes the groups of several hand-overs into the hand-off channel back to
//     back and requests the snapshot sync at once, as store.fsmApply / fsmSnapshot do (one
//     goroutine of Raft); the entries VerifC25bSnapshotRace* explore it with both outcomes of
//     every select that has several ready cases and with preemptions (verifSchedWindow), and
//     replay natively with the forced schedule and forced select choices (spec "force_select").
//     The entries VerifC25bBusyEndpoint* make the endpoint slow (a transmission is answered when
//     the harness says so): there the stimuli arrive while the leader loop is inside sink.Write.
//
// Oracle (property statement, cdc/DESIGN.md, doc comments of the Service fields):
//   - every message delivered to the endpoint is one of the groups handed to the service, with the
//     index of its log entry and exactly its row events;
//   - within one leader tenure the delivered indexes never decrease;
//   - a high watermark v is only announced to the cluster when every group of entries <= v that
//     this node was handed has been delivered (by this node, or - as far as an HWM update received
//     from the cluster says - by another leader): followers delete what the HWM covers;
//   - once a snapshot sync was answered, the groups handed over before it survive a restart
//     (the log that produced them is truncated; only later entries are applied again); and at the
//     moment the answer arrives they are in the disk queue (cdc/DESIGN.md, "Snapshot
//     Synchronization"), unless delivered or covered by an HWM update from the cluster;
//   - finally (node is leader, endpoint healthy, time passes): every group handed to the service
//     whose entry is not covered by an HWM update from the cluster has been delivered.

import (
	"encoding/binary"
	"errors"
	"os"
	"sync/atomic"
	"time"

	cdcjson "github.com/rqlite/rqlite/v10/cdc/json"
	"github.com/rqlite/rqlite/v10/command/proto"
	"github.com/rqlite/rqlite/v10/internal/rarchive/flate"
	"go.etcd.io/bbolt"
)

// ---------------------------------------------------------------- models for the symbolic run

// verifC25JSONMarshal stands for encoding/json.Marshal of the envelope (reflection cannot be
// executed): a fixed binary layout. The recording endpoint decodes it again; natively the real
// JSON is produced and decoded.
//
//	0xE7, number of messages, then per message: index (8 bytes), number of events, per event the new row id (8 bytes)
func verifC25JSONMarshal(v any) ([]byte, error) {
	env, ok := v.(*cdcjson.CDCMessagesEnvelope)
	if !ok {
		return nil, errors.New("verif: json.Marshal model only knows the CDC envelope")
	}
	out := []byte{0xE7, byte(len(env.Payload))}
	for _, m := range env.Payload {
		out = binary.BigEndian.AppendUint64(out, m.Index)
		out = append(out, byte(len(m.Events)))
		for _, e := range m.Events {
			out = binary.BigEndian.AppendUint64(out, uint64(e.NewRowID))
		}
	}
	return out, nil
}

// flate: an invertible framing (the FIFO stores what Compress returned, the leader loop sends what
// Decompress makes of it).
func verifC25Compress(data []byte) ([]byte, error) {
	out := make([]byte, 0, len(data)+1)
	out = append(out, 0xC5)
	return append(out, data...), nil
}

func verifC25Decompress(data []byte) ([]byte, error) {
	if len(data) == 0 || data[0] != 0xC5 {
		return nil, errors.New("verif: flate model: corrupt input")
	}
	out := make([]byte, len(data)-1)
	copy(out, data[1:])
	return out, nil
}

// verifSchedWindow(n): engine API (engine/sym/intr_C25b.go), natively nothing. n >= 0: from here
// on a running goroutine can lose the processor at a synchronisation operation, to any other
// runnable goroutine, up to n times (whatever the entry's configuration says; when it blocks, the
// first runnable goroutine continues as before); -1: back to the entry's configuration.
func verifSchedWindow(n int) {}

func verifC25MkdirAll(path string, perm os.FileMode) error { return nil }
func verifC25Stat(name string) (os.FileInfo, error)       { return nil, os.ErrNotExist }

// ---------------------------------------------------------------- environment

type verifC25Msg struct {
	index uint64
	rows  []int64
}

func verifC25Decode(p []byte) ([]verifC25Msg, bool) {
	var out []verifC25Msg
	if verifSymbolic() {
		if len(p) < 2 || p[0] != 0xE7 {
			return nil, false
		}
		n, pos := int(p[1]), 2
		for i := 0; i < n; i++ {
			if pos+9 > len(p) {
				return nil, false
			}
			m := verifC25Msg{index: binary.BigEndian.Uint64(p[pos:])}
			ne := int(p[pos+8])
			pos += 9
			for j := 0; j < ne; j++ {
				if pos+8 > len(p) {
					return nil, false
				}
				m.rows = append(m.rows, int64(binary.BigEndian.Uint64(p[pos:])))
				pos += 8
			}
			out = append(out, m)
		}
		return out, pos == len(p)
	}
	var env cdcjson.CDCMessagesEnvelope
	if err := cdcjson.UnmarshalFromEnvelopeJSON(p, &env); err != nil {
		return nil, false
	}
	for _, m := range env.Payload {
		msg := verifC25Msg{index: m.Index}
		for _, e := range m.Events {
			msg.rows = append(msg.rows, e.NewRowID)
		}
		out = append(out, msg)
	}
	return out, true
}

// verifC25Sink is the recording endpoint.
type verifC25Sink struct {
	w        *verifC25World
	down     bool // outage: every write fails
	failNext int
	failed   int
	writes   int

	// hold: the endpoint answers a transmission only when the harness lets it (answer): the caller
	// - the leader loop - stays inside Write meanwhile. Whether the answer is a success or a failure
	// is decided when it is given.
	hold    bool
	gate    chan struct{}
	waiting int // transmissions waiting for their answer
}

var verifC25ErrEndpoint = errors.New("verif: endpoint unavailable")

func (s *verifC25Sink) Write(p []byte) (int, error) {
	tenure := s.w.tenure
	if s.hold {
		s.waiting++
		<-s.gate
	}
	if s.down || s.failNext > 0 {
		if !s.down {
			s.failNext--
		}
		s.failed++
		s.w.refused = append(s.w.refused, append([]byte(nil), p...))
		return 0, verifC25ErrEndpoint
	}
	s.writes++
	// recorded here (a service goroutine), judged by the harness goroutine (check)
	s.w.payloads = append(s.w.payloads, verifC25Payload{data: append([]byte(nil), p...), tenure: tenure})
	s.w.nPayloads.Add(1)
	return len(p), nil
}
func (s *verifC25Sink) Close() error   { return nil }
func (s *verifC25Sink) String() string { return "verif-recording-endpoint" }

// verifC25Cluster is the Cluster the service talks to.
type verifC25Cluster struct {
	w        *verifC25World
	leaderCh chan<- bool
	snapCh   chan<- chan struct{}
	hwmCh    chan<- uint64
}

func (c *verifC25Cluster) RegisterLeaderChange(ch chan<- bool)           { c.leaderCh = ch }
func (c *verifC25Cluster) RegisterSnapshotSync(ch chan<- chan struct{}) { c.snapCh = ch }
func (c *verifC25Cluster) RegisterHWMUpdate(ch chan<- uint64)            { c.hwmCh = ch }
func (c *verifC25Cluster) BroadcastHighWatermark(v uint64) error {
	c.w.announces = append(c.w.announces, verifC25Announce{hwm: v, nPayloads: int(c.w.nPayloads.Load())})
	return nil
}

// ---------------------------------------------------------------- the world and its reference model

const (
	verifC25Q          = 10 * time.Millisecond // retry back-off; every harness step is a multiple
	verifC25BatchDelay = 2 * verifC25Q
	verifC25HWMEvery   = 4 * verifC25Q
	verifC25Skew       = time.Millisecond // leader changes happen off the 10 ms grid (see setLeader)
)

// the indexes of the log entries that change rows (a consecutive pair and a gap)
var verifC25Indexes = []uint64{3, 4, 6, 9}

type verifC25Group struct {
	entry     int // position in verifC25Indexes
	index     uint64
	nth       int // 0: first group of its entry
	row       int64
	delivered bool
	refused   bool // a transmission containing the group failed (on this incarnation of the service)
	rushed    bool // handed over in a burst: the next stimulus (a snapshot sync) followed before the service came to rest
	synced    bool // handed over before a snapshot sync that was answered
	abandoned bool // ... and the node stepped down before any transmission of it succeeded
}

type verifC25Payload struct {
	data   []byte
	tenure int
}

type verifC25Announce struct {
	hwm       uint64
	nPayloads int // payloads the endpoint had accepted when the HWM was announced
}

type verifC25World struct {
	// written by service goroutines (endpoint: leader loop; announcements: HWM loop), read by the
	// harness goroutine when everything is at rest
	payloads  []verifC25Payload
	nPayloads atomic.Int64
	announces []verifC25Announce
	refused   [][]byte // payloads the endpoint refused
	seenPay   int
	seenAnn   int
	seenRef   int

	dir     string
	batchSz int
	svc     *Service
	clstr   *verifC25Cluster
	sink    *verifC25Sink

	leader bool
	tenure int

	groups    []*verifC25Group // handed to the service, in order
	curEntry  int              // entry the next "more" group belongs to (-1: none / closed)
	nextEntry int
	snapPoint int // groups[:snapPoint] were handed over before the last answered snapshot sync
	restarted bool

	clusterHWM uint64 // largest HWM update received from the cluster: other leaders delivered everything <= it

	window    int  // >= 0: a burst and its snapshot sync run with every order of the runnable goroutines and up to so many preemptions
	burst     bool // hand() does not wait for the service to come to rest (the next stimulus races with it)
	confirmed bool // this incarnation of the service has had a transmission accepted or an HWM update from the cluster

	lastTenure    int
	lastDelivered uint64
	anyDelivered  bool
}

func verifNewC25World(batchSz int) *verifC25World {
	verifResetModel()
	w := &verifC25World{batchSz: batchSz, curEntry: -1, window: -1}
	if verifSymbolic() {
		w.dir = "/verif-c25"
	} else {
		d, err := os.MkdirTemp("", "verif-c25-")
		if err != nil {
			panic(err)
		}
		w.dir = d
	}
	w.clstr = &verifC25Cluster{w: w}
	w.sink = &verifC25Sink{w: w, gate: make(chan struct{})}
	verifSetClock(1_000_000_000_000)
	w.boot()
	return w
}

// boot creates and starts a service on the node's directory (first start or restart).
func (w *verifC25World) boot() {
	cfg := &Config{
		Endpoint:              "stdout",
		MaxBatchSz:            w.batchSz,
		MaxBatchDelay:         verifC25BatchDelay,
		HighWatermarkInterval: verifC25HWMEvery,
		TransmitTimeout:       time.Second,
		TransmitRetryPolicy:   LinearRetryPolicy,
		TransmitMinBackoff:    verifC25Q,
		TransmitMaxBackoff:    verifC25Q,
	}
	svc, err := NewService("node1", w.dir, w.clstr, cfg)
	verifAssert("C25-service-created", err == nil && svc != nil)
	svc.sink = w.sink // the endpoint ("stdout" only selects a sink that needs no network)
	verifAssert("C25-service-starts", svc.Start() == nil)
	w.svc = svc
	w.leader = false // a service starts as follower
	w.confirmed = false
	w.settle()
}

// stopService stops the service (the node stops). Stop leaves the batcher's goroutine behind; it
// is ended here - if it is waiting to pass a batch on to the main loop that no longer exists, the
// batch (in memory only) is taken from it first.
func (w *verifC25World) stopService() {
	w.answerAll() // Stop waits for the leader loop, the leader loop for the endpoint's answer
	w.svc.Stop()
	for i := 0; i < 4; i++ {
		verifSettle()
		select {
		case r := <-w.svc.batcher.C:
			r.Close()
		default:
		}
	}
	w.svc.batcher.Close()
	w.svc = nil
}

func (w *verifC25World) finish() {
	if w.window >= 0 {
		verifSchedWindow(-1)
	}
	if w.svc != nil {
		w.stopService()
	}
	verifSettle()
	if !verifSymbolic() {
		os.RemoveAll(w.dir)
	}
}

// answer: the endpoint answers the oldest transmission it is holding (the leader loop returns from
// Write); false: it holds none.
func (w *verifC25World) answer() bool {
	if w.sink.waiting == 0 {
		return false
	}
	verifReach("held-transmission-answered")
	w.sink.waiting--
	w.sink.gate <- struct{}{}
	w.settle()
	return true
}

// answerAll: the endpoint stops holding transmissions and answers those it holds.
func (w *verifC25World) answerAll() {
	w.sink.hold = false
	for w.answer() {
	}
}

// covered: an HWM update from the cluster said that another leader delivered entry index.
func (w *verifC25World) covered(index uint64) bool { return index <= w.clusterHWM }

// laterGroup: recorded defect class - the group is not the first group of its log entry (the
// service keys batches, the FIFO, and the high watermark by index alone, so it takes the later
// groups of an entry for repetitions of the first).
func (w *verifC25World) laterGroup(g *verifC25Group) bool { return g.nth > 0 }

// settle lets every goroutine come to rest and judges what the endpoint and the cluster saw.
func (w *verifC25World) settle() {
	verifSettle()
	for ; w.seenAnn < len(w.announces); w.seenAnn++ {
		a := w.announces[w.seenAnn]
		for w.seenPay < a.nPayloads {
			w.delivered(w.payloads[w.seenPay])
			w.seenPay++
		}
		w.announced(a.hwm)
	}
	for ; w.seenPay < len(w.payloads); w.seenPay++ {
		w.delivered(w.payloads[w.seenPay])
	}
	for ; w.seenRef < len(w.refused); w.seenRef++ {
		msgs, ok := verifC25Decode(w.refused[w.seenRef])
		verifAssert("C25-payload-well-formed", ok)
		for _, m := range msgs {
			for _, g := range w.groups {
				if len(m.rows) == 1 && g.row == m.rows[0] && !g.delivered {
					g.refused = true
				}
			}
		}
	}
}

// inFlightAtStepDown: recorded defect class - a transmission of the group failed and the node
// stepped down before the retry: the leader loop ends in its retry wait and forgets the batch it
// took from the FIFO, which offers every item once per incarnation; a later tenure of the same
// incarnation never sees it again.
func (w *verifC25World) inFlightAtStepDown(g *verifC25Group) bool { return g.abandoned }

// undelivered judges a group that should have been delivered by now and was not.
func (w *verifC25World) undelivered(g *verifC25Group, id string) {
	if w.laterGroup(g) {
		verifFinding("C25-later-group-of-entry-not-delivered")
	}
	if w.inFlightAtStepDown(g) {
		verifFinding("C25-in-flight-batch-forgotten-at-step-down")
	}
	if w.overtakenBySnapshotSync(g) {
		verifFinding("C25-snapshot-sync-overtakes-groups-in-hand-off-channel")
	}
	verifAssert(id, false)
}

// overtakenBySnapshotSync: recorded defect class - the group was still in the hand-off channel
// (the service had not come to rest) when the snapshot sync was requested; the sync was answered,
// the node restarted, and the group is in neither the disk queue nor the log.
func (w *verifC25World) overtakenBySnapshotSync(g *verifC25Group) bool {
	return g.rushed && g.synced && w.restarted
}

// startupGuessAnnounced: recorded defect class - the announced high watermark is the value
// NewService derived from the disk queue (first key - 1): since this incarnation started, no
// transmission succeeded and no HWM update arrived from the cluster.
func (w *verifC25World) startupGuessAnnounced() bool { return w.restarted && !w.confirmed }

// delivered: the endpoint accepted payload p.
func (w *verifC25World) delivered(p verifC25Payload) {
	msgs, ok := verifC25Decode(p.data)
	verifAssert("C25-payload-well-formed", ok)
	verifAssert("C25-payload-not-empty", len(msgs) > 0)
	w.confirmed = true
	for _, m := range msgs {
		// the message is one of the groups handed over, labelled with its entry's index
		verifAssert("C25-message-has-one-row-event", len(m.rows) == 1)
		var g *verifC25Group
		for _, x := range w.groups {
			if x.row == m.rows[0] {
				g = x
			}
		}
		verifAssert("C25-message-is-a-handed-over-group", g != nil)
		verifAssert("C25-message-labelled-with-entry-index", m.index == g.index)
		if w.anyDelivered && w.lastTenure == p.tenure {
			verifAssert("C25-deliveries-non-decreasing-within-tenure", m.index >= w.lastDelivered)
		}
		w.anyDelivered, w.lastTenure, w.lastDelivered = true, p.tenure, m.index
		if g.delivered {
			verifReach("delivered-again")
		}
		g.delivered = true
	}
}

// announced: the service broadcast high watermark v to the cluster.
func (w *verifC25World) announced(v uint64) {
	verifReach("hwm-broadcast")
	verifAssert("C25-announced-hwm-not-zero", v != 0)
	for _, g := range w.groups {
		if g.index <= v && !g.delivered && !w.covered(g.index) {
			if w.startupGuessAnnounced() && !w.laterGroup(g) {
				verifFinding("C25-hwm-guessed-at-startup-is-announced")
			}
			w.undelivered(g, "C25-hwm-announced-only-for-delivered-entries")
		}
	}
}

// tick lets d (a multiple of 10 ms) pass. Batch and retry timers expire on the 10 ms grid, the HWM
// ticker of a tenure 1 ms after it (see setLeader): the two instants of every 10 ms are visited one
// after the other, so that the symbolic clock fires timers in the order of the native one.
func (w *verifC25World) tick(d time.Duration) {
	for ; d > 0; d -= verifC25Q {
		verifAdvanceClock(int64(verifC25Skew))
		w.settle()
		verifAdvanceClock(int64(verifC25Q - verifC25Skew))
		w.settle()
	}
}

func (w *verifC25World) hand(g *verifC25Group) {
	ev := &proto.CDCEvent{Op: proto.CDCEvent_INSERT, Table: "t", NewRowId: g.row}
	w.svc.C() <- &proto.CDCIndexedEventGroup{Index: g.index, Events: []*proto.CDCEvent{ev}, CommitTimestamp: 1}
	if w.burst {
		// like store.fsmApply: the group sits in the hand-off channel and the store goes on
		g.rushed = true
		return
	}
	w.settle()
}

// feed hands the next group to the service: the first group of the next entry, or (more) a
// further group of the current entry.
func (w *verifC25World) feed(more bool) bool {
	if more {
		if w.curEntry < 0 {
			return false
		}
		n := 0
		for _, g := range w.groups {
			if g.entry == w.curEntry {
				n++
			}
		}
		if n >= 2 {
			return false
		}
		verifReach("second-group-of-entry")
		g := &verifC25Group{entry: w.curEntry, index: verifC25Indexes[w.curEntry], nth: n, row: int64(100 + len(w.groups))}
		w.groups = append(w.groups, g)
		w.hand(g)
		return true
	}
	if w.nextEntry >= len(verifC25Indexes) {
		return false
	}
	w.curEntry = w.nextEntry
	w.nextEntry++
	g := &verifC25Group{entry: w.curEntry, index: verifC25Indexes[w.curEntry], row: int64(100 + len(w.groups))}
	w.groups = append(w.groups, g)
	w.hand(g)
	return true
}

func (w *verifC25World) setLeader(on bool) {
	if on == w.leader {
		return
	}
	if on {
		// off the grid: the HWM ticker of this tenure never fires at the same instant as a
		// batch or retry timer (which instant wins would be the scheduler's choice)
		verifAdvanceClock(int64(verifC25Skew))
		w.settle()
		w.tenure++
	}
	w.leader = on
	w.clstr.leaderCh <- on
	w.settle()
	if !on && w.sink.waiting > 0 {
		// mainLoop has closed the leader loop's stop channel and waits for it; it is inside Write
		verifReach("step-down-during-transmission")
	}
	if !on {
		for _, g := range w.groups {
			if g.refused && !g.delivered {
				g.abandoned = true
				verifReach("step-down-during-retry")
			}
		}
	}
	if on {
		verifAdvanceClock(int64(verifC25Q - verifC25Skew))
		w.settle()
	}
}

// snapshotSync: the store is about to snapshot (and truncate the log) and asks the service to
// make what it was handed durable first.
func (w *verifC25World) snapshotSync() {
	ch := make(chan struct{})
	w.clstr.snapCh <- ch
	// like rsync.SyncChannels.Sync: wait for the answer, at most one second (store.fsmSnapshot)
	answered := false
	limit := time.NewTimer(time.Second)
	select {
	case <-ch:
		answered = true
	case <-limit.C:
	}
	limit.Stop()
	// cdc/DESIGN.md, Snapshot Synchronization: "This ensures all committed changes are safely in
	// the BoltDB FIFO before any Raft log truncation occurs" - read at the very moment the answer
	// arrives (the store goes on to snapshot and truncate), not after the service came to rest
	var durable []int64
	if answered {
		durable = w.durableRows()
	}
	w.settle()
	if w.window >= 0 {
		verifSchedWindow(-1)
	}
	verifAssert("C25-snapshot-sync-answered", answered)
	verifReach("snapshot-sync")
	w.snapPoint = len(w.groups)
	for _, g := range w.groups {
		g.synced = true
	}
	// what is not in the disk queue was delivered (and pruned) already, or an HWM update from the
	// cluster says that another leader delivered it
	for _, g := range w.groups {
		if g.delivered || w.covered(g.index) {
			continue
		}
		found := false
		for _, r := range durable {
			if r == g.row {
				found = true
			}
		}
		if !found {
			if w.laterGroup(g) {
				verifFinding("C25-later-group-of-entry-not-delivered")
			}
			if g.rushed {
				verifFinding("C25-snapshot-sync-overtakes-groups-in-hand-off-channel")
			}
			verifAssert("C25-answered-snapshot-sync-means-durable", false)
		}
	}
	w.curEntry = -1 // snapshots happen between log entries
}

// durableRows reads the disk queue (white box: the bbolt file behind cdc.Queue, while the queue's
// goroutine is at rest) and returns the row ids of the groups stored in it.
func (w *verifC25World) durableRows() []int64 {
	var rows []int64
	err := w.svc.fifo.db.View(func(tx *bbolt.Tx) error {
		c := tx.Bucket(bucketName).Cursor()
		for k, v := c.First(); k != nil; k, v = c.Next() {
			data, err := flate.Decompress(v)
			if err != nil {
				return err
			}
			msgs, ok := verifC25Decode(data)
			verifAssert("C25-stored-batch-well-formed", ok)
			for _, m := range msgs {
				rows = append(rows, m.rows...)
			}
		}
		return nil
	})
	verifAssert("C25-disk-queue-readable", err == nil)
	return rows
}

// restart: the node stops and starts again; Raft applies the entries after the last snapshot
// again (same indexes, same groups).
func (w *verifC25World) restart() {
	verifReach("restart")
	w.stopService()
	w.restarted = true
	w.curEntry = -1
	for _, g := range w.groups {
		g.refused, g.abandoned = false, false // a new incarnation reads its FIFO from the start
	}
	w.boot()
	for _, g := range w.groups[w.snapPoint:] {
		w.hand(g)
	}
}

// clusterUpdate: another node is leader and announces that everything up to v was delivered.
func (w *verifC25World) clusterUpdate(v uint64) {
	verifReach("hwm-from-cluster")
	if v > w.clusterHWM {
		w.clusterHWM = v
	}
	w.confirmed = true
	w.clstr.hwmCh <- v
	w.settle()
}

// epilogue: the node is (or becomes) leader, the endpoint is healthy, time passes.
func (w *verifC25World) epilogue(twin bool) {
	w.sink.failNext, w.sink.down = 0, false
	w.answerAll()
	w.setLeader(true)
	w.tick(2 * verifC25HWMEvery)
	if twin {
		for _, g := range w.groups {
			verifAssert("C25-twin-nothing-delivered", !g.delivered)
		}
		return
	}
	for _, g := range w.groups {
		if g.delivered || w.covered(g.index) {
			continue
		}
		w.undelivered(g, "C25-every-group-delivered")
	}
	verifReach("all-delivered")
	// the node's high watermark never runs ahead of what exists
	hwm, top := w.svc.HighWatermark(), w.clusterHWM
	for _, g := range w.groups {
		if g.index > top {
			top = g.index
		}
	}
	verifAssert("C25-hwm-not-beyond-the-log", hwm <= top)
}

const (
	vC25Feed = iota
	vC25FeedMore
	vC25TickBatch
	vC25Leader
	vC25FailNext
	vC25Snapshot
	vC25Restart
	vC25TickHWM
	vC25ClusterHWM
	vC25Outage
	vC25BurstSnapshot
	vC25Hold
	vC25Answer
	vC25NumOps
)

// step performs one operation chosen from ops; false: not applicable in this state (path ends).
func (w *verifC25World) step(i int, ops []int) bool {
	switch ops[verifChoice(verifName("op", i), len(ops))] {
	case vC25Feed:
		return w.feed(false)
	case vC25FeedMore:
		return w.feed(true)
	case vC25TickBatch:
		w.tick(verifC25BatchDelay)
	case vC25Leader:
		if w.tenure >= 2 && !w.leader {
			return false
		}
		w.setLeader(!w.leader)
	case vC25Outage:
		w.sink.down = !w.sink.down
		verifReach("endpoint-outage")
	case vC25FailNext:
		if w.sink.down || w.sink.failNext+w.sink.failed >= 2 {
			return false
		}
		w.sink.failNext++
		verifReach("endpoint-failure")
	case vC25Snapshot:
		w.snapshotSync()
	case vC25Restart:
		if w.restarted {
			return false
		}
		w.restart()
	case vC25TickHWM:
		if !w.leader {
			return false
		}
		w.tick(verifC25HWMEvery)
	case vC25ClusterHWM:
		// only a follower hears from another leader. The other leader has delivered everything up
		// to: the entry before the one this node applied last (0), the one it applied last (1),
		// or already the one it is about to apply (2)
		if w.leader || w.nextEntry == 0 {
			return false
		}
		k := w.nextEntry - 2 + verifChoice(verifName("upto", i), 3)
		if k < 0 || k >= len(verifC25Indexes) {
			return false
		}
		w.clusterUpdate(verifC25Indexes[k])
	case vC25BurstSnapshot:
		// store.fsmApply hands over the groups of one or two log entries and goes on; the next
		// thing the store does is a snapshot: the sync request reaches the service while groups
		// may still be in the hand-off channel
		n := 2 + verifChoice(verifName("burst", i), 2+verifTier())
		if w.window >= 0 {
			verifSchedWindow(w.window)
		}
		w.burst = true
		for k := 0; k < n; k++ {
			more := k > 0 && verifChoice(verifName("burstmore", 10*i+k), 2) == 1
			if !w.feed(more) {
				w.burst = false
				w.settle()
				return false
			}
		}
		w.burst = false
		verifReach("snapshot-sync-after-burst")
		w.snapshotSync()
	case vC25Hold:
		// from now on the endpoint is slow: a transmission is answered when the harness says so
		if w.sink.hold {
			return false
		}
		w.sink.hold = true
	case vC25Answer:
		return w.answer()
	}
	return true
}

func verifC25History(batchSz, steps int, startLeader bool, ops []int) {
	verifC25HistoryFrom(batchSz, steps, startLeader, nil, ops)
}

// verifC25HistoryFrom: a fixed prefix of operations, then every history of the given length.
func verifC25HistoryFrom(batchSz, steps int, startLeader bool, prefix []int, ops []int) {
	verifPanicsAreViolations()
	w := verifNewC25World(batchSz)
	defer w.finish()
	if startLeader {
		w.setLeader(true)
	}
	for i, op := range prefix {
		if !w.step(100+i, []int{op}) {
			return
		}
	}
	for i := 0; i < steps; i++ {
		if !w.step(i, ops) {
			return
		}
	}
	w.epilogue(false)
}

// ---------------------------------------------------------------- entries

// VerifC25bBatching: batch boundaries. The node is leader throughout; entries with one or two
// groups, batch size 1 or 2, batches cut by size or by the batch timer, endpoint failures.
func VerifC25bBatching() {
	steps := 4
	if verifTier() == 1 {
		steps = 6
	}
	verifC25History(1+verifChoice("batchSz", 2), steps, true,
		[]int{vC25Feed, vC25FeedMore, vC25TickBatch, vC25FailNext})
}

// VerifC25bSingleGroup: the same without multi-group entries: no recorded finding can hide
// anything here.
func VerifC25bSingleGroup() {
	steps := 4
	if verifTier() == 1 {
		steps = 6
	}
	verifC25History(1+verifChoice("batchSz", 2), steps, verifChoice("startLeader", 2) == 1,
		[]int{vC25Feed, vC25TickBatch, vC25FailNext, vC25Leader, vC25TickHWM})
}

// VerifC25bLeadership: leader changes, HWM updates from another leader, endpoint failures.
func VerifC25bLeadership() {
	steps := 4
	if verifTier() == 1 {
		steps = 6
	}
	verifC25History(1+verifChoice("batchSz", 2), steps, false,
		[]int{vC25Feed, vC25FeedMore, vC25Leader, vC25FailNext, vC25ClusterHWM, vC25TickHWM})
}

// VerifC25bRestart: snapshot sync, restart, pruning by the leader's HWM loop.
func VerifC25bRestart() {
	steps := 4
	if verifTier() == 1 {
		steps = 5
	}
	verifC25History(1+verifChoice("batchSz", 2), steps, verifChoice("startLeader", 2) == 1,
		[]int{vC25Feed, vC25FeedMore, vC25Snapshot, vC25Restart, vC25TickHWM, vC25FailNext})
}

// VerifC25bOutage: the leader has delivered an entry and announced its high watermark, the
// endpoint goes down and the next entry stays in flight while the HWM loop prunes; then restart,
// leader changes, recovery of the endpoint in any order.
func VerifC25bOutage() {
	steps := 2
	if verifTier() == 1 {
		steps = 3
	}
	verifC25HistoryFrom(1+verifChoice("batchSz", 2), steps, true,
		[]int{vC25Feed, vC25TickBatch, vC25Outage, vC25Feed, vC25TickBatch, vC25TickHWM},
		[]int{vC25Restart, vC25Leader, vC25Outage, vC25Feed, vC25TickHWM, vC25Snapshot})
}

// VerifC25bSchedules (thorough tier): short histories with EVERY order in which the goroutines
// woken by a stimulus can run (the other entries let them run in one fixed order).
func VerifC25bSchedules() {
	verifC25History(1, 3, true, []int{vC25Feed, vC25FeedMore, vC25FailNext, vC25Leader})
}

// VerifC25bSnapshotRace: the snapshot sync is requested while groups handed over just before it
// are still in the hand-off channel (writeToBatcher's select then has the hand-off channel AND the
// sync request ready: which one it takes is a scheduler decision, explored both ways - as is
// every other select with several ready cases). Afterwards restart etc.: what was handed over
// before an answered sync is not applied again.
func VerifC25bSnapshotRace() {
	steps := 2
	if verifTier() == 1 {
		steps = 3
	}
	verifC25HistoryFrom(1+verifChoice("batchSz", 2), steps, verifChoice("startLeader", 2) == 1,
		[]int{vC25BurstSnapshot},
		[]int{vC25Restart, vC25Feed, vC25TickBatch, vC25BurstSnapshot, vC25Leader})
}

// VerifC25bSnapshotRacePreempt: burst and snapshot sync with preemptions: between the first
// hand-over and the moment everything is at rest again after the sync, a running goroutine can
// lose the processor at a synchronisation operation to any other runnable goroutine - once
// (quick tier) or twice (thorough tier) -, besides every select choice. Judged by what the disk
// queue holds when the sync has been answered.
func VerifC25bSnapshotRacePreempt() {
	verifPanicsAreViolations()
	w := verifNewC25World(1 + verifChoice("batchSz", 2))
	defer w.finish()
	if verifChoice("startLeader", 2) == 1 {
		w.setLeader(true)
	}
	w.window = 1 + verifTier()
	w.step(0, []int{vC25BurstSnapshot})
}

// VerifC25bBusyEndpoint: stimuli arriving WHILE a transmission is running. The endpoint answers
// only when the harness lets it, so the leader loop is inside sink.Write while further groups go
// into the disk queue (which then has its next item ready to hand out), the node steps down
// (mainLoop closes the leader loop's stop channel and waits for it) and possibly becomes leader
// again; then the transmission is answered: the leader loop comes back to a select with its stop
// channel AND the disk queue's channel ready. Both outcomes of that select (and of every other one
// with several ready cases) are explored; the disk queue hands an item out once per incarnation,
// so whichever way the loop leaves, the item must not be lost.
//
// Quick tier: batch size 1, leader; endpoint slow, two entries, step-down during the first
// transmission; then every history of 1 of: answer, leader change, feed, HWM interval - the
// epilogue answers what is still held. Thorough tier: see VerifC25bBusyEndpointLong.
func VerifC25bBusyEndpoint() {
	verifC25HistoryFrom(1, 1, true,
		[]int{vC25Hold, vC25Feed, vC25Feed, vC25Leader},
		[]int{vC25Answer, vC25Leader, vC25Feed, vC25TickHWM})
}

// VerifC25bBusyEndpointLong (thorough tier): batch size 1 or 2, leader, endpoint slow, one entry
// handed over (its transmission is running when the history begins); then every history of 6 of:
// feed, batch timer, leader change, answer, the next answer is a failure, HWM interval.
func VerifC25bBusyEndpointLong() {
	verifC25HistoryFrom(1+verifChoice("batchSz", 2), 6, true,
		[]int{vC25Hold, vC25Feed},
		[]int{vC25Feed, vC25TickBatch, vC25Leader, vC25Answer, vC25FailNext, vC25TickHWM})
}

// VerifC25bStartup: what a restarted service does with a disk queue whose batches were never
// transmitted (the node was follower, or the endpoint was down): two entries are in the disk
// queue - in one batch or in two - then every history of restart, leader change, outage on-off,
// HWM interval, HWM update from the cluster (thorough tier: and feed).
func VerifC25bStartup() {
	steps, ops := 4, []int{vC25Restart, vC25Leader, vC25Outage, vC25TickHWM, vC25ClusterHWM}
	if verifTier() == 1 {
		steps, ops = 5, append(ops, vC25Feed)
	}
	verifC25HistoryFrom(1+verifChoice("batchSz", 2), steps, false, []int{vC25Feed, vC25Feed, vC25TickBatch}, ops)
}

// VerifC25bTwin: same world; the final assertion contradicts the property and must fail.
func VerifC25bTwin() {
	w := verifNewC25World(1)
	defer w.finish()
	w.feed(false)
	w.epilogue(true)
}
