package db

import (
	"crypto/sha256"
	"fmt"
	"os"
	"path/filepath"
	"testing"
)

// Native oracle for C15: execute the text on a scratch database through the real db.DB write
// path and report whether one of the five guarded settings changed or a checkpoint ran.
func init() {
	verifC15Dangerous = verifC15DangerousNative
}

func verifC15Settings(d *DB) string {
	out := ""
	for _, p := range []string{"journal_mode", "wal_autocheckpoint", "synchronous", "query_only"} {
		var v string
		if err := d.rwDB.QueryRow("PRAGMA " + p).Scan(&v); err != nil {
			v = "ERR:" + err.Error()
		}
		out += p + "=" + v + ";"
	}
	return out
}

func verifC15FileSum(path string) string {
	b, err := os.ReadFile(path)
	if err != nil {
		return "missing"
	}
	return fmt.Sprintf("%d:%x", len(b), sha256.Sum256(b))
}

func verifC15DangerousNative(sql string) (dangerous bool, why string) {
	dir, err := os.MkdirTemp("", "verif-c15-")
	if err != nil {
		panic(err)
	}
	defer os.RemoveAll(dir)
	path := filepath.Join(dir, "scratch.db")
	d, err := Open(path, false, true)
	if err != nil {
		panic(err)
	}
	defer d.Close()
	if _, err := d.ExecuteStringStmt("CREATE TABLE foo (id INTEGER PRIMARY KEY, name TEXT)"); err != nil {
		panic(err)
	}
	for i := 0; i < 20; i++ {
		if _, err := d.ExecuteStringStmt(fmt.Sprintf("INSERT INTO foo(name) VALUES('row %d')", i)); err != nil {
			panic(err)
		}
	}
	before := verifC15Settings(d)
	dbSum := verifC15FileSum(path)
	d.ExecuteStringStmt(sql) // errors inside the response are irrelevant: only the effect counts
	after := verifC15Settings(d)
	if before != after {
		return true, before + " -> " + after
	}
	if s := verifC15FileSum(path); s != dbSum {
		return true, "database file changed (checkpoint ran)"
	}
	return false, ""
}

func TestVerifC15Calibrate(t *testing.T) {
	if os.Getenv("VERIF_C15_CAL") == "" {
		t.Skip()
	}
	for _, s := range []string{
		"PRAGMA journal_mode=DELETE", "pragma Journal_Mode = off", "PRAGMA main.journal_mode=DELETE", "PRAGMA journal_mode(DELETE)",
		"PRAGMA journal_mode (DELETE)", "/* x */ PRAGMA synchronous=FULL", "-- c\nPRAGMA synchronous=FULL", "SELECT 1; PRAGMA synchronous=FULL",
		"PRAGMA main.wal_autocheckpoint=7", "PRAGMA wal_autocheckpoint=7", "PRAGMA \"journal_mode\"=DELETE", "PRAGMA [journal_mode]=DELETE",
		"PRAGMA `journal_mode`=DELETE", "PRAGMA 'journal_mode'=DELETE", "PRAGMA main . synchronous = 2", "PRAGMA \"main\".synchronous=2",
		"PRAGMA/**/synchronous=2", "PRAGMA synchronous/**/=2", "PRAGMA synchronous=/**/2", "PRAGMA query_only=1", "PRAGMA query_only(ON)", "PRAGMA query_only=true",
		"PRAGMA wal_checkpoint", "PRAGMA wal_checkpoint(TRUNCATE)", "PRAGMA main.wal_checkpoint(FULL)", ";PRAGMA wal_checkpoint", "PRAGMA\twal_checkpoint", "PRAGMA\fwal_checkpoint", "PRAGMA\vwal_checkpoint",
		"PRAGMA synchronous=1", "PRAGMA synchronous=NORMAL", "PRAGMA synchronous=0", "PRAGMA synchronous=OFF", "PRAGMA journal_mode=WAL", "PRAGMA temp.synchronous=2", "PRAGMA xyz.synchronous=2",
		"PRAGMA synchronous", "SELECT 1", "PRAGMA journal_mode = 'delete'", "PRAGMA journal_mode=\"delete\"", "PRAGMA wal_autocheckpoint(9)", "PRAGMA wal_autocheckpoint = -1",
	} {
		d, why := verifC15DangerousNative(s)
		fmt.Printf("CAL guard=%v dangerous=%v %q %s\n", IsBreakingPragma(s), d, s, why)
	}
}
