package db

import "regexp"

// C15(a): language inclusion. For every text (<= 44 ASCII bytes) of a region of the
// "dangerous" PRAGMA language (written from the SQLite PRAGMA syntax and tokenizer rules:
// keywords are case-insensitive, white space is [ \t\n\f\r], comments count as white space,
// identifiers may be quoted, assignment is `= v` or `( v )`, several statements may share one
// text) the guard IsBreakingPragma must answer true.
//
// The regions are Go regular expressions, translated to SMT-LIB RegLan exactly like the guard's
// own patterns (which are read from the SSA of package db on every run). Natively (replay) a
// witness only counts if executing it on a scratch database through the real db.DB really
// changes one of the guarded settings or runs a checkpoint (verifC15Dangerous).

// verifC15Dangerous is the native oracle (set by replay_test.go; nil in the engine).
var verifC15Dangerous func(sql string) (bool, string)

const (
	vWS  = `[ \t\n\f\r]`
	vKW  = `(?i:PRAGMA)`
	vSch = `((?i:main)\.)?`
	// values that differ from what rqlite configures (wal, autocheckpoint 0, synchronous off, query_only off)
	vJM = `(?i:DELETE|TRUNCATE|PERSIST|MEMORY|OFF)`
	vSY = `(?i:1|2|3|NORMAL|FULL|EXTRA)`
	vQO = `(?i:1|ON|TRUE|YES)`
	vAC = `[1-9]`
	vCK = `(` + vWS + `*\(` + vWS + `*(?i:PASSIVE|FULL|RESTART|TRUNCATE)` + vWS + `*\))?`
	vCm = `(/\*[a-z ]{0,3}\*/|--[a-z ]{0,3}\n)` // a short comment
	vEnd = vWS + `*;?` + vWS + `*$`
)

type verifRegion struct {
	name    string
	finding string // "" = must be guarded; otherwise the recorded class
	re      *regexp.Regexp
}

func vAssign(name, val string) string { return name + vWS + `*=` + vWS + `*` + val }
func vCall(name, val string) string {
	return name + vWS + `*\(` + vWS + `*` + val + vWS + `*\)`
}

var verifRegions = []verifRegion{
	// ---- baseline: plain assignments / checkpoint at the start of the text: must be guarded
	{"journal_mode=", "", regexp.MustCompile(`^` + vWS + `*` + vKW + vWS + `+` + vSch + vAssign(`(?i:journal_mode)`, vJM) + vEnd)},
	{"synchronous=", "", regexp.MustCompile(`^` + vWS + `*` + vKW + vWS + `+` + vSch + vAssign(`(?i:synchronous)`, vSY) + vEnd)},
	{"query_only=", "", regexp.MustCompile(`^` + vWS + `*` + vKW + vWS + `+` + vSch + vAssign(`(?i:query_only)`, vQO) + vEnd)},
	{"wal_autocheckpoint=", "", regexp.MustCompile(`^` + vWS + `*` + vKW + vWS + `+` + vAssign(`(?i:wal_autocheckpoint)`, vAC) + vEnd)},
	{"wal_checkpoint", "", regexp.MustCompile(`^` + vWS + `*` + vKW + vWS + `+` + vSch + `(?i:wal_checkpoint)` + vCK + vEnd)},
	// ---- further forms SQLite accepts
	{"wal_autocheckpoint with schema", "C15-autocheckpoint-schema-prefix", regexp.MustCompile(`^` + vWS + `*` + vKW + vWS + `+(?i:main)\.` + vAssign(`(?i:wal_autocheckpoint)`, vAC) + vEnd)},
	{"call syntax", "C15-call-syntax", regexp.MustCompile(`^` + vWS + `*` + vKW + vWS + `+` + vSch + `(` + vCall(`(?i:journal_mode)`, vJM) + `|` + vCall(`(?i:synchronous)`, vSY) + `|` + vCall(`(?i:query_only)`, vQO) + `|` + vCall(`(?i:wal_autocheckpoint)`, vAC) + `)` + vEnd)},
	{"leading comment", "C15-leading-comment", regexp.MustCompile(`^` + vWS + `*` + vCm + vWS + `*` + vKW + vWS + `+` + vSch + `(` + vAssign(`(?i:journal_mode)`, vJM) + `|` + vAssign(`(?i:synchronous)`, vSY) + `|(?i:wal_checkpoint)` + `)` + vEnd)},
	{"comment between tokens", "C15-comment-between-tokens", regexp.MustCompile(`^` + vWS + `*` + vKW + `(/\*\*/` + vSch + `(?i:synchronous)` + vWS + `*|` + vWS + `+` + vSch + `(?i:synchronous)/\*\*/)=` + vWS + `*` + vSY + vEnd)},
	{"not the first statement", "C15-not-first-statement", regexp.MustCompile(`^` + vWS + `*((?i:SELECT) 1)?` + vWS + `*;` + vWS + `*` + vKW + vWS + `+` + vSch + `(` + vAssign(`(?i:journal_mode)`, vJM) + `|` + vAssign(`(?i:synchronous)`, vSY) + `|(?i:wal_checkpoint)` + `)` + vEnd)},
	{"quoted pragma name", "C15-quoted-identifier", regexp.MustCompile(`^` + vWS + `*` + vKW + vWS + `+` + vSch + `("(?i:journal_mode)"|\[(?i:journal_mode)\]|` + "`(?i:journal_mode)`" + `|'(?i:journal_mode)')` + vWS + `*=` + vWS + `*` + vJM + vEnd)},
	{"schema prefix forms", "C15-schema-prefix-form", regexp.MustCompile(`^` + vWS + `*` + vKW + vWS + `+((?i:main)` + vWS + `+\.` + vWS + `*|(?i:main)\.` + vWS + `+|"(?i:main)"\.|\[(?i:main)\]\.)` + vAssign(`(?i:synchronous)`, vSY) + vEnd)},
}

// ---- general form (C15b): every way SQLite's tokenizer lets the same statement be written.
//   text    := [first-statement ;] seps PRAGMA target assign end
//   target  := name | schema seps . seps name          (a bare token directly after PRAGMA needs
//                                                       at least one separator, a quoted one none)
//   name    := bare | "quoted" | [quoted] | `quoted` | 'quoted'      (case-insensitive)
//   assign  := seps = seps value | seps ( seps value seps )
//   seps    := up to one (quick) / two (thorough) of: one white-space byte, /*..*/ , --..\n
const vSepG = `(` + vWS + `|/\*[a-z ]{0,2}\*/|--[a-z ]{0,2}\n)`
const vSchemB = `(?i:main)`

// separators per position: at most one in the quick tier, at most two in the thorough tier
func vSepsOf(min string) string {
	if verifTier() >= 1 {
		return vSepG + `{` + min + `,2}`
	}
	return vSepG + `{` + min + `,1}`
}

func vQuoted(n string) string {
	return `("` + n + `"|\[` + n + `\]|` + "`" + n + "`" + `|'` + n + `')`
}

// vTarget: the (optionally schema-qualified) pragma name as it may follow the PRAGMA keyword;
// alt selects one of the four shapes (bare / quoted name, bare / quoted schema).
func vTarget(name string, alt int) string {
	vSeps, vSeps1 := vSepsOf("0"), vSepsOf("1")
	n := `(?i:` + name + `)`
	anyName := `(` + n + `|` + vQuoted(n) + `)`
	dot := vSeps + `\.` + vSeps
	switch alt {
	case 0:
		return vSeps1 + n
	case 1:
		return vSeps + vQuoted(n)
	case 2:
		return vSeps1 + vSchemB + dot + anyName
	}
	return vSeps + vQuoted(vSchemB) + dot + anyName
}

// vTail: what follows the name; alt 0: `= value`, alt 1: `( value )`.
func vTail(val string, alt int) string {
	vSeps := vSepsOf("0")
	if alt == 0 {
		return vSeps + `=` + vSeps + val + vEnd
	}
	return vSeps + `\(` + vSeps + val + vSeps + `\)` + vEnd
}

type verifGen struct{ name, val string }

// the five guarded pragmas with values that change the setting; wal_checkpoint twice: bare and with a mode
var verifGens = []verifGen{
	{`journal_mode`, vJM}, {`synchronous`, vSY}, {`query_only`, vQO}, {`wal_autocheckpoint`, vAC},
	{`wal_checkpoint`, ""}, {`wal_checkpoint`, `(?i:PASSIVE|FULL|RESTART|TRUNCATE)`},
}

// VerifC15General: one path per (pragma, first statement or not, target shape, assignment shape);
// the union of the sub-regions is the general form above. The case split only keeps each solver
// query small; nothing is sampled.
func VerifC15General() {
	g := verifGens[verifChoice("pragma", len(verifGens))]
	vSeps := vSepsOf("0")
	pre := ""
	if verifChoice("later-statement", 2) == 1 {
		pre = `((?i:SELECT) (1|';'))?` + vSeps + `;`
	}
	target := vTarget(g.name, verifChoice("target", 4))
	var tail string
	switch {
	case g.val == "":
		tail = vEnd
	case g.name == `wal_checkpoint`:
		tail = vTail(g.val, 1)
	default:
		tail = vTail(g.val, verifChoice("assign", 2))
	}
	re := regexp.MustCompile(`^` + pre + vSeps + vKW + target + tail)
	verifC15Check(verifRegion{"general " + g.name, "", re}, verifString("sql", 0)) // no length bound (the regions bound everything but trailing white space)
}

func verifC15Region(k int) {
	verifC15Check(verifRegions[k], verifString("sql", 44))
}

func verifC15Check(r verifRegion, s string) {
	// printable ASCII and SQLite white space only
	verifAssume(verifASCII.MatchString(s))
	verifAssume(r.re.MatchString(s))
	verifReach("region-nonempty-" + r.name)
	if IsBreakingPragma(s) {
		verifReach("guarded-" + r.name)
		return
	}
	if !verifSymbolic() {
		// native replay: the text counts only if it really changes a setting / checkpoints
		if d, _ := verifC15Dangerous(s); !d {
			return
		}
	}
	if r.finding != "" {
		verifFinding(r.finding)
	}
	verifAssert("C15-guard-covers-"+r.name, false)
}

var verifASCII = regexp.MustCompile(`^[ \t\n\f\r!-~]*$`)

func VerifC15Baseline() { verifC15Region(verifChoice("region", 5)) }
func VerifC15Forms()    { verifC15Region(5 + verifChoice("form", len(verifRegions)-5)) }

// Twin: the guard does not cover every text of a region that is NOT dangerous-by-assignment
// (reading a pragma); it must be violated.
func VerifC15Twin() {
	s := verifString("sql", 30)
	verifAssume(verifASCII.MatchString(s))
	verifAssume(verifTwinRe.MatchString(s))
	verifAssert("twin", IsBreakingPragma(s))
}

var verifTwinRe = regexp.MustCompile(`^` + vKW + vWS + `+(?i:synchronous)` + vWS + `*$`)
