package db

import "regexp"

// C15(a): language inclusion. For every text (<= 44 ASCII bytes) of a region of the
// "dangerous" PRAGMA language (written from the SQLite PRAGMA syntax and tokenizer rules:
// keywords are case-insensitive, white space is [ \t\n\f\r], comments count as white space,
// identifiers may be quoted, assignment is `= v` or `( v )`, several statements may share one
// text) the guard IsBreakingPragma must answer true.
//
// The regions are Go regular expressions, translated to SMT-LIB RegLan exactly like the guard's
// own patterns (which are read from the SSA of package db on every run). Natively (replay) a
// witness only counts if executing it on a scratch database through the real db.DB really
// changes one of the guarded settings or runs a checkpoint (verifC15Dangerous).

// verifC15Dangerous is the native oracle (set by replay_test.go; nil in the engine).
var verifC15Dangerous func(sql string) (bool, string)

const (
	vWS  = `[ \t\n\f\r]`
	vKW  = `(?i:PRAGMA)`
	vSch = `((?i:main)\.)?`
	// values that differ from what rqlite configures (wal, autocheckpoint 0, synchronous off, query_only off)
	vJM = `(?i:DELETE|TRUNCATE|PERSIST|MEMORY|OFF)`
	vSY = `(?i:1|2|3|NORMAL|FULL|EXTRA)`
	vQO = `(?i:1|ON|TRUE|YES)`
	vAC = `[1-9]`
	vCK = `(` + vWS + `*\(` + vWS + `*(?i:PASSIVE|FULL|RESTART|TRUNCATE)` + vWS + `*\))?`
	vCm = `(/\*[a-z ]{0,3}\*/|--[a-z ]{0,3}\n)` // a short comment
	vEnd = vWS + `*;?` + vWS + `*$`
)

type verifRegion struct {
	name    string
	finding string // "" = must be guarded; otherwise the recorded class
	re      *regexp.Regexp
}

func vAssign(name, val string) string { return name + vWS + `*=` + vWS + `*` + val }
func vCall(name, val string) string {
	return name + vWS + `*\(` + vWS + `*` + val + vWS + `*\)`
}

var verifRegions = []verifRegion{
	// ---- baseline: plain assignments / checkpoint at the start of the text: must be guarded
	{"journal_mode=", "", regexp.MustCompile(`^` + vWS + `*` + vKW + vWS + `+` + vSch + vAssign(`(?i:journal_mode)`, vJM) + vEnd)},
	{"synchronous=", "", regexp.MustCompile(`^` + vWS + `*` + vKW + vWS + `+` + vSch + vAssign(`(?i:synchronous)`, vSY) + vEnd)},
	{"query_only=", "", regexp.MustCompile(`^` + vWS + `*` + vKW + vWS + `+` + vSch + vAssign(`(?i:query_only)`, vQO) + vEnd)},
	{"wal_autocheckpoint=", "", regexp.MustCompile(`^` + vWS + `*` + vKW + vWS + `+` + vAssign(`(?i:wal_autocheckpoint)`, vAC) + vEnd)},
	{"wal_checkpoint", "", regexp.MustCompile(`^` + vWS + `*` + vKW + vWS + `+` + vSch + `(?i:wal_checkpoint)` + vCK + vEnd)},
	// ---- further forms SQLite accepts
	{"wal_autocheckpoint with schema", "C15-autocheckpoint-schema-prefix", regexp.MustCompile(`^` + vWS + `*` + vKW + vWS + `+(?i:main)\.` + vAssign(`(?i:wal_autocheckpoint)`, vAC) + vEnd)},
	{"call syntax", "C15-call-syntax", regexp.MustCompile(`^` + vWS + `*` + vKW + vWS + `+` + vSch + `(` + vCall(`(?i:journal_mode)`, vJM) + `|` + vCall(`(?i:synchronous)`, vSY) + `|` + vCall(`(?i:query_only)`, vQO) + `|` + vCall(`(?i:wal_autocheckpoint)`, vAC) + `)` + vEnd)},
	{"leading comment", "C15-leading-comment", regexp.MustCompile(`^` + vWS + `*` + vCm + vWS + `*` + vKW + vWS + `+` + vSch + `(` + vAssign(`(?i:journal_mode)`, vJM) + `|` + vAssign(`(?i:synchronous)`, vSY) + `|(?i:wal_checkpoint)` + `)` + vEnd)},
	{"comment between tokens", "C15-comment-between-tokens", regexp.MustCompile(`^` + vWS + `*` + vKW + `(/\*\*/` + vSch + `(?i:synchronous)` + vWS + `*|` + vWS + `+` + vSch + `(?i:synchronous)/\*\*/)=` + vWS + `*` + vSY + vEnd)},
	{"not the first statement", "C15-not-first-statement", regexp.MustCompile(`^` + vWS + `*((?i:SELECT) 1)?` + vWS + `*;` + vWS + `*` + vKW + vWS + `+` + vSch + `(` + vAssign(`(?i:journal_mode)`, vJM) + `|` + vAssign(`(?i:synchronous)`, vSY) + `|(?i:wal_checkpoint)` + `)` + vEnd)},
	{"quoted pragma name", "C15-quoted-identifier", regexp.MustCompile(`^` + vWS + `*` + vKW + vWS + `+` + vSch + `("(?i:journal_mode)"|\[(?i:journal_mode)\]|` + "`(?i:journal_mode)`" + `|'(?i:journal_mode)')` + vWS + `*=` + vWS + `*` + vJM + vEnd)},
	{"schema prefix forms", "C15-schema-prefix-form", regexp.MustCompile(`^` + vWS + `*` + vKW + vWS + `+((?i:main)` + vWS + `+\.` + vWS + `*|(?i:main)\.` + vWS + `+|"(?i:main)"\.|\[(?i:main)\]\.)` + vAssign(`(?i:synchronous)`, vSY) + vEnd)},
}

func verifC15Region(k int) {
	r := verifRegions[k]
	s := verifString("sql", 44)
	// printable ASCII and SQLite white space only
	verifAssume(verifASCII.MatchString(s))
	verifAssume(r.re.MatchString(s))
	verifReach("region-nonempty-" + r.name)
	if IsBreakingPragma(s) {
		verifReach("guarded-" + r.name)
		return
	}
	if !verifSymbolic() {
		// native replay: the text counts only if it really changes a setting / checkpoints
		if d, _ := verifC15Dangerous(s); !d {
			return
		}
	}
	if r.finding != "" {
		verifFinding(r.finding)
	}
	verifAssert("C15-guard-covers-"+r.name, false)
}

var verifASCII = regexp.MustCompile(`^[ \t\n\f\r!-~]*$`)

func VerifC15Baseline() { verifC15Region(verifChoice("region", 5)) }
func VerifC15Forms()    { verifC15Region(5 + verifChoice("form", len(verifRegions)-5)) }

// Twin: the guard does not cover every text of a region that is NOT dangerous-by-assignment
// (reading a pragma); it must be violated.
func VerifC15Twin() {
	s := verifString("sql", 30)
	verifAssume(verifASCII.MatchString(s))
	verifAssume(verifTwinRe.MatchString(s))
	verifAssert("twin", IsBreakingPragma(s))
}

var verifTwinRe = regexp.MustCompile(`^` + vKW + vWS + `+(?i:synchronous)` + vWS + `*$`)
