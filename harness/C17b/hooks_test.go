package store

import (
	"os"
	"path/filepath"

	"github.com/hashicorp/raft"
	"github.com/rqlite/rqlite/v10/command/proto"
	sql "github.com/rqlite/rqlite/v10/db"
)

// Native replay only.
// (1) route the *raft.Raft API methods to the harness's raft contract model through the hook set
//     of the patched api.go (raft_api.go.txt, spec "native_module_patch");
// (2) the database is a real on-disk SQLite database behind a real *db.SwappableDB: table foo
//     with the single committed row id 1.
func init() {
	cbRaftHooksInstall = func() {
		raft.VerifHooks = &raft.VerifHookSet{
			Leader:           cbRaftLeader,
			LeaderWithID:     cbRaftLeaderWithID,
			Apply:            cbRaftApply,
			Barrier:          cbRaftBarrier,
			VerifyLeader:     cbRaftVerifyLeader,
			GetConfiguration: cbRaftGetConfiguration,
			State:            cbRaftState,
			LastContact:      cbRaftLastContact,
			CurrentTerm:      cbRaftCurrentTerm,
			CommitIndex:      cbRaftCommitIndex,
			AppliedIndex:     cbRaftAppliedIndex,
		}
	}
	cbRaftHooksRemove = func() { raft.VerifHooks = nil }

	dirs := map[*sql.SwappableDB]string{}
	cbOpenNative = func() *sql.SwappableDB {
		dir, err := os.MkdirTemp("", "verif-c17b-")
		if err != nil {
			panic(err)
		}
		d, err := sql.OpenSwappable(filepath.Join(dir, "db.sqlite"), nil, false, true, 4)
		if err != nil {
			panic(err)
		}
		dirs[d] = dir
		for _, q := range []string{"CREATE TABLE foo (id INTEGER PRIMARY KEY, name TEXT)", "INSERT INTO foo(id,name) VALUES(1,'base')"} {
			r, err := d.Execute(&proto.Request{Statements: []*proto.Statement{{Sql: q}}}, false)
			if err != nil || len(r) != 1 || r[0].GetError() != "" {
				panic("verif C17b: cannot prepare the native database")
			}
		}
		return d
	}
	cbCloseNative = func(d *sql.SwappableDB) {
		d.Close()
		os.RemoveAll(dirs[d])
		delete(dirs, d)
	}
	cbRowsNative = func(d *sql.SwappableDB) []int64 {
		rows, err := d.QueryStringStmt(cbSQLRead)
		if err != nil || len(rows) != 1 || rows[0].Error != "" {
			panic("verif C17b: cannot read the native database")
		}
		var out []int64
		for _, v := range rows[0].Values {
			out = append(out, v.Parameters[0].GetI())
		}
		return out
	}
}
