package store

import (
	"context"
	"errors"
	"io"
	"log"
	"sync/atomic"
	"time"

	"github.com/hashicorp/raft"
	"github.com/rqlite/rqlite/v10/command"
	"github.com/rqlite/rqlite/v10/command/proto"
	sql "github.com/rqlite/rqlite/v10/db"
	"github.com/rqlite/rqlite/v10/internal/rsync"
	"github.com/rqlite/rqlite/v10/store/throttler"
	pb "google.golang.org/protobuf/proto"
)

// C17b (limited claim, store half): reads never modify data; the database changes only through
// the log - ROUTING ONLY.
//
// The real (*Store).Query, (*Store).Request, (*Store).Execute, RORWCount, fsmApply and
// (*CommandProcessor).Process run against
//   - the raft contract of DESIGN 4.5 (model below; spec "models" in the symbolic run, the
//     patched api.go + raft.VerifHooks in the native replay - same Go functions). A successful
//     Apply appends one entry and hands it, before the future completes, to the REAL FSM
//     (FSM.Apply -> fsmApply -> Process); a failed Apply does nothing;
//   - a database: in the symbolic run an abstract one behind the methods of *db.SwappableDB (what
//     package db guarantees for them is what harness C17 / C13 decide there: the Query methods use
//     the read-only handle, on which data changes are refused); natively a real on-disk database.
//
// Observed in both worlds: the committed rows of table foo before and after the call, the
// answers, and the raft trace (was Apply attempted / did it succeed).

// ---------------------------------------------------------------------------------------------
// statements

const (
	cbRead       = iota // SELECT
	cbWrite             // INSERT of a fresh row
	cbExplain           // EXPLAIN INSERT ..., carrying SqlExplain=true as the SQL processor sets it. sqlite3_stmt_readonly
	                    // answers for it as for the bare INSERT (not read-only, https://sqlite.org/c3ref/stmt_readonly.html),
	                    // which is why RORWCount looks at the flag; running it changes nothing
	cbMislabelled       // the INSERT itself carrying SqlExplain=true: not producible through the HTTP API (a peer could
	                    // send it); only "changes go through the log" and "refused when served locally" are claimed for it
	cbNumClasses
)

const cbSQLRead = "SELECT id FROM foo ORDER BY id"
const cbBaseRow = int64(1)

func cbRowID(pos int) int64 { return int64(100 + pos) }
func cbInsertSQL(pos int) string {
	return "INSERT INTO foo(id,name) VALUES(10" + string(rune('0'+pos)) + ",'w')"
}

func cbStatement(class, pos int) *proto.Statement {
	switch class {
	case cbRead:
		return &proto.Statement{Sql: cbSQLRead}
	case cbWrite:
		return &proto.Statement{Sql: cbInsertSQL(pos)}
	case cbExplain:
		return &proto.Statement{Sql: "EXPLAIN " + cbInsertSQL(pos), SqlExplain: true}
	}
	return &proto.Statement{Sql: cbInsertSQL(pos), SqlExplain: true}
}

// the model's parser: does running the text change data (and which row), is it an EXPLAIN
func cbClassify(q string) (write bool, id int64, explain bool) {
	if q == cbSQLRead {
		return false, 0, false
	}
	for p := 0; p < 8; p++ {
		if q == cbInsertSQL(p) {
			return true, cbRowID(p), false
		}
		if q == "EXPLAIN "+cbInsertSQL(p) {
			return false, 0, true
		}
	}
	panic("verif C17b: SQL outside the statement table: " + q)
}

// ---------------------------------------------------------------------------------------------
// abstract database behind *db.SwappableDB (symbolic run only; spec "models")

type cbDB struct {
	rows    []int64
	roCalls int // calls of Query/QueryWithContext
	rwCalls int // calls of Execute*/Request*
}

var cbD *cbDB

func cbHas(xs []int64, id int64) bool {
	for _, x := range xs {
		if x == id {
			return true
		}
	}
	return false
}

func cbIntRows(ids []int64) []*proto.Values {
	var out []*proto.Values
	for _, id := range ids {
		out = append(out, &proto.Values{Parameters: []*proto.Parameter{{Value: &proto.Parameter_I{I: id}}}})
	}
	return out
}

// Query path of package db: runs on the read-only handle, data changes are refused (C17, db half).
func cbSwQueryCtx(s *sql.SwappableDB, ctx context.Context, q *proto.Request, xTime bool) ([]*proto.QueryRows, error) {
	cbD.roCalls++
	var out []*proto.QueryRows
	for _, st := range q.Statements {
		if st.Sql == "" {
			continue
		}
		w, _, ex := cbClassify(st.Sql)
		if w {
			out = append(out, &proto.QueryRows{Error: sql.ErrQueryWrite.Error()})
			continue
		}
		if ex {
			out = append(out, &proto.QueryRows{Columns: []string{"addr"}, Types: []string{"integer"}, Values: cbIntRows([]int64{0})}) // the listing
			continue
		}
		out = append(out, &proto.QueryRows{Columns: []string{"id"}, Types: []string{"integer"}, Values: cbIntRows(cbD.rows)})
	}
	return out, nil
}
func cbSwQuery(s *sql.SwappableDB, q *proto.Request, xTime bool) ([]*proto.QueryRows, error) {
	return cbSwQueryCtx(s, context.Background(), q, xTime)
}

func (d *cbDB) write(id int64) *proto.ExecuteQueryResponse {
	if cbHas(d.rows, id) {
		return &proto.ExecuteQueryResponse{Result: &proto.ExecuteQueryResponse_Error{Error: "UNIQUE constraint failed: foo.id"}}
	}
	d.rows = append(d.rows, id)
	return &proto.ExecuteQueryResponse{Result: &proto.ExecuteQueryResponse_E{E: &proto.ExecuteResult{LastInsertId: id, RowsAffected: 1}}}
}

// Execute path: every statement is executed on the read-write handle.
func cbSwExecuteCtx(s *sql.SwappableDB, ctx context.Context, q *proto.Request, xTime bool) ([]*proto.ExecuteQueryResponse, error) {
	cbD.rwCalls++
	var out []*proto.ExecuteQueryResponse
	for _, st := range q.Statements {
		if st.Sql == "" {
			continue
		}
		if w, id, _ := cbClassify(st.Sql); w {
			out = append(out, cbD.write(id))
		} else {
			out = append(out, &proto.ExecuteQueryResponse{Result: &proto.ExecuteQueryResponse_E{E: &proto.ExecuteResult{}}})
		}
	}
	return out, nil
}
func cbSwExecute(s *sql.SwappableDB, q *proto.Request, xTime bool) ([]*proto.ExecuteQueryResponse, error) {
	return cbSwExecuteCtx(s, context.Background(), q, xTime)
}

// Unified path: every statement on the read-write handle; reads answer rows, writes are executed.
func cbSwRequestCtx(s *sql.SwappableDB, ctx context.Context, q *proto.Request, xTime bool) ([]*proto.ExecuteQueryResponse, error) {
	cbD.rwCalls++
	var out []*proto.ExecuteQueryResponse
	for _, st := range q.Statements {
		if st.Sql == "" {
			continue
		}
		if w, id, ex := cbClassify(st.Sql); w {
			out = append(out, cbD.write(id))
		} else if ex {
			// not read-only for sqlite3_stmt_readonly: runs on the execute arm, changes nothing
			out = append(out, &proto.ExecuteQueryResponse{Result: &proto.ExecuteQueryResponse_E{E: &proto.ExecuteResult{}}})
		} else {
			out = append(out, &proto.ExecuteQueryResponse{Result: &proto.ExecuteQueryResponse_Q{Q: &proto.QueryRows{Columns: []string{"id"}, Types: []string{"integer"}, Values: cbIntRows(cbD.rows)}}})
		}
	}
	return out, nil
}
func cbSwRequest(s *sql.SwappableDB, q *proto.Request, xTime bool) ([]*proto.ExecuteQueryResponse, error) {
	return cbSwRequestCtx(s, context.Background(), q, xTime)
}

// sqlite3_stmt_readonly: outside the claim; the model answers "read-only" exactly for the SELECT
// (an EXPLAIN is classified like the statement it explains).
func cbSwStmtReadOnly(s *sql.SwappableDB, q string) (bool, error) {
	w, _, ex := cbClassify(q)
	return !w && !ex, nil
}

// ---------------------------------------------------------------------------------------------
// codec algebra (symbolic run only): protobuf is not executable symbolically. Marshal hands out
// a token, Unmarshal gives back what was marshalled.

type cbCodec struct {
	subs []command.Requester
	cmds []*proto.Command
}

var cbC *cbCodec

func cbTryCompress(s *Store, rq command.Requester) ([]byte, bool, error) {
	cbC.subs = append(cbC.subs, rq)
	return []byte{0xC1, byte(len(cbC.subs) - 1)}, false, nil
}
func cbCommandMarshal(c *proto.Command) ([]byte, error) {
	cbC.cmds = append(cbC.cmds, &proto.Command{Type: c.Type, SubCommand: c.SubCommand, Compressed: c.Compressed})
	return []byte{0xC0, byte(len(cbC.cmds) - 1)}, nil
}
func cbCommandUnmarshal(b []byte, c *proto.Command) error {
	if len(b) != 2 || b[0] != 0xC0 || int(b[1]) >= len(cbC.cmds) {
		return errors.New("verif C17b: not a marshalled command")
	}
	src := cbC.cmds[b[1]]
	c.Type, c.SubCommand, c.Compressed = src.Type, src.SubCommand, src.Compressed
	return nil
}
func cbUnmarshalSub(c *proto.Command, m pb.Message) error {
	b := c.SubCommand
	if len(b) != 2 || b[0] != 0xC1 || int(b[1]) >= len(cbC.subs) {
		return errors.New("verif C17b: not a marshalled sub-command")
	}
	// the three request messages share their first fields on the wire (request=1, timings=2, and
	// level=3, freshness=4 .. for the two read-capable ones): decoding one as another succeeds and
	// carries the common fields over, exactly as protobuf does
	src := cbC.subs[b[1]]
	var lvl proto.ConsistencyLevel
	var fresh int64
	var strict bool
	switch x := src.(type) {
	case *proto.QueryRequest:
		lvl, fresh, strict = x.Level, x.Freshness, x.FreshnessStrict
	case *proto.ExecuteQueryRequest:
		lvl, fresh, strict = x.Level, x.Freshness, x.FreshnessStrict
	}
	timings := false
	switch x := src.(type) {
	case *proto.QueryRequest:
		timings = x.Timings
	case *proto.ExecuteRequest:
		timings = x.Timings
	case *proto.ExecuteQueryRequest:
		timings = x.Timings
	}
	switch dst := m.(type) {
	case *proto.QueryRequest:
		dst.Request, dst.Timings, dst.Level, dst.Freshness, dst.FreshnessStrict = src.GetRequest(), timings, lvl, fresh, strict
	case *proto.ExecuteRequest:
		dst.Request, dst.Timings = src.GetRequest(), timings
	case *proto.ExecuteQueryRequest:
		dst.Request, dst.Timings, dst.Level, dst.Freshness, dst.FreshnessStrict = src.GetRequest(), timings, lvl, fresh, strict
	default:
		return errors.New("verif C17b: unexpected sub-command target")
	}
	return nil
}

// ---------------------------------------------------------------------------------------------
// raft contract (DESIGN 4.5), both worlds. A node whose role, term and membership do not change
// during one call; VerifyLeader / Apply outcomes are chosen at the call.

type cbRaftWorld struct {
	n        int
	leader   bool
	known    bool
	term     uint64
	commit   uint64
	voter    int // 0 voter, 1 non-voter, 2 not in the configuration
	fsm      *FSM
	applies  int // Apply calls
	applied  int // successful ones (entry committed and handed to the FSM)
	inFSM    bool
	fsmRows  [][]int64 // committed rows right before / right after each FSM.Apply
	observe  func() []int64
}

var cbW *cbRaftWorld

const cbSelfID = "self"

var cbErrOther = errors.New("verif: some other raft error")

type cbFuture struct {
	err  error
	idx  uint64
	resp any
	conf raft.Configuration
}

func (f *cbFuture) Error() error                      { return f.err }
func (f *cbFuture) Index() uint64                     { return f.idx }
func (f *cbFuture) Response() interface{}             { return f.resp }
func (f *cbFuture) Configuration() raft.Configuration { return f.conf }

func cbRaftErr(k int) error {
	switch k {
	case 0:
		return nil
	case 1:
		return raft.ErrNotLeader
	case 2:
		return raft.ErrLeadershipLost
	}
	return cbErrOther
}

func cbRaftState(r *raft.Raft) raft.RaftState {
	if cbW.leader {
		return raft.Leader
	}
	return raft.Follower
}
func cbRaftCurrentTerm(r *raft.Raft) uint64  { return cbW.term }
func cbRaftCommitIndex(r *raft.Raft) uint64  { return cbW.commit }
func cbRaftAppliedIndex(r *raft.Raft) uint64 { return cbW.commit }
func cbRaftLastContact(r *raft.Raft) time.Time {
	return time.Time{}
}
func cbRaftLeaderWithID(r *raft.Raft) (raft.ServerAddress, raft.ServerID) {
	if cbW.known {
		return "leader-addr", "leader-id"
	}
	return "", ""
}
func cbRaftLeader(r *raft.Raft) raft.ServerAddress { a, _ := cbRaftLeaderWithID(r); return a }
func cbRaftVerifyLeader(r *raft.Raft) raft.Future {
	w := cbW
	w.n++
	return &cbFuture{err: cbRaftErr(verifChoice(verifName("verifyLeader", w.n), 3))}
}
func cbRaftBarrier(r *raft.Raft, timeout time.Duration) raft.Future {
	cbW.commit++
	return &cbFuture{}
}
func cbRaftGetConfiguration(r *raft.Raft) raft.ConfigurationFuture {
	w := cbW
	servers := []raft.Server{{ID: "other", Address: "other-addr", Suffrage: raft.Voter}}
	switch w.voter {
	case 0:
		servers = append(servers, raft.Server{ID: cbSelfID, Address: "self-addr", Suffrage: raft.Voter})
	case 1:
		servers = append(servers, raft.Server{ID: cbSelfID, Address: "self-addr", Suffrage: raft.Nonvoter})
	}
	return &cbFuture{conf: raft.Configuration{Servers: servers}}
}

// Apply: fails (nothing happens), or the entry is appended, committed and applied by the real FSM
// before the future completes.
func cbRaftApply(r *raft.Raft, cmd []byte, timeout time.Duration) raft.ApplyFuture {
	w := cbW
	w.n++
	w.applies++
	k := verifChoice(verifName("apply", w.n), 3)
	if !w.leader {
		k = 1 // a node that is not the leader cannot append
	}
	if k != 0 {
		return &cbFuture{err: cbRaftErr(k)}
	}
	w.commit++
	idx := w.commit
	w.fsmRows = append(w.fsmRows, w.observe())
	w.inFSM = true
	resp := w.fsm.Apply(&raft.Log{Index: idx, Term: w.term, Type: raft.LogCommand, Data: cmd, AppendedAt: time.Now()})
	w.inFSM = false
	w.fsmRows = append(w.fsmRows, w.observe())
	w.applied++
	return &cbFuture{idx: idx, resp: resp}
}

// native replay: installs / removes raft.VerifHooks (set by hooks_test.go; nil in the symbolic run)
var cbRaftHooksInstall func()
var cbRaftHooksRemove func()

// ---------------------------------------------------------------------------------------------
// the world

var cbOpenNative func() *sql.SwappableDB
var cbCloseNative func(d *sql.SwappableDB)
var cbRowsNative func(d *sql.SwappableDB) []int64

func cbRows(s *Store) []int64 {
	if !verifSymbolic() {
		return cbRowsNative(s.db)
	}
	return append([]int64(nil), cbD.rows...)
}

func cbSame(a, b []int64) bool {
	if len(a) != len(b) {
		return false
	}
	for i := range a {
		if a[i] != b[i] {
			return false
		}
	}
	return true
}

var cbLevels = []proto.ConsistencyLevel{
	proto.ConsistencyLevel_NONE, proto.ConsistencyLevel_WEAK, proto.ConsistencyLevel_AUTO,
	proto.ConsistencyLevel_LINEARIZABLE, proto.ConsistencyLevel_STRONG,
}

type cbScenario struct {
	s     *Store
	w     *cbRaftWorld
	level proto.ConsistencyLevel
	kinds []int
	rows0 []int64
}

func (sc *cbScenario) close() {
	if !verifSymbolic() {
		cbCloseNative(sc.s.db)
	}
	if cbRaftHooksRemove != nil {
		cbRaftHooksRemove()
	}
}

// cbSetup chooses the node (role, leader known, membership, whether a strong read was already made
// in this term, whether the node is ready), the level and the statements.
func cbSetup(maxStmts int, classes []int, withLevel bool) *cbScenario {
	if cbRaftHooksInstall != nil {
		cbRaftHooksInstall()
	}
	sc := &cbScenario{}
	w := &cbRaftWorld{term: 3, commit: 5}
	cbW, sc.w = w, w
	w.leader = verifChoice("role", 2) == 0
	w.known = w.leader || verifChoice("leaderKnown", 2) == 0
	if withLevel {
		sc.level = cbLevels[verifChoice("level", len(cbLevels))]
	}
	if sc.level == proto.ConsistencyLevel_AUTO {
		w.voter = verifChoice("voter", 3)
	}
	n := 1 + verifChoice("n", maxStmts)
	for i := 0; i < n; i++ {
		sc.kinds = append(sc.kinds, classes[verifChoice(verifName("class", i), len(classes))])
	}

	s := &Store{
		open:           rsync.NewAtomicBool(),
		raft:           &raft.Raft{}, // never consulted: every method the paths call is modelled
		raftID:         cbSelfID,
		raftTn:         &NodeTransport{commandCommitIndex: &atomic.Uint64{}, leaderCommitIndex: &atomic.Uint64{}},
		readyChans:     rsync.NewReadyChannels(),
		fsmTarget:      rsync.NewReadyTarget[uint64](),
		appliedTarget:  rsync.NewReadyTarget[uint64](),
		fsmUpdateTime:  rsync.NewAtomicTime(),
		appendedAtTime: rsync.NewAtomicTime(),
		dbModifiedTime: rsync.NewAtomicTime(),
		reqMarshaller:  command.NewRequestMarshaler(),
		throttler:      throttler.New(nil, 1, 0),
		logger:         log.New(io.Discard, "", 0),
		ApplyTimeout:   applyTimeout,
	}
	s.cmdProc = NewCommandProcessor(s.logger, nil)
	s.open.Set()
	// everything committed so far has been applied
	s.fsmIdx.Store(w.commit)
	s.fsmTarget.Signal(w.commit)
	s.fsmTerm.Store(w.term)
	if sc.level == proto.ConsistencyLevel_LINEARIZABLE && verifChoice("strongReadInThisTerm", 2) == 1 {
		s.strongReadTerm.Store(w.term)
	}
	if verifSymbolic() {
		cbD = &cbDB{rows: []int64{cbBaseRow}}
		cbC = &cbCodec{}
		s.db = &sql.SwappableDB{}
	} else {
		s.db = cbOpenNative()
	}
	sc.s = s
	w.fsm = NewFSM(s)
	w.observe = func() []int64 { return cbRows(s) }
	sc.rows0 = cbRows(s)
	verifAssume(cbSame(sc.rows0, []int64{cbBaseRow}))
	return sc
}

func (sc *cbScenario) request() *proto.Request {
	req := &proto.Request{}
	for pos, c := range sc.kinds {
		req.Statements = append(req.Statements, cbStatement(c, pos))
	}
	return req
}

func (sc *cbScenario) has(class int) bool {
	for _, c := range sc.kinds {
		if c == class {
			return true
		}
	}
	return false
}

// the common oracle: "a node's database changes only by applying committed log entries"
func (sc *cbScenario) checkOnlyThroughLog() (changed bool) {
	w := sc.w
	rows1 := cbRows(sc.s)
	changed = !cbSame(rows1, sc.rows0)
	// every change happened inside an FSM.Apply of a committed entry: outside of them the rows stand still
	prev := sc.rows0
	for i := 0; i+1 < len(w.fsmRows); i += 2 {
		verifAssert("C17-database-unchanged-outside-log-application", cbSame(w.fsmRows[i], prev))
		prev = w.fsmRows[i+1]
	}
	verifAssert("C17-database-unchanged-outside-log-application", cbSame(rows1, prev))
	if w.applied == 0 {
		verifAssert("C17-no-committed-entry-no-change", !changed)
	}
	return changed
}

var cbAllClasses = []int{cbRead, cbWrite, cbExplain, cbMislabelled}

// VerifC17bQuery: the query endpoint, every level, any statements (also data-changing ones).
func VerifC17bQuery() {
	verifPanicsAreViolations()
	maxN := 1 // (*Store).Query does not look at the statements: one is enough for the quick tier
	if verifTier() == 1 {
		maxN = 3
	}
	sc := cbSetup(maxN, cbAllClasses, true)
	defer sc.close()
	qr := &proto.QueryRequest{Request: sc.request(), Level: sc.level}
	rows, _, _, err := sc.s.Query(context.Background(), qr)
	changed := sc.checkOnlyThroughLog()
	verifAssert("C17-query-endpoint-never-changes-the-database", !changed)
	if err == nil {
		verifReach("query-answered")
		verifAssert("C17-one-answer-per-statement", len(rows) == len(sc.kinds))
		for i, c := range sc.kinds {
			if c == cbWrite || c == cbMislabelled {
				verifAssert("C17-write-through-query-endpoint-is-refused", rows[i] != nil && rows[i].Error != "")
				verifReach("write-through-query-endpoint-refused")
				if sc.w.applied > 0 {
					verifReach("write-through-query-endpoint-through-the-log-refused")
				}
			}
		}
		if sc.w.applied > 0 {
			verifReach("query-answered-through-the-log")
		} else {
			verifReach("query-answered-locally")
		}
	}
}

// VerifC17bRequest: the unified endpoint, every level, reads and writes mixed.
func VerifC17bRequest() {
	verifPanicsAreViolations()
	maxN := 2
	if verifTier() == 1 {
		maxN = 3
	}
	sc := cbSetup(maxN, cbAllClasses, true)
	defer sc.close()
	eqr := &proto.ExecuteQueryRequest{Request: sc.request(), Level: sc.level}
	resp, _, _, err := sc.s.Request(context.Background(), eqr)
	changed := sc.checkOnlyThroughLog()
	// every statement is a SELECT or an EXPLAIN: the unified request treats all of them as read-only
	readOnlyRequest := !sc.has(cbWrite) && !sc.has(cbMislabelled)
	if sc.has(cbMislabelled) && !sc.has(cbWrite) && err == nil && sc.w.applies == 0 {
		// the flag was wrong and the store served the request locally: the read path must refuse the change
		// (that the database did not change without the log was already asserted above)
		for i, c := range sc.kinds {
			if c == cbMislabelled {
				q := resp[i].GetQ()
				verifAssert("C17-write-through-read-arm-is-refused", q != nil && q.Error != "")
				verifReach("mislabelled-write-refused-locally")
			}
		}
	}
	if readOnlyRequest {
		// "no statement a unified request treats as read-only, at any consistency level, changes the database"
		verifAssert("C17-read-only-unified-request-never-changes-the-database", !changed)
		if sc.level == proto.ConsistencyLevel_NONE || sc.level == proto.ConsistencyLevel_WEAK || sc.level == proto.ConsistencyLevel_AUTO {
			// served locally: the log is not involved at these levels
			verifAssert("C17-local-levels-do-not-write-to-the-log", sc.w.applies == 0)
		}
		if err == nil {
			verifReach("read-only-request-answered")
			verifAssert("C17-one-answer-per-statement", len(resp) == len(sc.kinds))
			if sc.w.applied == 0 {
				verifReach("read-only-request-answered-locally")
				if sc.has(cbExplain) {
					verifReach("explain-answered-locally")
				}
			} else {
				verifReach("read-only-request-answered-through-the-log")
			}
		}
	} else if changed {
		verifReach("write-request-changed-database-through-the-log")
	}
}

// VerifC17bExecute: the execute endpoint changes the database only through the log.
func VerifC17bExecute() {
	verifPanicsAreViolations()
	sc := cbSetup(2, []int{cbRead, cbWrite}, false)
	defer sc.close()
	_, _, err := sc.s.Execute(context.Background(), &proto.ExecuteRequest{Request: sc.request()})
	changed := sc.checkOnlyThroughLog()
	if changed {
		verifReach("execute-changed-database-through-the-log")
	}
	if err != nil && sc.w.applied == 0 {
		verifReach("execute-refused-nothing-changed")
	}
}

// Twin: the same machinery claims that nothing ever changes the database. Must be violated.
func VerifC17bTwin() {
	sc := cbSetup(1, []int{cbWrite}, false)
	defer sc.close()
	sc.s.Execute(context.Background(), &proto.ExecuteRequest{Request: sc.request()})
	verifAssert("twin-execute-never-changes-the-database", cbSame(cbRows(sc.s), sc.rows0))
}
