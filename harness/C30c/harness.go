package encoding

// C30c - the last step of "values read back are returned in JSON without loss": the BYTES the
// client receives. harness/C30 (package http) follows a value from the database row to the Go
// value handed to the JSON encoder; this harness runs the encoding entry points of
// command/encoding themselves (Encoder.JSONMarshal, Encoder.JSONMarshalIndent,
// ByteSliceAsArray.MarshalJSON -> jsonMarshal / noEscapeEncode) from SSA and asks the ownership
// question: an encoded result, once returned, carries the values of ITS request and stays what it
// was while and after other results are encoded (the HTTP service encodes the responses of
// different requests concurrently, and copies a result only after the encoder has returned it).
//
// encoding/json's reflection cannot run in the engine. Its entry points used here are modelled
// (spec "models") by an injective binary rendering of the value tree (vkRender): equal renderings
// <=> equal value trees, which is all the ownership question needs. Natively the real
// encoding/json runs, and results are compared as real JSON (decoded with UseNumber and compared
// with the decoded real encoding of the expected response object; see native_test.go).
//
// Oracle (from the property and the documented response format, not from the code): the
// expected response object is built by the harness straight from the payload it chose:
// {"columns":[..],"types":[..],"values":[[v]]} / {"types":{..},"rows":[{col:v}]} /
// {"last_insert_id":..,"rows_affected":..} ...; blobs are base64 strings or, with blob_array,
// arrays of numbers.

import (
	"bytes"
	"encoding/json"
	"io"
	"math"
	"sync"

	"github.com/rqlite/rqlite/v10/command/proto"
)

// verifPoolReuse: engine-only API (engine/sym/intr_C30c.go): from here on a sync.Pool used by this
// package hands out what was Put before (or New(): a choice) and Get/Put are scheduling points.
// Natively the real sync.Pool runs (native_test.go pins the replay to one P so that a Put object
// is what the next Get returns).
func verifPoolReuse() {}

// ---------------------------------------------------------------------------------------------
// model of encoding/json (symbolic run only)

type vkEncRec struct {
	e      *json.Encoder
	w      io.Writer
	indent bool
	pre    string
	ind    string
}

var vkEncs []*vkEncRec

func vkEncOf(e *json.Encoder) *vkEncRec {
	for _, r := range vkEncs {
		if r.e == e {
			return r
		}
	}
	panic("C30c model: json.Encoder not created by json.NewEncoder")
}

func vkNewEncoder(w io.Writer) *json.Encoder {
	e := new(json.Encoder)
	vkEncs = append(vkEncs, &vkEncRec{e: e, w: w})
	return e
}

func vkSetEscapeHTML(e *json.Encoder, on bool) { vkEncOf(e) }

func vkSetIndent(e *json.Encoder, prefix, indent string) {
	r := vkEncOf(e)
	r.indent, r.pre, r.ind = prefix != "" || indent != "", prefix, indent
}

// Encode writes the rendering followed by a newline, in ONE Write call (as the real one does).
func vkEncode(e *json.Encoder, v any) error {
	r := vkEncOf(e)
	b, err := vkRender(nil, v)
	if err != nil {
		return err
	}
	if r.indent {
		b = vkIndentBytes(b, r.pre, r.ind)
	}
	b = append(b, '\n')
	_, err = r.w.Write(b)
	return err
}

func vkMarshal(v any) ([]byte, error) { return vkRender(nil, v) }

func vkMarshalIndent(v any, prefix, indent string) ([]byte, error) {
	b, err := vkRender(nil, v)
	if err != nil {
		return nil, err
	}
	return vkIndentBytes(b, prefix, indent), nil
}

// json.Indent appends to dst (it does not reset it).
func vkIndent(dst *bytes.Buffer, src []byte, prefix, indent string) error {
	dst.Write(vkIndentBytes(src, prefix, indent))
	return nil
}

// the indented form of a rendering: a wrapper naming prefix and indent
func vkIndentBytes(src []byte, prefix, indent string) []byte {
	out := []byte{'<', 'I'}
	out = vkStr(out, prefix)
	out = vkStr(out, indent)
	out = append(out, src...)
	return append(out, '>')
}

func vkU64(out []byte, u uint64) []byte {
	return append(out, byte(u>>56), byte(u>>48), byte(u>>40), byte(u>>32), byte(u>>24), byte(u>>16), byte(u>>8), byte(u))
}

func vkLen(out []byte, n int) []byte { return append(out, byte(n>>8), byte(n)) }

func vkStr(out []byte, s string) []byte {
	out = vkLen(out, len(s))
	return append(out, s...)
}

func vkSortedKeys(keys []string) []string {
	for i := 1; i < len(keys); i++ {
		for j := i; j > 0 && keys[j] < keys[j-1]; j-- {
			keys[j], keys[j-1] = keys[j-1], keys[j]
		}
	}
	return keys
}

func vkResultFields(out []byte, r *Result) []byte {
	out = vkU64(out, uint64(r.LastInsertID))
	out = vkU64(out, uint64(r.RowsAffected))
	out = vkStr(out, r.Error)
	return vkU64(out, math.Float64bits(r.Time))
}

func vkRowMaps(out []byte, rows []map[string]any) ([]byte, error) {
	if rows == nil {
		return append(out, 'n'), nil
	}
	out = append(out, '[')
	out = vkLen(out, len(rows))
	var err error
	for _, m := range rows {
		if out, err = vkRender(out, m); err != nil {
			return nil, err
		}
	}
	return append(out, ']'), nil
}

// vkRender appends the rendering of v: a type tag, fixed-width numbers, length-prefixed strings,
// counted sequences closed by a bracket (so that no rendering ends in '\n'). Distinct value trees
// have distinct renderings; a json.Marshaler's output is taken verbatim (its contract).
func vkRender(out []byte, v any) ([]byte, error) {
	var err error
	switch x := v.(type) {
	case nil:
		return append(out, 'n'), nil
	case bool:
		if x {
			return append(out, 't'), nil
		}
		return append(out, 'F'), nil
	case int64:
		return vkU64(append(out, 'i'), uint64(x)), nil
	case int:
		return vkU64(append(out, 'i'), uint64(x)), nil
	case float64:
		return vkU64(append(out, 'f'), math.Float64bits(x)), nil
	case string:
		return append(vkStr(append(out, 's'), x), '"'), nil
	case []byte:
		if x == nil {
			return append(out, 'n'), nil
		}
		out = vkLen(append(out, 'y'), len(x))
		return append(append(out, x...), '"'), nil
	case []int:
		if x == nil {
			return append(out, 'n'), nil
		}
		out = vkLen(append(out, '['), len(x))
		for _, e := range x {
			out = vkU64(append(out, 'i'), uint64(e))
		}
		return append(out, ']'), nil
	case []string:
		if x == nil {
			return append(out, 'n'), nil
		}
		out = vkLen(append(out, '['), len(x))
		for _, e := range x {
			out = append(vkStr(append(out, 's'), e), '"')
		}
		return append(out, ']'), nil
	case []any:
		if x == nil {
			return append(out, 'n'), nil
		}
		out = vkLen(append(out, '['), len(x))
		for _, e := range x {
			if out, err = vkRender(out, e); err != nil {
				return nil, err
			}
		}
		return append(out, ']'), nil
	case [][]any:
		if x == nil {
			return append(out, 'n'), nil
		}
		out = vkLen(append(out, '['), len(x))
		for _, e := range x {
			if out, err = vkRender(out, e); err != nil {
				return nil, err
			}
		}
		return append(out, ']'), nil
	case map[string]any:
		if x == nil {
			return append(out, 'n'), nil
		}
		var keys []string
		for k := range x {
			keys = append(keys, k)
		}
		out = vkLen(append(out, '{'), len(keys))
		for _, k := range vkSortedKeys(keys) {
			out = vkStr(out, k)
			if out, err = vkRender(out, x[k]); err != nil {
				return nil, err
			}
		}
		return append(out, '}'), nil
	case map[string]string:
		if x == nil {
			return append(out, 'n'), nil
		}
		var keys []string
		for k := range x {
			keys = append(keys, k)
		}
		out = vkLen(append(out, '{'), len(keys))
		for _, k := range vkSortedKeys(keys) {
			out = vkStr(out, k)
			out = append(vkStr(append(out, 's'), x[k]), '"')
		}
		return append(out, '}'), nil
	case []map[string]any:
		return vkRowMaps(out, x)
	case *Result:
		if x == nil {
			return append(out, 'n'), nil
		}
		return append(vkResultFields(append(out, '{', 'E'), x), '}'), nil
	case *ResultWithRows:
		if x == nil {
			return append(out, 'n'), nil
		}
		out = vkResultFields(append(out, '{', 'W'), &x.Result)
		if out, err = vkRowMaps(out, x.Rows); err != nil {
			return nil, err
		}
		return append(out, '}'), nil
	case *Rows:
		if x == nil {
			return append(out, 'n'), nil
		}
		out = append(out, '{', 'R')
		if out, err = vkRender(out, x.Columns); err != nil {
			return nil, err
		}
		if out, err = vkRender(out, x.Types); err != nil {
			return nil, err
		}
		if out, err = vkRender(out, x.Values); err != nil {
			return nil, err
		}
		out = vkStr(out, x.Error)
		out = vkU64(out, math.Float64bits(x.Time))
		return append(out, '}'), nil
	case *AssociativeRows:
		if x == nil {
			return append(out, 'n'), nil
		}
		out = append(out, '{', 'A')
		if out, err = vkRender(out, x.Types); err != nil {
			return nil, err
		}
		if out, err = vkRowMaps(out, x.Rows); err != nil {
			return nil, err
		}
		out = vkStr(out, x.Error)
		out = vkU64(out, math.Float64bits(x.Time))
		return append(out, '}'), nil
	case []*Result:
		if x == nil {
			return append(out, 'n'), nil
		}
		out = vkLen(append(out, '['), len(x))
		for _, e := range x {
			if out, err = vkRender(out, e); err != nil {
				return nil, err
			}
		}
		return append(out, ']'), nil
	case []*Rows:
		if x == nil {
			return append(out, 'n'), nil
		}
		out = vkLen(append(out, '['), len(x))
		for _, e := range x {
			if out, err = vkRender(out, e); err != nil {
				return nil, err
			}
		}
		return append(out, ']'), nil
	case []*AssociativeRows:
		if x == nil {
			return append(out, 'n'), nil
		}
		out = vkLen(append(out, '['), len(x))
		for _, e := range x {
			if out, err = vkRender(out, e); err != nil {
				return nil, err
			}
		}
		return append(out, ']'), nil
	case json.Marshaler:
		b, err := x.MarshalJSON()
		if err != nil {
			return nil, err
		}
		return append(out, b...), nil
	}
	// fail closed: a value the model cannot render must not look like a success
	panic("C30c model: encoding/json model does not know this type")
}

// ---------------------------------------------------------------------------------------------
// payloads, requests and the expected response objects

const (
	vkRowsOne  = iota // *proto.QueryRows
	vkRowsList        // []*proto.QueryRows
	vkExecOne         // *proto.ExecuteResult
	vkExecList        // []*proto.ExecuteResult
	vkMixed           // []*proto.ExecuteQueryResponse: one query, one execute
	vkValues          // []*proto.Values
	vkArray           // ByteSliceAsArray.MarshalJSON directly
	vkNKinds
)

const (
	vkInt = iota
	vkText
	vkBlob
	vkNull
	vkReal
	vkBool
	vkNTypes
)

type vkPayload struct {
	kind, vtype    int
	assoc, blobArr bool
	indent         bool
	cols           int // 1..2 (the second column holds a second integer)
	i, i2          int64
	s              string
	y              []byte
	f              float64
	b              bool
	lastID, nAff   int64
}

var vkReals = []float64{0.5, -1e21, 3}

// curated configurations (quick tier, and the "other side" of the thorough tier): every request
// kind, every entry point, both result forms, each storage class used for symbolic payloads, equal
// and different result lengths
var vkCurated = []vkPayload{
	{kind: vkRowsList, vtype: vkInt},
	{kind: vkRowsList, vtype: vkText, assoc: true, blobArr: true},
	{kind: vkRowsOne, vtype: vkBlob, blobArr: true, indent: true},
	{kind: vkMixed, vtype: vkInt, assoc: true},
	{kind: vkExecList},
	{kind: vkArray},
	{kind: vkValues, vtype: vkBlob, indent: true},
	{kind: vkExecOne, indent: true},
}

const (
	vkModeCurated = iota // one of vkCurated, payload lengths fixed (text 3, blob 2)
	vkModeFull           // every combination of kind, storage class, form, blob_array, entry point, 1..2 columns, payload lengths
	vkModeSmall          // []*QueryRows, blob_array: integer in array form | text in associative form | blob
)

// vkPick chooses the payload of encode number k.
func vkPick(k int, mode int) *vkPayload {
	p := &vkPayload{}
	textLen, blobLen := 3, 2
	switch mode {
	case vkModeCurated:
		*p = vkCurated[verifChoice(verifName("config", k), len(vkCurated))]
	case vkModeFull:
		// (only the choices that matter for the kind are made: no duplicate paths)
		p.kind = verifChoice(verifName("kind", k), vkNKinds)
		switch p.kind {
		case vkArray:
			blobLen = 2 * verifChoice(verifName("bloblen", k), 2)
		case vkExecOne, vkExecList:
			p.indent = verifChoice(verifName("indent", k), 2) == 1
		default:
			p.vtype = verifChoice(verifName("vtype", k), vkNTypes)
			p.indent = verifChoice(verifName("indent", k), 2) == 1
			if p.kind != vkValues {
				p.assoc = verifChoice(verifName("assoc", k), 2) == 1
			}
			p.cols = 1 + verifChoice(verifName("cols", k), 2)
			switch p.vtype {
			case vkText:
				textLen = 3 * verifChoice(verifName("textlen", k), 2)
			case vkBlob:
				p.blobArr = verifChoice(verifName("blobarr", k), 2) == 1
				blobLen = 2 * verifChoice(verifName("bloblen", k), 2)
			}
		}
	case vkModeSmall:
		p.kind, p.blobArr = vkRowsList, true
		p.vtype = verifChoice(verifName("vtype", k), 3)
		p.assoc = p.vtype == vkText
	}
	if p.cols == 0 {
		p.cols = 1
	}
	if p.kind == vkArray {
		p.vtype, p.blobArr, p.indent, p.assoc, p.cols = vkBlob, true, false, false, 1
	}
	if p.kind == vkExecOne || p.kind == vkExecList {
		p.vtype, p.cols, p.assoc, p.blobArr = vkInt, 1, false, false // no row values
	}
	p.i = verifI64(verifName("int", k))
	p.i2 = verifI64(verifName("int2_", k))
	p.lastID = verifI64(verifName("lastid", k))
	p.nAff = verifI64(verifName("affected", k))
	switch p.vtype {
	case vkText:
		t := verifBytes(verifName("text", k), textLen)
		for _, c := range t {
			verifAssume(c-0x20 < 0x5f) // printable ASCII: encoding/json keeps such text exactly
		}
		p.s = string(t)
	case vkBlob:
		p.y = append([]byte{}, verifBytes(verifName("blob", k), blobLen)...)
	case vkReal:
		p.f = vkReals[verifChoice(verifName("real", k), len(vkReals))]
	case vkBool:
		p.b = verifChoice(verifName("bool", k), 2) == 1
	}
	return p
}

func (p *vkPayload) columns() ([]string, []string) {
	if p.cols == 2 {
		return []string{"v", "id"}, []string{"", "integer"}
	}
	return []string{"v"}, []string{"blob"}
}

// the database side: what the store hands to the encoder
func (p *vkPayload) parameter() *proto.Parameter {
	switch p.vtype {
	case vkInt:
		return &proto.Parameter{Value: &proto.Parameter_I{I: p.i}}
	case vkText:
		return &proto.Parameter{Value: &proto.Parameter_S{S: p.s}}
	case vkBlob:
		return &proto.Parameter{Value: &proto.Parameter_Y{Y: append([]byte{}, p.y...)}}
	case vkReal:
		return &proto.Parameter{Value: &proto.Parameter_D{D: p.f}}
	case vkBool:
		return &proto.Parameter{Value: &proto.Parameter_B{B: p.b}}
	}
	return &proto.Parameter{}
}

func (p *vkPayload) protoValues() []*proto.Values {
	row := []*proto.Parameter{p.parameter()}
	if p.cols == 2 {
		row = append(row, &proto.Parameter{Value: &proto.Parameter_I{I: p.i2}})
	}
	return []*proto.Values{{Parameters: row}}
}

func (p *vkPayload) protoRows() *proto.QueryRows {
	c, t := p.columns()
	return &proto.QueryRows{Columns: c, Types: t, Values: p.protoValues()}
}

func (p *vkPayload) protoExec() *proto.ExecuteResult {
	return &proto.ExecuteResult{LastInsertId: p.lastID, RowsAffected: p.nAff}
}

func (p *vkPayload) request() any {
	switch p.kind {
	case vkRowsOne:
		return p.protoRows()
	case vkRowsList:
		return []*proto.QueryRows{p.protoRows()}
	case vkExecOne:
		return p.protoExec()
	case vkExecList:
		return []*proto.ExecuteResult{p.protoExec()}
	case vkMixed:
		return []*proto.ExecuteQueryResponse{
			{Result: &proto.ExecuteQueryResponse_Q{Q: p.protoRows()}},
			{Result: &proto.ExecuteQueryResponse_E{E: p.protoExec()}},
		}
	case vkValues:
		return p.protoValues()
	}
	panic("kind")
}

// the client side: what the documented response format says the client gets
func (p *vkPayload) wantValue() any {
	switch p.vtype {
	case vkInt:
		return p.i
	case vkText:
		return p.s
	case vkBlob:
		if p.blobArr {
			a := make([]int, len(p.y))
			for i, c := range p.y {
				a[i] = int(c)
			}
			return a
		}
		return append([]byte{}, p.y...)
	case vkReal:
		return p.f
	case vkBool:
		return p.b
	}
	return nil
}

func (p *vkPayload) wantRow() []any {
	row := []any{p.wantValue()}
	if p.cols == 2 {
		row = append(row, p.i2)
	}
	return row
}

func (p *vkPayload) wantRows() any {
	c, t := p.columns()
	row := p.wantRow()
	if p.assoc {
		types := map[string]string{}
		m := map[string]any{}
		for i := range c {
			types[c[i]] = t[i]
			m[c[i]] = row[i]
		}
		return &AssociativeRows{Types: types, Rows: []map[string]any{m}}
	}
	return &Rows{Columns: c, Types: t, Values: [][]any{row}}
}

func (p *vkPayload) want() any {
	exec := &Result{LastInsertID: p.lastID, RowsAffected: p.nAff}
	switch p.kind {
	case vkRowsOne:
		return p.wantRows()
	case vkRowsList:
		return []any{p.wantRows()}
	case vkExecOne:
		return exec
	case vkExecList:
		return []any{exec}
	case vkMixed:
		if p.assoc {
			return []any{p.wantRows(), &ResultWithRows{Result: *exec}}
		}
		return []any{p.wantRows(), exec}
	case vkValues:
		return []any{p.wantRow()}
	case vkArray:
		return p.wantValue()
	}
	panic("kind")
}

const vkPrefix, vkIndentStr = "", "    "

// reference encoding of the expected response object (symbolically the model rendering, natively
// the real encoding/json)
func (p *vkPayload) ref() []byte {
	b, err := json.Marshal(p.want())
	if err != nil {
		panic("C30c: reference encoding failed")
	}
	if p.indent {
		var out bytes.Buffer
		if err := json.Indent(&out, b, vkPrefix, vkIndentStr); err != nil {
			panic("C30c: reference indentation failed")
		}
		return out.Bytes()
	}
	return b
}

// encode runs the entry point of the package under test.
func (p *vkPayload) encode() ([]byte, error) {
	if p.kind == vkArray {
		return ByteSliceAsArray(append([]byte{}, p.y...)).MarshalJSON()
	}
	enc := &Encoder{Associative: p.assoc, BlobsAsByteArrays: p.blobArr}
	if p.indent {
		return enc.JSONMarshalIndent(p.request(), vkPrefix, vkIndentStr)
	}
	return enc.JSONMarshal(p.request())
}

// vkNativeSame (native_test.go): got and ref are JSON texts of the same value tree. Symbolically
// renderings are compared byte by byte (the rendering is injective).
var vkNativeSame func(got, ref []byte) bool

func vkSame(got, ref []byte) bool {
	if vkNativeSame != nil {
		return vkNativeSame(got, ref)
	}
	return bytes.Equal(got, ref)
}

func vkClone(b []byte) []byte { return append([]byte(nil), b...) }

type vkResult struct {
	out, snap, ref []byte
	err            error
}

// vkRun: one request's encode; the snapshot is what the caller was given, taken at once.
func vkRun(p *vkPayload) *vkResult {
	r := &vkResult{ref: p.ref()}
	r.out, r.err = p.encode()
	r.snap = vkClone(r.out)
	return r
}

// vkStart returns the result of an earlier, large, indented response (a server has answered other requests
// before the ones looked at): it is an "earlier result" like any other, and whatever buffers the
// package keeps have grown beyond the size of the results that follow - natively a buffer that has
// to grow is reallocated, which would hide most in-place reuse from the replay.
func vkStart() *vkResult {
	verifPanicsAreViolations()
	verifPoolReuse()
	w := make([]byte, 300)
	for i := range w {
		w[i] = 'w'
	}
	r := vkRun(&vkPayload{kind: vkRowsList, vtype: vkText, s: string(w), cols: 1, indent: true})
	verifAssert("C30c-encode-succeeds", r.err == nil)
	verifAssert("C30c-result-carries-own-values", vkSame(r.out, r.ref))
	return r
}

// ---------------------------------------------------------------------------------------------
// entries

// VerifC30cSequential: encode A, keep the returned bytes, encode one or two further results
// (same or different shape, same or different entry point): every result carries its own values
// when it is returned, and every earlier result still is what it was.
func VerifC30cSequential() {
	rs := []*vkResult{vkStart()}
	n := 2 + verifChoice("further", 2)
	if n == 3 {
		verifReach("three-encodes")
	}
	// thorough: one of the first two encodes ranges over every combination
	// (sequences of two; sequences of three: two curated configurations and a list of rows)
	full := -1
	if verifTier() == 1 && n == 2 {
		full = verifChoice("full-side", 2)
	}
	for k := 0; k < n; k++ {
		var p *vkPayload
		switch {
		case k == full:
			p = vkPick(k, vkModeFull)
		case n == 2 || verifTier() == 1 && k < 2:
			p = vkPick(k, vkModeCurated)
		default:
			p = vkPick(k, vkModeSmall) // quick: sequences of three are all lists of rows
		}
		r := vkRun(p)
		verifAssert("C30c-encode-succeeds", r.err == nil)
		verifAssert("C30c-result-carries-own-values", vkSame(r.out, r.ref))
		rs = append(rs, r)
		for j := 0; j < len(rs)-1; j++ {
			verifAssert("C30c-earlier-result-unchanged-by-later-encode", bytes.Equal(rs[j].out, rs[j].snap))
			verifAssert("C30c-earlier-result-still-own-values", vkSame(rs[j].out, rs[j].ref))
		}
		if p.indent {
			verifReach("indented")
		}
		if p.kind == vkArray {
			verifReach("byte-array-marshaler")
		}
	}
	verifReach("sequence-checked")
}

// VerifC30cConcurrent: two requests are encoded by two goroutines; scheduling points are the
// synchronisation operations of the package (sync.Pool Get/Put, locks, channels); one preemption
// (thorough: two, and the first request ranges over all curated configurations).
func VerifC30cConcurrent() {
	warm := vkStart()
	a := vkPick(0, vkModeCurated)
	if verifTier() == 0 {
		verifAssume(a.kind == vkRowsList) // an integer in array form, or text in associative form
	}
	ps := []*vkPayload{a, vkPick(1, vkModeSmall)}
	rs := make([]*vkResult, 3)
	rs[2] = warm
	var wg sync.WaitGroup
	wg.Add(2)
	go func() {
		defer wg.Done()
		rs[0] = vkRun(ps[0])
	}()
	go func() {
		defer wg.Done()
		rs[1] = vkRun(ps[1])
	}()
	wg.Wait()
	for _, r := range rs {
		verifAssert("C30c-concurrent-encode-succeeds", r != nil && r.err == nil)
		verifAssert("C30c-concurrent-result-unchanged-by-other-encode", bytes.Equal(r.out, r.snap))
		verifAssert("C30c-concurrent-result-own-values", vkSame(r.out, r.ref))
	}
	verifReach("both-encoded")
}

// VerifC30cTwin: same shape as the sequential entry; the final claim (A's bytes carry B's values)
// must fail.
func VerifC30cTwin() {
	vkStart()
	a := vkPick(0, vkModeSmall)
	b := vkPick(1, vkModeSmall)
	verifAssume(a.vtype != b.vtype)
	ra := vkRun(a)
	rb := vkRun(b)
	verifAssume(ra.err == nil && rb.err == nil)
	verifAssert("C30c-twin", vkSame(ra.out, rb.ref))
}
