package encoding

import (
	"bytes"
	"encoding/json"
	"io"
	"reflect"
	"runtime"
	"testing"
)

// Native side of C30c (replay build only). The real encoding/json produces the results, so they
// are compared as JSON: both texts are decoded (numbers kept as literals: full 64-bit integers)
// and the value trees compared. The reference text is the real encoding of the expected response
// object the harness built from its payload.
//
// One P: sync.Pool keeps a Put object in a per-P slot; with a single P the next Get - of whatever
// goroutine - returns it, which is the behaviour the first symbolic path of a Get explores.

func init() {
	runtime.GOMAXPROCS(1)
	vkNativeSame = func(got, ref []byte) bool {
		g, ok := vkDecode(got)
		if !ok {
			return false
		}
		r, ok := vkDecode(ref)
		if !ok {
			panic("C30c: reference text is not JSON: " + string(ref))
		}
		return reflect.DeepEqual(g, r)
	}
}

func vkDecode(b []byte) (any, bool) {
	dec := json.NewDecoder(bytes.NewReader(b))
	dec.UseNumber()
	var v any
	if err := dec.Decode(&v); err != nil {
		return nil, false
	}
	// exactly one JSON value
	var extra any
	if err := dec.Decode(&extra); err != io.EOF {
		return nil, false
	}
	return v, true
}

// TestVerifC30cNativeSweep (spec "native_checks"): on the real encoding/json, for every combination
// of request kind, storage class, result form, blob_array, entry point and column count the harness
// can choose, with concrete payloads (integer extremes, text that encoding/json escapes, blob bytes
// 0x00/0xff): the encoded result decodes to the expected response object the harness builds (so the
// native oracle and the documented format agree on the unchanged code), and a result is not changed
// by the next encode.
func TestVerifC30cNativeSweep(t *testing.T) {
	ints := []int64{0, -1, 9223372036854775807, -9223372036854775808, 9007199254740993}
	texts := []string{"", "abc", `<a href="x">&\ '`}
	blobs := [][]byte{{}, {0x00, 0xff}, {'"', '\n', 0x80}}
	n := 0
	var prev *vkResult
	for kind := 0; kind < vkNKinds; kind++ {
		for vtype := 0; vtype < vkNTypes; vtype++ {
			for flags := 0; flags < 16; flags++ {
				for v := 0; v < 3; v++ {
					p := &vkPayload{kind: kind, vtype: vtype, assoc: flags&1 != 0, blobArr: flags&2 != 0, indent: flags&4 != 0, cols: 1 + flags>>3,
						i: ints[(v+kind)%len(ints)], i2: ints[(v+vtype+1)%len(ints)], s: texts[v], y: blobs[v], f: vkReals[v], b: v == 1,
						lastID: ints[(v+2)%len(ints)], nAff: ints[(v+3)%len(ints)]}
					if kind == vkArray {
						if vtype != vkBlob || flags != 2 {
							continue
						}
					}
					r := vkRun(p)
					if r.err != nil {
						t.Fatalf("%+v: %v", *p, r.err)
					}
					if !vkSame(r.out, r.ref) {
						t.Fatalf("%+v: result %s does not decode to the expected response %s", *p, r.out, r.ref)
					}
					if prev != nil && (!bytes.Equal(prev.out, prev.snap) || !vkSame(prev.out, prev.ref)) {
						t.Fatalf("%+v: the previous result was changed by this encode: was %s, is %s", *p, prev.snap, prev.out)
					}
					prev = r
					n++
				}
			}
		}
	}
	t.Logf("%d encodes", n)
}
