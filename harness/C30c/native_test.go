package encoding

import (
	"bytes"
	"encoding/json"
	"io"
	"reflect"
	"runtime"
)

// Native side of C30c (replay build only). The real encoding/json produces the results, so they
// are compared as JSON: both texts are decoded (numbers kept as literals: full 64-bit integers)
// and the value trees compared. The reference text is the real encoding of the expected response
// object the harness built from its payload.
//
// One P: sync.Pool keeps a Put object in a per-P slot; with a single P the next Get - of whatever
// goroutine - returns it, which is the behaviour the first symbolic path of a Get explores.

func init() {
	runtime.GOMAXPROCS(1)
	vkNativeSame = func(got, ref []byte) bool {
		g, ok := vkDecode(got)
		if !ok {
			return false
		}
		r, ok := vkDecode(ref)
		if !ok {
			panic("C30c: reference text is not JSON: " + string(ref))
		}
		return reflect.DeepEqual(g, r)
	}
}

func vkDecode(b []byte) (any, bool) {
	dec := json.NewDecoder(bytes.NewReader(b))
	dec.UseNumber()
	var v any
	if err := dec.Decode(&v); err != nil {
		return nil, false
	}
	// exactly one JSON value
	var extra any
	if err := dec.Decode(&extra); err != io.EOF {
		return nil, false
	}
	return v, true
}
