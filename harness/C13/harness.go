package db

import (
	"context"
	"database/sql"
	"errors"
	"time"

	command "github.com/rqlite/rqlite/v10/command/proto"
)

// C13: transactional requests are all-or-nothing, results match statements.
//
// A request is a list of statements drawn (verifChoice: one path per combination) from a small
// table of CONCRETE SQL texts, one per statement class, so that exactly the same entry runs
//   * in the engine: real (*DB).Execute / (*DB).Request code (executeWithConn, executeStmtWithConn,
//     RequestWithContext, queryStmtWithConn, createEQQueryResponse, normalizeRowParameters ...) on top of
//     the abstract SQL connection of DESIGN 4.3 (verifLite + the database/sql models below),
//   * natively: the same code on a real on-disk db.DB (scratch file, table foo with row id 1).
//
// The oracle (verifSpec) is an interpreter written from the property statement, independent of
// the implementation: it says which results must come back and which rows must be committed /
// pending afterwards. What is observed (results, rows visible on the write connection, rows
// visible on a second connection = committed, "a transaction is still open") is compared with it.

// ---------------------------------------------------------------------------------------------
// statement classes and their concrete SQL

const (
	vOK       = iota // INSERT of a fresh row (id 100+position): succeeds
	vPrep            // INSERT into a missing table: fails when prepared
	vStep            // INSERT of the existing primary key 1: prepared fine, fails when stepped
	vRead            // SELECT id FROM foo ORDER BY id
	vEmpty           // "" (skipped by both paths, produces no result)
	vRet             // INSERT ... RETURNING id with ForceQuery (write executed through the query path)
	vReadPrep        // SELECT from a missing table with ForceQuery: query path, fails when prepared
	vBegin           // explicit BEGIN
	vCommit          // explicit COMMIT
	vRollback        // explicit ROLLBACK
	vRetStep         // INSERT of the existing key ... RETURNING id with ForceQuery: query path, fails at step
	vSlow            // a read that runs (far) longer than the request's DbTimeout: ends when the context ends
	vNumClasses
)

var verifClassName = []string{"ok", "prep", "step", "read", "empty", "ret", "readprep", "begin", "commit", "rollback", "retstep", "slow"}

const (
	verifSQLPrep     = "INSERT INTO nonexistent(id) VALUES(5)"
	verifSQLStep     = "INSERT INTO foo(id,name) VALUES(1,'dup')"
	verifSQLRetStep  = "INSERT INTO foo(id,name) VALUES(1,'dup') RETURNING id"
	verifSQLRead     = "SELECT id FROM foo ORDER BY id"
	verifSQLReadPrep = "SELECT id FROM nonexistent"
	verifSQLBegin    = "BEGIN"
	verifSQLCommit   = "COMMIT"
	verifSQLRollback = "ROLLBACK"
	verifSQLSlow     = "WITH RECURSIVE c(x) AS (SELECT 1 UNION ALL SELECT x+1 FROM c WHERE x < 100000000000) SELECT count(*) FROM c"

	verifMsgNoTable    = "no such table: nonexistent"
	verifMsgUnique     = "UNIQUE constraint failed: foo.id"
	verifMsgBeginInTx  = "cannot start a transaction within a transaction"
	verifMsgCommitNoTx = "cannot commit - no transaction is active"
	verifMsgRbNoTx     = "cannot rollback - no transaction is active"
	verifMsgAnyTimeout = "*" // oracle only: some non-empty error text

	verifBaseRow    = int64(1)  // committed before the request
	verifPendingRow = int64(50) // inserted by the earlier, still open transaction (preTx)
	verifMaxStmts   = 8

	verifDbTimeout = int64(750 * time.Millisecond) // Request.DbTimeout of the timeout band
)

func verifRowID(pos int) int64 { return int64(100 + pos) }

func verifOKSQL(pos int) string {
	return "INSERT INTO foo(id,name) VALUES(10" + string(rune('0'+pos)) + ",'w')"
}
func verifRetSQL(pos int) string {
	return "INSERT INTO foo(id,name) VALUES(10" + string(rune('0'+pos)) + ",'r') RETURNING id"
}

func verifSQLOf(class, pos int) string {
	switch class {
	case vOK:
		return verifOKSQL(pos)
	case vRet:
		return verifRetSQL(pos)
	case vPrep:
		return verifSQLPrep
	case vStep:
		return verifSQLStep
	case vRetStep:
		return verifSQLRetStep
	case vRead:
		return verifSQLRead
	case vReadPrep:
		return verifSQLReadPrep
	case vBegin:
		return verifSQLBegin
	case vCommit:
		return verifSQLCommit
	case vRollback:
		return verifSQLRollback
	case vSlow:
		return verifSQLSlow
	}
	return ""
}

// verifClassify is the model's "parser": SQL text -> (class, row id). Unknown text panics (the
// models must never be handed a statement outside the table).
func verifClassify(q string) (int, int64) {
	switch q {
	case "":
		return vEmpty, 0 // only reachable if the code under test stops skipping empty statements
	case verifSQLPrep:
		return vPrep, 0
	case verifSQLStep:
		return vStep, verifBaseRow
	case verifSQLRetStep:
		return vRetStep, verifBaseRow
	case verifSQLRead:
		return vRead, 0
	case verifSQLReadPrep:
		return vReadPrep, 0
	case verifSQLBegin:
		return vBegin, 0
	case verifSQLCommit:
		return vCommit, 0
	case verifSQLRollback:
		return vRollback, 0
	case verifSQLSlow:
		return vSlow, 0
	}
	for p := 0; p < verifMaxStmts; p++ {
		if q == verifOKSQL(p) {
			return vOK, verifRowID(p)
		}
		if q == verifRetSQL(p) {
			return vRet, verifRowID(p)
		}
	}
	panic("verif C13: SQL outside the statement table: " + q)
}

// ---------------------------------------------------------------------------------------------
// abstract SQLite connection (DESIGN 4.3): autocommit / explicit transaction, pending and
// committed effect lists, statement-level failure leaves the transaction open.

type verifLite struct {
	inTx      bool
	committed []int64
	pending   []int64
	lastID    int64
}

var verifL *verifLite

func (l *verifLite) has(id int64) bool {
	for _, x := range l.committed {
		if x == id {
			return true
		}
	}
	for _, x := range l.pending {
		if x == id {
			return true
		}
	}
	return false
}

func (l *verifLite) visible() []int64 {
	out := make([]int64, 0, len(l.committed)+len(l.pending))
	out = append(out, l.committed...)
	out = append(out, l.pending...)
	return out
}

// prepare fails exactly for the fails-at-prepare classes.
func (l *verifLite) prepare(class int) error {
	if class == vPrep || class == vReadPrep {
		return errors.New(verifMsgNoTable)
	}
	return nil
}

// step runs a prepared statement to completion.
func (l *verifLite) step(class int, id int64) error {
	switch class {
	case vOK, vRet, vStep, vRetStep:
		if l.has(id) {
			return errors.New(verifMsgUnique) // statement rolled back, transaction stays open
		}
		if l.inTx {
			l.pending = append(l.pending, id)
		} else {
			l.committed = append(l.committed, id)
		}
		l.lastID = id
	case vBegin:
		if l.inTx {
			return errors.New(verifMsgBeginInTx)
		}
		l.inTx = true
	case vCommit:
		if !l.inTx {
			return errors.New(verifMsgCommitNoTx)
		}
		l.committed = append(l.committed, l.pending...)
		l.pending = nil
		l.inTx = false
	case vRollback:
		if !l.inTx {
			return errors.New(verifMsgRbNoTx)
		}
		l.pending = nil
		l.inTx = false
	}
	return nil
}

// ---------------------------------------------------------------------------------------------
// database/sql on top of it (spec.json "models"; only used by the engine)

type verifRes struct{ id, n int64 }

func (r verifRes) LastInsertId() (int64, error) { return r.id, nil }
func (r verifRes) RowsAffected() (int64, error) { return r.n, nil }

var verifTheConn *sql.Conn
var verifTheTx *sql.Tx
var verifTxDone bool
var verifTxCtx context.Context // the context BeginTx was given
var verifSlowWorld bool        // timeout band: acquiring the connection takes (model) time

// Contexts. A call that is handed a context which has already ended returns the context's error
// at once and does not touch the connection; calls given another, live context work. A slow
// statement runs until its context ends (SQLite is interrupted): the call returns the context's
// error, the statement has no effect and an open explicit transaction stays open.
func verifSlowRun(ctx context.Context) error {
	done := ctx.Done()
	if done == nil {
		panic("verif C13: slow statement under a context that never ends")
	}
	<-done
	return ctx.Err()
}

// database/sql ends a sql.Tx with a rollback once the context given to BeginTx has ended; from
// then on the Tx answers ErrTxDone.
func verifTxAwaitDone() {
	if verifTheTx != nil && !verifTxDone && verifTxCtx != nil && verifTxCtx.Err() != nil {
		verifTxDone = true
		verifL.step(vRollback, 0)
	}
}

type verifRowsM struct {
	rs      *sql.Rows
	class   int
	id      int64
	ctx     context.Context
	stepped bool
	vals    []int64
	pos     int
	err     error
	cols    []string
}

var verifRows *verifRowsM

func verifDBConn(d *sql.DB, ctx context.Context) (*sql.Conn, error) {
	if err := ctx.Err(); err != nil {
		return nil, err
	}
	if verifSlowWorld {
		time.Sleep(time.Microsecond)
	}
	verifTheConn = &sql.Conn{}
	return verifTheConn, nil
}
func verifConnClose(c *sql.Conn) error { return nil }

func verifLiteExec(ctx context.Context, q string) (sql.Result, error) {
	if err := ctx.Err(); err != nil {
		return nil, err
	}
	class, id := verifClassify(q)
	if err := verifL.prepare(class); err != nil {
		return nil, err
	}
	if class == vSlow {
		return nil, verifSlowRun(ctx)
	}
	if err := verifL.step(class, id); err != nil {
		return nil, err
	}
	if class == vEmpty {
		return verifRes{0, 0}, nil // go-sqlite3: nothing to run
	}
	return verifRes{verifL.lastID, 1}, nil
}

func verifLiteQuery(ctx context.Context, q string) (*sql.Rows, error) {
	if err := ctx.Err(); err != nil {
		return nil, err
	}
	class, id := verifClassify(q)
	if err := verifL.prepare(class); err != nil {
		return nil, err
	}
	m := &verifRowsM{rs: &sql.Rows{}, class: class, id: id, ctx: ctx}
	if class == vSlow {
		m.cols = []string{"count(*)"}
	}
	if class == vRead || class == vRet || class == vRetStep {
		m.cols = []string{"id"}
	}
	verifRows = m
	return m.rs, nil
}

func verifConnBeginTx(c *sql.Conn, ctx context.Context, opts *sql.TxOptions) (*sql.Tx, error) {
	if err := ctx.Err(); err != nil {
		return nil, err
	}
	if err := verifL.step(vBegin, 0); err != nil {
		return nil, err
	}
	verifTheTx = &sql.Tx{}
	verifTxDone = false
	verifTxCtx = ctx
	return verifTheTx, nil
}
func verifConnExec(c *sql.Conn, ctx context.Context, q string, args ...any) (sql.Result, error) {
	return verifLiteExec(ctx, q)
}
func verifConnQuery(c *sql.Conn, ctx context.Context, q string, args ...any) (*sql.Rows, error) {
	return verifLiteQuery(ctx, q)
}

// like the real methods, the models dereference their receiver
func verifTxCheck(t *sql.Tx) {
	if t == nil || t != verifTheTx {
		panic("runtime error: invalid memory address or nil pointer dereference (nil or unknown *sql.Tx)")
	}
}

func verifTxExec(t *sql.Tx, ctx context.Context, q string, args ...any) (sql.Result, error) {
	verifTxCheck(t)
	verifTxAwaitDone()
	if verifTxDone {
		return nil, sql.ErrTxDone
	}
	return verifLiteExec(ctx, q)
}
func verifTxQuery(t *sql.Tx, ctx context.Context, q string, args ...any) (*sql.Rows, error) {
	verifTxCheck(t)
	verifTxAwaitDone()
	if verifTxDone {
		return nil, sql.ErrTxDone
	}
	return verifLiteQuery(ctx, q)
}
func verifTxCommit(t *sql.Tx) error {
	verifTxCheck(t)
	verifTxAwaitDone()
	if verifTxDone {
		return sql.ErrTxDone
	}
	verifTxDone = true
	return verifL.step(vCommit, 0)
}
func verifTxRollback(t *sql.Tx) error {
	verifTxCheck(t)
	verifTxAwaitDone()
	if verifTxDone {
		return sql.ErrTxDone
	}
	verifTxDone = true
	return verifL.step(vRollback, 0)
}

func verifRowsOf(rs *sql.Rows) *verifRowsM {
	if verifRows == nil || verifRows.rs != rs {
		panic("verif C13: unknown *sql.Rows")
	}
	return verifRows
}
func verifRowsColumns(rs *sql.Rows) ([]string, error) { return verifRowsOf(rs).cols, nil }
func verifRowsColumnTypes(rs *sql.Rows) ([]*sql.ColumnType, error) {
	m := verifRowsOf(rs)
	out := make([]*sql.ColumnType, len(m.cols))
	for i := range out {
		out[i] = &sql.ColumnType{}
	}
	return out, nil
}
func verifColumnTypeName(ct *sql.ColumnType) string { return "INTEGER" }
func verifRowsNext(rs *sql.Rows) bool {
	m := verifRowsOf(rs)
	if !m.stepped {
		// SQLite runs the statement when the cursor is first advanced
		m.stepped = true
		if m.class == vSlow {
			m.err = verifSlowRun(m.ctx)
		} else if m.class == vRead {
			m.vals = verifL.visible()
		} else if err := verifL.step(m.class, m.id); err != nil {
			m.err = err
		} else if m.class == vRet || m.class == vRetStep {
			m.vals = []int64{m.id}
		}
	}
	if m.err != nil || m.pos >= len(m.vals) {
		return false
	}
	m.pos++
	return true
}
func verifRowsScan(rs *sql.Rows, dest ...any) error {
	m := verifRowsOf(rs)
	if m.pos == 0 || len(dest) != 1 {
		return errors.New("verif C13: bad Scan")
	}
	*(dest[0].(*any)) = m.vals[m.pos-1]
	return nil
}
func verifRowsErr(rs *sql.Rows) error   { return verifRowsOf(rs).err }
func verifRowsClose(rs *sql.Rows) error { return nil }

// StmtReadOnlyWithConn: prepares the text; fails exactly for fails-at-prepare; read-only for
// SELECT and (https://www.sqlite.org/c3ref/stmt_readonly.html) for BEGIN/COMMIT/ROLLBACK.
func verifStmtReadOnly(d *DB, q string, conn *sql.Conn) (bool, error) {
	class, _ := verifClassify(q)
	if err := verifL.prepare(class); err != nil {
		return false, err
	}
	return class == vRead || class == vSlow || class == vBegin || class == vCommit || class == vRollback || class == vEmpty, nil
}

// ---------------------------------------------------------------------------------------------
// the world: engine = model, native = real db.DB (hooks set by replay_test.go)

var verifC13OpenNative func(preTx bool) *DB
var verifC13ObserveNative func(d *DB) (visible, committed []int64, inTx bool)
var verifC13CloseNative func(d *DB)

func verifC13Open(preTx bool) *DB {
	if !verifSymbolic() {
		return verifC13OpenNative(preTx)
	}
	verifL = &verifLite{committed: []int64{verifBaseRow}, lastID: verifBaseRow}
	if preTx {
		verifL.inTx = true
		verifL.pending = []int64{verifPendingRow}
		verifL.lastID = verifPendingRow
	}
	verifRows = nil
	verifTheTx = nil
	verifTxCtx = nil
	return &DB{rwDB: &sql.DB{}, roDB: &sql.DB{}}
}

func verifC13Observe(d *DB) (visible, committed []int64, inTx bool) {
	if !verifSymbolic() {
		return verifC13ObserveNative(d)
	}
	return verifL.visible(), append([]int64(nil), verifL.committed...), verifL.inTx
}

func verifC13Close(d *DB) {
	if !verifSymbolic() {
		verifC13CloseNative(d)
	}
}

// ---------------------------------------------------------------------------------------------
// the oracle: what the property statement demands

type verifShape struct {
	unified bool
	tx, roe bool
	preTx   bool
	timeout bool // the request carries DbTimeout (timeout band)
	slowFQ  bool // the slow statement is sent with ForceQuery
	kinds   []int
}

const (
	kErr = iota // the statement's outcome is an error (Result.Error or Q.Error)
	kE          // execute result
	kQ          // rows
)

type verifExpRes struct {
	pos     int
	kind    int
	msg     string // kErr
	id      int64  // kE of an INSERT: last insert id (rows affected 1)
	checkID bool
	vals    []int64 // kQ
}

type verifExp struct {
	beginErr  bool // the request could not start its transaction: nothing executed, error returned
	res       []verifExpRes
	committed []int64
	pending   []int64
	inTx      bool
	failed    bool // some executed statement failed
	firstFail int  // class of the first failing statement
	stopped   bool // execution stopped before the last non-empty statement
}

// verifSpec interprets a request the way the property (and SQLite's transaction rules) say.
// variantPrep / variantNoROE describe the two recorded defects (see the finding classes below),
// they are only used to keep those classes narrow.
func verifSpec(s verifShape, variantPrep, variantNoROE bool) verifExp {
	var e verifExp
	e.committed = []int64{verifBaseRow}
	if s.preTx {
		e.inTx = true
		e.pending = []int64{verifPendingRow}
	}
	if s.tx {
		if e.inTx {
			e.beginErr = true // SQLite has no nested transactions
			return e
		}
		e.inTx = true
	}
	snapshot := append([]int64(nil), e.committed...)
	aborted := false
	for pos, c := range s.kinds {
		if c == vEmpty {
			continue
		}
		r := verifExpRes{pos: pos, kind: kE}
		fail := ""
		switch c {
		case vOK, vRet:
			id := verifRowID(pos)
			if e.inTx {
				e.pending = append(e.pending, id)
			} else {
				e.committed = append(e.committed, id)
			}
			if c == vOK {
				r.id, r.checkID = id, true
			} else {
				r.kind, r.vals = kQ, []int64{id}
			}
		case vPrep, vReadPrep:
			fail = verifMsgNoTable
		case vStep, vRetStep:
			fail = verifMsgUnique
		case vSlow:
			// the request's deadline passes while this statement runs: it fails, has no effect of
			// its own and does not end an open explicit transaction
			fail = verifMsgAnyTimeout
		case vRead:
			if s.unified {
				r.kind = kQ
				r.vals = append(append([]int64(nil), e.committed...), e.pending...)
			}
		case vBegin:
			if e.inTx {
				fail = verifMsgBeginInTx
			} else {
				e.inTx = true
			}
			if s.unified {
				r.kind = kQ
			}
		case vCommit:
			if !e.inTx {
				fail = verifMsgCommitNoTx
			} else {
				e.committed = append(e.committed, e.pending...)
				e.pending, e.inTx = nil, false
			}
			if s.unified {
				r.kind = kQ
			}
		case vRollback:
			if !e.inTx {
				fail = verifMsgRbNoTx
			} else {
				e.pending, e.inTx = nil, false
			}
			if s.unified {
				r.kind = kQ
			}
		}
		if fail != "" {
			r = verifExpRes{pos: pos, kind: kErr, msg: fail}
			if !e.failed {
				e.failed, e.firstFail = true, c
			}
		}
		e.res = append(e.res, r)
		if fail == "" {
			continue
		}
		if s.tx {
			if variantPrep && (c == vPrep || c == vReadPrep) {
				continue
			}
			// all or nothing: the whole request is undone and nothing else runs
			e.committed, e.pending, e.inTx = snapshot, nil, false
			aborted = true
			e.stopped = verifMoreAfter(s.kinds, pos)
			break
		}
		if s.roe && !variantNoROE {
			// rollback on error: the open transaction (if any) is rolled back, the request ends
			e.pending, e.inTx = nil, false
			e.stopped = verifMoreAfter(s.kinds, pos)
			break
		}
	}
	if s.tx && !aborted {
		e.committed = append(e.committed, e.pending...)
		e.pending, e.inTx = nil, false
	}
	return e
}

func verifMoreAfter(kinds []int, pos int) bool {
	for _, c := range kinds[pos+1:] {
		if c != vEmpty {
			return true
		}
	}
	return false
}

// ---------------------------------------------------------------------------------------------
// observation and comparison

type verifObs struct {
	err       error
	res       []*command.ExecuteQueryResponse
	visible   []int64
	committed []int64
	inTx      bool
}

func verifSameIDs(a, b []int64) bool {
	if len(a) != len(b) {
		return false
	}
	for i := range a {
		if a[i] != b[i] {
			return false
		}
	}
	return true
}

// verifDecode flattens one response.
func verifDecode(r *command.ExecuteQueryResponse) (kind int, msg string, lastID, affected int64, vals []int64, ok bool) {
	if r == nil {
		return 0, "", 0, 0, nil, false
	}
	switch x := r.Result.(type) {
	case *command.ExecuteQueryResponse_Error:
		return kErr, x.Error, 0, 0, nil, true
	case *command.ExecuteQueryResponse_E:
		if x.E == nil {
			return 0, "", 0, 0, nil, false
		}
		return kE, "", x.E.LastInsertId, x.E.RowsAffected, nil, true
	case *command.ExecuteQueryResponse_Q:
		if x.Q == nil {
			return 0, "", 0, 0, nil, false
		}
		if x.Q.Error != "" {
			return kErr, x.Q.Error, 0, 0, nil, true
		}
		for _, v := range x.Q.Values {
			if v == nil || len(v.Parameters) != 1 || v.Parameters[0] == nil {
				return 0, "", 0, 0, nil, false
			}
			pi, isI := v.Parameters[0].Value.(*command.Parameter_I)
			if !isI {
				return 0, "", 0, 0, nil, false
			}
			vals = append(vals, pi.I)
		}
		return kQ, "", 0, 0, vals, true
	}
	return 0, "", 0, 0, nil, false
}

// the obligations; verifCompare returns the first one that does not hold ("" = all hold)
var verifChecks = []string{
	"begin-failure-returns-error-and-runs-nothing",
	"no-request-error",
	"one-result-per-executed-statement",
	"result-well-formed",
	"result-reports-own-outcome",
	"result-error-text-is-the-statements",
	"result-insert-id-is-the-statements",
	"result-rows-are-the-statements",
	"transaction-all-or-nothing",
	"committed-rows",
	"no-effect-of-failed-transaction-left",
	"rows-visible-on-connection",
}

func verifCompare(s verifShape, o verifObs, e verifExp, direct bool) string {
	if e.beginErr {
		if o.err == nil || len(o.res) != 0 {
			return "begin-failure-returns-error-and-runs-nothing"
		}
	} else if o.err != nil {
		return "no-request-error"
	}
	if len(o.res) != len(e.res) {
		return "one-result-per-executed-statement"
	}
	for k := range e.res {
		kind, msg, lastID, affected, vals, ok := verifDecode(o.res[k])
		if !ok {
			return "result-well-formed"
		}
		x := e.res[k]
		if kind != x.kind {
			return "result-reports-own-outcome"
		}
		if x.kind == kErr && x.msg == verifMsgAnyTimeout {
			if msg == "" {
				return "result-error-text-is-the-statements"
			}
		} else if x.kind == kErr && msg != x.msg {
			return "result-error-text-is-the-statements"
		}
		if x.kind == kE && x.checkID && (lastID != x.id || affected != 1) {
			return "result-insert-id-is-the-statements"
		}
		if x.kind == kQ && !verifSameIDs(vals, x.vals) {
			return "result-rows-are-the-statements"
		}
	}
	if direct && s.tx && !e.beginErr {
		// stated directly: every statement's effect, or none
		all := []int64{verifBaseRow}
		for pos, c := range s.kinds {
			if c == vOK || c == vRet {
				all = append(all, verifRowID(pos))
			}
		}
		if !verifSameIDs(o.committed, all) && !verifSameIDs(o.committed, []int64{verifBaseRow}) {
			return "transaction-all-or-nothing"
		}
	}
	if !verifSameIDs(o.committed, e.committed) {
		return "committed-rows"
	}
	if o.inTx != e.inTx {
		return "no-effect-of-failed-transaction-left"
	}
	if !verifSameIDs(o.visible, append(append([]int64(nil), e.committed...), e.pending...)) {
		return "rows-visible-on-connection"
	}
	return ""
}

// ---------------------------------------------------------------------------------------------
// entries

var verifAllClasses = []int{vOK, vPrep, vStep, vRead, vEmpty, vRet, vReadPrep, vBegin, vCommit, vRollback, vRetStep}
var verifCoreClasses = []int{vOK, vPrep, vStep, vRead, vEmpty}

var verifExplicitClasses = []int{vOK, vPrep, vStep, vRead, vRet, vCommit, vRollback, vRetStep}

func verifC13Shape(unified bool) verifShape {
	s := verifShape{unified: unified}
	// bounds (quick / thorough), n = number of statements drawn:
	//   band 0 "long":     core classes {ok, prep, step, read, empty},          n = 1..3 and 4 with Transaction=true / 1..5, and
	//                      6 with Transaction=true, RollbackOnError=false (thorough)
	//   band 1 "wide":     all eleven classes,                                     n = 1..2 / 1..3
	//   band 2 "leftover": all eleven classes, the write connection is still inside an explicit
	//                      transaction (one pending row) left by an earlier request, n = 1..2 / 1..3
	//   band 3 "explicit": Transaction=false, BEGIN followed by n statements of
	//                      {ok, prep, step, read, ret, retstep, COMMIT, ROLLBACK},       n = 1..3 / 1..4
	band := verifChoice("band", 4)
	thorough := verifTier() == 1
	maxN, classes := 4, verifCoreClasses
	switch band {
	case 0:
		if thorough {
			maxN = 6
		}
	case 1:
		maxN, classes = 2, verifAllClasses
		if thorough {
			maxN = 3
		}
	case 2:
		maxN, classes = 2, verifAllClasses
		s.preTx = true
		if thorough {
			maxN = 3
		}
	case 3:
		maxN, classes = 3, verifExplicitClasses
		if thorough {
			maxN = 4
		}
	}
	n := 1 + verifChoice("n", maxN)
	switch {
	case n == 6:
		s.tx = true
	case n == 4 && band == 0 && !thorough:
		s.tx = true
		s.roe = verifChoice("rollbackOnError", 2) == 1
	default:
		if band != 3 {
			s.tx = verifChoice("transaction", 2) == 1
		}
		s.roe = verifChoice("rollbackOnError", 2) == 1
	}
	if band == 3 {
		s.kinds = append(s.kinds, vBegin)
	}
	for i := 0; i < n; i++ {
		c := classes[verifChoice(verifName("class", i), len(classes))]
		// an explicit COMMIT/ROLLBACK inside a Transaction=true request deliberately ends the
		// request's own transaction: outside the property
		verifAssume(!(s.tx && (c == vCommit || c == vRollback)))
		s.kinds = append(s.kinds, c)
	}
	return s
}

func verifC13Request(s verifShape) *command.Request {
	req := &command.Request{Transaction: s.tx, RollbackOnError: s.roe}
	if s.timeout {
		req.DbTimeout = verifDbTimeout
	}
	for pos, c := range s.kinds {
		req.Statements = append(req.Statements, &command.Statement{Sql: verifSQLOf(c, pos), ForceQuery: c == vRet || c == vRetStep || c == vReadPrep || (c == vSlow && s.slowFQ)})
	}
	return req
}

func verifC13Do(s verifShape) verifObs {
	verifSlowWorld = s.timeout
	d := verifC13Open(s.preTx)
	defer verifC13Close(d)
	req := verifC13Request(s)
	var o verifObs
	if s.unified {
		o.res, o.err = d.Request(req, false)
	} else {
		o.res, o.err = d.Execute(req, false)
	}
	o.visible, o.committed, o.inTx = verifC13Observe(d)
	return o
}

func verifC13Check(unified bool) { verifC13CheckShape(verifC13Shape(unified)) }

var verifTimeoutClasses = []int{vOK, vStep, vRead}

// verifC13TimeoutShape: the request carries DbTimeout and its deadline passes during statement k
// (a read that runs far longer than the timeout), k symbolic: [BEGIN] + n statements, the k-th is
// the slow one, the others are drawn from {ok, step-fail, read}; Transaction on/off x
// RollbackOnError on/off x with/without an explicit BEGIN (Transaction=false only), both paths,
// the slow statement with and without ForceQuery on the execute path. Without Transaction and
// without RollbackOnError the request carries on after the failure with a context that has
// ended, which the property does not speak about: there the slow statement is the last one.
func verifC13TimeoutShape() verifShape {
	s := verifShape{timeout: true}
	s.unified = verifChoice("unified", 2) == 1
	s.tx = verifChoice("transaction", 2) == 1
	s.roe = verifChoice("rollbackOnError", 2) == 1
	if !s.tx && verifChoice("explicitBegin", 2) == 1 {
		s.kinds = append(s.kinds, vBegin)
	}
	if !s.unified {
		s.slowFQ = verifChoice("slowForceQuery", 2) == 1
	}
	maxN := 3
	if verifTier() == 1 {
		maxN = 4
	}
	n := 1 + verifChoice("n", maxN)
	k := verifChoice("slowAt", n)
	verifAssume(s.tx || s.roe || k == n-1)
	for i := 0; i < n; i++ {
		if i == k {
			s.kinds = append(s.kinds, vSlow)
			continue
		}
		s.kinds = append(s.kinds, verifTimeoutClasses[verifChoice(verifName("class", i), len(verifTimeoutClasses))])
	}
	return s
}

func verifC13CheckShape(s verifShape) {
	verifPanicsAreViolations()
	o := verifC13Do(s)
	e := verifSpec(s, false, false)
	mis := verifCompare(s, o, e, true)

	if mis != "" && s.unified {
		// Recorded defect 1: on the unified path a statement that cannot be prepared inside a
		// Transaction=true request is answered with an error, but the request carries on and
		// commits the other statements. Class: unified, Transaction, the first failing statement
		// fails at prepare, and what is observed is exactly "the failure did not abort".
		if s.tx && e.failed && (e.firstFail == vPrep || e.firstFail == vReadPrep) &&
			verifCompare(s, o, verifSpec(s, true, false), false) == "" {
			verifFinding("C13-request-tx-continues-after-prepare-failure")
		}
		// Recorded defect 2: the unified path ignores RollbackOnError. Class: unified, no
		// Transaction, RollbackOnError, some statement fails, and what is observed is exactly
		// the behaviour of the same request without the flag.
		if !s.tx && s.roe && e.failed && verifCompare(s, o, verifSpec(s, false, true), false) == "" {
			verifFinding("C13-request-ignores-rollback-on-error")
		}
	}
	for _, id := range verifChecks {
		verifAssert("C13-"+id, mis != id)
	}

	// vacuity markers
	if e.beginErr {
		verifReach("begin-failed-nothing-ran")
		return
	}
	if s.tx && !e.failed && len(e.committed) > 2 {
		verifReach("tx-committed-all")
	}
	if s.tx && e.failed && len(e.res) > 1 {
		verifReach("tx-undone-after-failure")
	}
	if s.tx && e.failed && e.firstFail == vStep && e.stopped {
		verifReach("tx-stopped-at-step-failure")
	}
	if s.tx && e.failed && e.firstFail == vPrep && e.stopped {
		verifReach("tx-stopped-at-prepare-failure")
	}
	if !s.tx && s.roe && e.failed && e.stopped && len(e.committed) == 1 && len(e.res) > 2 {
		verifReach("roe-explicit-transaction-rolled-back")
	}
	if !s.tx && !s.roe && e.failed && len(e.committed) > 2 {
		verifReach("autocommit-continues-after-failure")
	}
	if e.inTx && len(e.pending) > 0 {
		verifReach("explicit-transaction-left-open")
	}
	if s.timeout && e.firstFail == vSlow {
		wrote := false
		for _, r := range e.res {
			if r.kind == kE && r.checkID {
				wrote = true
			}
		}
		if s.tx && wrote && e.stopped {
			verifReach("timeout-tx-undone-and-stopped")
		}
		if !s.tx && s.roe && wrote && e.stopped && s.kinds[0] == vBegin && len(e.committed) == 1 {
			verifReach("timeout-roe-explicit-transaction-rolled-back")
		}
		if !s.tx && !s.roe && wrote && e.inTx {
			verifReach("timeout-explicit-transaction-stays-open")
		}
	}
	for _, r := range e.res {
		if r.kind == kQ && len(r.vals) > 1 {
			verifReach("read-returns-rows")
		}
		if r.kind == kQ && len(r.vals) == 1 && r.vals[0] >= 100 {
			verifReach("returning-row")
		}
		if r.kind == kErr && s.kinds[r.pos] == vRetStep {
			verifReach("returning-fails-at-step")
		}
	}
}

// VerifC13Execute: (*DB).Execute (executeWithConn / executeStmtWithConn).
func VerifC13Execute() { verifC13Check(false) }

// VerifC13Request: (*DB).Request, the unified path (RequestWithContext / queryStmtWithConn).
func VerifC13Request() { verifC13Check(true) }

// VerifC13Timeout: both paths, the request's deadline passes during a symbolic statement.
func VerifC13Timeout() { verifC13CheckShape(verifC13TimeoutShape()) }

// Twin: same machinery, claims that a request never commits anything. Must be violated.
func VerifC13Twin() {
	s := verifShape{unified: verifChoice("unified", 2) == 1, tx: verifChoice("transaction", 2) == 1}
	s.kinds = []int{vOK, verifCoreClasses[verifChoice("class1", len(verifCoreClasses))]}
	o := verifC13Do(s)
	verifAssert("twin-nothing-is-ever-committed", verifSameIDs(o.committed, []int64{verifBaseRow}))
}
