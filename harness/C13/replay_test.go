package db

import (
	"context"
	"database/sql"
	"fmt"
	"os"
	"path/filepath"
	"testing"
)

// Native side of C13: a real on-disk db.DB (WAL mode, table foo with row id 1) per run.
//   visible   = rows seen on the single read-write connection (includes an open transaction's rows)
//   committed = rows seen on the separate read-only connection
//   inTx      = "ROLLBACK" on the read-write connection succeeds

var verifC13Dirs = map[*DB]string{}

func init() {
	verifC13OpenNative = verifC13OpenReal
	verifC13ObserveNative = verifC13ObserveReal
	verifC13CloseNative = func(d *DB) {
		d.Close()
		os.RemoveAll(verifC13Dirs[d])
		delete(verifC13Dirs, d)
	}
}

func verifC13OpenReal(preTx bool) *DB {
	dir, err := os.MkdirTemp("", "verif-c13-")
	if err != nil {
		panic(err)
	}
	d, err := Open(filepath.Join(dir, "scratch.db"), false, true)
	if err != nil {
		panic(err)
	}
	verifC13Dirs[d] = dir
	for _, q := range []string{"CREATE TABLE foo (id INTEGER PRIMARY KEY, name TEXT)", "INSERT INTO foo(id,name) VALUES(1,'base')"} {
		if _, err := d.rwDB.Exec(q); err != nil {
			panic(err)
		}
	}
	if preTx {
		// an earlier request left an explicit transaction open on the (single) write connection
		for _, q := range []string{"BEGIN", "INSERT INTO foo(id,name) VALUES(50,'earlier')"} {
			if _, err := d.rwDB.Exec(q); err != nil {
				panic(err)
			}
		}
	}
	return d
}

func verifC13IDs(h *sql.DB) []int64 {
	rs, err := h.Query("SELECT id FROM foo ORDER BY id")
	if err != nil {
		panic(err)
	}
	defer rs.Close()
	var out []int64
	for rs.Next() {
		var i int64
		if err := rs.Scan(&i); err != nil {
			panic(err)
		}
		out = append(out, i)
	}
	return out
}

func verifC13ObserveReal(d *DB) (visible, committed []int64, inTx bool) {
	visible = verifC13IDs(d.rwDB)
	committed = verifC13IDs(d.roDB)
	_, err := d.rwDB.Exec("ROLLBACK")
	return visible, committed, err == nil
}

// ---------------------------------------------------------------------------------------------
// Calibration of the abstract connection against the real one (VERIF_C13_CAL=1): every sequence
// of up to 4 raw operations {BeginTx, Tx.Commit, Tx.Rollback, Exec(class), Query(class)} is run
// on the model functions and on a real *sql.Conn; error/no error, error text, returned rows, last
// insert id and the final visible/committed/inTx must agree.
func TestVerifC13Calibrate(t *testing.T) {
	if os.Getenv("VERIF_C13_CAL") == "" {
		t.Skip()
	}
	type op struct {
		kind  int // 0 BeginTx 1 Commit 2 Rollback 3 Exec 4 Query
		class int
	}
	var ops []op
	ops = append(ops, op{0, 0}, op{1, 0}, op{2, 0})
	for _, c := range []int{vOK, vPrep, vStep, vRead, vRet, vReadPrep, vBegin, vCommit, vRollback, vEmpty, vRetStep} {
		ops = append(ops, op{3, c}, op{4, c})
	}
	ctx := context.Background()
	runs, bad := 0, 0
	var rec func(seq []op)
	run := func(seq []op) {
		runs++
		// model
		verifL = &verifLite{committed: []int64{verifBaseRow}, lastID: verifBaseRow}
		verifRows, verifTheTx = nil, nil
		var mlog, rlog string
		{
			var tx *sql.Tx
			conn, _ := verifDBConn(nil, ctx)
			for pos, o := range seq {
				q := verifSQLOf(o.class, pos)
				switch o.kind {
				case 0:
					if tx != nil {
						mlog += "second-begin-skipped;" // rqlite begins at most one sql.Tx per connection use
						continue
					}
					x, err := verifConnBeginTx(conn, ctx, nil)
					if err == nil {
						tx = x
					}
					mlog += fmt.Sprintf("begin:%v;", err)
				case 1, 2:
					if tx == nil {
						mlog += "notx;"
						continue
					}
					var err error
					if o.kind == 1 {
						err = verifTxCommit(tx)
					} else {
						err = verifTxRollback(tx)
					}
					mlog += fmt.Sprintf("end:%v;", err)
				case 3:
					var r sql.Result
					var err error
					if tx != nil {
						r, err = verifTxExec(tx, ctx, q)
					} else {
						r, err = verifConnExec(conn, ctx, q)
					}
					id := int64(-1)
					if err == nil && (o.class == vOK || o.class == vRet) {
						id, _ = r.LastInsertId()
					}
					mlog += fmt.Sprintf("exec:%v:%d;", err, id)
				case 4:
					var rs *sql.Rows
					var err error
					if tx != nil {
						rs, err = verifTxQuery(tx, ctx, q)
					} else {
						rs, err = verifConnQuery(conn, ctx, q)
					}
					if err != nil {
						mlog += fmt.Sprintf("query:%v;", err)
						continue
					}
					cols, _ := verifRowsColumns(rs)
					var vals []int64
					for verifRowsNext(rs) {
						var v any
						verifRowsScan(rs, &v)
						vals = append(vals, v.(int64))
					}
					mlog += fmt.Sprintf("query:%v:%v:%v;", cols, vals, verifRowsErr(rs))
					verifRowsClose(rs)
				}
			}
			if tx != nil {
				// rqlite always ends its transaction before it releases the connection
				mlog += fmt.Sprintf("deferred-rollback:%v;", verifTxRollback(tx))
			}
			mlog += fmt.Sprintf("final:%v:%v:%v", verifL.visible(), verifL.committed, verifL.inTx)
		}
		// real
		{
			d := verifC13OpenReal(false)
			var tx *sql.Tx
			conn, err := d.rwDB.Conn(ctx)
			if err != nil {
				t.Fatal(err)
			}
			for pos, o := range seq {
				q := verifSQLOf(o.class, pos)
				switch o.kind {
				case 0:
					if tx != nil {
						rlog += "second-begin-skipped;"
						continue
					}
					x, err := conn.BeginTx(ctx, nil)
					if err == nil {
						tx = x
					}
					rlog += fmt.Sprintf("begin:%v;", err)
				case 1, 2:
					if tx == nil {
						rlog += "notx;"
						continue
					}
					var err error
					if o.kind == 1 {
						err = tx.Commit()
					} else {
						err = tx.Rollback()
					}
					rlog += fmt.Sprintf("end:%v;", err)
				case 3:
					var r sql.Result
					var err error
					if tx != nil {
						r, err = tx.ExecContext(ctx, q)
					} else {
						r, err = conn.ExecContext(ctx, q)
					}
					id := int64(-1)
					if err == nil && (o.class == vOK || o.class == vRet) {
						id, _ = r.LastInsertId()
					}
					rlog += fmt.Sprintf("exec:%v:%d;", err, id)
				case 4:
					var rs *sql.Rows
					var err error
					if tx != nil {
						rs, err = tx.QueryContext(ctx, q)
					} else {
						rs, err = conn.QueryContext(ctx, q)
					}
					if err != nil {
						rlog += fmt.Sprintf("query:%v;", err)
						continue
					}
					cols, _ := rs.Columns()
					var vals []int64
					for rs.Next() {
						var v any
						rs.Scan(&v)
						vals = append(vals, v.(int64))
					}
					rlog += fmt.Sprintf("query:%v:%v:%v;", cols, vals, rs.Err())
					rs.Close()
				}
			}
			if tx != nil {
				rlog += fmt.Sprintf("deferred-rollback:%v;", tx.Rollback())
			}
			conn.Close()
			vis, com, in := verifC13ObserveReal(d)
			if vis == nil {
				vis = []int64{}
			}
			rlog += fmt.Sprintf("final:%v:%v:%v", vis, com, in)
			verifC13CloseNative(d)
		}
		if mlog != rlog {
			bad++
			if bad < 20 {
				t.Errorf("model and SQLite disagree on %v\n model: %s\n real:  %s", seq, mlog, rlog)
			}
		}
	}
	// StmtReadOnlyWithConn
	{
		d := verifC13OpenReal(false)
		conn, _ := d.rwDB.Conn(ctx)
		for c := 0; c < vNumClasses; c++ {
			q := verifSQLOf(c, 2)
			mro, merr := verifStmtReadOnly(d, q, conn)
			rro, rerr := d.StmtReadOnlyWithConn(q, conn)
			if mro != rro || fmt.Sprint(merr) != fmt.Sprint(rerr) {
				t.Errorf("StmtReadOnlyWithConn(%q): model %v %v, real %v %v", q, mro, merr, rro, rerr)
			}
		}
		conn.Close()
		verifC13CloseNative(d)
	}
	maxLen := 3
	if os.Getenv("VERIF_C13_CAL") == "4" {
		maxLen = 4
	}
	if os.Getenv("VERIF_C13_CAL") == "2" {
		maxLen = 2
	}
	rec = func(seq []op) {
		if len(seq) > 0 {
			run(seq)
		}
		if len(seq) == maxLen {
			return
		}
		for _, o := range ops {
			rec(append(append([]op(nil), seq...), o))
		}
	}
	rec(nil)
	fmt.Printf("CAL sequences=%d disagreements=%d\n", runs, bad)
}
