package cluster

// C35 "Arbitrary bytes on the inter-node port cannot crash a node" - cluster.(*Service).handleConn
// (the mux in front of it, tcp.(*Mux).handleConn, is checked in harness/C35b: other package).
//
// Same harness family as C18 (the model code between the two marker lines is a copy of
// harness/C18/harness.go): the harness is the peer (verifConn: a scripted byte stream, every byte
// written recorded) and the rest of the node (verifDB, verifMgr, verifCreds).
//
// Every byte stream is, as the handler reads it, a sequence of frames (8-byte little-endian length
// prefix, payload) that ends in one of: the stream ends between two frames; it ends inside a
// prefix; a prefix announces more bytes than follow. A complete frame either parses as a Command
// (any type value, any payload kind or none, independent of each other), or it does not, or it is
// empty (the zero Command). The entries enumerate exactly these shapes:
//
//   VerifC35Command    one well-formed frame: every type x every payload kind (incl. none, nil
//                      inner message), then end of stream or a read timeout;
//   VerifC35Bytes      optionally one well-formed frame, then a malformed tail: end inside the
//                      prefix (1..7 bytes), a FREE uint64 prefix followed by fewer bytes (0..2) than
//                      announced, an unparseable frame followed by a valid command, an empty frame
//                      followed by a valid command; SetReadDeadline failing at any call; one-byte reads;
//   VerifC35HugePrefix the free prefix restricted to (2^28, 2^48] (no native replay: it would have
//                      to reserve up to 256 TiB).
//
// Oracle: no Go panic on any path (a panic in handleConn kills the node: its goroutine has no
// recover); every buffer the service allocates for bytes the peer has only announced is bounded by
// what the peer goes on to deliver plus verifAllocSlack; when the handler returns the connection is
// closed; nothing is done for bytes that do not parse, nor after them; state-changing calls only
// after a granted permission check (C18 in short).
//
// The engine cannot materialise a slice of symbolic, unbounded size: for sizes the Go runtime
// refuses (> 2^48 bytes) it raises the runtime panic, for the others it calls verifOnHugeAlloc
// (engine/sym/intr_C35.go) at the point of the allocation and ends the path afterwards. Natively the
// same judgement is made by verifConn.Read on the length of the buffer it is handed.

import (
	"bytes"
	"compress/gzip"
	"context"
	"encoding/binary"
	"errors"
	"io"
	"log"
	"net"
	"time"

	"github.com/rqlite/rqlite/v10/cluster/proto"
	command "github.com/rqlite/rqlite/v10/command/proto"
	pb "google.golang.org/protobuf/proto"
)

var _ = bytes.Equal

// ===== shared model code (copy of harness/C18/harness.go) =====

// ---------------------------------------------------------------------------
// permissions: the oracle's own table (strings as documented for the credentials file)

const (
	verifPermExecute  = "execute"
	verifPermQuery    = "query"
	verifPermBackup   = "backup"
	verifPermLoad     = "load"
	verifPermRemove   = "remove"
	verifPermJoin     = "join"
	verifPermJoinRO   = "join-read-only"
	verifPermJoinRR   = "join-read-replica"
	verifPermLeaderOp = "leader-ops"
)

// verifRequired: the permissions a command type needs (ALL of them), nil = no permission defined.
// JOIN is special (depends on the voter flag) and handled in verifAuthorized.
func verifRequired(t proto.Command_Type) []string {
	switch t {
	case proto.Command_COMMAND_TYPE_EXECUTE:
		return []string{verifPermExecute}
	case proto.Command_COMMAND_TYPE_QUERY:
		return []string{verifPermQuery}
	case proto.Command_COMMAND_TYPE_REQUEST:
		return []string{verifPermQuery, verifPermExecute}
	case proto.Command_COMMAND_TYPE_BACKUP, proto.Command_COMMAND_TYPE_BACKUP_STREAM:
		return []string{verifPermBackup}
	case proto.Command_COMMAND_TYPE_LOAD:
		return []string{verifPermLoad}
	case proto.Command_COMMAND_TYPE_REMOVE_NODE:
		return []string{verifPermRemove}
	case proto.Command_COMMAND_TYPE_NOTIFY:
		return []string{verifPermJoin}
	case proto.Command_COMMAND_TYPE_STEPDOWN:
		return []string{verifPermLeaderOp}
	}
	return nil
}

// verifMayCheck: the permission strings a request of this type may be checked against at all.
func verifMayCheck(t proto.Command_Type, perm string) bool {
	if t == proto.Command_COMMAND_TYPE_JOIN {
		return perm == verifPermJoin || perm == verifPermJoinRO || perm == verifPermJoinRR
	}
	for _, p := range verifRequired(t) {
		if p == perm {
			return true
		}
	}
	return false
}

// verifEffectOf: the one call a command type stands for ("" = none).
func verifEffectOf(t proto.Command_Type) string {
	switch t {
	case proto.Command_COMMAND_TYPE_EXECUTE:
		return "db.Execute"
	case proto.Command_COMMAND_TYPE_QUERY:
		return "db.Query"
	case proto.Command_COMMAND_TYPE_REQUEST:
		return "db.Request"
	case proto.Command_COMMAND_TYPE_BACKUP, proto.Command_COMMAND_TYPE_BACKUP_STREAM:
		return "db.Backup"
	case proto.Command_COMMAND_TYPE_LOAD:
		return "db.Load"
	case proto.Command_COMMAND_TYPE_REMOVE_NODE:
		return "mgr.Remove"
	case proto.Command_COMMAND_TYPE_NOTIFY:
		return "mgr.Notify"
	case proto.Command_COMMAND_TYPE_JOIN:
		return "mgr.Join"
	case proto.Command_COMMAND_TYPE_STEPDOWN:
		return "mgr.Stepdown"
	}
	return ""
}

// ---------------------------------------------------------------------------
// requests

const (
	verifKNone = iota
	verifKExecute
	verifKQuery
	verifKBackup
	verifKLoad
	verifKRemove
	verifKNotify
	verifKJoin
	verifKExecuteQuery
	verifKLoadChunk
	verifKStepdown
	verifKHWM
	verifKNilInner // the wrapper that belongs to the command type, with a nil inner message
	verifKinds
)

const verifTypeChoices = 16

// verifTypeOf: choice 0..13 are the defined enum values (0 = UNKNOWN), 14 an undefined positive
// value, 15 a negative one.
func verifTypeOf(choice int) proto.Command_Type {
	switch choice {
	case 14:
		return proto.Command_Type(99)
	case 15:
		return proto.Command_Type(-1)
	}
	return proto.Command_Type(int32(choice))
}

// verifKindFor: the payload kind a command type reads (verifKNone: it reads none).
func verifKindFor(t proto.Command_Type) int {
	switch t {
	case proto.Command_COMMAND_TYPE_EXECUTE:
		return verifKExecute
	case proto.Command_COMMAND_TYPE_QUERY:
		return verifKQuery
	case proto.Command_COMMAND_TYPE_REQUEST:
		return verifKExecuteQuery
	case proto.Command_COMMAND_TYPE_BACKUP, proto.Command_COMMAND_TYPE_BACKUP_STREAM:
		return verifKBackup
	case proto.Command_COMMAND_TYPE_LOAD:
		return verifKLoad
	case proto.Command_COMMAND_TYPE_LOAD_CHUNK:
		return verifKLoadChunk
	case proto.Command_COMMAND_TYPE_REMOVE_NODE:
		return verifKRemove
	case proto.Command_COMMAND_TYPE_NOTIFY:
		return verifKNotify
	case proto.Command_COMMAND_TYPE_JOIN:
		return verifKJoin
	case proto.Command_COMMAND_TYPE_STEPDOWN:
		return verifKStepdown
	case proto.Command_COMMAND_TYPE_HIGHWATER_MARK_UPDATE:
		return verifKHWM
	}
	return verifKNone
}

// verifReq is one request the peer sends.
type verifReq struct {
	idx     int
	typ     proto.Command_Type
	kind    int  // payload kind on the wire (verifKNilInner resolved to the type's own kind)
	nilIn   bool // the payload wrapper carries a nil inner message
	present bool // the command type finds its payload (right kind, inner message not nil)
	hasCred bool
	user    string
	pass    string
	nodeID  string
	voter   bool // join
	wait    bool // stepdown
	cmd     *proto.Command
	end     int // offset in the peer's byte stream just after this request
}

func verifPayload(r *verifReq, kind int, inner bool) {
	c := r.cmd
	switch kind {
	case verifKExecute:
		w := &proto.Command_ExecuteRequest{}
		if inner {
			w.ExecuteRequest = &command.ExecuteRequest{Request: &command.Request{Statements: []*command.Statement{{Sql: "INSERT INTO t VALUES(1)"}}}}
		}
		c.Request = w
	case verifKQuery:
		w := &proto.Command_QueryRequest{}
		if inner {
			w.QueryRequest = &command.QueryRequest{Request: &command.Request{Statements: []*command.Statement{{Sql: "SELECT * FROM t"}}}}
		}
		c.Request = w
	case verifKBackup:
		w := &proto.Command_BackupRequest{}
		if inner {
			w.BackupRequest = &command.BackupRequest{Format: command.BackupRequest_BACKUP_REQUEST_FORMAT_BINARY}
		}
		c.Request = w
	case verifKLoad:
		w := &proto.Command_LoadRequest{}
		if inner {
			w.LoadRequest = &command.LoadRequest{Data: []byte("SQLite format 3")}
		}
		c.Request = w
	case verifKRemove:
		w := &proto.Command_RemoveNodeRequest{}
		if inner {
			w.RemoveNodeRequest = &command.RemoveNodeRequest{Id: r.nodeID}
		}
		c.Request = w
	case verifKNotify:
		w := &proto.Command_NotifyRequest{}
		if inner {
			w.NotifyRequest = &command.NotifyRequest{Id: r.nodeID, Address: "peer:4002"}
		}
		c.Request = w
	case verifKJoin:
		w := &proto.Command_JoinRequest{}
		if inner {
			w.JoinRequest = &command.JoinRequest{Id: r.nodeID, Address: "peer:4002", Voter: r.voter}
		}
		c.Request = w
	case verifKExecuteQuery:
		w := &proto.Command_ExecuteQueryRequest{}
		if inner {
			w.ExecuteQueryRequest = &command.ExecuteQueryRequest{Request: &command.Request{Statements: []*command.Statement{{Sql: "SELECT 1"}}}}
		}
		c.Request = w
	case verifKLoadChunk:
		w := &proto.Command_LoadChunkRequest{}
		if inner {
			w.LoadChunkRequest = &command.LoadChunkRequest{StreamId: "s", Data: []byte{1}}
		}
		c.Request = w
	case verifKStepdown:
		w := &proto.Command_StepdownRequest{}
		if inner {
			w.StepdownRequest = &command.StepdownRequest{Id: r.nodeID, Wait: r.wait}
		}
		c.Request = w
	case verifKHWM:
		w := &proto.Command_HighwaterMarkUpdateRequest{}
		if inner {
			w.HighwaterMarkUpdateRequest = &proto.HighwaterMarkUpdateRequest{NodeId: r.nodeID, HighwaterMark: 7}
		}
		c.Request = w
	}
}

// verifNewReq builds request idx from the given choices. voter/wait are symbolic flags.
func verifNewReq(idx, typeChoice, kindChoice int, hasCred bool) *verifReq {
	r := &verifReq{idx: idx, typ: verifTypeOf(typeChoice), hasCred: hasCred}
	r.nodeID = verifName("node", idx)
	r.voter = verifBool(verifName("voter", idx))
	r.wait = verifBool(verifName("wait", idx))
	r.cmd = &proto.Command{Type: r.typ}
	if hasCred {
		r.user, r.pass = verifName("user", idx), verifName("secret", idx)
		r.cmd.Credentials = &proto.Credentials{Username: r.user, Password: r.pass}
	}
	own := verifKindFor(r.typ)
	r.kind = kindChoice
	if kindChoice == verifKNilInner {
		// a wrapper of the type's own kind with a nil inner message. protobuf never decodes to that
		// shape (a present field always gets a message), every getter returns nil for it exactly as
		// for an absent payload: the native replay sends "no payload".
		r.kind, r.nilIn = own, true
		if verifSymbolic() {
			verifPayload(r, own, false)
		} else {
			r.kind = verifKNone
		}
	} else {
		verifPayload(r, kindChoice, true)
	}
	r.present = own != verifKNone && r.kind == own && !r.nilIn
	return r
}

// ---------------------------------------------------------------------------
// the ordered log of everything the service did

type verifEv struct {
	what string // "aa", "write", "read", "close", or an effect: "db.Execute", "mgr.Join", ...
	req  int    // index of the request being handled (-1: none read completely yet)
	user string
	pass string
	perm string
	ok   bool   // aa: the verdict
	data []byte // write: the bytes
	id   string // effects: node id argument
	flag bool   // effects: voter / wait argument
	nn   bool   // effects: request argument not nil
	off  int    // how many bytes of the peer's stream had been consumed
}

type verifWorld struct {
	conn  *verifConn
	evs   []verifEv
	reqs  []*verifReq
	marks []verifVerdict
	hwm   chan uint64
	// noFail: the database and the manager always succeed (no choice of failures)
	noFail bool
}

// fails: does the call made for the current request fail? (one path each)
func (w *verifWorld) fails(what string, n int) int {
	if w.noFail {
		return 0
	}
	return verifChoice(what+"-"+verifName("req", w.conn.cur()), n)
}

type verifVerdict struct {
	req  int
	perm string
	ok   bool
}

func (w *verifWorld) add(e verifEv) {
	e.req, e.off = w.conn.cur(), w.conn.off
	w.evs = append(w.evs, e)
}

func verifIsEffect(what string) bool {
	return what != "aa" && what != "write" && what != "read" && what != "close"
}

// ---------------------------------------------------------------------------
// net.Conn

var verifErrClosed = errors.New("use of closed network connection")

type verifTimeout struct{}

func (verifTimeout) Error() string   { return "i/o timeout" }
func (verifTimeout) Timeout() bool   { return true }
func (verifTimeout) Temporary() bool { return true }

type verifAddr struct{}

func (verifAddr) Network() string { return "tcp" }
func (verifAddr) String() string  { return "peer:4002" }

type verifConn struct {
	w       *verifWorld
	in      []byte // what the peer sends
	off     int
	endErr  error // what Read reports after the last byte
	ends    []int // offsets at which a request is complete
	closed  int
	ioAfter int // reads or writes after Close
	failDL  int // SetReadDeadline call (1-based) that fails, 0 = none
	nDL     int
	chunk   int // > 0: Read delivers at most chunk bytes at a time
}

// cur: the request whose bytes have been consumed completely (the one being handled).
func (c *verifConn) cur() int {
	n := -1
	for i, e := range c.ends {
		if e <= c.off {
			n = i
		}
	}
	return n
}

func (c *verifConn) Read(p []byte) (int, error) {
	if c.closed > 0 {
		c.ioAfter++
		return 0, verifErrClosed
	}
	verifJudgeAlloc(c, uint64(len(p))) // the buffer the service has allocated for what it expects
	if len(p) == 0 {
		return 0, nil
	}
	if c.off >= len(c.in) {
		return 0, c.endErr
	}
	src := c.in[c.off:]
	if c.chunk > 0 && len(src) > c.chunk {
		src = src[:c.chunk]
	}
	n := copy(p, src)
	c.off += n
	return n, nil
}

func (c *verifConn) Write(p []byte) (int, error) {
	if c.closed > 0 {
		c.ioAfter++
		return 0, verifErrClosed
	}
	c.w.add(verifEv{what: "write", data: append([]byte{}, p...)})
	return len(p), nil
}

func (c *verifConn) Close() error {
	c.closed++
	if c.closed > 1 {
		return verifErrClosed
	}
	return nil
}

func (c *verifConn) LocalAddr() net.Addr  { return verifAddr{} }
func (c *verifConn) RemoteAddr() net.Addr { return verifAddr{} }
func (c *verifConn) SetDeadline(t time.Time) error {
	return nil
}
func (c *verifConn) SetReadDeadline(t time.Time) error {
	c.nDL++
	if c.nDL == c.failDL {
		return verifTimeout{}
	}
	return nil
}
func (c *verifConn) SetWriteDeadline(t time.Time) error { return nil }

// written: all bytes the service wrote while handling request i, in order.
func (w *verifWorld) written(i int) []byte {
	var out []byte
	for _, e := range w.evs {
		if e.what == "write" && e.req == i {
			out = append(out, e.data...)
		}
	}
	return out
}

// ---------------------------------------------------------------------------
// credential store

type verifCreds struct{ w *verifWorld }

func (c *verifCreds) AA(username, password, perm string) bool {
	req := c.w.conn.cur()
	var ok bool
	found := false
	for _, m := range c.w.marks {
		if m.req == req && m.perm == perm {
			ok, found = m.ok, true
		}
	}
	if !found {
		ok = verifBool("grant-" + perm + "-" + verifName("req", req))
		c.w.marks = append(c.w.marks, verifVerdict{req: req, perm: perm, ok: ok})
	}
	c.w.add(verifEv{what: "aa", user: username, pass: password, perm: perm, ok: ok})
	return ok
}

// ---------------------------------------------------------------------------
// database and manager

var verifBackupImage = []byte("SQLite format 3\x00 the whole database")

type verifDB struct{ w *verifWorld }

func (d *verifDB) fails(what string) error {
	if d.w.fails(what+"-fails", 2) == 1 {
		return errors.New("database is busy")
	}
	return nil
}

func (d *verifDB) Execute(ctx context.Context, er *command.ExecuteRequest) ([]*command.ExecuteQueryResponse, uint64, error) {
	d.w.add(verifEv{what: "db.Execute", nn: er != nil})
	if err := d.fails("execute"); err != nil {
		return nil, 0, err
	}
	return []*command.ExecuteQueryResponse{{}}, 11, nil
}

func (d *verifDB) Query(ctx context.Context, qr *command.QueryRequest) ([]*command.QueryRows, command.ConsistencyLevel, uint64, error) {
	d.w.add(verifEv{what: "db.Query", nn: qr != nil})
	if err := d.fails("query"); err != nil {
		return nil, 0, 0, err
	}
	return []*command.QueryRows{{Columns: []string{"secret"}}}, 0, 12, nil
}

func (d *verifDB) Request(ctx context.Context, rr *command.ExecuteQueryRequest) ([]*command.ExecuteQueryResponse, uint64, uint64, error) {
	d.w.add(verifEv{what: "db.Request", nn: rr != nil})
	if err := d.fails("request"); err != nil {
		return nil, 0, 0, err
	}
	return []*command.ExecuteQueryResponse{{}}, 1, 13, nil
}

func (d *verifDB) Backup(ctx context.Context, br *command.BackupRequest, dst io.Writer) error {
	d.w.add(verifEv{what: "db.Backup", nn: br != nil})
	if err := d.fails("backup"); err != nil {
		return err
	}
	_, err := dst.Write(verifBackupImage)
	return err
}

func (d *verifDB) Load(ctx context.Context, lr *command.LoadRequest) error {
	d.w.add(verifEv{what: "db.Load", nn: lr != nil})
	return d.fails("load")
}

type verifMgr struct{ w *verifWorld }

func (m *verifMgr) LeaderAddr() (string, error) {
	m.w.add(verifEv{what: "read"})
	return "leader:4002", nil
}

func (m *verifMgr) CommitIndex() (uint64, error) {
	m.w.add(verifEv{what: "read"})
	if m.w.fails("commit-index-fails", 2) == 1 {
		return 0, errors.New("not open")
	}
	return 42, nil
}

func (m *verifMgr) Remove(ctx context.Context, rn *command.RemoveNodeRequest) error {
	m.w.add(verifEv{what: "mgr.Remove", nn: rn != nil, id: rn.GetId()})
	if m.w.fails("remove-fails", 2) == 1 {
		return errors.New("not leader")
	}
	return nil
}

func (m *verifMgr) Notify(n *command.NotifyRequest) error {
	m.w.add(verifEv{what: "mgr.Notify", nn: n != nil, id: n.GetId()})
	if m.w.fails("notify-fails", 2) == 1 {
		return errors.New("bootstrap failed")
	}
	return nil
}

func (m *verifMgr) Join(n *command.JoinRequest) error {
	m.w.add(verifEv{what: "mgr.Join", nn: n != nil, id: n.GetId(), flag: n.GetVoter()})
	switch m.w.fails("join-result", 3) {
	case 1:
		return errors.New("not leader")
	case 2:
		return errors.New("join failed")
	}
	return nil
}

func (m *verifMgr) Stepdown(wait bool, id string) error {
	m.w.add(verifEv{what: "mgr.Stepdown", nn: true, id: id, flag: wait})
	if m.w.fails("stepdown-fails", 2) == 1 {
		return errors.New("not leader")
	}
	return nil
}

// ---------------------------------------------------------------------------
// world construction

// verifNewWorld: a service wired to the models, and the peer's byte stream made of reqs.
func verifNewWorld(reqs []*verifReq, endErr error) (*Service, *verifWorld) {
	w := &verifWorld{reqs: reqs, hwm: make(chan uint64, 1)}
	c := &verifConn{w: w, endErr: endErr}
	w.conn = c
	for _, r := range reqs {
		body, err := pb.Marshal(r.cmd)
		verifAssume(err == nil)
		c.in = append(c.in, verifPrefix(uint64(len(body)))...)
		c.in = append(c.in, body...)
		r.end = len(c.in)
		c.ends = append(c.ends, r.end)
	}
	s := &Service{
		db:              &verifDB{w: w},
		mgr:             &verifMgr{w: w},
		credentialStore: &verifCreds{w: w},
		connTimeout:     connReadTimeout,
		connLimit:       maxConcurrentConns,
		apiAddr:         "node:4001",
		version:         "v10",
		logger:          log.New(io.Discard, "", 0),
	}
	s.RegisterHWMUpdate(w.hwm)
	return s, w
}

func verifPrefix(n uint64) []byte {
	b := make([]byte, 8)
	binary.LittleEndian.PutUint64(b, n)
	return b
}

// verifServe runs the handler as the service's accept loop does. A Go panic in it is reported
// (it would kill the node).
func verifServe(s *Service, c *verifConn) (panicked bool) {
	defer func() {
		if r := recover(); r != nil {
			if _, mine := r.(verifStop); mine {
				panic(r) // native replay: an assumption/assertion/finding of the harness itself
			}
			panicked = true
		}
	}()
	s.handleConn(c)
	return false
}

// ---------------------------------------------------------------------------
// replies

type verifReply struct {
	err     string
	leader  string
	hasData bool
}

func verifReplyOf(m pb.Message) (verifReply, bool) {
	switch x := m.(type) {
	case *proto.CommandExecuteResponse:
		return verifReply{err: x.Error, hasData: len(x.Response) > 0 || x.RaftIndex != 0}, true
	case *proto.CommandQueryResponse:
		return verifReply{err: x.Error, hasData: len(x.Rows) > 0 || x.RaftIndex != 0}, true
	case *proto.CommandRequestResponse:
		return verifReply{err: x.Error, hasData: len(x.Response) > 0 || x.RaftIndex != 0 || x.NumRW != 0}, true
	case *proto.CommandBackupResponse:
		return verifReply{err: x.Error, hasData: len(x.Data) > 0}, true
	case *proto.CommandLoadResponse:
		return verifReply{err: x.Error}, true
	case *proto.CommandLoadChunkResponse:
		return verifReply{err: x.Error}, true
	case *proto.CommandRemoveNodeResponse:
		return verifReply{err: x.Error}, true
	case *proto.CommandNotifyResponse:
		return verifReply{err: x.Error}, true
	case *proto.CommandJoinResponse:
		return verifReply{err: x.Error, leader: x.Leader, hasData: x.Leader != ""}, true
	case *proto.CommandStepdownResponse:
		return verifReply{err: x.Error}, true
	case *proto.HighwaterMarkUpdateResponse:
		return verifReply{err: x.Error}, true
	case *proto.NodeMeta:
		return verifReply{hasData: true}, true
	}
	return verifReply{}, false
}

// verifResponseFor: the message a client expects in answer to a command of type t.
func verifResponseFor(t proto.Command_Type) pb.Message {
	switch t {
	case proto.Command_COMMAND_TYPE_GET_NODE_META:
		return &proto.NodeMeta{}
	case proto.Command_COMMAND_TYPE_EXECUTE:
		return &proto.CommandExecuteResponse{}
	case proto.Command_COMMAND_TYPE_QUERY:
		return &proto.CommandQueryResponse{}
	case proto.Command_COMMAND_TYPE_REQUEST:
		return &proto.CommandRequestResponse{}
	case proto.Command_COMMAND_TYPE_BACKUP, proto.Command_COMMAND_TYPE_BACKUP_STREAM:
		return &proto.CommandBackupResponse{}
	case proto.Command_COMMAND_TYPE_LOAD:
		return &proto.CommandLoadResponse{}
	case proto.Command_COMMAND_TYPE_LOAD_CHUNK:
		return &proto.CommandLoadChunkResponse{}
	case proto.Command_COMMAND_TYPE_REMOVE_NODE:
		return &proto.CommandRemoveNodeResponse{}
	case proto.Command_COMMAND_TYPE_NOTIFY:
		return &proto.CommandNotifyResponse{}
	case proto.Command_COMMAND_TYPE_JOIN:
		return &proto.CommandJoinResponse{}
	case proto.Command_COMMAND_TYPE_STEPDOWN:
		return &proto.CommandStepdownResponse{}
	case proto.Command_COMMAND_TYPE_HIGHWATER_MARK_UPDATE:
		return &proto.HighwaterMarkUpdateResponse{}
	}
	return nil
}

// verifGunzip: the content of one complete gzip stream.
func verifGunzip(b []byte) ([]byte, error) {
	zr, err := gzip.NewReader(bytes.NewReader(b))
	if err != nil {
		return nil, err
	}
	out, err := io.ReadAll(zr)
	if err != nil {
		return nil, err
	}
	if err := zr.Close(); err != nil {
		return nil, err
	}
	return out, nil
}

// verifDecodeReply reads the answer to a command of type t as a client does.
func verifDecodeReply(t proto.Command_Type, body []byte) (verifReply, bool) {
	if t == proto.Command_COMMAND_TYPE_BACKUP {
		plain, err := verifGunzip(body)
		if err != nil {
			return verifReply{}, false
		}
		body = plain
	}
	if verifSymbolic() {
		e := verifEntryOf(body)
		if e == nil || len(body) != verifTokLen || e.tag != verifTagOf(verifResponseFor(t)) {
			return verifReply{}, false
		}
		return e.reply, true
	}
	m := verifResponseFor(t)
	if m == nil || pb.Unmarshal(body, m) != nil {
		return verifReply{}, false
	}
	return verifReplyOf(m)
}

// verifGranted: a check of perm for the request's own user and password was made, and granted,
// among the first upto log entries of request i.
func (w *verifWorld) verifGranted(r *verifReq, perm string, upto int) bool {
	g := false
	for k := 0; k < upto; k++ {
		e := w.evs[k]
		if e.what == "aa" && e.req == r.idx && e.perm == perm && e.user == r.user && e.pass == r.pass {
			g = verifOr(g, e.ok)
		}
	}
	return g
}

// verifAuthorized: the request's permission requirement is met by the granted checks made before
// log position upto.
func (w *verifWorld) verifAuthorized(r *verifReq, upto int) bool {
	if r.typ == proto.Command_COMMAND_TYPE_JOIN {
		full := w.verifGranted(r, verifPermJoin, upto)
		ro := verifOr(w.verifGranted(r, verifPermJoinRO, upto), w.verifGranted(r, verifPermJoinRR, upto))
		// a voter needs "join"; a read-only node needs one of the read-only permissions ("join"
		// is documented as permission to join in general and is accepted here too)
		return verifOr(verifAnd(r.voter, full), verifAnd(!r.voter, verifOr(ro, full)))
	}
	ok := true
	for _, p := range verifRequired(r.typ) {
		ok = verifAnd(ok, w.verifGranted(r, p, upto))
	}
	return ok
}

// ===== end of shared model code =====

// ---------------------------------------------------------------------------
// the oracle

const (
	// verifAllocSlack: what the service may allocate beyond the bytes the peer delivers (read chunk,
	// buffer growth). The property says "beyond what the client actually sent"; 1 MiB is generous.
	verifAllocSlack = 1 << 20
	// verifNativeMax: the largest announced length the native replay is allowed to allocate.
	verifNativeMax = 1 << 28
	// verifRuntimeMax: the largest []byte the Go runtime attempts (maxAlloc on 64-bit linux); beyond
	// it make() panics with "makeslice: len out of range".
	verifRuntimeMax = 1 << 48
)

// verifCurConn: the connection being served (for the engine's allocation hook).
var verifCurConn *verifConn

// verifAnnounced: the tail announces this many bytes and delivers fewer (0 = no such tail).
var verifAnnounced uint64
var verifHasAnnounced bool

// verifOnHugeAlloc is called by the engine when the code under test allocates a slice of a symbolic
// size it cannot materialise (max_sym_alloc < size <= 2^48).
func verifOnHugeAlloc(size uint64) {
	c := verifCurConn
	if c.failDL != 0 && c.nDL+1 == c.failDL {
		// the handler is about to give up (SetReadDeadline fails) before it reads into the buffer:
		// the native run, which sees buffers only in Read, could not confirm the judgement
		return
	}
	verifJudgeAlloc(c, size)
}

// verifJudgeAlloc: the service holds a buffer of n bytes for data it expects from the peer.
func verifJudgeAlloc(c *verifConn, n uint64) {
	willDeliver := uint64(len(c.in) - c.off)
	if n > willDeliver+verifAllocSlack {
		if verifHasAnnounced && n == verifAnnounced {
			// recorded defect: make([]byte, sz) with sz straight from the wire
			verifFinding("C35-length-prefix-allocated-before-payload")
		}
		verifAssert("C35-allocation-bounded-by-delivered-bytes", false)
	}
}

func verifStateChanging(what string) bool {
	switch what {
	case "db.Execute", "db.Request", "db.Load", "mgr.Remove", "mgr.Notify", "mgr.Join", "mgr.Stepdown":
		return true
	}
	return false
}

// verifJudgeConn: what must hold after any connection, whatever the peer sent.
// deadFrom: offset in the peer's stream from which nothing may be acted upon (-1: none).
func verifJudgeConn(w *verifWorld, panicked bool, deadFrom int) {
	if panicked {
		handled := w.conn.cur()
		if handled >= 0 {
			r := w.reqs[handled]
			if r.typ == proto.Command_COMMAND_TYPE_BACKUP_STREAM && !r.present && !verifHasAnnounced {
				// recorded defect: "BackupRequest is nil" is answered, then br.Compress = true
				verifFinding("C35-backup-stream-nil-request")
			}
		}
		if verifHasAnnounced && verifAnnounced > verifRuntimeMax {
			// recorded defect: make([]byte, sz) with sz straight from the wire
			verifFinding("C35-length-prefix-makeslice-panic")
		}
	}
	verifAssert("C35-no-panic", !panicked)
	verifAssert("C35-connection-closed-when-the-handler-returns", w.conn.closed >= 1)
	for k, e := range w.evs {
		if deadFrom >= 0 && e.off > deadFrom {
			verifAssert("C35-nothing-is-done-after-unparseable-bytes", false)
		}
		if e.req < 0 {
			verifAssert("C35-nothing-is-done-before-a-complete-request", false)
		}
		if e.req >= 0 && verifStateChanging(e.what) {
			r := w.reqs[e.req]
			verifAssert("C35-state-change-belongs-to-the-command", e.what == verifEffectOf(r.typ))
			verifAssert("C35-state-change-only-with-its-payload", r.present)
			verifAssert("C35-state-change-only-after-permission-check", w.verifAuthorized(r, k))
		}
	}
}

// verifEnd: how the peer's stream ends: closed (EOF) or silent until the read deadline.
func verifEnd() error {
	if verifChoice("end", 2) == 1 {
		return verifTimeout{}
	}
	return io.EOF
}

// ---------------------------------------------------------------------------
// entries

// VerifC35Command: one well-formed frame of every type x payload kind.
func VerifC35Command() {
	verifPanicsAreViolations()
	verifHasAnnounced, verifAnnounced = false, 0
	t := verifChoice("type", verifTypeChoices)
	k := verifChoice("kind", verifKinds)
	r := verifNewReq(0, t, k, true)
	s, w := verifNewWorld([]*verifReq{r}, verifEnd())
	w.noFail = verifTier() == 0
	verifCurConn = w.conn
	panicked := verifServe(s, w.conn)
	verifJudgeConn(w, panicked, -1)
	verifAssert("C35-frame-was-read", w.conn.cur() == 0)
	if verifEffectOf(r.typ) != "" && !r.present {
		verifReach("command-without-its-payload")
	}
	if verifResponseFor(r.typ) == nil {
		verifReach("unknown-command-type")
	}
}

// verifBeforeMenu (thorough tier): what may precede the malformed tail.
var verifBeforeMenu = [][2]int{
	{2, verifKExecute}, {3, verifKQuery}, {9, verifKExecuteQuery}, {4, verifKBackup}, {5, verifKLoad},
	{6, verifKRemove}, {7, verifKNotify}, {8, verifKJoin}, {12, verifKStepdown}, {13, verifKHWM},
	{1, verifKNone}, {10, verifKLoadChunk}, {2, verifKNone}, {0, verifKNone}, {14, verifKExecute},
}

// verifExecuteReq: a valid EXECUTE request (used before and after malformed input).
func verifExecuteReq(idx int) *verifReq {
	return verifNewReq(idx, 2, verifKExecute, true)
}

// verifBytesWorld builds the connection of VerifC35Bytes / VerifC35HugePrefix / the twin.
// tail: 0 end inside the prefix, 1 announced length not delivered, 2 unparseable frame then a valid
// command, 3 empty frame then a valid command. hugeOnly: only the announced-length tail, with the
// length restricted to what the native replay cannot allocate.
func verifBytesWorld(tail int, hugeOnly bool) (*Service, *verifWorld, int) {
	verifHasAnnounced, verifAnnounced = false, 0
	var reqs []*verifReq
	if !hugeOnly && verifChoice("valid-frame-first", 2) == 1 {
		if verifTier() == 1 {
			// thorough tier: any permission-carrying command (or an unknown one) goes first
			m := verifBeforeMenu[verifChoice("first-frame", len(verifBeforeMenu))]
			reqs = append(reqs, verifNewReq(0, m[0], m[1], true))
		} else {
			reqs = append(reqs, verifExecuteReq(0))
		}
	}
	var after *verifReq
	if tail >= 2 {
		after = verifExecuteReq(len(reqs))
	}
	s, w := verifNewWorld(reqs, io.EOF)
	w.noFail = true
	c := w.conn
	deadFrom := -1
	switch tail {
	case 0:
		n := 1 + verifChoice("prefix-bytes", 7)
		c.in = append(c.in, verifBytes("partial-prefix", n)...)
	case 1:
		avail := 0
		if !hugeOnly {
			avail = verifChoice("delivered-after-prefix", 3)
		}
		p := verifU64("announced")
		verifAssume(p > uint64(avail))
		if hugeOnly {
			verifAssume(verifAnd(p > verifNativeMax, p <= verifRuntimeMax))
		} else {
			// what the native replay can run: it allocates up to 256 MiB, or the runtime refuses
			verifAssume(verifOr(p <= verifNativeMax, p > verifRuntimeMax))
		}
		verifHasAnnounced, verifAnnounced = true, p
		c.in = append(c.in, verifPrefix(p)...)
		c.in = append(c.in, verifBytes("partial-payload", avail)...)
	case 2:
		k := 1 + verifChoice("garbage-bytes", 3)
		deadFrom = len(c.in)
		c.in = append(c.in, verifPrefix(uint64(k))...)
		for i := 0; i < k; i++ {
			c.in = append(c.in, 0xFF) // an unterminated varint: never a valid protobuf encoding
		}
	case 3:
		c.in = append(c.in, verifPrefix(0)...)
		// an empty frame is the zero Command: no type, nothing to do - it counts as a request
		zero := &verifReq{idx: len(w.reqs), typ: 0, cmd: &proto.Command{}, end: len(c.in)}
		after.idx = zero.idx + 1
		w.reqs = append(w.reqs, zero)
		c.ends = append(c.ends, zero.end)
	}
	if after != nil {
		body, err := pb.Marshal(after.cmd)
		verifAssume(err == nil)
		c.in = append(c.in, verifPrefix(uint64(len(body)))...)
		c.in = append(c.in, body...)
		after.end = len(c.in)
		if tail == 3 {
			w.reqs = append(w.reqs, after)
			c.ends = append(c.ends, after.end)
		}
	}
	if !hugeOnly {
		c.failDL = verifChoice("deadline-call-that-fails", 4)
		if c.failDL == 0 && verifChoice("one-byte-reads", 2) == 1 {
			c.chunk = 1
		}
		if c.failDL == 0 {
			c.endErr = verifEnd()
		}
	}
	verifCurConn = c
	return s, w, deadFrom
}

// VerifC35Bytes: malformed tails (see the file comment).
func VerifC35Bytes() {
	verifPanicsAreViolations()
	tail := verifChoice("tail", 4)
	s, w, deadFrom := verifBytesWorld(tail, false)
	panicked := verifServe(s, w.conn)
	verifJudgeConn(w, panicked, deadFrom)
	c := w.conn
	if c.failDL == 0 {
		switch tail {
		case 0:
			verifReach("end-inside-prefix")
		case 1:
			verifReach("short-payload")
		case 2:
			verifReach("unparseable-frame")
		case 3:
			verifAssert("C35-empty-frame-is-skipped", c.cur() == len(w.reqs)-1)
			n := 0
			for _, e := range w.evs {
				if e.what == "db.Execute" && e.req == len(w.reqs)-1 {
					n++
				}
			}
			verifAssert("C35-command-after-empty-frame-is-handled", verifOr(n == 1, !w.verifAuthorized(w.reqs[len(w.reqs)-1], len(w.evs))))
			verifReach("empty-frame")
		}
	} else {
		verifReach("deadline-failure")
	}
}

// VerifC35HugePrefix: announced lengths in (2^28, 2^48]: legal for the Go runtime, never delivered.
func VerifC35HugePrefix() {
	verifPanicsAreViolations()
	s, w, _ := verifBytesWorld(1, true)
	panicked := verifServe(s, w.conn)
	verifJudgeConn(w, panicked, -1)
}

// VerifC35Twin: same set-up as VerifC35Bytes with an unparseable frame; the final claim is false
// (the handler DOES close the connection).
func VerifC35Twin() {
	s, w, deadFrom := verifBytesWorld(2, false)
	panicked := verifServe(s, w.conn)
	verifJudgeConn(w, panicked, deadFrom)
	verifAssert("C35-twin-connection-left-open", w.conn.closed == 0)
}

// ---------------------------------------------------------------------------
// codec algebra: the models that replace protobuf and gzip in the symbolic run (spec "models").
// None of this runs natively.
//
// An encoded message is the 4-byte token {magic, magic, id, type tag}; verifEncs[id] remembers what
// was encoded. Decoding a Command hands back the request the harness built (type, payload wrapper,
// credentials); any other bytes do not parse; zero bytes are the empty message.

const (
	verifMagic0 = 0xF5
	verifMagic1 = 0xC9
	verifTagGz  = 0x7A
	verifGzEnd  = 0xE0
	verifTokLen = 4
)

type verifEnc struct {
	tag   byte
	cmd   *proto.Command
	reply verifReply
}

var verifEncs []*verifEnc

var verifErrCodec = errors.New("proto: cannot parse invalid wire-format data")

func verifTagOf(m pb.Message) byte {
	switch m.(type) {
	case *proto.Command:
		return 1
	case *proto.NodeMeta:
		return 2
	case *proto.CommandExecuteResponse:
		return 3
	case *proto.CommandQueryResponse:
		return 4
	case *proto.CommandRequestResponse:
		return 5
	case *proto.CommandBackupResponse:
		return 6
	case *proto.CommandLoadResponse:
		return 7
	case *proto.CommandLoadChunkResponse:
		return 8
	case *proto.CommandRemoveNodeResponse:
		return 9
	case *proto.CommandNotifyResponse:
		return 10
	case *proto.CommandJoinResponse:
		return 11
	case *proto.CommandStepdownResponse:
		return 12
	case *proto.HighwaterMarkUpdateResponse:
		return 13
	}
	return 0
}

func verifEntryOf(b []byte) *verifEnc {
	if len(b) < verifTokLen || b[0] != verifMagic0 || b[1] != verifMagic1 || int(b[2]) >= len(verifEncs) || verifEncs[b[2]].tag != b[3] {
		return nil
	}
	return verifEncs[b[2]]
}

func verifNewEnc(e *verifEnc) []byte {
	id := len(verifEncs)
	if id >= verifGzEnd {
		panic("verif: too many encoded forms")
	}
	verifEncs = append(verifEncs, e)
	return []byte{verifMagic0, verifMagic1, byte(id), e.tag}
}

func verifPbMarshal(m pb.Message) ([]byte, error) {
	tag := verifTagOf(m)
	if tag == 0 {
		return nil, errors.New("verif: message type outside the codec model")
	}
	if c, ok := m.(*proto.Command); ok {
		return verifNewEnc(&verifEnc{tag: tag, cmd: c}), nil
	}
	rep, _ := verifReplyOf(m)
	return verifNewEnc(&verifEnc{tag: tag, reply: rep}), nil
}

func verifPbUnmarshal(b []byte, m pb.Message) error {
	if len(b) == 0 {
		return nil // the empty encoding: every field keeps its zero value
	}
	c, ok := m.(*proto.Command)
	if !ok {
		return errors.New("verif: only commands are decoded in the codec model")
	}
	e := verifEntryOf(b)
	if e == nil || len(b) != verifTokLen || e.tag != 1 {
		return verifErrCodec
	}
	c.Type, c.Request, c.Credentials = e.cmd.Type, e.cmd.Request, e.cmd.Credentials
	return nil
}

// gzip writer model: the header token goes out with the first Write, content and end marker with Close.
type verifGzW struct {
	zw      *gzip.Writer
	dst     io.Writer
	pending []byte
	header  bool
	closed  bool
}

var verifGzWs []*verifGzW

func verifGzWOf(z *gzip.Writer) *verifGzW {
	for _, w := range verifGzWs {
		if w.zw == z {
			return w
		}
	}
	panic("verif: gzip.Writer not created by NewWriterLevel")
}

func verifGzNewWriterLevel(w io.Writer, level int) (*gzip.Writer, error) {
	if level < gzip.HuffmanOnly || level > gzip.BestCompression {
		return nil, errors.New("gzip: invalid compression level")
	}
	zw := new(gzip.Writer)
	verifGzWs = append(verifGzWs, &verifGzW{zw: zw, dst: w})
	return zw, nil
}

func verifGzWriterWrite(z *gzip.Writer, p []byte) (int, error) {
	w := verifGzWOf(z)
	if w.closed {
		return 0, errors.New("gzip: write to closed writer")
	}
	if !w.header {
		w.header = true
		if _, err := w.dst.Write(verifNewEnc(&verifEnc{tag: verifTagGz})); err != nil {
			return 0, err
		}
	}
	w.pending = append(w.pending, p...)
	return len(p), nil
}

func verifGzWriterClose(z *gzip.Writer) error {
	w := verifGzWOf(z)
	if w.closed {
		return nil
	}
	w.closed = true
	if !w.header {
		w.header = true
		if _, err := w.dst.Write(verifNewEnc(&verifEnc{tag: verifTagGz})); err != nil {
			return err
		}
	}
	_, err := w.dst.Write(append(append([]byte{}, w.pending...), verifGzEnd))
	return err
}

type verifGzR struct {
	zr   *gzip.Reader
	data []byte
	off  int
	end  error
}

var verifGzRs []*verifGzR

func verifGzROf(z *gzip.Reader) *verifGzR {
	for _, r := range verifGzRs {
		if r.zr == z {
			return r
		}
	}
	panic("verif: gzip.Reader not created by NewReader")
}

func verifGzNewReader(r io.Reader) (*gzip.Reader, error) {
	all, err := io.ReadAll(r)
	if err != nil {
		return nil, err
	}
	if len(all) == 0 {
		return nil, io.EOF
	}
	if len(all) < verifTokLen {
		return nil, io.ErrUnexpectedEOF
	}
	if e := verifEntryOf(all); e == nil || e.tag != verifTagGz {
		return nil, gzip.ErrHeader
	}
	st := &verifGzR{zr: new(gzip.Reader), data: all[verifTokLen:], end: io.ErrUnexpectedEOF}
	if k := len(st.data); k > 0 && st.data[k-1] == verifGzEnd {
		st.data, st.end = st.data[:k-1], io.EOF
	}
	verifGzRs = append(verifGzRs, st)
	return st.zr, nil
}

func verifGzReaderRead(z *gzip.Reader, p []byte) (int, error) {
	r := verifGzROf(z)
	if r.off >= len(r.data) {
		return 0, r.end
	}
	if len(p) == 0 {
		return 0, nil
	}
	n := copy(p, r.data[r.off:])
	r.off += n
	return n, nil
}

func verifGzReaderClose(z *gzip.Reader) error { return nil }
