package cluster

// Native driver for C35 (not part of the symbolic run): a real Service behind a real TCP listener in
// a CHILD process, raw bytes sent from this process. A panic in handleConn kills the child (the
// connection goroutine has no recover); the driver observes the exit and prints the child's last
// words. Run with /verif/harness/C35/native.sh.
//
// Each subtest FAILS when the child dies (the recorded defects C35-length-prefix-makeslice-panic,
// C35-backup-stream-nil-request); after a repair they are regression tests.

import (
	"bufio"
	"encoding/binary"
	"fmt"
	"net"
	"os"
	"os/exec"
	"strings"
	"testing"
	"time"

	"github.com/rqlite/rqlite/v10/cluster/proto"
	pb "google.golang.org/protobuf/proto"
)

// TestVerifC35NativeChild is the node: it only runs when started by the driver below.
func TestVerifC35NativeChild(t *testing.T) {
	if os.Getenv("VERIF_C35_CHILD") != "1" {
		t.Skip("child of TestVerifC35NativeRawSocket")
	}
	ln, err := net.Listen("tcp", "127.0.0.1:0")
	if err != nil {
		t.Fatal(err)
	}
	w := &verifWorld{hwm: make(chan uint64, 1), noFail: true}
	w.conn = &verifConn{w: w}
	s := New(ln, &verifDB{w: w}, &verifMgr{w: w}, nil)
	if err := s.Open(); err != nil {
		t.Fatal(err)
	}
	fmt.Printf("VERIF-ADDR %s\n", ln.Addr().String())
	time.Sleep(4 * time.Second)
	fmt.Println("VERIF-CHILD-ALIVE")
}

func verifC35Attack(t *testing.T, payload []byte) (alive bool, lastWords string) {
	cmd := exec.Command(os.Args[0], "-test.run", "^TestVerifC35NativeChild$", "-test.v")
	cmd.Env = append(os.Environ(), "VERIF_C35_CHILD=1")
	stdout, _ := cmd.StdoutPipe()
	var stderr strings.Builder
	cmd.Stderr = &stderr
	if err := cmd.Start(); err != nil {
		t.Fatal(err)
	}
	sc := bufio.NewScanner(stdout)
	addr := ""
	var out []string
	for sc.Scan() {
		l := sc.Text()
		out = append(out, l)
		if strings.HasPrefix(l, "VERIF-ADDR ") {
			addr = strings.TrimPrefix(l, "VERIF-ADDR ")
			break
		}
	}
	if addr == "" {
		cmd.Process.Kill()
		t.Fatalf("child did not start: %v %s", out, stderr.String())
	}
	conn, err := net.Dial("tcp", addr)
	if err != nil {
		t.Fatal(err)
	}
	conn.Write(payload)
	time.Sleep(300 * time.Millisecond)
	conn.Close()
	for sc.Scan() {
		l := sc.Text()
		out = append(out, l)
		if strings.HasPrefix(l, "VERIF-CHILD-ALIVE") {
			alive = true
		}
	}
	cmd.Wait()
	for _, l := range strings.Split(stderr.String()+"\n"+strings.Join(out, "\n"), "\n") {
		if strings.HasPrefix(l, "panic:") || strings.HasPrefix(l, "fatal error:") || strings.Contains(l, "[signal ") {
			lastWords += strings.TrimSpace(l) + " | "
		}
	}
	return alive, lastWords
}

func TestVerifC35NativeRawSocket(t *testing.T) {
	t.Run("eight-0xff-bytes", func(t *testing.T) {
		alive, words := verifC35Attack(t, []byte{0xff, 0xff, 0xff, 0xff, 0xff, 0xff, 0xff, 0xff})
		t.Logf("node alive: %v; %s", alive, words)
		if !alive {
			t.Errorf("DEFECT: eight 0xff bytes killed the node: %s", words)
		}
	})
	t.Run("backup-stream-without-request", func(t *testing.T) {
		body, _ := pb.Marshal(&proto.Command{Type: proto.Command_COMMAND_TYPE_BACKUP_STREAM})
		alive, words := verifC35Attack(t, append(verifPrefix(uint64(len(body))), body...))
		t.Logf("frame: % x; node alive: %v; %s", append(verifPrefix(uint64(len(body))), body...), alive, words)
		if !alive {
			t.Errorf("DEFECT: a BACKUP_STREAM command without a BackupRequest killed the node: %s", words)
		}
	})
	t.Run("prefix-64TiB-nothing-delivered", func(t *testing.T) {
		// legal for the Go runtime (<= 2^48), far beyond any machine: whether the node survives depends
		// on the kernel's overcommit policy ("fatal error: runtime: out of memory" if it refuses)
		b := make([]byte, 8)
		binary.LittleEndian.PutUint64(b, 1<<46)
		alive, words := verifC35Attack(t, b)
		t.Logf("node alive: %v; %s", alive, words)
		if !alive {
			t.Errorf("DEFECT: an 8-byte prefix announcing 64 TiB killed the node: %s", words)
		}
	})
}
