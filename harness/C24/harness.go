package queue

// C24: the batching queue is FIFO, lossless and batch-bounded.
//
// The real Queue[int] (New, Write, WriteOne, Flush, the run goroutine, mergeQueued, stopTimer,
// Request.Close) is driven by a schedule of actions chosen by the engine. Writers and flushers
// are two worker goroutines commanded from the harness main loop (they may park inside Write or
// Flush when the queue is full); the harness itself is the consumer of C. After every action
// the harness waits until every goroutine is parked (verifSettle), so the native replay under
// testing/synctest follows the same schedule.
//
// The oracle is written from the documentation of the package:
//   * Write returns increasing sequence numbers; a write with a lower number is transmitted first;
//   * a batch is a run of whole consecutive writes (in sequence-number order), at least one and
//     at most batchSize of them; its Objects are their objects in order; its SequenceNumber is
//     that of its last (largest) member; nothing is lost, duplicated or reordered;
//   * a batch with fewer than batchSize writes is released only by a Flush or after the timeout
//     (and never when the timeout is zero); a full batch is released at once, a pending partial
//     one no later than the timeout, a Flush releases everything pending; no empty batch;
//   * a flush channel is closed exactly by Close of the Request that carries its write.

import (
	"syscall"
	"time"
)

const verifC24Timeout = 100 * time.Millisecond

type verifWrite struct {
	objs      []int
	fc        FlushChannel
	one       bool // issued through WriteOne
	seq       int64
	err       error
	returned  bool
	placed    bool  // inserted into the sequence-number order
	cmdAt     int64 // model clock when the write was commanded
	hasFloor  bool
	seqFloor  int64 // largest sequence number handed out before this write was commanded
	flushDone int   // Flush calls that had returned before this write was commanded
	closed    bool  // the consumer has closed the batch carrying this write
	idleSince int64 // first instant at which the queue was seen idle with this write first in line
	idleSeen  bool
}

type verifCmd struct {
	w *verifWrite // nil: Flush
}

type verifWorker struct {
	cmd     chan verifCmd
	busy    bool
	writing bool // busy with a Write (as opposed to a Flush)
}

type verifC24 struct {
	q         *Queue[int]
	batchSize int
	timeout   time.Duration
	ws        []*verifWorker
	writes    []*verifWrite // in command order
	order     []*verifWrite // returned writes, by sequence number
	sent      int           // order[:sent] have been received from C
	flushCmd  int           // Flush calls commanded
	flushDone int           // Flush calls returned
	batches   int
	lastSeq   int64
	visible   bool // a batch is waiting in C
	visibleAt int64
	visFlush  int // flushCmd when that batch became visible
	expect    int // members the next batch must have (-1: no expectation)
	nextObj   int
}

func verifChanClosed(c FlushChannel) bool {
	select {
	case <-c:
		return true
	default:
		return false
	}
}

func verifNewC24(maxSize, batchSize int, timeout time.Duration) *verifC24 {
	h := &verifC24{batchSize: batchSize, timeout: timeout, expect: -1}
	h.q = New[int](maxSize, batchSize, timeout)
	verifSettle()
	verifAdvanceClock(1) // lets the initial zero timer of run() fire under every clock implementation
	verifSettle()
	for i := 0; i < 2; i++ {
		w := &verifWorker{cmd: make(chan verifCmd)}
		h.ws = append(h.ws, w)
		go h.work(w)
		verifSettle()
	}
	return h
}

func (h *verifC24) work(w *verifWorker) {
	for c := range w.cmd {
		switch {
		case c.w == nil:
			h.q.Flush()
			h.flushDone++
		case c.w.one:
			c.w.seq, c.w.err = h.q.WriteOne(c.w.objs[0], c.w.fc)
			c.w.returned = true
		default:
			c.w.seq, c.w.err = h.q.Write(c.w.objs, c.w.fc)
			c.w.returned = true
		}
		w.busy = false
	}
}

// writers counts the workers that were inside Write when last seen.
func (h *verifC24) writers() int {
	n := 0
	for _, w := range h.ws {
		if w.busy && w.writing {
			n++
		}
	}
	return n
}

// settle waits until every other goroutine is parked. With two callers inside Write one of them
// may be parked on the queue's mutex (behind a caller parked on the full channel).
// testing/synctest does not count a goroutine waiting for a sync.Mutex as durably blocked, so
// synctest.Wait would never return in the native replay; there the harness waits in real time
// until nothing moves any more. The symbolic run always uses the exact verifSettle.
func (h *verifC24) settle() {
	if verifSymbolic() || h.writers() < 2 {
		verifSettle()
		return
	}
	var last [8]int
	for same, i := 0, 0; i < 5000 && same < 20; i++ {
		syscall.Nanosleep(&syscall.Timespec{Nsec: 1_000_000}, nil)
		cur := [8]int{len(h.q.C), len(h.q.batchCh), h.flushDone}
		for j, w := range h.ws {
			if w.busy {
				cur[3+j] = 1
			}
		}
		for _, w := range h.writes {
			if w.returned {
				cur[5]++
			}
		}
		if cur == last {
			same++
		} else {
			same, last = 0, cur
		}
	}
}

// cleanup lets the goroutines of a native replay finish (best effort, never blocks).
func (h *verifC24) cleanup() {
	if verifSymbolic() {
		return
	}
	for i := 0; i < 16; i++ {
		select {
		case <-h.q.C:
		default:
		}
		select {
		case <-h.q.batchCh:
		default:
		}
		h.settle()
	}
	for _, w := range h.ws {
		close(w.cmd)
	}
	close(h.q.done)
	h.settle()
}

func (h *verifC24) idleWorker() *verifWorker {
	for _, w := range h.ws {
		if !w.busy {
			return w
		}
	}
	return nil
}

func (h *verifC24) allIdle() bool {
	for _, w := range h.ws {
		if w.busy {
			return false
		}
	}
	return true
}

// quiet: nobody is inside Write/Flush and nothing waits in C, hence run() is parked in its
// select with everything that was written sitting in its pending list.
func (h *verifC24) quiet() bool { return h.allIdle() && len(h.q.C) == 0 }

func (h *verifC24) pending() int { return len(h.order) - h.sent }

func (h *verifC24) newWrite(n int, withChan, one bool) *verifWrite {
	w := &verifWrite{one: one, cmdAt: verifClock(), flushDone: h.flushDone}
	for j := 0; j < n; j++ {
		h.nextObj++
		w.objs = append(w.objs, h.nextObj)
	}
	if withChan {
		w.fc = make(FlushChannel)
	}
	if len(h.order) > 0 {
		w.hasFloor, w.seqFloor = true, h.order[len(h.order)-1].seq
	}
	h.writes = append(h.writes, w)
	return w
}

func (h *verifC24) command(wk *verifWorker, c verifCmd) {
	wk.busy, wk.writing = true, c.w != nil
	if c.w == nil {
		h.flushCmd++
	}
	wk.cmd <- c
}

// observe is called whenever every goroutine is parked.
func (h *verifC24) observe() {
	for _, w := range h.writes {
		if !w.returned || w.placed {
			continue
		}
		w.placed = true
		verifAssert("C24-write-accepted", w.err == nil)
		verifAssert("C24-write-seq-increases", !w.hasFloor || w.seq > w.seqFloor)
		i := len(h.order)
		h.order = append(h.order, w)
		for i > 0 && h.order[i-1].seq > w.seq {
			h.order[i] = h.order[i-1]
			i--
		}
		h.order[i] = w
		verifAssert("C24-write-seq-distinct", i == 0 || h.order[i-1].seq != w.seq)
		// a write numbered below an already transmitted one would have to have been transmitted before it
		verifAssert("C24-seq-order-is-transmission-order", i >= h.sent)
	}
	if len(h.q.C) > 0 && !h.visible {
		h.visible, h.visibleAt, h.visFlush = true, verifClock(), h.flushCmd
	}
	for _, w := range h.writes {
		if w.fc != nil {
			verifAssert("C24-flush-chan-closed-exactly-by-its-batch-close", verifChanClosed(w.fc) == w.closed)
		}
	}
	busy := 0
	for _, w := range h.ws {
		if w.busy {
			busy++
		}
	}
	if busy >= 1 {
		verifReach("writer-parked-on-full-queue")
		// a writer can only be stuck while the consumer is behind
		verifAssert("C24-writer-parked-only-behind-consumer", len(h.q.C) > 0)
	}
	if busy >= 2 {
		verifReach("two-callers-parked")
	}
	if h.quiet() {
		for _, w := range h.writes {
			verifAssert("C24-write-returned", w.returned)
		}
		p := h.pending()
		verifAssert("C24-full-batch-released-at-once", p < h.batchSize)
		if p > 0 {
			f := h.order[h.sent]
			if !f.idleSeen {
				f.idleSeen, f.idleSince = true, verifClock()
			}
			if h.timeout > 0 {
				// its timer was armed no later than idleSince
				verifAssert("C24-pending-released-by-timeout", verifClock()-f.idleSince < int64(h.timeout))
			}
		}
	}
}

// consume receives the batch waiting in C, checks it, closes it.
func (h *verifC24) consume() {
	var r *Request[int]
	select {
	case r = <-h.q.C:
	default:
	}
	verifAssert("C24-batch-receivable", r != nil)
	a, b := h.sent, -1
	for i := a; i < len(h.order); i++ {
		if h.order[i].seq == r.SequenceNumber {
			b = i + 1
		}
	}
	// the batch number is the number of a write not yet transmitted: the batch is order[a:b], not empty
	verifAssert("C24-batch-seq-is-a-pending-write", b > a)
	n := b - a
	verifAssert("C24-batch-bounded-by-batch-size", n <= h.batchSize)
	var want []int
	for i := a; i < b; i++ {
		want = append(want, h.order[i].objs...)
	}
	verifAssert("C24-batch-is-whole-writes", len(r.Objects) == len(want))
	for i := range want {
		verifAssert("C24-batch-objects-in-write-order", r.Objects[i] == want[i])
	}
	verifAssert("C24-batch-seq-strictly-increases", h.batches == 0 || r.SequenceNumber > h.lastSeq)
	h.batches++
	h.lastSeq = r.SequenceNumber
	if n >= 2 {
		verifReach("multi-write-batch")
	}
	if n < h.batchSize {
		first := h.order[a]
		if h.visFlush > first.flushDone {
			verifReach("partial-batch-after-flush")
		} else {
			verifReach("partial-batch-by-timeout")
			verifAssert("C24-partial-batch-needs-flush-or-timeout", h.timeout > 0)
			verifAssert("C24-partial-batch-not-before-timeout", h.visibleAt-first.cmdAt >= int64(h.timeout))
		}
	} else {
		verifReach("full-batch")
	}
	if h.expect >= 0 {
		verifAssert("C24-release-takes-everything-pending", n == h.expect)
		h.expect = -1
	}
	for i := a; i < b; i++ {
		if fc := h.order[i].fc; fc != nil {
			verifAssert("C24-flush-chan-open-until-close", !verifChanClosed(fc))
		}
	}
	r.Close()
	for i := a; i < b; i++ {
		h.order[i].closed = true
		if h.order[i].fc != nil {
			verifReach("flush-chan-closed")
		}
	}
	h.sent = b
	h.visible = false
	h.settle()
	h.observe()
}

const (
	vActWriteOne = iota // WriteOne, with flush channel
	vActWriteTwo        // Write of 2 objects, no flush channel
	vActWriteBoth       // both workers at once: Write(1 object, no channel) and Write(2 objects, channel)
	vActFlush
	vActConsume
	vActAdvance     // the whole timeout
	vActAdvanceHalf // half of it
)

// enabled lists the actions that can be taken now (the others would be no-ops or impossible).
func (h *verifC24) enabled() []int {
	var acts []int
	if h.idleWorker() != nil {
		acts = append(acts, vActWriteOne, vActWriteTwo, vActFlush)
	}
	if h.allIdle() {
		acts = append(acts, vActWriteBoth)
	}
	if h.visible {
		acts = append(acts, vActConsume)
	}
	// time only matters while something has been written and not yet received; with two callers
	// inside Write the consumer is behind and no timer is armed (and the fake clock of the native
	// replay cannot move while a goroutine waits for a mutex)
	if h.timeout > 0 && (h.pending() > 0 || !h.quiet()) && h.writers() < 2 {
		acts = append(acts, vActAdvance, vActAdvanceHalf)
	}
	return acts
}

func (h *verifC24) step(act int) {
	wasQuiet, before := h.quiet(), h.pending()
	switch act {
	case vActWriteOne:
		h.command(h.idleWorker(), verifCmd{h.newWrite(1, true, true)})
	case vActWriteTwo:
		h.command(h.idleWorker(), verifCmd{h.newWrite(2, false, false)})
	case vActWriteBoth:
		w0, w1 := h.newWrite(1, false, false), h.newWrite(2, true, false)
		h.command(h.ws[0], verifCmd{w0})
		h.command(h.ws[1], verifCmd{w1})
	case vActFlush:
		h.command(h.idleWorker(), verifCmd{})
	case vActConsume:
		h.consume()
		return
	case vActAdvance:
		verifAdvanceClock(int64(h.timeout))
	case vActAdvanceHalf:
		verifAdvanceClock(int64(h.timeout) / 2)
	}
	h.settle()
	h.observe()
	switch act {
	case vActFlush:
		if wasQuiet {
			if before > 0 {
				verifAssert("C24-flush-releases-pending", len(h.q.C) == 1)
				h.expect = before
			} else {
				verifAssert("C24-no-empty-batch", len(h.q.C) == 0)
			}
		}
	case vActAdvance, vActAdvanceHalf:
		if wasQuiet && len(h.q.C) == 1 {
			h.expect = before
		}
	}
}

// finish plays the fair consumer: it drains C until everybody is idle, flushes, drains again;
// then every write must have come out.
func (h *verifC24) finish() {
	for i := 0; i < 2*len(h.writes)+2 && h.visible; i++ {
		h.consume()
	}
	verifAssert("C24-consumer-drains-queue", h.quiet())
	before := h.pending()
	h.command(h.ws[0], verifCmd{})
	h.settle()
	h.observe()
	if before > 0 {
		verifAssert("C24-flush-releases-pending", h.visible)
		h.expect = before
		h.consume()
	}
	verifAssert("C24-no-empty-batch", !h.visible && len(h.q.C) == 0)
	verifAssert("C24-lossless", h.sent == len(h.writes) && h.pending() == 0)
	for _, w := range h.writes {
		verifAssert("C24-every-write-closed", w.returned && w.closed)
	}
}

func verifC24Run(steps int, batchSize int, timeout time.Duration, maxSize int) {
	verifPanicsAreViolations()
	h := verifNewC24(maxSize, batchSize, timeout)
	defer h.cleanup()
	for s := 0; s < steps; s++ {
		acts := h.enabled()
		h.step(acts[verifChoice(verifName("act", s), len(acts))%len(acts)])
	}
	h.finish()
}

// VerifC24Schedule: every schedule of K actions for batch size 1..3, timeout off/on, queue
// capacity 1 or 3.
func VerifC24Schedule() {
	k := 4
	if verifTier() == 1 {
		k = 5
	}
	batchSize := 1 + verifChoice("batchSize", 3)
	timeout := time.Duration(0)
	if verifChoice("timeoutOn", 2) == 1 {
		timeout = verifC24Timeout
	}
	maxSize := 1
	if verifChoice("maxSizeBig", 2) == 1 {
		maxSize = 3
	}
	verifC24Run(k, batchSize, timeout, maxSize)
}

// VerifC24Preempt: the same schedules, shorter, but the executor may also take the processor
// away from a running goroutine at any of its synchronisation operations (one preemption per
// path in the quick tier, two in the thorough tier): interleavings inside Write/run, not only
// between whole operations. Counterexamples are replayed natively with the forced schedule.
func VerifC24Preempt() {
	k := 2 + verifTier()
	batchSize := 1 + verifChoice("batchSize", 2)
	maxSize := 1
	if verifChoice("maxSizeBig", 2) == 1 {
		maxSize = 3
	}
	verifC24Run(k, batchSize, 0, maxSize)
}

// VerifC24Deep (thorough tier): schedules of 6 actions on the configuration in which callers
// park soonest (capacity 1), batch size 2, with a timeout.
func VerifC24Deep() {
	verifC24Run(6, 2, verifC24Timeout, 1)
}

// VerifC24Merge: mergeQueued alone over a slice of up to 4 queued writes with symbolic sequence
// numbers (objects are distinct constants: the function is generic and cannot look at them).
func VerifC24Merge() {
	verifPanicsAreViolations()
	// quick: up to 3 queued writes; thorough: up to 4
	n := verifChoice("n", 4+verifTier())
	qs := make([]*queuedObjects[int], n)
	var wantObjs []int
	var wantChans []FlushChannel
	for i := 0; i < n; i++ {
		q := &queuedObjects[int]{SequenceNumber: verifI64(verifName("seq", i))}
		k := 1
		if i < 2+verifTier() { // number of objects 0..2 (later writes: 1)
			k = verifChoice(verifName("len", i), 3)
		}
		for j := 0; j < k; j++ {
			q.Objects = append(q.Objects, 10*i+j+1)
		}
		if verifChoice(verifName("chan", i), 2) == 1 {
			q.flushChan = make(FlushChannel)
			wantChans = append(wantChans, q.flushChan)
		}
		wantObjs = append(wantObjs, q.Objects...)
		qs[i] = q
	}
	r := mergeQueued(qs)
	if n == 0 {
		verifReach("merge-empty")
		verifAssert("C24-merge-empty-is-nil", r == nil)
		return
	}
	verifAssert("C24-merge-not-nil", r != nil)
	max := qs[0].SequenceNumber
	for i := 1; i < n; i++ {
		if qs[i].SequenceNumber > max {
			max = qs[i].SequenceNumber
		}
	}
	verifAssert("C24-merge-seq-is-the-largest", r.SequenceNumber == max)
	verifAssert("C24-merge-object-count", len(r.Objects) == len(wantObjs))
	for i := range wantObjs {
		verifAssert("C24-merge-objects-concatenated", r.Objects[i] == wantObjs[i])
	}
	verifAssert("C24-merge-chan-count", len(r.flushChans) == len(wantChans))
	for i := range wantChans {
		verifAssert("C24-merge-chans-in-order", r.flushChans[i] == wantChans[i])
	}
	if n >= 2 && len(wantChans) >= 2 {
		verifReach("merge-several-chans")
	}
	// the request owns its objects: changing it does not change what the writers handed in
	if len(r.Objects) > 0 {
		r.Objects[0]++
		k := 0
		for i := 0; i < n; i++ {
			for j := range qs[i].Objects {
				verifAssert("C24-merge-does-not-alias-input", qs[i].Objects[j] == wantObjs[k])
				k++
			}
		}
	}
	r.Close()
	for _, c := range wantChans {
		verifAssert("C24-close-closes-every-chan", verifChanClosed(c))
	}
}

// VerifC24Twin: same machinery, final assertion must fail.
func VerifC24Twin() {
	h := verifNewC24(1, 2, verifC24Timeout)
	defer h.cleanup()
	h.step(vActWriteOne)
	h.step(vActAdvance)
	verifAssert("twin", !h.visible)
}
