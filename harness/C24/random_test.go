package queue

// Native driver (not used by the symbolic run): random schedules of the C24 harness on the real
// queue inside a testing/synctest bubble. It checks that the oracle of harness.go raises no
// alarm natively on long random schedules (engine and runtime agree on the unchanged code).
// Run: VERIF_C24_RANDOM=500 go test -overlay ... -run TestVerifC24Random ./queue

import (
	"encoding/json"
	"fmt"
	"math/rand"
	"os"
	"path/filepath"
	"strconv"
	"testing"
	"testing/synctest"
	"time"
)

func TestVerifC24Random(t *testing.T) {
	n, _ := strconv.Atoi(os.Getenv("VERIF_C24_RANDOM"))
	if n == 0 {
		t.Skip("set VERIF_C24_RANDOM=<number of schedules>")
	}
	rng := rand.New(rand.NewSource(int64(n)))
	dir := t.TempDir()
	for i := 0; i < n; i++ {
		vals := map[string]any{}
		steps := 4 + rng.Intn(16)
		for s := 0; s < steps; s++ {
			vals[fmt.Sprintf("act%d", s)] = rng.Intn(7)
		}
		bs, ms := 1+rng.Intn(3), 1+rng.Intn(3)
		to := time.Duration(rng.Intn(2)) * verifC24Timeout
		b, _ := json.Marshal(map[string]any{"values": vals})
		p := filepath.Join(dir, "r.json")
		os.WriteFile(p, b, 0o644)
		os.Setenv("VERIF_REPLAY", p)
		verifWaitHook = synctest.Wait
		var out []string
		synctest.Test(t, func(t *testing.T) {
			out = verifRun("random", func() { verifC24Run(steps, bs, to, ms) })
		})
		if len(out) > 0 {
			t.Fatalf("schedule %d (batch %d, capacity %d, timeout %v) %s: %v", i, bs, ms, to, b, out)
		}
	}
}
