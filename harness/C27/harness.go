package db

import (
	"context"
	"database/sql"
	"errors"
	"regexp"
	"time"

	sqlite3 "github.com/mattn/go-sqlite3"
	command "github.com/rqlite/rqlite/v10/command/proto"
)

// C27: CDC events describe exactly the rows changed (limited claim).
//
// Code under test: the convertFn / cb closures built by (*DB).RegisterPreUpdateHook, the callback
// built by (*DB).RegisterCommitHook, normalizeCDCValues, (*CDCStreamer).PreupdateHook / CommitHook /
// Reset / Len.
//
// Two worlds, one harness (as in harness/C13):
//   * engine:  the write connection is a model. (*sql.DB).Conn / (*sql.Conn).Raw / Close hand the
//     registering code a blank *sqlite3.SQLiteConn, (*SQLiteConn).RegisterPreUpdateHook /
//     RegisterCommitHook capture the callbacks, and "SQLite changes a row" = the harness calls the
//     captured callback with a SQLitePreUpdateData whose cgo accessors Count / Old / New are
//     answered from the row the harness chose (spec.json "models").
//   * native replay: a real on-disk db.DB (replay_test.go). The very same change is produced by
//     real SQL (INSERT / UPDATE / DELETE with bound values on a table whose columns have no
//     declared type, so every storage class is kept as it is), SQLite itself calls the real
//     callbacks, and transactions are real BEGIN / COMMIT / ROLLBACK.
// The oracle is written from the property statement and never looks at the implementation.

// ---------------------------------------------------------------------------------------------
// values

const (
	vkNil = iota
	vkInt
	vkFloat
	vkText
	vkBlob
	// the remaining kinds only reach normalizeCDCValues directly (SQLitePreUpdateData never yields them)
	vkBool
	vkTime
	vkGoInt
	vkAlien
)

type verifC27Cell struct {
	kind int
	i    int64
	f    float64
	s    string
	b    []byte
	bo   bool
	t    time.Time
	text string // vkTime: the RFC 3339 text demanded
	bad  bool   // vkTime: not representable in RFC 3339 (year > 9999): an error is demanded
}

var verifC27Floats = []float64{0, 1.5, -2.25, 1e300}

var verifC27Times = []struct {
	y, mo, d, h, mi, s, ns int
	east                   int // zone offset, seconds east of UTC
	text                   string
	bad                    bool
}{
	{1970, 1, 1, 0, 0, 0, 0, 0, "1970-01-01T00:00:00Z", false},
	{2024, 2, 29, 13, 4, 5, 123000000, 0, "2024-02-29T13:04:05.123Z", false},
	{1999, 12, 31, 23, 59, 59, 1, -19800, "1999-12-31T23:59:59.000000001-05:30", false},
	{10000, 1, 1, 0, 0, 0, 0, 0, "", true},
}

// the variants of a column value as SQLite can hand it to the preupdate hook
const (
	vvNull = iota
	vvInt
	vvFloat
	vvText2
	vvBlob2
	vvText0
	vvBlob0
	vvDriverVariants
	// normalizeCDCValues only
	vvBool = iota - 1
	vvTime
	vvGoInt
	vvAlien
	vvNilBlob
	vvAllVariants
)

func verifC27MakeCell(name string, variant int, salt int) verifC27Cell {
	var c verifC27Cell
	switch variant {
	case vvNull:
		c.kind = vkNil
	case vvInt:
		c.kind = vkInt
		c.i = verifI64(name + ".i")
	case vvFloat:
		c.kind = vkFloat
		c.f = verifC27Floats[salt%len(verifC27Floats)]
	case vvText2:
		c.kind = vkText
		c.s = string(verifBytes(name+".s", 2))
	case vvBlob2:
		c.kind = vkBlob
		c.b = verifBytes(name+".b", 2)
	case vvText0:
		c.kind = vkText
	case vvBlob0:
		c.kind = vkBlob
		c.b = []byte{}
	case vvBool:
		c.kind = vkBool
		c.bo = verifBool(name + ".bool")
	case vvTime:
		c.kind = vkTime
		x := verifC27Times[salt%len(verifC27Times)]
		loc := time.UTC
		if x.east != 0 {
			loc = time.FixedZone("", x.east)
		}
		c.t = time.Date(x.y, time.Month(x.mo), x.d, x.h, x.mi, x.s, x.ns, loc)
		c.text, c.bad = x.text, x.bad
	case vvGoInt:
		c.kind = vkGoInt
		c.i = verifI64(name + ".i")
	case vvAlien:
		c.kind = vkAlien
	case vvNilBlob:
		c.kind = vkBlob
	}
	return c
}

func (c verifC27Cell) value() any {
	switch c.kind {
	case vkInt:
		return c.i
	case vkFloat:
		return c.f
	case vkText:
		return c.s
	case vkBlob:
		if c.b == nil {
			return []byte(nil)
		}
		return append([]byte{}, c.b...)
	case vkBool:
		return c.bo
	case vkTime:
		return c.t
	case vkGoInt:
		return int(c.i)
	case vkAlien:
		return uint16(7)
	}
	return nil
}

// verifC27CellIs: does the CDC value carry exactly this column value (kind and payload)?
func verifC27CellIs(c verifC27Cell, v *command.CDCValue) bool {
	if v == nil {
		return false // one entry per column, NULL included: positions must line up with the columns
	}
	switch c.kind {
	case vkNil:
		return v.Value == nil
	case vkInt:
		x, ok := v.Value.(*command.CDCValue_I)
		return ok && x.I == c.i
	case vkGoInt:
		x, ok := v.Value.(*command.CDCValue_I)
		return ok && x.I == int64(int(c.i))
	case vkFloat:
		x, ok := v.Value.(*command.CDCValue_D)
		return ok && x.D == c.f
	case vkText:
		x, ok := v.Value.(*command.CDCValue_S)
		return ok && x.S == c.s
	case vkBlob:
		x, ok := v.Value.(*command.CDCValue_Y)
		return ok && string(x.Y) == string(c.b)
	case vkBool:
		x, ok := v.Value.(*command.CDCValue_B)
		return ok && x.B == c.bo
	case vkTime:
		x, ok := v.Value.(*command.CDCValue_S)
		return ok && x.S == c.text
	}
	return false
}

func verifC27RowIs(cells []verifC27Cell, r *command.CDCRow) bool {
	if r == nil || len(r.Values) != len(cells) {
		return false
	}
	for j := range cells {
		if !verifC27CellIs(cells[j], r.Values[j]) {
			return false
		}
	}
	return true
}

// ---------------------------------------------------------------------------------------------
// changes

const (
	voInsert = iota
	voUpdate
	voDelete
)

// https://www.sqlite.org/c3ref/c_alter_table.html
var verifC27SQLiteOp = []int{18 /* SQLITE_INSERT */, 23 /* SQLITE_UPDATE */, 9 /* SQLITE_DELETE */}

var verifC27Tables = []string{"foo", "bar", "foobar"}

// table filters and, written by hand, which of the three tables each one lets through
var verifC27Filters = []string{"", "^foo$", "foo", "^ba", "^$"} // "" = no filter at all
var verifC27Verdict = [][]bool{
	{true, true, true},
	{true, false, false},
	{true, false, true},
	{false, true, false},
	{false, false, false},
}

func verifC27Regexp(filter int) *regexp.Regexp {
	if filter == 0 {
		return nil
	}
	return regexp.MustCompile(verifC27Filters[filter])
}

// one changed row
type verifC27Ev struct {
	op       int
	table    int
	oldID    int64 // row id before the change (update, delete)
	newID    int64 // row id after the change (insert, update)
	old, new []verifC27Cell
	// seed: the values with which the row was put in place when that happened before the table's
	// definition was changed (nil = the row is put in place as `old`, under the current definition)
	seed []verifC27Cell
	// names: the columns of the table when the change is committed (nil = not examined)
	names []string
	// answered: what the database answered when asked for the table's columns at that commit (only
	// filled in to delimit a recorded defect, see verifC27Answered)
	answered []string
}

// ---------------------------------------------------------------------------------------------
// table definitions. "Write programs" may change a table's definition between two writes, so the
// harness keeps, for each of the three tables, the list of its column names. A local `plan` is the
// copy used while a program is generated (to give every row the width its table has at that point
// of the program), verifC27World the definitions as they are while the program runs (natively the
// SQL text is built from it, and db.DB.ColumnNames is compared with it by the oracle).

const (
	vdNone             = iota
	vdAddColumn        // ALTER TABLE t ADD COLUMN <fresh name>: existing rows read NULL there
	vdDropFirst        // ALTER TABLE t DROP COLUMN <first column>
	vdDropLast         // ALTER TABLE t DROP COLUMN <last column>
	vdRecreateWider    // DROP TABLE t; CREATE TABLE t(<one column more, fresh names>): no rows left
	vdRecreateNarrower // DROP TABLE t; CREATE TABLE t(<one column fewer, fresh names>)
	vdKinds
)

type verifC27Defs struct {
	cols [3][]string
	next [3]int // number of the next fresh column name of the table
}

var verifC27World verifC27Defs

func verifC27Fresh(next *int) string {
	s := "c" + string(rune('0'+*next/10)) + string(rune('0'+*next%10))
	*next++
	return s
}

func (s *verifC27Defs) init(nc int) {
	for t := range s.cols {
		s.next[t] = 0
		s.cols[t] = nil
		for j := 0; j < nc; j++ {
			s.cols[t] = append(s.cols[t], verifC27Fresh(&s.next[t]))
		}
	}
}

// apply changes the definition of one table; false = SQLite would refuse (a table keeps at least
// one column) and nothing is changed.
func (s *verifC27Defs) apply(table, kind int) bool {
	cols := s.cols[table]
	switch kind {
	case vdAddColumn:
		s.cols[table] = append(append([]string{}, cols...), verifC27Fresh(&s.next[table]))
	case vdDropFirst:
		if len(cols) < 2 {
			return false
		}
		s.cols[table] = append([]string{}, cols[1:]...)
	case vdDropLast:
		if len(cols) < 2 {
			return false
		}
		s.cols[table] = append([]string{}, cols[:len(cols)-1]...)
	case vdRecreateWider, vdRecreateNarrower:
		w := len(cols) + 1
		if kind == vdRecreateNarrower {
			w = len(cols) - 1
		}
		if w < 1 {
			return false
		}
		s.cols[table] = nil
		for j := 0; j < w; j++ {
			s.cols[table] = append(s.cols[table], verifC27Fresh(&s.next[table]))
		}
	}
	return true
}

// one step of a program that changes a table's definition (kind vdNone = no such step)
type verifC27DDLStep struct {
	kind, table int
}

// ---------------------------------------------------------------------------------------------
// the world: engine = model connection, native = real db.DB (hooks set by replay_test.go)

var verifC27OpenNative func(nc int) *DB
var verifC27SetupNative func(d *DB, ev *verifC27Ev, wipe bool)
var verifC27FireNative func(d *DB, ev *verifC27Ev) bool
var verifC27TxNative func(d *DB, what string) bool
var verifC27DDLNative func(d *DB, table, kind int) bool
var verifC27CloseNative func(d *DB)

var verifC27Lite *sqlite3.SQLiteConn
var verifC27PreCB func(sqlite3.SQLitePreUpdateData)
var verifC27CommitCB func() int
var verifC27Cur *verifC27Ev

// spec.json "models" (engine only)
func verifC27DBConn(d *sql.DB, ctx context.Context) (*sql.Conn, error) { return &sql.Conn{}, nil }
func verifC27ConnClose(c *sql.Conn) error                              { return nil }
func verifC27ConnRaw(c *sql.Conn, f func(driverConn any) error) error  { return f(verifC27Lite) }
func verifC27RegPre(c *sqlite3.SQLiteConn, cb func(sqlite3.SQLitePreUpdateData)) {
	if c != verifC27Lite {
		panic("verif C27: unknown connection")
	}
	verifC27PreCB = cb
}
func verifC27RegCommit(c *sqlite3.SQLiteConn, cb func() int) {
	if c != verifC27Lite {
		panic("verif C27: unknown connection")
	}
	verifC27CommitCB = cb
}

// sqlite3_preupdate_count: the number of columns of the row being changed
func verifC27Count(d *sqlite3.SQLitePreUpdateData) int {
	if verifC27Cur.op == voInsert {
		return len(verifC27Cur.new)
	}
	return len(verifC27Cur.old)
}

// (*SQLitePreUpdateData).Old / New: like Rows.Scan into the caller's []any; no old row for an
// INSERT, no new row for a DELETE (go-sqlite3 sqlite3_opt_preupdate_hook.go)
func verifC27Old(d *sqlite3.SQLitePreUpdateData, dest ...any) error {
	if d.Op == 18 {
		return errors.New("There is no old row for INSERT operations")
	}
	return verifC27Fill(dest, verifC27Cur.old)
}
func verifC27New(d *sqlite3.SQLitePreUpdateData, dest ...any) error {
	if d.Op == 9 {
		return errors.New("There is no new row for DELETE operations")
	}
	return verifC27Fill(dest, verifC27Cur.new)
}
func verifC27Fill(dest []any, cells []verifC27Cell) error {
	for i := 0; i < len(cells) && i < len(dest); i++ {
		dest[i] = cells[i].value()
	}
	return nil
}

// verifC27Open: a database whose three tables have nc untyped columns each, no hooks yet.
func verifC27Open(nc int) *DB {
	verifC27World.init(nc)
	if !verifSymbolic() {
		return verifC27OpenNative(nc)
	}
	verifC27Lite = &sqlite3.SQLiteConn{}
	verifC27PreCB, verifC27CommitCB, verifC27Cur = nil, nil, nil
	return &DB{rwDB: &sql.DB{}, roDB: &sql.DB{}}
}

// verifC27Setup: make the row an update/delete is going to change exist (not seen by any hook:
// natively it is written through a second connection). wipe = the table holds nothing else.
func verifC27Setup(d *DB, ev *verifC27Ev, wipe bool) {
	if !verifSymbolic() {
		verifC27SetupNative(d, ev, wipe)
	}
}

// verifC27Fire: SQLite changes one row on the write connection (natively: one SQL statement; in
// autocommit mode it reports false when the statement's own commit was refused).
func verifC27Fire(d *DB, ev *verifC27Ev) bool {
	if !verifSymbolic() {
		return verifC27FireNative(d, ev)
	}
	if verifC27PreCB == nil {
		return true
	}
	// what SQLite passes (sqlite3VdbePreUpdateHook): both keys are the row's id unless an UPDATE
	// changes the id
	data := sqlite3.SQLitePreUpdateData{Conn: verifC27Lite, Op: verifC27SQLiteOp[ev.op], DatabaseName: "main", TableName: verifC27Tables[ev.table]}
	switch ev.op {
	case voInsert:
		data.OldRowID, data.NewRowID = ev.newID, ev.newID
	case voUpdate:
		data.OldRowID, data.NewRowID = ev.oldID, ev.newID
	case voDelete:
		data.OldRowID, data.NewRowID = ev.oldID, ev.oldID
	}
	verifC27Cur = ev
	verifC27PreCB(data)
	verifC27Cur = nil
	return true
}

// verifC27Tx: "BEGIN", "COMMIT" (wrote = the transaction changed at least one row; SQLite does not
// run the commit hook for a transaction that wrote nothing), "ROLLBACK" (no hook of rqlite's is
// told) or "AUTOCOMMIT" (the commit at the end of a statement run outside BEGIN; natively part of
// the statement, see verifC27Fire). The result is whether SQLite carried the step out.
func verifC27Tx(d *DB, what string, wrote bool) bool {
	if !verifSymbolic() {
		return what == "AUTOCOMMIT" || verifC27TxNative(d, what)
	}
	if (what == "COMMIT" || what == "AUTOCOMMIT") && wrote && verifC27CommitCB != nil {
		return verifC27CommitCB() == 0 // non-zero turns the COMMIT into a ROLLBACK
	}
	return true
}

// verifC27DDL: the definition of a table is changed by statements run on the write connection
// outside BEGIN .. COMMIT (natively: real ALTER TABLE / DROP TABLE + CREATE TABLE). Each of these
// statements is a committing write transaction of its own that changes no row of a user table:
// SQLite runs the commit hook and no preupdate hook (the rows SQLite rewrites for DROP COLUMN and
// removes for DROP TABLE are not reported; compared with real SQLite by TestVerifC27Calibrate).
// While the commit hook runs the change is not yet visible to other connections, so the harness'
// definitions are updated afterwards. The result is whether SQLite carried the step out.
func verifC27DDL(d *DB, table, kind int) bool {
	if kind == vdNone {
		return true
	}
	ok := true
	if !verifSymbolic() {
		ok = verifC27DDLNative(d, table, kind)
	} else {
		stmts := 1
		if kind == vdRecreateWider || kind == vdRecreateNarrower {
			stmts = 2
		}
		for k := 0; k < stmts; k++ {
			if verifC27CommitCB != nil && verifC27CommitCB() != 0 {
				ok = false
			}
		}
	}
	if !verifC27World.apply(table, kind) {
		panic("verif C27: impossible change of a table definition")
	}
	return ok
}

func verifC27Close(d *DB) {
	if !verifSymbolic() {
		verifC27CloseNative(d)
	}
}

// ---------------------------------------------------------------------------------------------
// the oracle for one event

var verifC27Checks = []string{
	"event-count",
	"event-present",
	"no-error-text",
	"op",
	"table",
	"new-row-id",
	"old-row-id",
	"no-old-row-id-on-insert",
	"no-new-row-id-on-delete",
	"old-row-iff-not-insert",
	"new-row-iff-not-delete",
	"old-row-values",
	"new-row-values",
	"ids-only-carries-no-values",
	"column-names",
	"group-count",
	"group-size",
	"commit-not-vetoed",
}

// verifC27EvIs returns the first demand of the property the delivered event does not meet.
func verifC27EvIs(ev *verifC27Ev, got *command.CDCEvent, idsOnly bool, answered bool) string {
	if got == nil {
		return "event-present"
	}
	if got.Error != "" {
		return "no-error-text"
	}
	wantOp := command.CDCEvent_INSERT
	if ev.op == voUpdate {
		wantOp = command.CDCEvent_UPDATE
	}
	if ev.op == voDelete {
		wantOp = command.CDCEvent_DELETE
	}
	if got.Op != wantOp {
		return "op"
	}
	if got.Table != verifC27Tables[ev.table] {
		return "table"
	}
	if ev.op == voInsert {
		if got.OldRowId != 0 {
			return "no-old-row-id-on-insert"
		}
	} else if got.OldRowId != ev.oldID {
		return "old-row-id"
	}
	if ev.op == voDelete {
		if got.NewRowId != 0 {
			return "no-new-row-id-on-delete"
		}
	} else if got.NewRowId != ev.newID {
		return "new-row-id"
	}
	if idsOnly {
		if got.OldRow != nil || got.NewRow != nil {
			return "ids-only-carries-no-values"
		}
		return verifC27NamesAre(ev, got, answered)
	}
	if (got.OldRow != nil) != (ev.op != voInsert) {
		return "old-row-iff-not-insert"
	}
	if (got.NewRow != nil) != (ev.op != voDelete) {
		return "new-row-iff-not-delete"
	}
	if ev.op != voInsert && !verifC27RowIs(ev.old, got.OldRow) {
		return "old-row-values"
	}
	if ev.op != voDelete && !verifC27RowIs(ev.new, got.NewRow) {
		return "new-row-values"
	}
	return verifC27NamesAre(ev, got, answered)
}

// verifC27NamesAre: the event carries the column names of its table (ev.names; nil = not examined).
// answered = compare with what the database answered when it was asked for the names (ev.answered)
// instead - only used to delimit the recorded defect "C27-column-names-of-previous-definition".
func verifC27NamesAre(ev *verifC27Ev, got *command.CDCEvent, answered bool) string {
	names := ev.names
	if answered {
		names = ev.answered
	}
	if names == nil {
		return ""
	}
	if len(got.ColumnNames) != len(names) {
		return "column-names"
	}
	for j := range names {
		if got.ColumnNames[j] != names[j] {
			return "column-names"
		}
	}
	return ""
}

func verifC27AssertAll(mis string) {
	for _, id := range verifC27Checks {
		verifAssert("C27-"+id, mis != id)
	}
}

// recording PreUpdateHookCallback. It never asserts: natively it runs inside SQLite.
type verifC27Rec struct {
	evs []*command.CDCEvent
}

func (r *verifC27Rec) hook(ev *command.CDCEvent) error {
	r.evs = append(r.evs, ev)
	if len(r.evs)%2 == 0 {
		return errors.New("consumer failed") // a failing consumer must not disturb later events
	}
	return nil
}

func verifC27Cells(prefix string, nc int, variants []int) []verifC27Cell {
	out := make([]verifC27Cell, nc)
	for j := 0; j < nc; j++ {
		out[j] = verifC27MakeCell(verifName(prefix, j), variants[j], variants[j]+j)
	}
	return out
}

// rotation: column j gets variant (k+j) mod 7 - every variant in every column with 7 choices
func verifC27Rotation(k, nc int) []int {
	out := make([]int, nc)
	for j := range out {
		out[j] = (k + j) % vvDriverVariants
	}
	return out
}

func verifC27Variants(prefix string, nc int, independent bool) []int {
	if !independent {
		return verifC27Rotation(verifChoice(prefix+".rot", vvDriverVariants), nc)
	}
	out := make([]int, nc)
	for j := range out {
		out[j] = verifChoice(verifName(prefix+".var", j), vvDriverVariants)
	}
	return out
}

func verifC27ReachCells(cells []verifC27Cell) {
	for _, c := range cells {
		switch c.kind {
		case vkNil:
			verifReach("null-value")
		case vkInt:
			verifReach("integer-value")
		case vkFloat:
			verifReach("real-value")
		case vkText:
			verifReach("text-value")
		case vkBlob:
			verifReach("blob-value")
		}
	}
}

// ---------------------------------------------------------------------------------------------
// VerifC27Hook: the closures of RegisterPreUpdateHook, one event per changed row, handed to a
// recording consumer.
//
//	band 0 "values": one change; 1..3 columns; column values of every kind SQLite can hand over
//	       (NULL, integer, real, text, blob; empty text and blob), rotated through the columns
//	       (quick) or chosen independently per column for 1..2 columns (thorough); symbolic row ids,
//	       integers, text and blob bytes; row-ids-only on/off (quick: on with one row shape); no filter.
//	band 1 "tables": 2 (quick) / 3 (thorough; the third one's operation is derived) changes of any
//	       operation on any of three tables with one integer column, symbolic ids and values; every
//	       filter of the table (none, three that split the tables differently; thorough also one
//	       that matches nothing); row-ids-only on/off (quick: on only without a filter).
//	band 2 "definitions": 2 (quick) / 3 (thorough; the third one's operation and table are
//	       derived) changes of any operation on foo or bar, which start with two columns; between
//	       two changes the definition of foo or of bar may be changed while the hook stays
//	       registered (ADD COLUMN, DROP COLUMN first / last, DROP TABLE + CREATE TABLE with one
//	       column more / fewer), so that events of one table differ in width; every row has the
//	       width its table has when it is changed, mixed value kinds, symbolic ids, integers and
//	       bytes; no filter; row-ids-only off (thorough: on/off).
func VerifC27Hook() {
	verifPanicsAreViolations()
	thorough := verifTier() == 1
	band := verifChoice("band", 3)
	filter, nc, n := 0, 1, 1
	if band == 2 {
		nc, n = 2, 2
		if thorough {
			n = 3
		}
	}
	if band == 1 {
		n = 2
		nf := 4
		if thorough {
			n, nf = 3, 5
		}
		filter = verifChoice("filter", nf)
	}
	// quick: row-ids-only is combined with "no filter" only, and (band values) with one fixed row shape
	idsOnly := false
	if thorough || (filter == 0 && band != 2) {
		idsOnly = verifChoice("idsOnly", 2) == 1
	}
	independent := false
	if band == 0 {
		nc = 1 + verifChoice("columns", 3)
		if thorough && nc <= 2 && !idsOnly {
			independent = verifChoice("independent", 2) == 1
		}
	}
	shape := func(prefix string) []int {
		if idsOnly && !thorough {
			return verifC27Rotation(1, nc)
		}
		return verifC27Variants(prefix, nc, independent)
	}
	var plan verifC27Defs
	plan.init(nc)
	evs := make([]*verifC27Ev, n)
	ddl := make([]verifC27DDLStep, n) // ddl[i] is carried out before change i
	grew, shrank, recreated, elsewhere := false, false, false, false
	for i := range evs {
		p := verifName("e", i)
		ev := &verifC27Ev{}
		if i < 2 {
			ev.op = verifChoice(p+".op", 3)
		} else {
			ev.op = (evs[0].op + evs[1].op + 1) % 3 // third change (thorough): operation derived
		}
		if band == 1 {
			ev.table = verifChoice(p+".table", 3)
		}
		if band == 2 {
			if i < 2 {
				ev.table = verifChoice(p+".fooOrBar", 2)
			} else {
				ev.table = evs[0].table
			}
			if i > 0 {
				ddl[i].kind = verifChoice(p+".ddl", vdKinds)
				if ddl[i].kind != vdNone {
					ddl[i].table = verifChoice(p+".ddlTable", 2)
				}
				before := len(plan.cols[ddl[i].table])
				if !plan.apply(ddl[i].table, ddl[i].kind) {
					return // SQLite refuses to take a table's only column away: no such program
				}
				// has the table of this change already reported a change under another definition?
				seen := false
				for _, prev := range evs[:i] {
					seen = seen || prev.table == ev.table
				}
				after := len(plan.cols[ddl[i].table])
				switch {
				case ddl[i].kind == vdNone:
				case ddl[i].table != ev.table:
					elsewhere = true
				case !seen:
				case ddl[i].kind == vdRecreateWider || ddl[i].kind == vdRecreateNarrower:
					recreated = true
				case after > before:
					grew = true
				case after < before:
					shrank = true
				}
			}
		}
		width := len(plan.cols[ev.table])
		if ev.op != voInsert {
			ev.oldID = verifI64(p + ".oldID")
			switch band {
			case 0:
				ev.old = verifC27Cells(p+".old", nc, shape(p+".old"))
			case 1:
				ev.old = verifC27Cells(p+".old", 1, []int{vvInt})
			case 2:
				ev.old = verifC27Cells(p+".old", width, verifC27Rotation(2*i+1, width))
			}
		}
		if ev.op != voDelete {
			ev.newID = verifI64(p + ".newID")
			switch band {
			case 0:
				ev.new = verifC27Cells(p+".new", nc, shape(p+".new"))
			case 1:
				ev.new = verifC27Cells(p+".new", 1, []int{vvInt})
			case 2:
				ev.new = verifC27Cells(p+".new", width, verifC27Rotation(2*i+4, width))
			}
		}
		evs[i] = ev
	}

	rec := &verifC27Rec{}
	d := verifC27Open(nc)
	if err := d.RegisterPreUpdateHook(rec.hook, verifC27Regexp(filter), idsOnly); err != nil {
		panic(err)
	}
	for i, ev := range evs {
		if !verifC27DDL(d, ddl[i].table, ddl[i].kind) {
			panic("change of a table definition failed")
		}
		verifC27Setup(d, ev, true)
		if !verifC27Fire(d, ev) {
			panic("change failed")
		}
	}
	verifC27Close(d)

	// exactly the changes of tables the filter lets through, in order
	var want []*verifC27Ev
	for _, ev := range evs {
		if verifC27Verdict[filter][ev.table] {
			want = append(want, ev)
		}
	}
	mis := ""
	if len(rec.evs) != len(want) {
		mis = "event-count"
	}
	for i := 0; mis == "" && i < len(want); i++ {
		mis = verifC27EvIs(want[i], rec.evs[i], idsOnly, false)
	}
	verifC27AssertAll(mis)

	for _, ev := range want {
		switch ev.op {
		case voInsert:
			verifReach("insert-checked")
		case voUpdate:
			verifReach("update-checked")
		case voDelete:
			verifReach("delete-checked")
		}
		if !idsOnly {
			verifC27ReachCells(ev.old)
			verifC27ReachCells(ev.new)
		}
	}
	if idsOnly && len(want) > 0 {
		verifReach("ids-only-checked")
	}
	if len(want) < len(evs) {
		verifReach("filtered-table-absent")
	}
	if !idsOnly {
		if grew {
			verifReach("table-wider-than-at-its-earlier-event")
		}
		if shrank {
			verifReach("table-narrower-than-at-its-earlier-event")
		}
		if recreated {
			verifReach("table-recreated-since-its-earlier-event")
		}
		if elsewhere {
			verifReach("other-table-redefined")
		}
	}
	if n >= 2 && filter != 0 {
		a, b := evs[0].table, evs[1].table
		if a == b && verifC27Verdict[filter][a] {
			verifReach("same-table-twice-let-through")
		}
		if a == b && !verifC27Verdict[filter][a] {
			verifReach("same-table-twice-filtered")
		}
		if a != b && verifC27Verdict[filter][a] != verifC27Verdict[filter][b] {
			verifReach("two-tables-different-verdicts")
		}
	}
}

// ---------------------------------------------------------------------------------------------
// VerifC27Normalize: normalizeCDCValues on 0..3 columns of every Go type it documents (nil, int64,
// float64, bool, []byte, string, time.Time, int) and one it does not.
func VerifC27Normalize() {
	verifPanicsAreViolations()
	thorough := verifTier() == 1
	n := verifChoice("columns", 4)
	variants := make([]int, n)
	if n <= 2 || thorough {
		for j := range variants {
			variants[j] = verifChoice(verifName("var", j), vvAllVariants)
		}
	} else {
		k := verifChoice("rot", vvAllVariants)
		for j := range variants {
			variants[j] = (k + j) % vvAllVariants
		}
	}
	cells := make([]verifC27Cell, n)
	row := make([]any, n)
	wantErr := false
	for j := range cells {
		salt := j
		if variants[j] == vvTime {
			salt = verifChoice(verifName("time", j), len(verifC27Times))
		}
		cells[j] = verifC27MakeCell(verifName("c", j), variants[j], salt)
		row[j] = cells[j].value()
		if cells[j].kind == vkAlien || (cells[j].kind == vkTime && cells[j].bad) {
			wantErr = true
		}
	}
	got, err := normalizeCDCValues(row)
	if wantErr {
		verifAssert("C27-unrepresentable-value-is-an-error", err != nil)
		verifReach("value-rejected")
		return
	}
	verifAssert("C27-normalize-no-error", err == nil)
	verifAssert("C27-normalize-one-value-per-column", got != nil && len(got.Values) == n)
	for j := range cells {
		verifAssert("C27-normalize-kind-and-payload", verifC27CellIs(cells[j], got.Values[j]))
		switch cells[j].kind {
		case vkTime:
			verifReach("time-as-rfc3339-text")
		case vkBool:
			verifReach("bool-value")
		case vkGoInt:
			verifReach("go-int-value")
		case vkBlob:
			verifReach("blob-value")
		case vkNil:
			verifReach("null-value")
		}
	}
	if n == 3 {
		verifReach("three-columns")
	}
}

// ---------------------------------------------------------------------------------------------
// VerifC27Stream: CDCStreamer alone. A sequence of PreupdateHook(event of foo | bar), CommitHook,
// Reset: every CommitHook hands out exactly the events collected since the previous hand-out or
// Reset, the very same objects in the same order; nothing is handed out for an empty commit; the
// commit is never vetoed; column names are those of the event's table.

type verifC27Names struct {
	failBar bool
	calls   int
}

func (p *verifC27Names) ColumnNames(table string) ([]string, error) {
	p.calls++
	if table == "foo" {
		return []string{"id", "name"}, nil
	}
	if p.failBar {
		return nil, errors.New("no such table")
	}
	return []string{"x"}, nil
}

func verifC27Drain(ch chan *command.CDCIndexedEventGroup) []*command.CDCIndexedEventGroup {
	var out []*command.CDCIndexedEventGroup
	for {
		select {
		case g := <-ch:
			out = append(out, g)
		default:
			return out
		}
	}
}

func VerifC27Stream() {
	verifPanicsAreViolations()
	n := 4
	if verifTier() == 1 {
		n = 6
	}
	names := &verifC27Names{failBar: verifChoice("barHasNoColumns", 2) == 1}
	ch := make(chan *command.CDCIndexedEventGroup, n)
	s, err := NewCDCStreamer(ch, names)
	if err != nil {
		panic(err)
	}
	var pend []*command.CDCEvent
	var want [][]*command.CDCEvent
	vetoed := false
	for i := 0; i < n; i++ {
		step := verifChoice(verifName("step", i), 4)
		switch step {
		case 0, 1:
			ev := &command.CDCEvent{Op: command.CDCEvent_INSERT, Table: "foo", NewRowId: int64(i)}
			if step == 1 {
				ev.Table = "bar"
			}
			if s.PreupdateHook(ev) != nil {
				panic("PreupdateHook failed")
			}
			pend = append(pend, ev)
		case 2:
			if !s.CommitHook() {
				vetoed = true
			}
			if len(pend) > 0 {
				want = append(want, pend)
				pend = nil
			} else {
				verifReach("empty-commit")
			}
		case 3:
			s.Reset(verifU64(verifName("index", i)))
			if len(pend) > 0 {
				verifReach("reset-dropped-events")
			}
			pend = nil
		}
	}
	got := verifC27Drain(ch)
	verifAssert("C27-commit-not-vetoed", !vetoed)
	verifAssert("C27-group-count", len(got) == len(want))
	for k := range want {
		g := got[k]
		verifAssert("C27-group-size", g != nil && len(g.Events) == len(want[k]))
		for i, ev := range want[k] {
			verifAssert("C27-group-holds-the-events-in-order", g.Events[i] == ev)
			if ev.Table == "bar" && names.failBar {
				verifAssert("C27-missing-column-names-flagged", ev.Error != "" && len(ev.ColumnNames) == 0)
				verifReach("column-names-unavailable")
			} else {
				wantCols, first := 2, "id"
				if ev.Table == "bar" {
					wantCols, first = 1, "x"
				}
				verifAssert("C27-column-names-of-the-table", ev.Error == "" && len(ev.ColumnNames) == wantCols && ev.ColumnNames[0] == first)
			}
		}
		if len(want[k]) >= 2 {
			verifReach("group-of-several")
		}
	}
	verifAssert("C27-pending-count", s.Len() == len(pend))
	if len(want) >= 2 {
		verifReach("two-groups")
	}
}

// ---------------------------------------------------------------------------------------------
// VerifC27Chain: both hooks of a db.DB wired to a CDCStreamer the way store.Store does it
// (NewCDCStreamer(ch, the database), RegisterPreUpdateHook(streamer.PreupdateHook, filter, idsOnly),
// RegisterCommitHook(streamer.CommitHook)), then 2 (quick) / 3 (thorough) transactions of 0..2 row
// changes each that are committed, rolled back, or run statement by statement in autocommit mode.
// Between two transactions the definition of foo or bar may be changed (ADD COLUMN / DROP COLUMN,
// statements of their own outside BEGIN .. COMMIT); the rows updated and deleted were all put in
// place before the hooks were registered, so they live through these changes.
// Demanded: one group per committed transaction that changed a row of a table the filter lets
// through, holding exactly that transaction's events in order; every event carries the row as it
// reads under the table's definition at the time of the change (NULL in a column added after the row
// was stored, nothing for a dropped column) and the column names the table has when the
// transaction commits.

const (
	vtCommit = iota
	vtRollback
	vtAuto
)

type verifC27TxShape struct {
	ddl verifC27DDLStep // carried out before the transaction begins
	end int
	evs []*verifC27Ev
}

// the column names of the database: natively the real (*DB).ColumnNames (what store.Store hands to
// NewCDCStreamer). In the engine the answer comes from the harness' table definitions the way the
// real one was observed to answer (replay_test.go TestVerifC27Calibrate; recorded defect
// "C27-column-names-of-previous-definition"): (*DB).ColumnNames takes the names from a statement
// prepared on a read connection, and that connection only notices that the write connection changed
// a definition when it runs the statement - after the names were taken. So the answer describes the
// definitions as they were when the database was asked the previous time (for any table).
// Both worlds record every answer next to the truth, for the oracle.
type verifC27LiveNames struct {
	d     *DB
	seen  [3][]string // the model: the definitions the read connection has loaded
	asked bool
	prev  [3][]string // the definitions when the database was asked the previous time
	calls []verifC27NamesCall
}

// native runs: how often the real database answered differently from the engine's model of it
var verifC27ModelOff int

// verifC27ReadConnectionLags selects the engine's model of (*DB).ColumnNames: true = as observed on
// the unrepaired code (the answer lags one question behind, see above); false = the answer is the
// truth. Set it to false when (*DB).ColumnNames is repaired (the recorded defect then cannot be
// reached any more, and TestVerifC27Calibrate tells if the model and the real database disagree).
const verifC27ReadConnectionLags = false

type verifC27NamesCall struct {
	table  int
	got    []string // the answer
	truth  []string // the table's columns at that moment
	before []string // the table's columns when the database was asked the previous time (nil: never)
}

func verifC27SameNames(a, b []string) bool {
	if len(a) != len(b) {
		return false
	}
	for i := range a {
		if a[i] != b[i] {
			return false
		}
	}
	return true
}

func (p *verifC27LiveNames) ColumnNames(table string) ([]string, error) {
	t := -1
	for i, name := range verifC27Tables {
		if name == table {
			t = i
		}
	}
	if t < 0 {
		return nil, errors.New("no such table: " + table)
	}
	var got []string
	var err error
	if !p.asked || !verifC27ReadConnectionLags {
		p.seen = verifC27World.cols // its first statement: the definitions are loaded
	}
	model := append([]string{}, p.seen[t]...)
	p.seen = verifC27World.cols
	if !verifSymbolic() {
		got, err = p.d.ColumnNames(table)
		if err != nil || !verifC27SameNames(got, model) {
			verifC27ModelOff++ // the real database answered differently from the model (TestVerifC27Calibrate)
		}
	} else {
		got = model
	}
	call := verifC27NamesCall{table: t, got: got, truth: verifC27World.cols[t]}
	if err != nil {
		call.got = nil
	}
	if p.asked {
		call.before = p.prev[t]
	}
	p.calls = append(p.calls, call)
	p.asked, p.prev = true, verifC27World.cols
	return got, err
}

// staleOnly: at least one answer was not the truth, and every answer that was not the truth was
// the table's definition as of the previous time the database was asked.
func (p *verifC27LiveNames) staleOnly() bool {
	stale := false
	for _, c := range p.calls {
		if c.got != nil && verifC27SameNames(c.got, c.truth) {
			continue
		}
		if c.got == nil || c.before == nil || !verifC27SameNames(c.got, c.before) {
			return false
		}
		stale = true
	}
	return stale
}

// verifC27Answered notes at every event of the groups what the database answered for its table
// when the group was committed (the database is asked once per table and group, in the order the
// tables appear in the group); false = the answers do not line up with the groups that way.
func verifC27Answered(groups [][]*verifC27Ev, calls []verifC27NamesCall) bool {
	k := 0
	for _, grp := range groups {
		var have [3]bool
		var names [3][]string
		for _, ev := range grp {
			if !have[ev.table] {
				if k >= len(calls) || calls[k].table != ev.table || calls[k].got == nil {
					return false
				}
				names[ev.table], have[ev.table] = calls[k].got, true
				k++
			}
			ev.answered = names[ev.table]
		}
	}
	return k == len(calls)
}

// verifC27WantGroups: keepRolledBack=false is the property; true describes the recorded defect
// (events of a rolled-back transaction stay pending and travel with the next commit - which may be
// the commit of a statement that changes a table definition).
func verifC27WantGroups(txs []verifC27TxShape, filter int, keepRolledBack bool) [][]*verifC27Ev {
	var groups [][]*verifC27Ev
	var pend []*verifC27Ev
	for _, tx := range txs {
		if tx.ddl.kind != vdNone && len(pend) > 0 {
			groups = append(groups, pend)
			pend = nil
		}
		for _, ev := range tx.evs {
			if verifC27Verdict[filter][ev.table] && (tx.end != vtRollback || keepRolledBack) {
				pend = append(pend, ev)
			}
			if tx.end == vtAuto && len(pend) > 0 {
				groups = append(groups, pend) // every statement is a transaction of its own
				pend = nil
			}
		}
		if tx.end == vtCommit && len(tx.evs) > 0 && len(pend) > 0 {
			groups = append(groups, pend)
			pend = nil
		}
	}
	return groups
}

func verifC27GroupsAre(want [][]*verifC27Ev, got []*command.CDCIndexedEventGroup, idsOnly bool, answered bool) string {
	if len(got) != len(want) {
		return "group-count"
	}
	for k := range want {
		if got[k] == nil || len(got[k].Events) != len(want[k]) {
			return "group-size"
		}
		for i := range want[k] {
			if mis := verifC27EvIs(want[k][i], got[k].Events[i], idsOnly, answered); mis != "" {
				return mis
			}
		}
	}
	return ""
}

// the changes of a table definition VerifC27Chain chooses from (quick: the first three)
var verifC27ChainDDL = []verifC27DDLStep{
	{vdNone, 0}, {vdAddColumn, 0}, {vdDropFirst, 0}, {vdAddColumn, 1},
	{vdDropLast, 0}, {vdDropFirst, 1}, {vdDropLast, 1},
}

func VerifC27Chain() {
	verifPanicsAreViolations()
	thorough := verifTier() == 1
	ntx := 2
	if thorough {
		ntx = 3
	}
	filter := verifChoice("filter", 2) // none | ^foo$
	idsOnly := false
	txs := make([]verifC27TxShape, ntx)
	var plan verifC27Defs
	plan.init(2)
	first := append([]string{}, plan.cols[0]...) // the two columns every table starts with
	var changed [3]bool                          // has the table reported a change (let through by the filter) so far?
	g := 0
	for t := range txs {
		p := verifName("tx", t)
		// table definitions only change in the runs without a filter; quick: one of the first three steps;
		// thorough: before the second transaction any of the seven, before the third one of the first three
		if t > 0 && filter == 0 {
			nd := 3
			if thorough {
				nd = len(verifC27ChainDDL)
				if t > 1 {
					nd = 3
				}
			}
			txs[t].ddl = verifC27ChainDDL[verifChoice(p+".ddl", nd)]
			if !plan.apply(txs[t].ddl.table, txs[t].ddl.kind) {
				return // SQLite refuses to take a table's only column away: no such program
			}
		}
		txs[t].end = verifChoice(p+".end", 3)
		ne := verifChoice(p+".changes", 3)
		for i := 0; i < ne; i++ {
			q := verifName(p+".e", i)
			// row ids are concrete and pairwise distinct (the rows must be in place before the first
			// BEGIN of the native run), the columns hold concrete, pairwise distinct values of mixed
			// kinds; the first change of a transaction is on foo, the second on bar
			ev := &verifC27Ev{table: i}
			if i == 0 || ntx == 2 {
				ev.op = verifChoice(q+".op", 3)
			} else {
				ev.op = (txs[t].evs[0].op + 1 + t) % 3 // thorough: the second change's operation is derived
			}
			cols := plan.cols[ev.table]
			ev.names = append([]string{}, cols...)
			tag := string(rune('a' + g))
			id := int64(10 + 4*g)
			if ev.op != voInsert {
				ev.oldID = id
				// the row as stored under the first definition, and as it reads now
				ev.seed = []verifC27Cell{{kind: vkInt, i: int64(1000 + g)}, {kind: vkText, s: "s" + tag}}
				ev.old = make([]verifC27Cell, len(cols))
				kept := 0
				for j, name := range cols {
					for k := range first {
						if name == first[k] {
							ev.old[j] = ev.seed[k]
							kept++
						}
					}
				}
				if kept < len(cols) {
					verifReach("row-older-than-one-of-its-columns")
				}
				if kept < len(first) {
					verifReach("row-lost-a-column")
				}
			}
			if ev.op != voDelete {
				ev.newID = id + int64(g%2) // every other update moves the row to a new id
				ev.new = make([]verifC27Cell, len(cols))
				for j := range cols {
					switch (g + j) % 4 {
					case 0:
						ev.new[j] = verifC27Cell{kind: vkInt, i: int64(2000 + 10*g + j)}
					case 1:
						ev.new[j] = verifC27Cell{kind: vkText, s: "n" + tag + string(rune('0'+j))}
					case 2:
						ev.new[j] = verifC27Cell{kind: vkNil}
					case 3:
						ev.new[j] = verifC27Cell{kind: vkBlob, b: []byte{byte(g), byte(j)}}
					}
				}
			}
			if verifC27Verdict[filter][ev.table] && txs[t].end != vtRollback {
				if changed[ev.table] && len(cols) != len(first) {
					verifReach("same-table-reported-under-two-definitions")
				}
				changed[ev.table] = true
			}
			txs[t].evs = append(txs[t].evs, ev)
			g++
		}
	}

	ch := make(chan *command.CDCIndexedEventGroup, 8)
	d := verifC27Open(2)
	names := &verifC27LiveNames{d: d}
	s, err := NewCDCStreamer(ch, names)
	if err != nil {
		panic(err)
	}
	for _, tx := range txs {
		for _, ev := range tx.evs {
			verifC27Setup(d, ev, false)
		}
	}
	if err := d.RegisterPreUpdateHook(s.PreupdateHook, verifC27Regexp(filter), idsOnly); err != nil {
		panic(err)
	}
	if err := d.RegisterCommitHook(s.CommitHook); err != nil {
		panic(err)
	}
	s.Reset(1)
	vetoed := false
	for _, tx := range txs {
		if !verifC27DDL(d, tx.ddl.table, tx.ddl.kind) {
			vetoed = true
		}
		if tx.end != vtAuto && !verifC27Tx(d, "BEGIN", false) {
			panic("BEGIN failed")
		}
		for _, ev := range tx.evs {
			if !verifC27Fire(d, ev) {
				if tx.end != vtAuto {
					panic("change failed")
				}
				vetoed = true
			}
			if tx.end == vtAuto && !verifC27Tx(d, "AUTOCOMMIT", true) {
				vetoed = true
			}
		}
		if tx.end == vtCommit && !verifC27Tx(d, "COMMIT", len(tx.evs) > 0) {
			vetoed = true
		}
		if tx.end == vtRollback && !verifC27Tx(d, "ROLLBACK", false) {
			panic("ROLLBACK failed")
		}
	}
	verifC27Close(d)
	got := verifC27Drain(ch)

	mis := ""
	if vetoed {
		mis = "commit-not-vetoed"
	}
	want := verifC27WantGroups(txs, filter, false)
	if mis == "" {
		mis = verifC27GroupsAre(want, got, idsOnly, false)
	}
	if mis != "" && !vetoed {
		// Recorded defect: nothing tells the streamer that a transaction was rolled back, so the
		// events of its rows stay pending and are handed out with the next commit. Class: some
		// rolled-back transaction changed a row the filter lets through, and what is observed is
		// exactly "those events stayed pending".
		rolled := false
		for _, tx := range txs {
			for _, ev := range tx.evs {
				if tx.end == vtRollback && verifC27Verdict[filter][ev.table] {
					rolled = true
				}
			}
		}
		if rolled && verifC27GroupsAre(verifC27WantGroups(txs, filter, true), got, idsOnly, false) == "" {
			verifFinding("C27-rolled-back-changes-reported")
		}
		// Second recorded defect: (*DB).ColumnNames answers with the definition of the table as of
		// the previous time it was asked, so the first group committed after ALTER TABLE carries
		// the column names of the previous definition. Class: some answer of the database was not
		// the truth, every such answer was the definition as of the previous question, and what is
		// observed is exactly "the events carry the names the database answered" - everything else
		// as the property demands (or, when a transaction that changed a row the filter lets
		// through was rolled back, as the first recorded defect describes).
		if names.staleOnly() {
			for _, keep := range []bool{false, true} {
				if keep && !rolled {
					continue
				}
				w := verifC27WantGroups(txs, filter, keep)
				if verifC27Answered(w, names.calls) && verifC27GroupsAre(w, got, idsOnly, true) == "" {
					verifFinding("C27-column-names-of-previous-definition")
				}
			}
		}
	}
	verifC27AssertAll(mis)

	if len(want) >= 2 {
		verifReach("two-groups")
	}
	for t, tx := range txs {
		if tx.end == vtCommit && len(tx.evs) == 2 && filter == 0 {
			verifReach("group-of-two")
		}
		if tx.end == vtAuto && len(tx.evs) == 2 && filter == 0 {
			verifReach("autocommit-one-group-per-statement")
		}
		if tx.end == vtRollback && len(tx.evs) > 0 && t == ntx-1 {
			verifReach("last-transaction-rolled-back")
		}
		if tx.end == vtCommit && len(tx.evs) == 2 && filter == 1 {
			verifReach("group-without-filtered-table")
		}
	}
}

// Twin: same machinery as VerifC27Hook, claims that no event is ever delivered. Must be violated.
func VerifC27Twin() {
	ev := &verifC27Ev{op: verifChoice("e0.op", 3)}
	if ev.op != voInsert {
		ev.oldID = verifI64("e0.oldID")
		ev.old = verifC27Cells("e0.old", 1, []int{vvInt})
	}
	if ev.op != voDelete {
		ev.newID = verifI64("e0.newID")
		ev.new = verifC27Cells("e0.new", 1, []int{vvInt})
	}
	rec := &verifC27Rec{}
	d := verifC27Open(1)
	if err := d.RegisterPreUpdateHook(rec.hook, nil, false); err != nil {
		panic(err)
	}
	verifC27Setup(d, ev, true)
	verifC27Fire(d, ev)
	verifC27Close(d)
	verifAssert("twin-no-event-is-ever-delivered", len(rec.evs) == 0)
}
