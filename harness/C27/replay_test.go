package db

import (
	"database/sql"
	"encoding/json"
	"fmt"
	"math/rand"
	"os"
	"path/filepath"
	"strings"
	"testing"
)

// Native side of C27: a real on-disk db.DB (WAL mode) with three tables foo, bar, foobar of nc
// columns c00.. without a declared type (no affinity: SQLite keeps integer, real, text, blob and
// NULL exactly as bound). A harness "change" is one SQL statement with bound values on the single
// read-write connection of the db.DB, so SQLite itself calls the callbacks that
// RegisterPreUpdateHook / RegisterCommitHook registered. Rows an UPDATE / DELETE needs are put in
// place through a SECOND connection: no hook of the connection under test sees them.
// A change of a table definition is the real ALTER TABLE .. ADD COLUMN / DROP COLUMN or DROP TABLE +
// CREATE TABLE, also on the read-write connection; the SQL of later changes names the columns the
// table then has (verifC27World).

type verifC27Real struct {
	dir  string
	side *sql.DB
}

var verifC27Reals = map[*DB]*verifC27Real{}

func init() {
	verifC27OpenNative = verifC27OpenReal
	verifC27SetupNative = verifC27SetupReal
	verifC27FireNative = verifC27FireReal
	verifC27DDLNative = verifC27DDLReal
	verifC27TxNative = func(d *DB, what string) bool {
		_, err := d.rwDB.Exec(what)
		return err == nil
	}
	verifC27CloseNative = func(d *DB) {
		r := verifC27Reals[d]
		r.side.Close()
		d.Close()
		os.RemoveAll(r.dir)
		delete(verifC27Reals, d)
	}
}

// the table's columns as the harness has defined them (verifC27World)
func verifC27ColList(table int) string {
	return strings.Join(verifC27World.cols[table], ",")
}

func verifC27OpenReal(nc int) *DB {
	dir, err := os.MkdirTemp("", "verif-c27-")
	if err != nil {
		panic(err)
	}
	d, err := Open(filepath.Join(dir, "scratch.db"), false, true)
	if err != nil {
		panic(err)
	}
	for t, name := range verifC27Tables {
		if _, err := d.rwDB.Exec(`CREATE TABLE "` + name + `" (` + verifC27ColList(t) + `)`); err != nil {
			panic(err)
		}
	}
	side, err := sql.Open(d.drv.name, d.rwDSN)
	if err != nil {
		panic(err)
	}
	side.SetMaxOpenConns(1)
	verifC27Reals[d] = &verifC27Real{dir: dir, side: side}
	return d
}

// verifC27DDLReal: the real statements, on the write connection of the db.DB (where rqlite runs
// every write). false = SQLite did not carry a statement out (the commit hook refused the commit).
func verifC27DDLReal(d *DB, table, kind int) bool {
	name := verifC27Tables[table]
	cols := verifC27World.cols[table]
	after := verifC27World
	if !after.apply(table, kind) {
		panic("verif C27: impossible change of a table definition")
	}
	var stmts []string
	switch kind {
	case vdAddColumn:
		stmts = []string{`ALTER TABLE "` + name + `" ADD COLUMN ` + after.cols[table][len(cols)]}
	case vdDropFirst:
		stmts = []string{`ALTER TABLE "` + name + `" DROP COLUMN ` + cols[0]}
	case vdDropLast:
		stmts = []string{`ALTER TABLE "` + name + `" DROP COLUMN ` + cols[len(cols)-1]}
	case vdRecreateWider, vdRecreateNarrower:
		stmts = []string{`DROP TABLE "` + name + `"`, `CREATE TABLE "` + name + `" (` + strings.Join(after.cols[table], ",") + `)`}
	}
	ok := true
	for _, q := range stmts {
		if _, err := d.rwDB.Exec(q); err != nil {
			if !strings.Contains(err.Error(), "constraint failed") {
				panic("verif C27: " + q + ": " + err.Error())
			}
			ok = false
		}
	}
	return ok
}

func verifC27Args(first []any, cells []verifC27Cell, last ...any) []any {
	out := append([]any{}, first...)
	for _, c := range cells {
		out = append(out, c.value())
	}
	return append(out, last...)
}

func verifC27Marks(n int) string {
	return strings.TrimSuffix(strings.Repeat("?,", n), ",")
}

func verifC27SetupReal(d *DB, ev *verifC27Ev, wipe bool) {
	r := verifC27Reals[d]
	t := verifC27Tables[ev.table]
	if wipe {
		if _, err := r.side.Exec(`DELETE FROM "` + t + `"`); err != nil {
			panic(err)
		}
	}
	if ev.op == voInsert {
		return
	}
	cells := ev.old
	if ev.seed != nil {
		cells = ev.seed
	}
	nc := len(verifC27World.cols[ev.table])
	if len(cells) != nc {
		panic("verif C27: row width differs from the table's")
	}
	q := `INSERT INTO "` + t + `"(rowid,` + verifC27ColList(ev.table) + `) VALUES(` + verifC27Marks(nc+1) + `)`
	if _, err := r.side.Exec(q, verifC27Args([]any{ev.oldID}, cells)...); err != nil {
		panic(err)
	}
}

func verifC27FireReal(d *DB, ev *verifC27Ev) bool {
	t := verifC27Tables[ev.table]
	cols := verifC27World.cols[ev.table]
	var res sql.Result
	var err error
	switch ev.op {
	case voInsert:
		if len(ev.new) != len(cols) {
			panic("verif C27: row width differs from the table's")
		}
		q := `INSERT INTO "` + t + `"(rowid,` + verifC27ColList(ev.table) + `) VALUES(` + verifC27Marks(len(cols)+1) + `)`
		res, err = d.rwDB.Exec(q, verifC27Args([]any{ev.newID}, ev.new)...)
	case voUpdate:
		if len(ev.new) != len(cols) {
			panic("verif C27: row width differs from the table's")
		}
		sets := []string{"rowid=?"}
		for _, c := range cols {
			sets = append(sets, c+"=?")
		}
		q := `UPDATE "` + t + `" SET ` + strings.Join(sets, ",") + ` WHERE rowid=?`
		res, err = d.rwDB.Exec(q, verifC27Args([]any{ev.newID}, ev.new, ev.oldID)...)
	case voDelete:
		res, err = d.rwDB.Exec(`DELETE FROM "`+t+`" WHERE rowid=?`, ev.oldID)
	}
	if err != nil {
		return false
	}
	if n, _ := res.RowsAffected(); n != 1 {
		panic(fmt.Sprintf("verif C27: statement changed %d rows", n))
	}
	return true
}

// ---------------------------------------------------------------------------------------------
// Calibration of the model world against SQLite (VERIF_C27_CAL=<runs>): the entries are run
// natively on random nondeterministic choices (the same oracle, the real database); no run may end
// in a violation or a panic. This is what justifies "SQLite calls the callback once per changed
// row with these arguments" for the statements used by the native world.
func TestVerifC27Calibrate(t *testing.T) {
	runs := 0
	fmt.Sscan(os.Getenv("VERIF_C27_CAL"), &runs)
	if runs == 0 {
		t.Skip()
	}
	rng := rand.New(rand.NewSource(27))
	dir := t.TempDir()
	entries := map[string]func(){"VerifC27Hook": VerifC27Hook, "VerifC27Chain": VerifC27Chain, "VerifC27Stream": VerifC27Stream, "VerifC27Normalize": VerifC27Normalize}
	interesting := []int64{0, 1, -1, 2, 1 << 62, -1 << 63, 1<<63 - 1, 255, 256}
	bad := 0
	counts := map[string]int{}
	for run := 0; run < runs; run++ {
		for _, tier := range []string{"quick", "thorough"} {
			os.Setenv("VERIF_TIER", tier)
			for name, f := range entries {
				vals := map[string]any{}
				ch := func(k string, n int) { vals[k] = rng.Intn(n) }
				num := func(k string) {
					if rng.Intn(2) == 0 {
						vals[k] = interesting[rng.Intn(len(interesting))]
					} else {
						vals[k] = int64(rng.Uint64())
					}
				}
				ch("band", 3)
				ch("idsOnly", 2)
				ch("columns", 3)
				if name == "VerifC27Normalize" {
					ch("columns", 4)
				}
				ch("independent", 2)
				ch("filter", 4)
				if name == "VerifC27Chain" {
					ch("filter", 2)
				}
				ch("rot", vvAllVariants)
				ch("barHasNoColumns", 2)
				for i := 0; i < 6; i++ {
					ch(fmt.Sprintf("step%d", i), 4)
					num(fmt.Sprintf("index%d", i))
					ch(fmt.Sprintf("var%d", i), vvAllVariants)
					ch(fmt.Sprintf("time%d", i), len(verifC27Times))
					num(fmt.Sprintf("c%d.i", i))
					ch(fmt.Sprintf("c%d.bool", i), 2)
					for b := 0; b < 2; b++ {
						ch(fmt.Sprintf("c%d.s[%d]", i, b), 256)
						ch(fmt.Sprintf("c%d.b[%d]", i, b), 256)
					}
				}
				var prefixes []string
				for i := 0; i < 3; i++ {
					prefixes = append(prefixes, fmt.Sprintf("e%d", i))
					ch(fmt.Sprintf("tx%d.end", i), 3)
					switch {
					case tier == "quick":
						ch(fmt.Sprintf("tx%d.ddl", i), 3)
					case i == 1:
						ch(fmt.Sprintf("tx%d.ddl", i), len(verifC27ChainDDL))
					default:
						ch(fmt.Sprintf("tx%d.ddl", i), 3)
					}
					ch(fmt.Sprintf("tx%d.changes", i), 3)
					for j := 0; j < 2; j++ {
						prefixes = append(prefixes, fmt.Sprintf("tx%d.e%d", i, j))
					}
				}
				for _, p := range prefixes {
					ch(p+".op", 3)
					ch(p+".table", 3)
					ch(p+".fooOrBar", 2)
					ch(p+".ddl", vdKinds)
					ch(p+".ddlTable", 2)
					num(p + ".oldID")
					num(p + ".newID")
					for _, side := range []string{".old", ".new"} {
						ch(p+side+".rot", vvDriverVariants)
						for j := 0; j < 5; j++ {
							ch(fmt.Sprintf("%s%s.var%d", p, side, j), vvDriverVariants)
							num(fmt.Sprintf("%s%s%d.i", p, side, j))
							for b := 0; b < 2; b++ {
								ch(fmt.Sprintf("%s%s%d.s[%d]", p, side, j, b), 256)
								ch(fmt.Sprintf("%s%s%d.b[%d]", p, side, j, b), 256)
							}
						}
					}
				}
				doc, _ := json.Marshal(map[string]any{"values": vals})
				file := filepath.Join(dir, "vals.json")
				if err := os.WriteFile(file, doc, 0o644); err != nil {
					t.Fatal(err)
				}
				os.Setenv("VERIF_REPLAY", file)
				out := verifRun(name, f)
				counts[name]++
				if len(out) == 0 {
					continue
				}
				// the recorded defects are the only accepted outcomes
				if len(out) == 1 && out[0] == "finding C27-rolled-back-changes-reported" {
					counts["finding"]++
					continue
				}
				if len(out) == 1 && out[0] == "finding C27-column-names-of-previous-definition" {
					counts["finding-names"]++
					continue
				}
				bad++
				if bad < 10 {
					t.Errorf("%s (%s): %v\n  values: %s", name, tier, out, doc)
				}
			}
		}
	}
	os.Unsetenv("VERIF_REPLAY")
	if verifC27ModelOff > 0 {
		t.Errorf("(*DB).ColumnNames answered differently from its model %d times", verifC27ModelOff)
	}
	fmt.Printf("CAL runs=%v disagreements=%d column-name answers unlike the model=%d\n", counts, bad, verifC27ModelOff)
}
