package cluster

// C20 (second half): the inter-node client that carries a forwarded request to the leader and
// brings the leader's answer back.
//
// Code under test, run from its real source: (*Client).Execute/Query/Request/Load/Backup/
// RemoveNode/Stepdown, the other users of the same connection pool (GetNodeMeta, GetCommitIndex,
// Notify, Join, BroadcastHWM), (*Client).retry, dial, dialWithOption, writeCommand, readResponse,
// writeCommandReadResponse, handleConnError, and the real tcp/pool (channelPool, pool.Conn).
//
// The client is given a model Dialer. Every connection it dials is a harness object (verifConn)
// that records what the client writes, parses the frames (8 byte little-endian length + encoded
// proto.Command) and plays the leader: for every complete request frame it produces an answer
// with fresh symbolic content and delivers it as chosen with verifChoice - at once, only after
// the client's read has timed out (a late reply: it is then sitting in the connection), half
// of it in time and the rest late, or never (connection reset). Writes may time out before or in
// the middle of a frame. Dials may fail.
//
// Oracle, from the property statement and the documentation of Client/NewClient/pool.Conn:
//   * every frame written during a call decodes to a Command of the right type that carries the
//     caller's request and the caller's credentials unchanged, goes to the node named by the caller,
//     is the only frame of this call on its connection, and is never written to a connection that
//     had a failed/timed-out operation or still holds bytes of an earlier exchange;
//   * the number of attempts is bounded (retries + the one last-ditch attempt on a new connection;
//     exactly one for the operations that are documented as not retried) and no attempt follows
//     an attempt that was answered;
//   * the call succeeds exactly when its last attempt was answered in time without an error string,
//     and then returns THAT attempt's results, index and sequence number unchanged; an error string
//     in the answer ("unauthorized", ...) comes back as an error with that text; every transport
//     failure comes back as an error;
//   * after the call every connection on which an operation failed has really been closed, and no
//     open connection holds unread bytes (this is the invariant that makes the first point hold
//     for the NEXT call whatever it is: VerifC20bStep starts from any pool content allowed by it).
//
//   * a backup: the leader streams ONE gzip member after its OK answer (and keeps the connection
//     open, or closes it); the caller's writer receives exactly that member when Compress=true
//     and exactly the decoded image when Compress=false; a stream that is cut, stalls or is not
//     gzip is an error, and its connection is not reused.
//
// Natively (replay of counterexamples) the real google.golang.org/protobuf and compress/gzip run;
// in the engine pb.Marshal/pb.Unmarshal and the gzip reader are replaced by the codec models at
// the bottom of this file.

import (
	"bytes"
	"compress/gzip"
	"context"
	"encoding/binary"
	"errors"
	"io"
	"net"
	"os"
	"time"

	"github.com/rqlite/rqlite/v10/cluster/proto"
	command "github.com/rqlite/rqlite/v10/command/proto"
	pb "google.golang.org/protobuf/proto"
)

// ---------------------------------------------------------------------------
// kinds of calls

const (
	verifKExecute = iota
	verifKQuery
	verifKRequest
	verifKLoad
	verifKBackup
	verifKRemove
	verifKStepdown
	verifKForwarded // number of forwarded kinds

	// other users of the same pool
	verifKNodeMeta = iota - 1
	verifKCommitIndex
	verifKNotify
	verifKJoin
	verifKHWM
	verifKAll
)

func verifRetried(kind int) bool {
	switch kind {
	case verifKExecute, verifKQuery, verifKRequest, verifKLoad, verifKNodeMeta, verifKCommitIndex, verifKHWM:
		return true
	}
	return false
}

func verifWireType(kind int) proto.Command_Type {
	switch kind {
	case verifKExecute:
		return proto.Command_COMMAND_TYPE_EXECUTE
	case verifKQuery:
		return proto.Command_COMMAND_TYPE_QUERY
	case verifKRequest:
		return proto.Command_COMMAND_TYPE_REQUEST
	case verifKLoad:
		return proto.Command_COMMAND_TYPE_LOAD
	case verifKBackup:
		return proto.Command_COMMAND_TYPE_BACKUP_STREAM
	case verifKRemove:
		return proto.Command_COMMAND_TYPE_REMOVE_NODE
	case verifKStepdown:
		return proto.Command_COMMAND_TYPE_STEPDOWN
	case verifKNodeMeta, verifKCommitIndex:
		return proto.Command_COMMAND_TYPE_GET_NODE_META
	case verifKNotify:
		return proto.Command_COMMAND_TYPE_NOTIFY
	case verifKJoin:
		return proto.Command_COMMAND_TYPE_JOIN
	}
	return proto.Command_COMMAND_TYPE_HIGHWATER_MARK_UPDATE
}

// ---------------------------------------------------------------------------
// context, sink

type verifCtx struct {
	okChecks int // Err() answers nil this many times, then err
	checks   int
	err      error
}

func (c *verifCtx) Deadline() (time.Time, bool) { return time.Time{}, false }
func (c *verifCtx) Done() <-chan struct{}       { return nil }
func (c *verifCtx) Value(any) any               { return nil }
func (c *verifCtx) Err() error {
	c.checks++
	if c.checks > c.okChecks {
		return c.err
	}
	return nil
}

var _ context.Context = (*verifCtx)(nil)

var verifErrCtx = errors.New("verif: context cancelled")

type verifSink struct{ b []byte }

func (s *verifSink) Write(p []byte) (int, error) {
	s.b = append(s.b, p...)
	return len(p), nil
}

// ---------------------------------------------------------------------------
// text: solver strings become valid UTF-8 of the same length natively (proto3 strings)

func verifText(s string, salt int) string {
	if verifSymbolic() {
		return s
	}
	out := make([]byte, len(s))
	x := uint32(2463534242) + uint32(salt)*7919
	for i := range out {
		x ^= x << 13
		x ^= x >> 17
		x ^= x << 5
		out[i] = byte(0x21 + x%90)
	}
	return string(out)
}

// ---------------------------------------------------------------------------
// request content (the oracle's own copy is the value struct; messages are built from it)

type verifReqVals struct {
	tx, timings, fq, strict, flagA, flagB, flagC bool
	dbTimeout, fresh, linTimeout                 int64
	level                                        int32
	sql, id                                      string
	data                                         []byte
	hasCreds                                     bool
	user, pass                                   string
}

// verifFixedText: texts are fixed and distinct per call instead of solver strings (VerifC20bSeq).
var verifFixedText bool

// credsMode: 0 = nil or present (choice), 1 = present
func verifNewReqVals(call int, credsMode int) *verifReqVals {
	p := verifName("c", call)
	v := &verifReqVals{
		tx:         verifBool(p + ".tx"),
		timings:    verifBool(p + ".timings"),
		fq:         verifBool(p + ".forceQuery"),
		strict:     verifBool(p + ".strict"),
		flagA:      verifBool(p + ".flagA"),
		flagB:      verifBool(p + ".flagB"),
		flagC:      verifBool(p + ".flagC"),
		dbTimeout:  verifI64(p + ".dbTimeout"),
		fresh:      verifI64(p + ".freshness"),
		linTimeout: verifI64(p + ".linTimeout"),
		level:      int32(verifInt(p+".level", 0, 4)),
		data:       verifBytes(p+".data", 2),
	}
	if verifFixedText {
		v.sql, v.id = verifName("SELECT ", call), verifName("node-", call)
	} else {
		v.sql = verifText(verifString(p+".sql", 4), 10*call+1)
		v.id = verifText(verifString(p+".id", 3), 10*call+2)
	}
	if credsMode == 1 || verifChoice(p+".creds", 2) == 1 {
		v.hasCreds = true
		if verifFixedText {
			v.user, v.pass = verifName("user-", call), verifName("secret-", call)
		} else {
			v.user = verifText(verifString(p+".user", 3), 10*call+3)
			v.pass = verifText(verifString(p+".pass", 3), 10*call+4)
		}
	}
	return v
}

func (v *verifReqVals) request() *command.Request {
	return &command.Request{
		Transaction: v.tx,
		DbTimeout:   v.dbTimeout,
		Statements:  []*command.Statement{{Sql: v.sql, ForceQuery: v.fq}},
	}
}

func (v *verifReqVals) creds() *proto.Credentials {
	if !v.hasCreds {
		return nil
	}
	return &proto.Credentials{Username: v.user, Password: v.pass}
}

func (v *verifReqVals) execute() *command.ExecuteRequest {
	return &command.ExecuteRequest{Request: v.request(), Timings: v.timings}
}
func (v *verifReqVals) query() *command.QueryRequest {
	return &command.QueryRequest{Request: v.request(), Timings: v.timings, Level: command.ConsistencyLevel(v.level),
		Freshness: v.fresh, FreshnessStrict: v.strict, LinearizableTimeout: v.linTimeout}
}
func (v *verifReqVals) eqr() *command.ExecuteQueryRequest {
	return &command.ExecuteQueryRequest{Request: v.request(), Timings: v.timings, Level: command.ConsistencyLevel(v.level),
		Freshness: v.fresh, FreshnessStrict: v.strict, LinearizableTimeout: v.linTimeout}
}
func (v *verifReqVals) load() *command.LoadRequest {
	return &command.LoadRequest{Data: append([]byte{}, v.data...)}
}
func (v *verifReqVals) backup(compress bool) *command.BackupRequest {
	f := command.BackupRequest_BACKUP_REQUEST_FORMAT_BINARY
	if v.flagC {
		f = command.BackupRequest_BACKUP_REQUEST_FORMAT_SQL
	}
	return &command.BackupRequest{Format: f, Leader: v.flagA, Vacuum: v.flagB, Compress: compress}
}
func (v *verifReqVals) remove() *command.RemoveNodeRequest {
	return &command.RemoveNodeRequest{Id: v.id}
}
func (v *verifReqVals) stepdown() *command.StepdownRequest {
	return &command.StepdownRequest{Id: v.id, Wait: v.flagA}
}
func (v *verifReqVals) notify() *command.NotifyRequest {
	return &command.NotifyRequest{Id: v.id, Address: v.sql}
}
func (v *verifReqVals) join() *command.JoinRequest {
	return &command.JoinRequest{Id: v.id, Address: v.sql, Voter: v.flagA}
}

func verifReqMatches(r *command.Request, v *verifReqVals) bool {
	if r == nil || len(r.Statements) != 1 || r.Statements[0] == nil {
		return false
	}
	s := r.Statements[0]
	if len(s.Parameters) != 0 {
		return false
	}
	same := verifAnd(r.Transaction == v.tx, r.DbTimeout == v.dbTimeout)
	same = verifAnd(same, !r.RollbackOnError)
	same = verifAnd(same, !r.QualifyColumns)
	same = verifAnd(same, s.Sql == v.sql)
	same = verifAnd(same, s.ForceQuery == v.fq)
	same = verifAnd(same, !s.ForceStall)
	return verifAnd(same, !s.SqlExplain)
}

func verifBytesMatch(a, b []byte) bool {
	if len(a) != len(b) {
		return false
	}
	same := true
	for i := range a {
		same = verifAnd(same, a[i] == b[i])
	}
	return same
}

func verifExecuteMatches(m *command.ExecuteRequest, v *verifReqVals) bool {
	if m == nil {
		return false
	}
	return verifAnd(verifReqMatches(m.Request, v), m.Timings == v.timings)
}
func verifQueryMatches(m *command.QueryRequest, v *verifReqVals) bool {
	if m == nil {
		return false
	}
	same := verifAnd(verifReqMatches(m.Request, v), m.Timings == v.timings)
	same = verifAnd(same, int32(m.Level) == v.level)
	same = verifAnd(same, m.Freshness == v.fresh)
	same = verifAnd(same, m.FreshnessStrict == v.strict)
	return verifAnd(same, m.LinearizableTimeout == v.linTimeout)
}
func verifEQRMatches(m *command.ExecuteQueryRequest, v *verifReqVals) bool {
	if m == nil {
		return false
	}
	same := verifAnd(verifReqMatches(m.Request, v), m.Timings == v.timings)
	same = verifAnd(same, int32(m.Level) == v.level)
	same = verifAnd(same, m.Freshness == v.fresh)
	same = verifAnd(same, m.FreshnessStrict == v.strict)
	return verifAnd(same, m.LinearizableTimeout == v.linTimeout)
}
func verifBackupMatches(m *command.BackupRequest, v *verifReqVals, compress bool) bool {
	if m == nil || len(m.Tables) != 0 {
		return false
	}
	same := verifAnd(m.Leader == v.flagA, m.Vacuum == v.flagB)
	same = verifAnd(same, m.Compress == compress)
	return verifAnd(same, (m.Format == command.BackupRequest_BACKUP_REQUEST_FORMAT_SQL) == v.flagC)
}

// verifCmdMatches: the Command the leader decoded carries exactly the caller's request.
func verifCmdMatches(c *proto.Command, k *verifCall) bool {
	v := k.rv
	switch k.kind {
	case verifKExecute:
		return verifExecuteMatches(c.GetExecuteRequest(), v)
	case verifKQuery:
		return verifQueryMatches(c.GetQueryRequest(), v)
	case verifKRequest:
		return verifEQRMatches(c.GetExecuteQueryRequest(), v)
	case verifKLoad:
		m := c.GetLoadRequest()
		return m != nil && verifBytesMatch(m.Data, v.data)
	case verifKBackup:
		return verifBackupMatches(c.GetBackupRequest(), v, k.compress)
	case verifKRemove:
		m := c.GetRemoveNodeRequest()
		return m != nil && m.Id == v.id
	case verifKStepdown:
		m := c.GetStepdownRequest()
		return m != nil && verifAnd(m.Id == v.id, m.Wait == v.flagA)
	case verifKNodeMeta, verifKCommitIndex:
		return c.Request == nil
	case verifKNotify:
		m := c.GetNotifyRequest()
		return m != nil && verifAnd(m.Id == v.id, m.Address == v.sql)
	case verifKJoin:
		m := c.GetJoinRequest()
		return m != nil && verifAnd(verifAnd(m.Id == v.id, m.Address == v.sql), m.Voter == v.flagA)
	case verifKHWM:
		m := c.GetHighwaterMarkUpdateRequest()
		return m != nil && verifAnd(m.HighwaterMark == uint64(v.dbTimeout), m.NodeId == "")
	}
	return false
}

func verifCredsMatch(c *proto.Credentials, k *verifCall) bool {
	switch k.kind {
	case verifKNodeMeta, verifKCommitIndex, verifKHWM:
		return c == nil // these carry no credentials
	}
	if !k.rv.hasCreds {
		return c == nil
	}
	if c == nil {
		return false
	}
	return verifAnd(c.Username == k.rv.user, c.Password == k.rv.pass)
}

// verifWantCommand: what the leader must receive, built from the oracle's values (used natively
// with protobuf's own equality on top of the hand-written comparison).
func verifWantCommand(k *verifCall) *proto.Command {
	v := k.rv
	c := &proto.Command{Type: verifWireType(k.kind), Credentials: v.creds()}
	switch k.kind {
	case verifKExecute:
		c.Request = &proto.Command_ExecuteRequest{ExecuteRequest: v.execute()}
	case verifKQuery:
		c.Request = &proto.Command_QueryRequest{QueryRequest: v.query()}
	case verifKRequest:
		c.Request = &proto.Command_ExecuteQueryRequest{ExecuteQueryRequest: v.eqr()}
	case verifKLoad:
		c.Request = &proto.Command_LoadRequest{LoadRequest: v.load()}
	case verifKBackup:
		c.Request = &proto.Command_BackupRequest{BackupRequest: v.backup(k.compress)}
	case verifKRemove:
		c.Request = &proto.Command_RemoveNodeRequest{RemoveNodeRequest: v.remove()}
	case verifKStepdown:
		c.Request = &proto.Command_StepdownRequest{StepdownRequest: v.stepdown()}
	case verifKNotify:
		c.Request = &proto.Command_NotifyRequest{NotifyRequest: v.notify()}
	case verifKJoin:
		c.Request = &proto.Command_JoinRequest{JoinRequest: v.join()}
	case verifKHWM:
		c.Credentials = nil
		c.Request = &proto.Command_HighwaterMarkUpdateRequest{HighwaterMarkUpdateRequest: &proto.HighwaterMarkUpdateRequest{HighwaterMark: uint64(v.dbTimeout)}}
	default:
		c.Credentials = nil
	}
	return c
}

// ---------------------------------------------------------------------------
// answer content

const (
	verifAnsOK = iota
	verifAnsUnauthorized
	verifAnsOtherError
	verifAnsGarbage // well framed, not decodable
	verifAnswers
)

func verifAnsText(ans int) string {
	switch ans {
	case verifAnsUnauthorized:
		return "unauthorized"
	case verifAnsOtherError:
		return "leader failed: disk I/O error"
	}
	return ""
}

type verifRespVals struct {
	nres               int
	idx, seq           uint64
	lastID, rows, cell int64
}

func verifNewRespVals(attempt, nres int) *verifRespVals {
	p := verifName("a", attempt)
	return &verifRespVals{
		nres:   nres,
		idx:    verifU64(p + ".index"),
		seq:    verifU64(p + ".numRW"),
		lastID: verifI64(p + ".lastInsertId"),
		rows:   verifI64(p + ".rowsAffected"),
		cell:   verifI64(p + ".cell"),
	}
}

func (r *verifRespVals) execResult(i int) *command.ExecuteQueryResponse {
	return &command.ExecuteQueryResponse{Result: &command.ExecuteQueryResponse_E{E: &command.ExecuteResult{LastInsertId: r.lastID + int64(i), RowsAffected: r.rows}}}
}
func (r *verifRespVals) queryRows(i int) *command.QueryRows {
	return &command.QueryRows{
		Columns: []string{"c"},
		Types:   []string{"integer"},
		Values:  []*command.Values{{Parameters: []*command.Parameter{{Value: &command.Parameter_I{I: r.cell + int64(i)}}}}},
	}
}
func (r *verifRespVals) eqrs() []*command.ExecuteQueryResponse {
	var out []*command.ExecuteQueryResponse
	for i := 0; i < r.nres; i++ {
		if i%2 == 0 {
			out = append(out, r.execResult(i))
		} else {
			out = append(out, &command.ExecuteQueryResponse{Result: &command.ExecuteQueryResponse_Q{Q: r.queryRows(i)}})
		}
	}
	return out
}
func (r *verifRespVals) rowsList() []*command.QueryRows {
	var out []*command.QueryRows
	for i := 0; i < r.nres; i++ {
		out = append(out, r.queryRows(i))
	}
	return out
}

func verifRowsMatch(q *command.QueryRows, r *verifRespVals, i int) bool {
	if q == nil || len(q.Columns) != 1 || len(q.Types) != 1 || len(q.Values) != 1 || q.Values[0] == nil || len(q.Values[0].Parameters) != 1 {
		return false
	}
	p, ok := q.Values[0].Parameters[0].GetValue().(*command.Parameter_I)
	if !ok {
		return false
	}
	same := verifAnd(q.Columns[0] == "c", q.Types[0] == "integer")
	same = verifAnd(same, q.Error == "")
	return verifAnd(same, p.I == r.cell+int64(i))
}

func verifEQRsMatch(got []*command.ExecuteQueryResponse, r *verifRespVals) bool {
	if len(got) != r.nres {
		return false
	}
	same := true
	for i, g := range got {
		if g == nil {
			return false
		}
		if i%2 == 0 {
			e := g.GetE()
			if e == nil {
				return false
			}
			same = verifAnd(same, e.LastInsertId == r.lastID+int64(i))
			same = verifAnd(same, e.RowsAffected == r.rows)
			same = verifAnd(same, e.Error == "")
		} else {
			same = verifAnd(same, verifRowsMatch(g.GetQ(), r, i))
		}
	}
	if !verifSymbolic() {
		want := r.eqrs()
		for i := range got {
			if !pb.Equal(got[i], want[i]) {
				return false
			}
		}
	}
	return same
}

func verifRowsListMatch(got []*command.QueryRows, r *verifRespVals) bool {
	if len(got) != r.nres {
		return false
	}
	same := true
	for i, g := range got {
		same = verifAnd(same, verifRowsMatch(g, r, i))
	}
	if !verifSymbolic() {
		want := r.rowsList()
		for i := range got {
			if !pb.Equal(got[i], want[i]) {
				return false
			}
		}
	}
	return same
}

// verifBackupImage is the database image the leader backs up; verifBackupMember() is what it
// streams after accepting a backup request: the image as one gzip member (natively produced by
// compress/gzip, in the engine the gzip model's encoding, see the bottom of this file).
var verifBackupImage = []byte("SQLite format 3\x00 image")

func verifBackupMember() []byte {
	if verifSymbolic() {
		return verifGzModelMember(verifBackupImage)
	}
	var buf bytes.Buffer
	zw := gzip.NewWriter(&buf)
	if _, err := zw.Write(verifBackupImage); err != nil {
		panic(err)
	}
	if err := zw.Close(); err != nil {
		panic(err)
	}
	return buf.Bytes()
}

// what follows an accepted backup request
const (
	verifStWhole   = iota // the whole member; the connection stays open
	verifStStall          // half the member, then silence past the deadline (the rest arrives late)
	verifStReset          // four bytes (inside the gzip header), then the connection is reset
	verifStClosed         // the whole member, then the leader closes the connection
	verifStNotGzip        // ten bytes that are no gzip header
	verifStreams
)

// verifBuildAnswer: the leader's answer to a decoded command.
func verifBuildAnswer(t proto.Command_Type, ans int, r *verifRespVals) pb.Message {
	e := verifAnsText(ans)
	switch t {
	case proto.Command_COMMAND_TYPE_EXECUTE:
		if e != "" {
			return &proto.CommandExecuteResponse{Error: e}
		}
		return &proto.CommandExecuteResponse{Response: r.eqrs(), RaftIndex: r.idx}
	case proto.Command_COMMAND_TYPE_QUERY:
		if e != "" {
			return &proto.CommandQueryResponse{Error: e}
		}
		return &proto.CommandQueryResponse{Rows: r.rowsList(), RaftIndex: r.idx}
	case proto.Command_COMMAND_TYPE_REQUEST:
		if e != "" {
			return &proto.CommandRequestResponse{Error: e}
		}
		return &proto.CommandRequestResponse{Response: r.eqrs(), RaftIndex: r.idx, NumRW: r.seq}
	case proto.Command_COMMAND_TYPE_LOAD:
		return &proto.CommandLoadResponse{Error: e}
	case proto.Command_COMMAND_TYPE_BACKUP_STREAM:
		return &proto.CommandBackupResponse{Error: e}
	case proto.Command_COMMAND_TYPE_REMOVE_NODE:
		return &proto.CommandRemoveNodeResponse{Error: e}
	case proto.Command_COMMAND_TYPE_STEPDOWN:
		return &proto.CommandStepdownResponse{Error: e}
	case proto.Command_COMMAND_TYPE_GET_NODE_META:
		return &proto.NodeMeta{Url: "http://leader:4001", CommitIndex: r.idx, Version: "v10"}
	case proto.Command_COMMAND_TYPE_NOTIFY:
		return &proto.CommandNotifyResponse{Error: e}
	case proto.Command_COMMAND_TYPE_JOIN:
		return &proto.CommandJoinResponse{Error: e}
	case proto.Command_COMMAND_TYPE_HIGHWATER_MARK_UPDATE:
		return &proto.HighwaterMarkUpdateResponse{Error: e}
	}
	return nil
}

func verifFrame(p []byte) []byte {
	b := make([]byte, 8, 8+len(p))
	binary.LittleEndian.PutUint64(b, uint64(len(p)))
	return append(b, p...)
}

// ---------------------------------------------------------------------------
// the world: dialer, connections, the leader behind them

const (
	verifDlPrompt = iota // the whole answer can be read at once
	verifDlLate          // nothing until the reader has timed out; then the whole answer sits in the connection
	verifDlHalf          // length prefix and half the payload in time, the rest after the time-out
	verifDlReset         // no answer, the connection is reset
	verifDeliveries
)

const (
	verifModeFull    = iota // every behaviour may be chosen
	verifModeReduced        // answers OK; delivery prompt or late; no dial/write failures
	verifModeRestart        // connections idle in the pool are dead (peer restarted); new ones work
	verifModeGood           // everything works
)

var (
	verifErrDial  = errors.New("verif: dial failed")
	verifErrReset = errors.New("verif: connection reset by peer")
	verifErrUse   = errors.New("verif: use of closed network connection")
)

type verifAttempt struct {
	n            int
	call         int
	conn         *verifConn
	cleanAtStart bool // the connection had no failed operation and no bytes in either direction
	firstOnConn  bool // first frame of this call on this connection (or the one before was answered completely)
	writeFail    int  // 0 none, 1 first Write of the frame times out, 2 second Write times out
	writes       int
	frameDone    bool
	cmd          *proto.Command // what the leader decoded (nil: undecodable)
	ans          int
	delivery     int
	stream       int // backup: verifSt...
	rv           *verifRespVals
	good         bool // request complete, answer (of any content) fully readable in time
	pooled       bool // the connection was dialed by an earlier call and came back out of the pool
	full         bool // every behaviour may be chosen for this attempt
}

type verifWorld struct {
	mode     int
	budget   int  // verifModeFull: attempts beyond this many choose only between a prompt OK and a late answer
	setup    bool // pre-populating the pool
	call     int
	dials    int // Dial calls outside setup
	conns    []*verifConn
	attempts []*verifAttempt
	nres     int

	usedClosed bool // Read/Write on a connection after its real Close
	noDeadline bool // Read/Write without a deadline
	timeout    time.Duration
}

type verifConn struct {
	w         *verifWorld
	id        int
	addr      string
	idleBorn  bool // created while pre-populating the pool
	bornCall  int
	peerGone  bool // the peer restarted: whatever is written is lost, reads fail
	cur       *verifAttempt
	lastCall  int // call of the last frame start, -1 none
	wbuf      []byte
	rbuf      []byte
	late      []byte
	eof       bool // peer closed after what is in rbuf
	reset     bool
	streaming bool // a backup stream follows the answer
	deadline  bool

	failed         bool // an operation on this connection returned an error to the client
	failedInStream bool // ... while reading a backup stream
	failedInRead   bool // ... in a Read
	closed         bool
}

type verifAddr struct{ s string }

func (a verifAddr) Network() string { return "tcp" }
func (a verifAddr) String() string  { return a.s }

type verifDialer struct{ w *verifWorld }

func (d *verifDialer) Dial(addr string, timeout time.Duration) (net.Conn, error) {
	w := d.w
	if !w.setup {
		n := w.dials
		w.dials++
		if w.full() && verifChoice(verifName("dialFails", n), 2) == 1 {
			return nil, verifErrDial
		}
	}
	c := &verifConn{w: w, id: len(w.conns), addr: addr, idleBorn: w.setup, bornCall: w.call, lastCall: -1}
	if w.setup && w.mode == verifModeRestart {
		c.peerGone = true
	}
	w.conns = append(w.conns, c)
	return c, nil
}

// full: the next attempt may show every behaviour.
func (w *verifWorld) full() bool {
	return w.mode == verifModeFull && len(w.attempts) < w.budget
}

func (c *verifConn) clean() bool {
	return !c.failed && len(c.rbuf) == 0 && len(c.late) == 0 && len(c.wbuf) == 0
}

func (c *verifConn) LocalAddr() net.Addr                { return verifAddr{"local"} }
func (c *verifConn) RemoteAddr() net.Addr               { return verifAddr{c.addr} }
func (c *verifConn) SetDeadline(t time.Time) error      { c.deadline = !t.IsZero(); return nil }
func (c *verifConn) SetReadDeadline(t time.Time) error  { c.deadline = !t.IsZero(); return nil }
func (c *verifConn) SetWriteDeadline(t time.Time) error { c.deadline = !t.IsZero(); return nil }

func (c *verifConn) Close() error {
	if c.closed {
		return verifErrUse
	}
	c.closed = true
	return nil
}

func (c *verifConn) Write(p []byte) (int, error) {
	w := c.w
	if c.closed {
		w.usedClosed = true
		return 0, verifErrUse
	}
	if !c.deadline {
		w.noDeadline = true
	}
	a := c.cur
	if a == nil || a.frameDone || a.call != w.call || (a.writeFail != 0 && a.writes >= a.writeFail) {
		// a new request starts on this connection
		full := w.full()
		a = &verifAttempt{n: len(w.attempts), call: w.call, conn: c, cleanAtStart: c.clean(), firstOnConn: c.lastCall != w.call || (c.cur != nil && c.cur.good), full: full}
		a.pooled = !c.idleBorn && c.bornCall < w.call
		w.attempts = append(w.attempts, a)
		c.cur = a
		c.lastCall = w.call
		c.wbuf = nil
		c.streaming = false
		if c.eof {
			c.peerGone = true // the peer closed this connection after an earlier exchange
		}
		if full && !c.peerGone {
			a.writeFail = verifChoice(verifName("writeTimesOut", a.n), 3)
		}
	}
	a.writes++
	if a.writeFail == a.writes {
		// (after the first Write part of the frame is with the peer and stays in wbuf: the
		// connection is out of step for good)
		c.failed = true
		return 0, os.ErrDeadlineExceeded
	}
	c.wbuf = append(c.wbuf, p...)
	if len(c.wbuf) >= 8 {
		n := binary.LittleEndian.Uint64(c.wbuf)
		if uint64(len(c.wbuf)-8) >= n {
			payload := c.wbuf[8 : 8+n]
			c.wbuf = c.wbuf[8+n:]
			a.frameDone = true
			w.handle(c, a, payload)
		}
	}
	return len(p), nil
}

func (c *verifConn) Read(p []byte) (int, error) {
	w := c.w
	if c.closed {
		w.usedClosed = true
		return 0, verifErrUse
	}
	if !c.deadline {
		w.noDeadline = true
	}
	if len(p) == 0 {
		return 0, nil
	}
	if len(c.rbuf) > 0 {
		n := copy(p, c.rbuf)
		c.rbuf = c.rbuf[n:]
		return n, nil
	}
	if c.reset {
		c.fail()
		return 0, verifErrReset
	}
	if c.eof {
		if !c.streaming {
			c.fail()
		}
		return 0, io.EOF
	}
	// the peer stays silent: the deadline passes, and whatever was late arrives afterwards
	c.fail()
	c.rbuf = append(c.rbuf, c.late...)
	c.late = nil
	return 0, os.ErrDeadlineExceeded
}

func (c *verifConn) fail() {
	c.failed = true
	c.failedInRead = true
	if c.streaming {
		c.failedInStream = true
	}
}

// handle: the leader has received a complete frame on c.
func (w *verifWorld) handle(c *verifConn, a *verifAttempt, payload []byte) {
	if c.peerGone {
		a.delivery = verifDlReset
		c.reset = true
		return
	}
	cmd := &proto.Command{}
	if err := pb.Unmarshal(append([]byte{}, payload...), cmd); err != nil {
		// the service closes the connection on an undecodable command
		c.eof = true
		return
	}
	a.cmd = cmd
	a.rv = verifNewRespVals(a.n, w.nres)
	a.ans = verifAnsOK
	a.delivery = verifDlPrompt
	mode := w.mode
	if mode == verifModeFull && !a.full {
		mode = verifModeReduced
	}
	switch mode {
	case verifModeFull:
		a.delivery = verifChoice(verifName("delivery", a.n), verifDeliveries)
		if a.delivery == verifDlPrompt {
			a.ans = verifChoice(verifName("answer", a.n), verifAnswers)
			if cmd.Type == proto.Command_COMMAND_TYPE_GET_NODE_META && a.ans != verifAnsGarbage {
				a.ans = verifAnsOK // NodeMeta has no error field
			}
		}
	case verifModeReduced:
		a.delivery = verifChoice(verifName("delivery", a.n), 2)
	}

	var frame []byte
	if a.ans == verifAnsGarbage {
		frame = verifFrame([]byte{0xFF, 0xFF, 0xFF, 0xFF})
	} else {
		m := verifBuildAnswer(cmd.Type, a.ans, a.rv)
		if m == nil {
			c.eof = true
			return
		}
		enc, err := pb.Marshal(m)
		if err != nil {
			panic("verif: cannot encode the leader's answer: " + err.Error())
		}
		frame = verifFrame(enc)
	}

	switch a.delivery {
	case verifDlPrompt:
		a.good = a.cleanAtStart
		c.rbuf = append(c.rbuf, frame...)
		if cmd.Type == proto.Command_COMMAND_TYPE_BACKUP_STREAM && a.ans == verifAnsOK {
			c.streaming = true
			if mode == verifModeFull {
				a.stream = verifChoice(verifName("stream", a.n), verifStreams)
			}
			member := verifBackupMember()
			half := len(member) / 2
			switch a.stream {
			case verifStWhole:
				c.rbuf = append(c.rbuf, member...)
			case verifStStall:
				c.rbuf = append(c.rbuf, member[:half]...)
				c.late = append(c.late, member[half:]...)
			case verifStReset:
				c.rbuf = append(c.rbuf, member[:4]...)
				c.reset = true
			case verifStClosed:
				c.rbuf = append(c.rbuf, member...)
				c.eof = true
			case verifStNotGzip:
				c.rbuf = append(c.rbuf, []byte("not a gzip")...)
			}
		}
	case verifDlLate:
		c.late = append(c.late, frame...)
	case verifDlHalf:
		h := 8 + (len(frame)-8)/2
		if len(frame) == 8 {
			h = 4 // natively a message without set fields encodes to nothing: cut the length prefix instead
		}
		c.rbuf = append(c.rbuf, frame[:h]...)
		c.late = append(c.late, frame[h:]...)
	case verifDlReset:
		c.reset = true
	}
}

// ---------------------------------------------------------------------------
// one call and its oracle

type verifCall struct {
	kind     int
	addr     string
	rv       *verifReqVals
	compress bool
	retries  int
	ctx      *verifCtx

	// bookkeeping
	firstAttempt, firstDial int

	// outcome
	err      error
	eqr      []*command.ExecuteQueryResponse
	rows     []*command.QueryRows
	idx, seq uint64
	sink     *verifSink
	meta     *proto.NodeMeta
	hwm      map[string]*proto.HighwaterMarkUpdateResponse
}

const verifTimeout = 5 * time.Second

func verifNewWorld(mode int) (*verifWorld, *Client) {
	verifEncs = nil
	verifGzRs = nil
	verifFixedText = false
	w := &verifWorld{mode: mode, budget: 1 << 30, timeout: 30 * time.Second, nres: 1}
	cl := NewClient(&verifDialer{w: w}, w.timeout)
	return w, cl
}

// verifIdle puts n idle connections to addr into the client's pool.
func verifIdle(w *verifWorld, cl *Client, addr string, n int) {
	w.setup = true
	var held []net.Conn
	for i := 0; i < n; i++ {
		c, err := cl.dial(addr)
		if err != nil {
			panic("verif: setup dial failed")
		}
		held = append(held, c)
	}
	for _, c := range held {
		c.Close()
	}
	w.setup = false
}

func verifNewCall(w *verifWorld, kind int, addr string, retries int, credsMode int) *verifCall {
	k := &verifCall{kind: kind, addr: addr, retries: retries, rv: verifNewReqVals(w.call, credsMode), ctx: &verifCtx{okChecks: 1 << 30, err: verifErrCtx}, sink: &verifSink{}}
	return k
}

func verifDo(w *verifWorld, cl *Client, k *verifCall) {
	k.firstAttempt = len(w.attempts)
	k.firstDial = w.dials
	v := k.rv
	creds := v.creds()
	var given pb.Message
	switch k.kind {
	case verifKExecute:
		m := v.execute()
		given = m
		k.eqr, k.idx, k.err = cl.Execute(k.ctx, m, k.addr, creds, verifTimeout, k.retries)
	case verifKQuery:
		m := v.query()
		given = m
		k.rows, k.idx, k.err = cl.Query(k.ctx, m, k.addr, creds, verifTimeout, k.retries)
	case verifKRequest:
		m := v.eqr()
		given = m
		k.eqr, k.seq, k.idx, k.err = cl.Request(k.ctx, m, k.addr, creds, verifTimeout, k.retries)
	case verifKLoad:
		m := v.load()
		given = m
		k.err = cl.Load(k.ctx, m, k.addr, creds, verifTimeout, k.retries)
	case verifKBackup:
		m := v.backup(k.compress)
		given = m
		k.err = cl.Backup(k.ctx, m, k.addr, creds, verifTimeout, k.sink)
	case verifKRemove:
		m := v.remove()
		given = m
		k.err = cl.RemoveNode(k.ctx, m, k.addr, creds, verifTimeout)
	case verifKStepdown:
		m := v.stepdown()
		given = m
		k.err = cl.Stepdown(k.ctx, m, k.addr, creds, verifTimeout)
	case verifKNodeMeta:
		k.meta, k.err = cl.GetNodeMeta(k.ctx, k.addr, k.retries, verifTimeout)
	case verifKCommitIndex:
		k.idx, k.err = cl.GetCommitIndex(k.ctx, k.addr, k.retries, verifTimeout)
	case verifKNotify:
		m := v.notify()
		given = m
		k.err = cl.Notify(k.ctx, m, k.addr, creds, verifTimeout)
	case verifKJoin:
		m := v.join()
		given = m
		k.err = cl.Join(k.ctx, m, k.addr, creds, verifTimeout)
	case verifKHWM:
		k.hwm, k.err = cl.BroadcastHWM(k.ctx, uint64(v.dbTimeout), k.retries, verifTimeout, k.addr)
	}

	// the caller's objects are as they were
	if given != nil {
		wrap := &proto.Command{}
		switch m := given.(type) {
		case *command.ExecuteRequest:
			wrap.Request = &proto.Command_ExecuteRequest{ExecuteRequest: m}
		case *command.QueryRequest:
			wrap.Request = &proto.Command_QueryRequest{QueryRequest: m}
		case *command.ExecuteQueryRequest:
			wrap.Request = &proto.Command_ExecuteQueryRequest{ExecuteQueryRequest: m}
		case *command.LoadRequest:
			wrap.Request = &proto.Command_LoadRequest{LoadRequest: m}
		case *command.BackupRequest:
			wrap.Request = &proto.Command_BackupRequest{BackupRequest: m}
		case *command.RemoveNodeRequest:
			wrap.Request = &proto.Command_RemoveNodeRequest{RemoveNodeRequest: m}
		case *command.StepdownRequest:
			wrap.Request = &proto.Command_StepdownRequest{StepdownRequest: m}
		case *command.NotifyRequest:
			wrap.Request = &proto.Command_NotifyRequest{NotifyRequest: m}
		case *command.JoinRequest:
			wrap.Request = &proto.Command_JoinRequest{JoinRequest: m}
		}
		verifAssert("C20b-callers-request-object-not-modified", verifCmdMatches(wrap, k))
	}
	if creds != nil {
		verifAssert("C20b-callers-credentials-object-not-modified", verifAnd(creds.Username == v.user, creds.Password == v.pass))
	}
	w.call++
}

func verifMaxAttempts(k *verifCall) int {
	if !verifRetried(k.kind) {
		return 1
	}
	r := k.retries
	if r < 0 {
		r = 0
	}
	return r + 2 // the first attempt, the retries, and one last-ditch attempt on a new connection
}

// verifCheckTraffic: what was written, where, how often (all kinds of calls).
func verifCheckTraffic(w *verifWorld, k *verifCall) {
	atts := w.attempts[k.firstAttempt:]
	verifAssert("C20b-closed-connection-not-used", !w.usedClosed)
	verifAssert("C20b-deadline-armed-before-io", !w.noDeadline)
	if k.kind != verifKJoin {
		max := verifMaxAttempts(k)
		verifAssert("C20b-attempts-bounded", len(atts) <= max)
		verifAssert("C20b-dials-bounded", w.dials-k.firstDial <= max)
	}
	want := verifWantCommand(k)
	for i, a := range atts {
		if !a.cleanAtStart && k.kind == verifKHWM && a.conn.failedInRead {
			verifFinding("C20-hwm-read-error-conn-pooled")
		}
		verifAssert("C20b-failed-or-dirty-connection-not-reused", a.cleanAtStart)
		verifAssert("C20b-one-request-per-connection-per-call", a.firstOnConn)
		verifAssert("C20b-sent-to-the-named-node", a.conn.addr == k.addr)
		if a.frameDone && !a.conn.peerGone {
			verifAssert("C20b-request-decodable", a.cmd != nil)
			verifAssert("C20b-request-type", a.cmd.Type == want.Type)
			verifAssert("C20b-request-unchanged", verifCmdMatches(a.cmd, k))
			verifAssert("C20b-credentials-unchanged", verifCredsMatch(a.cmd.Credentials, k))
			if !verifSymbolic() {
				verifAssert("C20b-request-unchanged", pb.Equal(a.cmd, want))
			}
		}
		if i < len(atts)-1 && k.kind != verifKJoin {
			verifAssert("C20b-not-resent-after-an-answer", !(a.good && a.ans != verifAnsGarbage))
		}
	}
}

// verifCheckResult: what the caller got back (forwarded kinds).
func verifCheckResult(w *verifWorld, k *verifCall) {
	atts := w.attempts[k.firstAttempt:]
	var last *verifAttempt
	if len(atts) > 0 {
		last = atts[len(atts)-1]
	}
	if last != nil && !last.cleanAtStart && last.frameDone {
		// the request went out on a connection that still held (or was about to receive) bytes of
		// an earlier exchange: whatever the caller was given as a success is not this request's answer
		verifAssert("C20b-no-answer-taken-from-an-earlier-exchange", k.err != nil)
	}
	if last == nil || !last.good {
		verifReach("transport-failure")
		verifAssert("C20b-transport-failure-is-an-error", k.err != nil)
		verifAssert("C20b-no-results-with-an-error", len(k.eqr) == 0 && len(k.rows) == 0 && k.idx == 0 && k.seq == 0)
		return
	}
	if last.ans != verifAnsOK {
		if last.ans == verifAnsUnauthorized {
			verifReach("leader-says-unauthorized")
		}
		verifAssert("C20b-leader-error-is-an-error", k.err != nil)
		if last.ans != verifAnsGarbage {
			verifAssert("C20b-leader-error-text-unchanged", k.err.Error() == verifAnsText(last.ans))
		} else {
			verifReach("undecodable-answer")
		}
		verifAssert("C20b-no-results-with-an-error", len(k.eqr) == 0 && len(k.rows) == 0 && k.idx == 0 && k.seq == 0)
		if k.kind == verifKBackup {
			verifAssert("C20b-no-backup-bytes-with-an-error", len(k.sink.b) == 0)
		}
		return
	}
	r := last.rv
	if k.kind == verifKBackup {
		if last.stream != verifStWhole && last.stream != verifStClosed {
			verifReach("backup-stream-cut")
			verifAssert("C20b-backup-stream-failure-is-an-error", k.err != nil)
			return
		}
		verifReach("backup-streamed")
		verifAssert("C20b-answered-call-succeeds", k.err == nil)
		if k.compress {
			verifAssert("C20b-backup-is-the-leaders-compressed-stream", verifBytesMatch(k.sink.b, verifBackupMember()))
		} else {
			verifAssert("C20b-backup-is-the-leaders-image", verifBytesMatch(k.sink.b, verifBackupImage))
		}
		return
	}
	verifReach("answered")
	if len(atts) > 1 {
		verifReach("answered-after-retry")
	}
	verifAssert("C20b-answered-call-succeeds", k.err == nil)
	switch k.kind {
	case verifKExecute:
		verifAssert("C20b-results-are-this-requests", verifEQRsMatch(k.eqr, r))
		verifAssert("C20b-index-is-this-requests", k.idx == r.idx)
	case verifKQuery:
		verifAssert("C20b-results-are-this-requests", verifRowsListMatch(k.rows, r))
		verifAssert("C20b-index-is-this-requests", k.idx == r.idx)
	case verifKRequest:
		verifAssert("C20b-results-are-this-requests", verifEQRsMatch(k.eqr, r))
		verifAssert("C20b-index-is-this-requests", k.idx == r.idx)
		verifAssert("C20b-sequence-is-this-requests", k.seq == r.seq)
	case verifKNodeMeta:
		verifAssert("C20b-meta-is-this-requests", k.meta != nil && k.meta.CommitIndex == r.idx && k.meta.Url == "http://leader:4001" && k.meta.Version == "v10")
	case verifKCommitIndex:
		verifAssert("C20b-index-is-this-requests", k.idx == r.idx)
	}
}

// verifCheckInvariant: what the call leaves behind for the next one.
func verifCheckInvariant(w *verifWorld, k *verifCall) {
	for _, c := range w.conns {
		bad := c.failed && !c.closed
		if bad && k.kind == verifKBackup && c.failedInStream {
			verifFinding("C20-backup-stream-error-conn-pooled")
		}
		if bad && k.kind == verifKHWM && c.failedInRead {
			verifFinding("C20-hwm-read-error-conn-pooled")
		}
		verifAssert("C20b-failed-connection-closed", !bad)
		left := !c.closed && len(c.rbuf)+len(c.late)+len(c.wbuf) > 0
		verifAssert("C20b-no-unread-bytes-on-open-connection", !left)
	}
}

func verifAddrOf(i int) string {
	if i == 0 {
		return "leader-a:4002"
	}
	return "leader-b:4002"
}

// ---------------------------------------------------------------------------
// entries

// VerifC20bStep: one forwarded call of any kind from any pool content the invariant allows
// (idle connections, all clean), every behaviour of the network and the leader.
func VerifC20bStep() {
	verifPanicsAreViolations()
	w, cl := verifNewWorld(verifModeFull)
	thorough := verifTier() == 1
	kind := verifChoice("kind", verifKForwarded)
	idle := 0
	if thorough {
		idle = verifChoice("idle", 4)
	} else {
		idle = 2 * verifChoice("idle", 2)
	}
	retries := 0
	if verifRetried(kind) {
		switch verifChoice("retries", 2+verifTier()*3) {
		case 1:
			retries = 2
		case 2:
			retries = -1
		case 3:
			retries = 1
		case 4:
			retries = 3
		}
	}
	credsMode := 1
	if thorough && retries == 0 {
		credsMode = 0
		if idle == 0 {
			w.nres = verifChoice("results", 3)
		}
	}
	if !thorough && retries > 1 {
		w.budget = 1 // quick: with more than one retry only the first attempt shows every behaviour
	}
	if thorough && retries > 1 {
		w.budget = 2 // thorough: the first two attempts
	}
	verifIdle(w, cl, verifAddrOf(0), idle)
	k := verifNewCall(w, kind, verifAddrOf(0), retries, credsMode)
	k.compress = true
	verifDo(w, cl, k)
	verifCheckTraffic(w, k)
	verifCheckResult(w, k)
	verifCheckInvariant(w, k)
}

// VerifC20bCancel: the caller's context ends before the call or while the first attempt is
// under way.
func VerifC20bCancel() {
	verifPanicsAreViolations()
	w, cl := verifNewWorld(verifModeReduced)
	kind := verifChoice("kind", verifKForwarded)
	verifIdle(w, cl, verifAddrOf(0), verifChoice("idle", 2))
	k := verifNewCall(w, kind, verifAddrOf(0), 2*verifChoice("retries", 2), 1)
	k.compress = true
	before := verifChoice("when", 2) == 0
	if before {
		k.ctx.okChecks = 0
	} else {
		k.ctx.okChecks = 2 // the entry check and the check before the first attempt pass
	}
	verifDo(w, cl, k)
	if before {
		verifReach("cancelled-before")
		verifAssert("C20b-cancelled-context-sends-nothing", len(w.attempts) == 0 && w.dials == 0)
		verifAssert("C20b-cancelled-context-is-an-error", k.err == verifErrCtx)
	} else if verifRetried(kind) && len(w.attempts) == 1 && !w.attempts[0].good {
		verifReach("cancelled-between-attempts")
		verifAssert("C20b-cancelled-context-is-an-error", k.err == verifErrCtx)
	}
	verifCheckTraffic(w, k)
	verifCheckResult(w, k)
	verifCheckInvariant(w, k)
}

// VerifC20bBackupPlain: a backup the caller wants uncompressed (the client decodes the leader's
// gzip member): request, credentials, error text, the image, the connection.
func VerifC20bBackupPlain() {
	verifPanicsAreViolations()
	w, cl := verifNewWorld(verifModeFull)
	verifIdle(w, cl, verifAddrOf(0), verifChoice("idle", 2))
	k := verifNewCall(w, verifKBackup, verifAddrOf(0), 0, 0)
	k.compress = false
	verifDo(w, cl, k)
	verifCheckTraffic(w, k)
	verifCheckResult(w, k)
	verifCheckInvariant(w, k)
}

// VerifC20bPoolUsers: the other operations that take connections from the same pool leave it in
// a state the forwarded calls can rely on.
func VerifC20bPoolUsers() {
	verifPanicsAreViolations()
	w, cl := verifNewWorld(verifModeFull)
	kind := verifKForwarded + verifChoice("kind", verifKAll-verifKForwarded)
	idle := verifChoice("idle", 2)
	retries := 0
	if kind == verifKHWM || verifTier() == 1 {
		retries = verifChoice("retries", 2)
	}
	verifIdle(w, cl, verifAddrOf(0), idle)
	k := verifNewCall(w, kind, verifAddrOf(0), retries, 1-verifTier())
	verifDo(w, cl, k)
	verifReach("pool-user-done")
	verifCheckTraffic(w, k)
	if kind == verifKNodeMeta || kind == verifKCommitIndex {
		verifCheckResult(w, k)
	}
	verifCheckInvariant(w, k)
}

// VerifC20bSeq: consecutive forwarded calls through one client, from an empty pool (2 calls quick,
// 3 thorough); the leader may have moved before the second call (and is back for the third).
// Replies are in time or late. The first and the third call are an Execute (the shared retry
// path), a Backup (the connection ends at EOF) or a RemoveNode (the direct path); the second is
// of any kind.
func VerifC20bSeq() {
	verifPanicsAreViolations()
	w, cl := verifNewWorld(verifModeReduced)
	verifFixedText = true
	n := 2 + verifTier()
	for i := 0; i < n; i++ {
		kind := 0
		if i != 1 {
			switch verifChoice(verifName("kind", i), 3) {
			case 1:
				kind = verifKBackup
			case 2:
				kind = verifKRemove
			}
		} else {
			kind = verifChoice(verifName("kind", i), verifKForwarded)
		}
		addr := verifAddrOf(0)
		if i == 1 && verifChoice(verifName("leaderMoved", i), 2) == 1 {
			addr = verifAddrOf(1)
		}
		retries := 0
		if verifTier() == 1 && i < 2 && verifRetried(kind) {
			retries = 2 * verifChoice(verifName("retries", i), 2)
		}
		k := verifNewCall(w, kind, addr, retries, 1-i%2) // credentials on calls 0 and 2, any on call 1
		k.compress = true
		verifDo(w, cl, k)
		verifCheckResult(w, k) // first what the caller can see
		verifCheckTraffic(w, k)
		if i == n-1 {
			// (what each call leaves behind is VerifC20bStep's subject; here the calls before the
			// last one are judged by what the following calls observe)
			verifCheckInvariant(w, k)
		}
		for _, a := range w.attempts[k.firstAttempt:] {
			if a.pooled {
				verifReach("pooled-connection-reused")
			}
		}
	}
}

// VerifC20bRestart: the leader has restarted - every idle connection in the pool is dead, new
// connections work. A retried command still gets through (NewClient: "Clients will retry certain
// commands if they fail, to allow for remote node restarts").
func VerifC20bRestart() {
	verifPanicsAreViolations()
	w, cl := verifNewWorld(verifModeRestart)
	kind := verifChoice("kind", 4) // Execute, Query, Request, Load
	idle := verifChoice("idle", 4)
	retries := verifChoice("retries", 3)
	verifIdle(w, cl, verifAddrOf(0), idle)
	k := verifNewCall(w, kind, verifAddrOf(0), retries, 1)
	verifDo(w, cl, k)
	if idle > 0 {
		verifReach("stale-pool")
	}
	verifAssert("C20b-gets-through-after-leader-restart", k.err == nil)
	verifCheckTraffic(w, k)
	verifCheckResult(w, k)
	verifCheckInvariant(w, k)
}

// VerifC20bTwin: same world, final claim that must fail (an answered call returns index 0).
func VerifC20bTwin() {
	w, cl := verifNewWorld(verifModeGood)
	k := verifNewCall(w, verifKExecute, verifAddrOf(0), 0, 1)
	verifDo(w, cl, k)
	verifAssume(k.err == nil)
	verifAssert("twin", k.idx == 0)
}

// ---------------------------------------------------------------------------
// codec model (symbolic run only; spec.json "models"): an encoded message is the token
// {magic, magic, id, type tag}; decoding restores the fields into a message of the same type only.

const (
	verifMagic0 = 0xA7
	verifMagic1 = 0x5C
)

type verifEnc struct {
	tag byte
	msg pb.Message
}

var verifEncs []*verifEnc

var verifErrCodec = errors.New("proto: cannot parse invalid wire-format data")

func verifTagOf(m pb.Message) byte {
	switch m.(type) {
	case *proto.Command:
		return 1
	case *proto.CommandExecuteResponse:
		return 2
	case *proto.CommandQueryResponse:
		return 3
	case *proto.CommandRequestResponse:
		return 4
	case *proto.CommandLoadResponse:
		return 5
	case *proto.CommandBackupResponse:
		return 6
	case *proto.CommandRemoveNodeResponse:
		return 7
	case *proto.CommandStepdownResponse:
		return 8
	case *proto.NodeMeta:
		return 9
	case *proto.CommandNotifyResponse:
		return 10
	case *proto.CommandJoinResponse:
		return 11
	case *proto.HighwaterMarkUpdateResponse:
		return 12
	}
	return 0
}

func verifPbMarshal(m pb.Message) ([]byte, error) {
	tag := verifTagOf(m)
	if tag == 0 {
		return nil, errors.New("verif: message type outside the codec model")
	}
	id := len(verifEncs)
	if id > 250 {
		panic("verif: too many encoded messages")
	}
	verifEncs = append(verifEncs, &verifEnc{tag: tag, msg: verifSnapshot(m)})
	return []byte{verifMagic0, verifMagic1, byte(id), tag}, nil
}

// verifSnapshot: the top level of the message as it is now (nested messages are shared: nothing
// in the client or the harness modifies them after encoding; the harness checks that separately).
func verifSnapshot(m pb.Message) pb.Message {
	switch s := m.(type) {
	case *proto.Command:
		return &proto.Command{Type: s.Type, Request: s.Request, Credentials: s.Credentials}
	case *proto.CommandExecuteResponse:
		return &proto.CommandExecuteResponse{Error: s.Error, Response: s.Response, RaftIndex: s.RaftIndex}
	case *proto.CommandQueryResponse:
		return &proto.CommandQueryResponse{Error: s.Error, Rows: s.Rows, RaftIndex: s.RaftIndex}
	case *proto.CommandRequestResponse:
		return &proto.CommandRequestResponse{Error: s.Error, Response: s.Response, RaftIndex: s.RaftIndex, NumRW: s.NumRW}
	case *proto.CommandLoadResponse:
		return &proto.CommandLoadResponse{Error: s.Error}
	case *proto.CommandBackupResponse:
		return &proto.CommandBackupResponse{Error: s.Error}
	case *proto.CommandRemoveNodeResponse:
		return &proto.CommandRemoveNodeResponse{Error: s.Error}
	case *proto.CommandStepdownResponse:
		return &proto.CommandStepdownResponse{Error: s.Error}
	case *proto.NodeMeta:
		return &proto.NodeMeta{Url: s.Url, CommitIndex: s.CommitIndex, Version: s.Version}
	case *proto.CommandNotifyResponse:
		return &proto.CommandNotifyResponse{Error: s.Error}
	case *proto.CommandJoinResponse:
		return &proto.CommandJoinResponse{Error: s.Error, Leader: s.Leader}
	case *proto.HighwaterMarkUpdateResponse:
		return &proto.HighwaterMarkUpdateResponse{Error: s.Error}
	}
	return nil
}

func verifPbUnmarshal(b []byte, m pb.Message) error {
	if len(b) != 4 || b[0] != verifMagic0 || b[1] != verifMagic1 || int(b[2]) >= len(verifEncs) {
		return verifErrCodec
	}
	e := verifEncs[b[2]]
	if e.tag != b[3] || e.tag != verifTagOf(m) {
		return verifErrCodec
	}
	switch d := m.(type) {
	case *proto.Command:
		s := e.msg.(*proto.Command)
		d.Type, d.Request, d.Credentials = s.Type, s.Request, s.Credentials
	case *proto.CommandExecuteResponse:
		s := e.msg.(*proto.CommandExecuteResponse)
		d.Error, d.Response, d.RaftIndex = s.Error, s.Response, s.RaftIndex
	case *proto.CommandQueryResponse:
		s := e.msg.(*proto.CommandQueryResponse)
		d.Error, d.Rows, d.RaftIndex = s.Error, s.Rows, s.RaftIndex
	case *proto.CommandRequestResponse:
		s := e.msg.(*proto.CommandRequestResponse)
		d.Error, d.Response, d.RaftIndex, d.NumRW = s.Error, s.Response, s.RaftIndex, s.NumRW
	case *proto.CommandLoadResponse:
		d.Error = e.msg.(*proto.CommandLoadResponse).Error
	case *proto.CommandBackupResponse:
		d.Error = e.msg.(*proto.CommandBackupResponse).Error
	case *proto.CommandRemoveNodeResponse:
		d.Error = e.msg.(*proto.CommandRemoveNodeResponse).Error
	case *proto.CommandStepdownResponse:
		d.Error = e.msg.(*proto.CommandStepdownResponse).Error
	case *proto.NodeMeta:
		s := e.msg.(*proto.NodeMeta)
		d.Url, d.CommitIndex, d.Version = s.Url, s.CommitIndex, s.Version
	case *proto.CommandNotifyResponse:
		d.Error = e.msg.(*proto.CommandNotifyResponse).Error
	case *proto.CommandJoinResponse:
		s := e.msg.(*proto.CommandJoinResponse)
		d.Error, d.Leader = s.Error, s.Leader
	case *proto.HighwaterMarkUpdateResponse:
		d.Error = e.msg.(*proto.HighwaterMarkUpdateResponse).Error
	default:
		return verifErrCodec
	}
	return nil
}

// ---------------------------------------------------------------------------
// gzip model (symbolic run only; spec.json "models" for gzip.NewReader, (*gzip.Reader).Read,
// Multistream, Close): a member is the ten header bytes compress/gzip itself writes, one length
// byte, the content, one end byte. The reader takes exactly the member's bytes from its source,
// reports a source that ends early as io.ErrUnexpectedEOF (io.EOF before the first byte), passes
// other errors of the source on, and refuses anything else with gzip.ErrHeader / ErrChecksum.

var verifGzHeader = []byte{0x1f, 0x8b, 8, 0, 0, 0, 0, 0, 0, 0xff}

const verifGzEnd = 0xE0

func verifGzModelMember(content []byte) []byte {
	if len(content) > 255 {
		panic("verif: gzip model content too long")
	}
	out := append([]byte{}, verifGzHeader...)
	out = append(out, byte(len(content)))
	out = append(out, content...)
	return append(out, verifGzEnd)
}

type verifGzR struct {
	z     *gzip.Reader
	r     io.Reader
	state int // 0 length byte, 1 content, 2 end byte, 3 done
	left  int
	err   error
}

var verifGzRs []*verifGzR

func verifGzROf(z *gzip.Reader) *verifGzR {
	for _, st := range verifGzRs {
		if st.z == z {
			return st
		}
	}
	panic("verif: gzip.Reader not created by the model")
}

func verifGzFill(r io.Reader, p []byte, atStart bool) error {
	n, err := io.ReadFull(r, p)
	if err == nil {
		return nil
	}
	if err == io.EOF || err == io.ErrUnexpectedEOF {
		if atStart && n == 0 {
			return io.EOF
		}
		return io.ErrUnexpectedEOF
	}
	return err
}

func verifGzNewReader(r io.Reader) (*gzip.Reader, error) {
	var hdr [10]byte
	if err := verifGzFill(r, hdr[:], true); err != nil {
		return nil, err
	}
	if !bytes.Equal(hdr[:], verifGzHeader) {
		return nil, gzip.ErrHeader
	}
	z := new(gzip.Reader)
	verifGzRs = append(verifGzRs, &verifGzR{z: z, r: r})
	return z, nil
}

func verifGzMultistream(z *gzip.Reader, ok bool) {}

func verifGzReaderClose(z *gzip.Reader) error { return nil }

func verifGzRead(z *gzip.Reader, p []byte) (int, error) {
	st := verifGzROf(z)
	if st.err != nil {
		return 0, st.err
	}
	if len(p) == 0 {
		return 0, nil
	}
	for {
		switch st.state {
		case 0:
			var b [1]byte
			if st.err = verifGzFill(st.r, b[:], false); st.err != nil {
				return 0, st.err
			}
			st.left = int(b[0])
			st.state = 1
		case 1:
			if st.left == 0 {
				st.state = 2
				continue
			}
			n := len(p)
			if n > st.left {
				n = st.left
			}
			k, err := st.r.Read(p[:n])
			st.left -= k
			if err != nil {
				if err == io.EOF {
					err = io.ErrUnexpectedEOF
				}
				st.err = err
			}
			if k > 0 {
				return k, nil
			}
			if st.err != nil {
				return 0, st.err
			}
		case 2:
			var b [1]byte
			if st.err = verifGzFill(st.r, b[:], false); st.err != nil {
				return 0, st.err
			}
			if b[0] != verifGzEnd {
				st.err = gzip.ErrChecksum
				return 0, st.err
			}
			st.state = 3
		default:
			// one member only (the client switches multistream off; a following member is not
			// part of the model)
			st.err = io.EOF
			return 0, st.err
		}
	}
}
