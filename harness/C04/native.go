package store

// Native world of C04 (used only when the harness runs natively, i.e. in replays): a real
// temporary directory, a real SQLite database in WAL mode with the tables
//
//	t0(v, c), t1(v, c)   one row each: the "version" of page 0 / page 1 and how often it was written
//	lin(v)         one row: the lineage of the database
//
// the real Checkpointer (db.SwappableDB.Checkpoint) and the real snapshot store. Provenance of
// files (vcTag) is kept in a registry keyed by the SHA-256 of the file content.

import (
	"crypto/sha256"
	"encoding/hex"
	"fmt"
	"io"
	"os"
	"path/filepath"
	"time"

	command "github.com/rqlite/rqlite/v10/command/proto"
	sql "github.com/rqlite/rqlite/v10/db"
	"github.com/rqlite/rqlite/v10/internal/fsutil"
	"github.com/rqlite/rqlite/v10/internal/rsum"
)

func vcFileSum(path string) string {
	f, err := os.Open(path)
	if err != nil {
		return "missing:" + path
	}
	defer f.Close()
	h := sha256.New()
	if _, err := io.Copy(h, f); err != nil {
		return "unreadable:" + path
	}
	return hex.EncodeToString(h.Sum(nil))
}

func vcExec(d interface {
	Execute(*command.Request, bool) ([]*command.ExecuteQueryResponse, error)
}, stmts ...string) {
	req := &command.Request{}
	for _, q := range stmts {
		req.Statements = append(req.Statements, &command.Statement{Sql: q})
	}
	res, err := d.Execute(req, false)
	vcMust(err)
	for _, r := range res {
		if r.GetError() != "" {
			panic("verif: native SQL failed: " + r.GetError())
		}
	}
}

// vcMakeDBFile writes a fresh (non-WAL) SQLite file holding st.
func vcMakeDBFile(path string, st vcState) {
	vcMust(sql.RemoveFiles(path))
	d, err := sql.Open(path, false, false)
	vcMust(err)
	vcExec(d,
		"CREATE TABLE t0 (v INTEGER, c INTEGER)", "CREATE TABLE t1 (v INTEGER, c INTEGER)", "CREATE TABLE lin (v INTEGER)",
		fmt.Sprintf("INSERT INTO t0 VALUES(%d, %d)", st.p[0], st.c[0]),
		fmt.Sprintf("INSERT INTO t1 VALUES(%d, %d)", st.p[1], st.c[1]),
		fmt.Sprintf("INSERT INTO lin VALUES(%d)", st.lin))
	vcMust(d.Close())
}

const vcStateQuery = "SELECT (SELECT v FROM lin), (SELECT v FROM t0), (SELECT v FROM t1), (SELECT c FROM t0), (SELECT c FROM t1)"

func vcStateOfRows(rows []*command.QueryRows, err error) (vcState, bool) {
	if err != nil || len(rows) != 1 || rows[0].GetError() != "" || len(rows[0].Values) != 1 || len(rows[0].Values[0].Parameters) != 5 {
		return vcState{}, false
	}
	p := rows[0].Values[0].Parameters
	return vcState{lin: int(p[0].GetI()), p: [2]int{int(p[1].GetI()), int(p[2].GetI())}, c: [2]int{int(p[3].GetI()), int(p[4].GetI())}}, true
}

// vcReadDBFile reads the abstraction back from a SQLite file.
func vcReadDBFile(path string) (vcState, bool) {
	d, err := sql.Open(path, false, false)
	if err != nil {
		return vcState{}, false
	}
	defer d.Close()
	rows, err := d.QueryStringStmt(vcStateQuery)
	return vcStateOfRows(rows, err)
}

// nativeLiveState reads the abstraction through the node's own database handle.
func (e *vcEnv) nativeLiveState() (vcState, bool) {
	rows, err := e.s.db.QueryStringStmt(vcStateQuery)
	return vcStateOfRows(rows, err)
}

// nativeMarkerMatches: the clean-snapshot check of Store.Open (its lines): the marker is readable,
// modification time and size of the database file equal the marker's; the CRC32 is compared too (in
// Store.Open in the background: a mismatch removes the marker and ends the process, so the start
// after that is a slow one).
func (e *vcEnv) nativeMarkerMatches() bool {
	s := e.s
	if !fsutil.PathExists(s.cleanSnapshotPath) {
		return false
	}
	fp := &FileFingerprint{}
	if err := fp.ReadFromFile(s.cleanSnapshotPath); err != nil {
		return false
	}
	mt, sz, err := fsutil.ModTimeSize(s.dbPath)
	if err != nil {
		return false
	}
	if !mt.Equal(fp.ModTime) || sz != fp.Size {
		return false
	}
	if fp.CRC32 != 0 {
		sum, err := rsum.CRC32(s.dbPath)
		if err != nil || sum != fp.CRC32 {
			return false
		}
	}
	return true
}

// nativeLeaderImageWAL: a WAL-mode database file holding pre, and next to it (as walPaths) the WAL
// files of successive transactions, the k-th of which rewrites both pages to version ver+k (k from
// 0); the database file itself contains none of them (they are made on a working copy, which is
// checkpointed between two transactions, as a leader's database is between two snapshots).
func (e *vcEnv) nativeLeaderImageWAL(dbPath string, walPaths []string, pre vcState, ver int) {
	vcMakeDBFile(dbPath, pre)
	vcMust(sql.EnsureWALMode(dbPath))
	vcMust(sql.RemoveWALFiles(dbPath))
	work := dbPath + ".work"
	img, err := os.ReadFile(dbPath)
	vcMust(err)
	vcMust(os.WriteFile(work, img, 0o644))
	for k, walPath := range walPaths {
		d, err := sql.Open(work, false, true)
		vcMust(err)
		vcExec(d, "BEGIN", fmt.Sprintf("UPDATE t0 SET v=%d, c=c+1", ver+k), fmt.Sprintf("UPDATE t1 SET v=%d, c=c+1", ver+k), "COMMIT")
		vcMust(d.Close())
		b, err := os.ReadFile(work + "-wal")
		vcMust(err)
		if len(b) == 0 {
			panic("verif: world setup: the leader's WAL file is empty")
		}
		vcMust(os.WriteFile(walPath, b, 0o644))
		vcMust(sql.CheckpointRemove(work))
	}
	vcMust(sql.RemoveWALFiles(work))
	vcMust(os.Remove(work))
}

func (e *vcEnv) nativeCreateDB(st vcState) {
	vcMakeDBFile(e.dbPath, st)
}

func (e *vcEnv) nativeAttachDB() {
	d, err := sql.OpenSwappable(e.dbPath, nil, false, true, 0)
	vcMust(err)
	e.s.db = d
	// opening in WAL mode may have written to the WAL: fold it, so that the WAL is empty exactly
	// when nothing was written since (as in the model)
	_, _, err = d.Checkpoint(nil, 5*time.Second)
	vcMust(err)
}

func (e *vcEnv) nativeClose() {
	if e.s == nil {
		return
	}
	if e.s.snapshotStore != nil {
		e.s.snapshotStore.Close()
		e.s.snapshotStore = nil
	}
	if e.s.db != nil {
		e.s.db.Close()
		e.s.db = nil
	}
}

func (e *vcEnv) nativeWrite(page, ver int) {
	if page == 2 {
		// the page-heavy batch: both pages in one transaction
		vcExec(e.s.db, "BEGIN", fmt.Sprintf("UPDATE t0 SET v=%d, c=c+1", ver), fmt.Sprintf("UPDATE t1 SET v=%d, c=c+1", ver), "COMMIT")
		return
	}
	vcExec(e.s.db, fmt.Sprintf("UPDATE t%d SET v=%d, c=c+1", page, ver))
}

func (e *vcEnv) nativeSwapDB(st vcState) {
	e.nrestored++
	tmp := filepath.Join(e.root, fmt.Sprintf("load-%d.db", e.nrestored))
	vcMakeDBFile(tmp, st)
	vcMust(e.s.db.Swap(tmp, false, true))
	_, _, err := e.s.db.Checkpoint(nil, 5*time.Second)
	vcMust(err)
}

func (e *vcEnv) nativeTouch() {
	e.touches++
	t := time.Now().Add(time.Duration(e.touches) * time.Hour)
	vcMust(os.Chtimes(e.dbPath, t, t))
}

func (e *vcEnv) nativeCheckpoint(w io.Writer, timeout time.Duration) (*sql.CheckpointManagerMeta, int64, error) {
	fi, err := os.Stat(e.walPath)
	nonEmpty := err == nil && fi.Size() > 0
	if e.failCk && nonEmpty {
		e.failCk = false
		if w != nil {
			// the compacted copy is written before the checkpoint is attempted
			b, err := os.ReadFile(e.walPath)
			vcMust(err)
			if _, err := w.Write(b); err != nil {
				return nil, 0, err
			}
		}
		return nil, 0, vcErrBusy
	}
	if w == nil {
		meta, n, err := e.s.db.Checkpoint(nil, timeout)
		if err == nil && nonEmpty {
			e.seq++
		}
		return meta, n, err
	}
	h := sha256.New()
	meta, n, err := e.s.db.Checkpoint(io.MultiWriter(w, h), timeout)
	if err == nil && nonEmpty {
		e.seq++
		e.tags[hex.EncodeToString(h.Sum(nil))] = vcTag{ok: true, lin: e.lin, seq: e.seq}
	}
	return meta, n, err
}

func (e *vcEnv) nativeResetDB(st vcState) {
	vcMust(sql.RemoveFiles(e.dbPath))
	vcMakeDBFile(e.dbPath, st)
}
