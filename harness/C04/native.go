package store

// Native world of C04 (used only when the harness runs natively, i.e. in replays): a real
// temporary directory, a real SQLite database in WAL mode with the tables
//
//	t0(v), t1(v)   one row each: the "version" of page 0 / page 1
//	lin(v)         one row: the lineage of the database
//
// the real Checkpointer (db.SwappableDB.Checkpoint) and the real snapshot store. Provenance of
// files (vcTag) is kept in a registry keyed by the SHA-256 of the file content.

import (
	"crypto/sha256"
	"encoding/hex"
	"fmt"
	"io"
	"os"
	"path/filepath"
	"time"

	command "github.com/rqlite/rqlite/v10/command/proto"
	sql "github.com/rqlite/rqlite/v10/db"
	"github.com/rqlite/rqlite/v10/snapshot"
)

func vcFileSum(path string) string {
	f, err := os.Open(path)
	if err != nil {
		return "missing:" + path
	}
	defer f.Close()
	h := sha256.New()
	if _, err := io.Copy(h, f); err != nil {
		return "unreadable:" + path
	}
	return hex.EncodeToString(h.Sum(nil))
}

func vcExec(d interface {
	Execute(*command.Request, bool) ([]*command.ExecuteQueryResponse, error)
}, stmts ...string) {
	req := &command.Request{}
	for _, q := range stmts {
		req.Statements = append(req.Statements, &command.Statement{Sql: q})
	}
	res, err := d.Execute(req, false)
	vcMust(err)
	for _, r := range res {
		if r.GetError() != "" {
			panic("verif: native SQL failed: " + r.GetError())
		}
	}
}

// vcMakeDBFile writes a fresh (non-WAL) SQLite file holding st.
func vcMakeDBFile(path string, st vcState) {
	vcMust(sql.RemoveFiles(path))
	d, err := sql.Open(path, false, false)
	vcMust(err)
	vcExec(d,
		"CREATE TABLE t0 (v INTEGER)", "CREATE TABLE t1 (v INTEGER)", "CREATE TABLE lin (v INTEGER)",
		fmt.Sprintf("INSERT INTO t0 VALUES(%d)", st.p[0]),
		fmt.Sprintf("INSERT INTO t1 VALUES(%d)", st.p[1]),
		fmt.Sprintf("INSERT INTO lin VALUES(%d)", st.lin))
	vcMust(d.Close())
}

// vcReadDBFile reads the abstraction back from a SQLite file.
func vcReadDBFile(path string) (vcState, bool) {
	d, err := sql.Open(path, false, false)
	if err != nil {
		return vcState{}, false
	}
	defer d.Close()
	rows, err := d.QueryStringStmt("SELECT (SELECT v FROM lin), (SELECT v FROM t0), (SELECT v FROM t1)")
	if err != nil || len(rows) != 1 || rows[0].GetError() != "" || len(rows[0].Values) != 1 || len(rows[0].Values[0].Parameters) != 3 {
		return vcState{}, false
	}
	p := rows[0].Values[0].Parameters
	return vcState{lin: int(p[0].GetI()), p: [2]int{int(p[1].GetI()), int(p[2].GetI())}}, true
}

// nativeLiveState reads the abstraction through the node's own database handle.
func (e *vcEnv) nativeLiveState() (vcState, bool) {
	rows, err := e.s.db.QueryStringStmt("SELECT (SELECT v FROM lin), (SELECT v FROM t0), (SELECT v FROM t1)")
	if err != nil || len(rows) != 1 || rows[0].GetError() != "" || len(rows[0].Values) != 1 || len(rows[0].Values[0].Parameters) != 3 {
		return vcState{}, false
	}
	p := rows[0].Values[0].Parameters
	return vcState{lin: int(p[0].GetI()), p: [2]int{int(p[1].GetI()), int(p[2].GetI())}}, true
}

func (e *vcEnv) nativeCreateDB(st vcState) {
	vcMakeDBFile(e.dbPath, st)
}

func (e *vcEnv) nativeAttachDB() {
	d, err := sql.OpenSwappable(e.dbPath, nil, false, true, 0)
	vcMust(err)
	e.s.db = d
	// opening in WAL mode may have written to the WAL: fold it, so that the WAL is empty exactly
	// when nothing was written since (as in the model)
	_, _, err = d.Checkpoint(nil, 5*time.Second)
	vcMust(err)
}

func (e *vcEnv) nativeClose() {
	if e.s == nil {
		return
	}
	if e.s.snapshotStore != nil {
		e.s.snapshotStore.Close()
		e.s.snapshotStore = nil
	}
	if e.s.db != nil {
		e.s.db.Close()
		e.s.db = nil
	}
}

func (e *vcEnv) nativeWrite(page, ver int) {
	vcExec(e.s.db, fmt.Sprintf("UPDATE t%d SET v=%d", page, ver))
}

func (e *vcEnv) nativeSwapDB(st vcState) {
	e.nrestored++
	tmp := filepath.Join(e.root, fmt.Sprintf("load-%d.db", e.nrestored))
	vcMakeDBFile(tmp, st)
	vcMust(e.s.db.Swap(tmp, false, true))
	_, _, err := e.s.db.Checkpoint(nil, 5*time.Second)
	vcMust(err)
}

func (e *vcEnv) nativeTouch() {
	e.touches++
	t := time.Now().Add(time.Duration(e.touches) * time.Hour)
	vcMust(os.Chtimes(e.dbPath, t, t))
}

func (e *vcEnv) nativeCheckpoint(w io.Writer, timeout time.Duration) (*sql.CheckpointManagerMeta, int64, error) {
	fi, err := os.Stat(e.walPath)
	nonEmpty := err == nil && fi.Size() > 0
	if e.failCk && nonEmpty {
		e.failCk = false
		if w != nil {
			// the compacted copy is written before the checkpoint is attempted
			b, err := os.ReadFile(e.walPath)
			vcMust(err)
			if _, err := w.Write(b); err != nil {
				return nil, 0, err
			}
		}
		return nil, 0, vcErrBusy
	}
	if w == nil {
		meta, n, err := e.s.db.Checkpoint(nil, timeout)
		if err == nil && nonEmpty {
			e.seq++
		}
		return meta, n, err
	}
	h := sha256.New()
	meta, n, err := e.s.db.Checkpoint(io.MultiWriter(w, h), timeout)
	if err == nil && nonEmpty {
		e.seq++
		e.tags[hex.EncodeToString(h.Sum(nil))] = vcTag{ok: true, lin: e.lin, seq: e.seq}
	}
	return meta, n, err
}

func (e *vcEnv) nativeRestore(id string) (vcState, bool) {
	_, rc, err := e.s.snapshotStore.Open(id)
	if err != nil {
		return vcState{}, false
	}
	e.nrestored++
	tmp := filepath.Join(e.root, fmt.Sprintf("restored-%d.db", e.nrestored))
	_, err = snapshot.Restore(rc, tmp)
	rc.Close()
	if err != nil {
		return vcState{}, false
	}
	e.lastRestored = tmp
	return vcReadDBFile(tmp)
}

func (e *vcEnv) nativeResetDB(st vcState) {
	vcMust(sql.RemoveFiles(e.dbPath))
	if e.lastRestored != "" {
		vcMust(sql.RemoveWALFiles(e.lastRestored))
		vcMust(os.Rename(e.lastRestored, e.dbPath))
		e.lastRestored = ""
		return
	}
	vcMakeDBFile(e.dbPath, st)
}
