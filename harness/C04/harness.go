package store

// C04: the snapshot store plus the log always rebuilds the applied state.
//
// The harness drives the REAL store.fsmSnapshot (both branches), snapshotDueNext/dbModified,
// FSMSnapshot.Persist/Release with the Finalizer and the OnRelease closure, store.fsmRestore,
// snapshot.StagingDir/WALWriter, snapshot.Store.Create/Open/DueNext/SetDueNext/List, snapshot.Sink
// (Open/Write/Close/Cancel), snapshot.FullSink, the streamers, snapshot.Restore,
// SnapshotCatalog.Scan and SnapshotSet.ResolveFiles through histories of
//
//	write batch (page 0 / page 1 / both)     one applied log entry
//	snapshot with outcome                    ok | released without Persist | Persist fails (sink write error) |
//	                                         checkpoint busy | process dies after Persist, before Sink.Close |
//	                                         a LOAD is applied between FSM.Snapshot and Persist
//	LOAD                                     database replaced (new lineage), FULL_NEEDED
//	BOOT                                     Store.ReadFrom: a no-op entry, database replaced (new lineage)
//	                                         outside the log, FULL_NEEDED, full snapshot at once
//	INSTALL                                  follower snapshot install: the leader's image (the same database,
//	                                         every page rewritten by an entry this node never received; a
//	                                         database file, or a database file and a WAL file) is written into
//	                                         a sink of the node's snapshot store, the sink is closed, the
//	                                         snapshot is opened and handed to the REAL fsmRestore
//	                                         (nWAL == 2: the node lags by two entries, the image is a database
//	                                         file and two WAL files)
//	REAP                                     consolidation of the snapshot store: the REAL snapshot.Store.Reap
//	                                         (reapInternal builds the plan, plan.Executor folds the WAL files of
//	                                         the chain - those of an installed full snapshot and those of the
//	                                         local incrementals - into the database file of the full snapshot)
//	touch                                    database file looks modified from outside (dbModified)
//	restart                                  the process ends and starts again: FAST start when the
//	                                         clean_snapshot marker matches the database file (file kept, WAL
//	                                         dropped, no restore) or SLOW start (a new empty database, the
//	                                         newest snapshot opened and handed to the REAL fsmRestore); then
//	                                         the log entries after the newest snapshot are re-applied
//
// in a PAGE-VERSION abstraction: the database is (lineage; for page 0 and page 1: version, number
// of times written); a write batch sets one page (or both: the page-heavy batch) to a fresh version
// AND increments its write count - so applying an entry twice is visible, as it is for an INSERT
// or "SET n = n + 1"; a WAL file is the token "these pages with these contents, cut from lineage l
// by checkpoint number q"; a database file is the token "lineage l, both pages, as of checkpoint
// number q".
//
// Symbolic run: file system, SQLite handle, Checkpointer, protobuf and CRC are models (fsmodel.go).
// Native replay: a real temporary directory, a real SQLite database (tables t0, t1, lin), the real
// Checkpointer, real protobuf/CRC (native.go). In both worlds the database a snapshot rebuilds is
// obtained with the real snapshot.Store.Open + snapshot.Restore. The harness code is the same in
// both.
//
// Oracle (from the property statement): after every published or installed snapshot and at every
// restart, the newest snapshot's resolved files, applied in order, give exactly the database the
// node had applied at that snapshot's index; every WAL file of the chain was cut from the lineage
// of the base and after the base (a token older than the base it is applied to is never in a
// chain); after an install, a boot and a restart (restore or kept file, then log replay) the LIVE
// database is the one the node had applied - nothing lost, reverted or applied twice.
//
// The hashicorp/raft side is a protocol model: takeSnapshot = vcHist.snapshot (FSM.Snapshot on the
// FSM thread; then (snapshot thread) maybe give up before Persist; SnapshotStore.Create; Persist; on
// a Persist error Cancel; else Close; Release last), installSnapshot + restore = vcHist.install,
// the start-up sequence of Store.Open = vcHist.restart, Store.ReadFrom = vcHist.boot.

import (
	"io"
	"log"
	"os"
	"path/filepath"
	"time"

	"github.com/hashicorp/raft"
	sql "github.com/rqlite/rqlite/v10/db"
	"github.com/rqlite/rqlite/v10/internal/rsync"
	"github.com/rqlite/rqlite/v10/snapshot"
)

// ---------------------------------------------------------------- abstraction

// vcState is a database in the page-version abstraction.
type vcState struct {
	lin int    // lineage: which database this is (0 = the one the node started with, a LOAD makes a new one)
	p   [2]int // version of page 0 / page 1 (0 = never written)
	c   [2]int // how many write batches have been applied to page 0 / page 1
}

// vcTag is the provenance of a file.
type vcTag struct {
	ok  bool
	lin int // lineage of the database it was cut from
	seq int // number of the checkpoint (or database creation) that produced it
}

var vcDBMagic = []byte("SQLite format 3\x00")
var vcWALMagic = []byte{0x37, 0x7f, 0x06, 0x82, 0x00, 0x2d, 0xe2, 0x18}

const (
	vcDBTokLen  = 16 + 6 // magic, lineage, checkpoint number, 2 x (version, count)
	vcWALTokLen = 8 + 8  // magic, lineage, checkpoint number, 2 x (present, version, count)
)

func vcDBBytes(st vcState, seq int) []byte {
	b := append([]byte(nil), vcDBMagic...)
	return append(b, byte(st.lin), byte(seq), byte(st.p[0]), byte(st.c[0]), byte(st.p[1]), byte(st.c[1]))
}

func vcWALBytes(lin, seq int, v, c [2]int, has [2]bool) []byte {
	b := append([]byte(nil), vcWALMagic...)
	b = append(b, byte(lin), byte(seq))
	for i := 0; i < 2; i++ {
		if has[i] {
			b = append(b, 1, byte(v[i]), byte(c[i]))
		} else {
			b = append(b, 0, 0, 0)
		}
	}
	return b
}

// vcDecodeDB reads a database token.
func vcDecodeDB(data []byte) (st vcState, seq int, ok bool) {
	if len(data) != vcDBTokLen || string(data[:16]) != string(vcDBMagic) {
		return vcState{}, 0, false
	}
	d := data[16:]
	return vcState{lin: int(d[0]), p: [2]int{int(d[2]), int(d[4])}, c: [2]int{int(d[3]), int(d[5])}}, int(d[1]), true
}

// vcFoldWAL applies a WAL token to st (what replaying / checkpointing that WAL does to a database).
func vcFoldWAL(st *vcState, data []byte) (lin, seq int, ok bool) {
	if len(data) != vcWALTokLen {
		return 0, 0, false
	}
	w := data[8:]
	for i := 0; i < 2; i++ {
		if w[2+3*i] == 1 {
			st.p[i], st.c[i] = int(w[3+3*i]), int(w[4+3*i])
		}
	}
	return int(w[0]), int(w[1]), true
}

// ---------------------------------------------------------------- environment (both worlds)

type vcEnv struct {
	root    string
	dbPath  string
	walPath string
	s       *Store
	snaps   *snapshot.Store
	seq     int // checkpoints that moved pages + databases created so far
	lin     int // lineage of the current database
	failCk  bool

	// symbolic world: the database
	mainSt vcState
	wal    [2]int
	walC   [2]int
	walHas [2]bool
	mt     int64 // modification-time counter

	// native world
	tags      map[string]vcTag
	touches   int
	nrestored int
	nimages   int // leader images made so far (both worlds)
	ntemps    int // symbolic world: scratch files made by createTemp
}

var vcEnvCur *vcEnv

var vcErrBusy = &vcBusyError{}

type vcBusyError struct{}

func (*vcBusyError) Error() string { return "verif: checkpoint busy (retryable)" }

func vcMust(err error) {
	if err != nil {
		panic("verif: world setup: " + err.Error())
	}
}

func vcNewEnv() *vcEnv {
	e := &vcEnv{tags: map[string]vcTag{}}
	if verifSymbolic() {
		e.root = "/vc04"
		vcFS = vcNewFS(e.root)
	} else {
		d, err := os.MkdirTemp("", "vc04-")
		vcMust(err)
		e.root = d
	}
	e.dbPath = filepath.Join(e.root, "db.sqlite")
	e.walPath = e.dbPath + "-wal"
	vcEnvCur = e
	e.seq++
	e.createDB(vcState{})
	e.openStore()
	e.attachDB()
	return e
}

func (e *vcEnv) drop() {
	if !verifSymbolic() {
		e.nativeClose()
		os.RemoveAll(e.root)
	}
}

// openStore builds the Store the way New + Open leave it, as far as fsmSnapshot and the snapshot
// path look at it, over the directories of the environment (the database must exist).
func (e *vcEnv) openStore() {
	s := &Store{
		open:              rsync.NewAtomicBool(),
		snapshotSync:      rsync.NewSyncChannels(),
		snapshotCAS:       rsync.NewCheckAndSet(),
		dbModifiedTime:    rsync.NewAtomicTime(),
		logger:            log.New(io.Discard, "", 0),
		RaftLogLevel:      "WARN",
		raftID:            "n1",
		raftDir:           e.root,
		snapshotDir:       filepath.Join(e.root, "rsnapshots"),
		walStagingDir:     filepath.Join(e.root, walStagingDirName),
		cleanSnapshotPath: filepath.Join(e.root, "clean_snapshot"),
		dbDir:             e.root,
		dbPath:            e.dbPath,
		walPath:           e.walPath,
		dbConf:            NewDBConfig(),
		fsmTarget:         rsync.NewReadyTarget[uint64](),
		appliedTarget:     rsync.NewReadyTarget[uint64](),
	}
	st, err := snapshot.NewStore(s.snapshotDir)
	vcMust(err)
	st.SetReapThreshold(1000) // no automatic reap: consolidation happens where a history has a REAP step
	st.SetNoVerifyDB(true)
	st.SetReadTimeout(0) // no idle timer on the readers returned by Open
	s.snapshotStore = st
	e.snaps = st
	// Store.Open: "Clean up any files from aborted operations"
	vcMust(os.RemoveAll(s.walStagingDir))
	s.checkpointer = &vcCkpt{e}
	e.s = s
}

// attachDB opens the database handle of the Store on the database file of the environment.
func (e *vcEnv) attachDB() {
	if verifSymbolic() {
		e.s.db = new(sql.SwappableDB)
	} else {
		e.nativeAttachDB()
	}
	e.s.open.Set()
}

// createDB makes the database file of the environment hold st, with an empty WAL (a new file).
func (e *vcEnv) createDB(st vcState) {
	e.lin = st.lin
	if !verifSymbolic() {
		e.nativeCreateDB(st)
		return
	}
	e.mainSt = st
	e.walHas = [2]bool{}
	vcOsRemove(e.dbPath)
	vcOsRemove(e.walPath)
	e.syncDBFile()
	e.syncWALFile()
}

func (e *vcEnv) syncDBFile() {
	n, ok := vcFS.nodes[e.dbPath]
	if !ok {
		var err error
		n, err = vcCreateFile(e.dbPath)
		vcMust(err)
	}
	n.data = vcDBBytes(e.mainSt, e.seq)
	e.mt++
	n.mtime = e.mt
}

func (e *vcEnv) syncWALFile() {
	n, ok := vcFS.nodes[e.walPath]
	if !ok {
		var err error
		n, err = vcCreateFile(e.walPath)
		vcMust(err)
	}
	if e.walHas[0] || e.walHas[1] {
		n.data = vcWALBytes(e.mainSt.lin, 0, e.wal, e.walC, e.walHas)
	} else {
		n.data = nil
	}
}

// write: one applied write batch that touches one page (page 2 = both pages, one transaction).
func (e *vcEnv) write(page, ver int) {
	if !verifSymbolic() {
		e.nativeWrite(page, ver)
		return
	}
	cur, _ := e.liveState()
	for i := 0; i < 2; i++ {
		if page == i || page == 2 {
			e.wal[i], e.walC[i], e.walHas[i] = ver, cur.c[i]+1, true
		}
	}
	e.syncWALFile()
}

// swapDB: what db.Swap does for a LOAD: the database is replaced by a new one.
func (e *vcEnv) swapDB(st vcState) {
	e.seq++
	e.lin = st.lin
	if !verifSymbolic() {
		e.nativeSwapDB(st)
		return
	}
	e.mainSt = st
	e.walHas = [2]bool{}
	vcOsRemove(e.dbPath)
	e.syncDBFile()
	e.syncWALFile()
}

// touch: the database file gets a later modification time without the Store doing it.
func (e *vcEnv) touch() {
	if !verifSymbolic() {
		e.nativeTouch()
		return
	}
	e.mt++
	vcFS.nodes[e.dbPath].mtime = e.mt
}

// leaderImage makes a database file holding st outside the node's own directories (what the
// leader streams to a follower) and returns its path.
func (e *vcEnv) leaderImage(st vcState) string {
	e.seq++
	e.nimages++
	dir := filepath.Join(e.root, "leader")
	vcMust(os.MkdirAll(dir, 0o755))
	path := filepath.Join(dir, "image-"+string(rune('a'+e.nimages%26))+".db")
	if !verifSymbolic() {
		vcMakeDBFile(path, st)
		// a leader's database file is in WAL mode (a follower checkpoints its own WAL files into it)
		vcMust(sql.EnsureWALMode(path))
		vcMust(sql.RemoveWALFiles(path))
		e.tags[vcFileSum(path)] = vcTag{ok: true, lin: st.lin, seq: e.seq}
		return path
	}
	n, err := vcCreateFile(path)
	vcMust(err)
	n.data = vcDBBytes(st, e.seq)
	return path
}

// leaderImageWAL makes a database file holding pre and n WAL files, the k-th of which (k from 0)
// rewrites both pages to version ver+k (what a leader with a full and n incremental snapshots
// streams).
func (e *vcEnv) leaderImageWAL(pre vcState, ver, n int) (string, []string) {
	e.seq += n + 1
	e.nimages++
	dir := filepath.Join(e.root, "leader")
	vcMust(os.MkdirAll(dir, 0o755))
	base := filepath.Join(dir, "image-"+string(rune('a'+e.nimages%26)))
	db := base + ".db"
	var wals []string
	for k := 0; k < n; k++ {
		wals = append(wals, base+"-"+string(rune('0'+k))+".wal")
	}
	if !verifSymbolic() {
		e.nativeLeaderImageWAL(db, wals, pre, ver)
		e.tags[vcFileSum(db)] = vcTag{ok: true, lin: pre.lin, seq: e.seq - n}
		for k, wal := range wals {
			e.tags[vcFileSum(wal)] = vcTag{ok: true, lin: pre.lin, seq: e.seq - n + 1 + k}
		}
		return db, wals
	}
	f, err := vcCreateFile(db)
	vcMust(err)
	f.data = vcDBBytes(pre, e.seq-n)
	for k, wal := range wals {
		w, err := vcCreateFile(wal)
		vcMust(err)
		w.data = vcWALBytes(pre.lin, e.seq-n+1+k, [2]int{ver + k, ver + k}, [2]int{pre.c[0] + 1 + k, pre.c[1] + 1 + k}, [2]bool{true, true})
	}
	return db, wals
}

// liveState: the database as a reader of the node sees it now.
func (e *vcEnv) liveState() (vcState, bool) {
	if !verifSymbolic() {
		return e.nativeLiveState()
	}
	st := e.mainSt
	for i := 0; i < 2; i++ {
		if e.walHas[i] {
			st.p[i], st.c[i] = e.wal[i], e.walC[i]
		}
	}
	return st, true
}

// markerMatches: Store.Open's clean-snapshot check of the database file against the marker.
func (e *vcEnv) markerMatches() bool {
	if !verifSymbolic() {
		return e.nativeMarkerMatches()
	}
	m, ok := vcFS.nodes[e.s.cleanSnapshotPath]
	d, ok2 := vcFS.nodes[e.dbPath]
	if !ok || !ok2 || m.fp == nil {
		return false
	}
	return m.fp.mtime == d.mtime && m.fp.size == int64(len(d.data)) && m.fp.crc == vcCRCOf(d.data)
}

// removeMarker: "fsutil.RemoveFile(s.cleanSnapshotPath)" of the slow start.
func (e *vcEnv) removeMarker() {
	os.Remove(e.s.cleanSnapshotPath)
}

// dropWAL: createDBOnDisk(remove = false) keeps the database file and removes its WAL files.
func (e *vcEnv) dropWAL() {
	if !verifSymbolic() {
		vcMust(sql.RemoveWALFiles(e.dbPath))
		return
	}
	e.walHas = [2]bool{}
	e.syncWALFile()
}

// walEmpty: nothing written since the last checkpoint.
func (e *vcEnv) walEmpty() bool {
	fi, err := os.Stat(e.walPath)
	return err != nil || fi.Size() == 0
}

// vcCkpt is the Checkpointer handed to the Store.
type vcCkpt struct{ e *vcEnv }

func (c *vcCkpt) Checkpoint(w io.Writer, timeout time.Duration) (*sql.CheckpointManagerMeta, int64, error) {
	e := c.e
	if !verifSymbolic() {
		return e.nativeCheckpoint(w, timeout)
	}
	if !e.walHas[0] && !e.walHas[1] {
		return &sql.CheckpointManagerMeta{}, 0, nil
	}
	if w != nil {
		if _, err := w.Write(vcWALBytes(e.mainSt.lin, e.seq+1, e.wal, e.walC, e.walHas)); err != nil {
			return nil, 0, err
		}
	}
	if e.failCk {
		// a reader pins the WAL: the compacted copy has been written, the checkpoint does not
		// complete; database and WAL unchanged
		e.failCk = false
		return nil, 0, vcErrBusy
	}
	e.seq++
	var moved int64
	for i := 0; i < 2; i++ {
		if e.walHas[i] {
			e.mainSt.p[i], e.mainSt.c[i] = e.wal[i], e.walC[i]
			moved++
		}
	}
	e.walHas = [2]bool{}
	e.syncDBFile()
	e.syncWALFile()
	return &sql.CheckpointManagerMeta{}, moved, nil
}

// noteFullImage: a full snapshot is about to stream the database file as it is now.
func (e *vcEnv) noteFullImage() {
	if !verifSymbolic() {
		e.tags[vcFileSum(e.dbPath)] = vcTag{ok: true, lin: e.lin, seq: e.seq}
	}
}

func (e *vcEnv) tagDB(path string) vcTag {
	if !verifSymbolic() {
		return e.tags[vcFileSum(path)]
	}
	n, ok := vcFS.nodes[path]
	if !ok {
		return vcTag{}
	}
	st, seq, ok := vcDecodeDB(n.data)
	return vcTag{ok: ok, lin: st.lin, seq: seq}
}

func (e *vcEnv) tagWAL(path string) vcTag {
	if !verifSymbolic() {
		return e.tags[vcFileSum(path)]
	}
	n, ok := vcFS.nodes[path]
	if !ok {
		return vcTag{}
	}
	var scratch vcState
	lin, seq, ok := vcFoldWAL(&scratch, n.data)
	return vcTag{ok: ok, lin: lin, seq: seq}
}

// restore: the database a node gets from snapshot id, in both worlds through the real
// snapshot.Store.Open (resolution of the chain, streamer) and the real snapshot.Restore into a
// scratch file. Symbolic: the WAL replay inside Restore is the token fold vcReplayWAL and the
// result is decoded from the token; native: real SQLite, read back with SQL.
func (e *vcEnv) restore(id string) (vcState, bool) {
	_, rc, err := e.s.snapshotStore.Open(id)
	if err != nil {
		return vcState{}, false
	}
	e.nrestored++
	tmp := filepath.Join(e.root, "restored-"+string(rune('a'+e.nrestored%26))+".db")
	_, err = snapshot.Restore(rc, tmp)
	rc.Close()
	if err != nil {
		return vcState{}, false
	}
	if !verifSymbolic() {
		return vcReadDBFile(tmp)
	}
	n, ok := vcFS.nodes[tmp]
	if !ok {
		return vcState{}, false
	}
	st, _, ok := vcDecodeDB(n.data)
	vcFS.del(tmp)
	return st, ok
}

// ---------------------------------------------------------------- history driver

const (
	vcWrite = iota
	vcLoad
	vcNop // an entry that does not change the database when applied (ReadFrom's "boot" no-op, or an
	// entry of the leader's log that this node only ever received inside an installed snapshot)
)

type vcEntry struct {
	kind int
	page int
	ver  int
	lin  int
}

type vcHist struct {
	e       *vcEnv
	applied int // raft index of the last applied entry
	log     []vcEntry
	live    vcState
	stateAt []vcState // stateAt[i] = database after entry i
	nextLin int
	// what the harness knows about pending work
	loadPending bool // a LOAD has been applied and no full snapshot image was cut since
	// a full FSM snapshot that was due ONLY because the database file looked modified (no
	// FULL_NEEDED flag, snapshots present) folded the WAL into the database file and was then not
	// published; no full snapshot has been published and no restart has happened since
	fullForgotten bool
	// WAL files retained from skipped / failed Persists were in the staging directory when a
	// snapshot was installed from the leader; no full FSM snapshot and no restart since
	retainedAtInstall bool
	// index of the snapshot for which the clean-snapshot marker was last written (by the Finalizer
	// inside Persist, or by fsmRestore)
	markerIdx int
}

func vcNewHist() *vcHist {
	h := &vcHist{e: vcNewEnv(), nextLin: 1}
	h.stateAt = []vcState{{}}
	return h
}

func (h *vcHist) applyEntry(en vcEntry) {
	switch en.kind {
	case vcWrite:
		h.e.write(en.page, en.ver)
	case vcLoad:
		// the LOAD arm of fsmApply: the command processor swaps the database, then
		// "Swapping in a new database invalidates any existing snapshot."
		h.e.swapDB(vcState{lin: en.lin, p: [2]int{en.ver, en.ver}})
		verifAssert("C04-set-full-needed-ok", h.e.s.snapshotStore.SetDueNext(snapshot.Full) == nil)
		h.loadPending = true
	}
}

// write: one write batch is applied: page 0, page 1, or (page 2) both pages in one transaction -
// the page-heavy batch.
func (h *vcHist) write(page int) {
	h.applied++
	en := vcEntry{kind: vcWrite, page: page, ver: h.applied}
	h.log = append(h.log, en)
	h.applyEntry(en)
	for i := 0; i < 2; i++ {
		if page == i || page == 2 {
			h.live.p[i] = en.ver
			h.live.c[i]++
		}
	}
	h.stateAt = append(h.stateAt, h.live)
}

func (h *vcHist) load() {
	h.applied++
	en := vcEntry{kind: vcLoad, ver: h.applied, lin: h.nextLin}
	h.nextLin++
	h.log = append(h.log, en)
	h.applyEntry(en)
	h.live = vcState{lin: en.lin, p: [2]int{en.ver, en.ver}}
	h.stateAt = append(h.stateAt, h.live)
	verifReach("load-full-needed")
}

// nop: one applied entry that leaves the database as it is.
func (h *vcHist) nop(after vcState) {
	h.applied++
	h.log = append(h.log, vcEntry{kind: vcNop})
	h.live = after
	h.stateAt = append(h.stateAt, h.live)
}

// boot: Store.ReadFrom on a single-node leader (its raft-facing lines, in its order): "Raft won't
// snapshot unless there is at least one unsnapshotted log entry" - a no-op entry is applied; the
// new database is swapped in WITHOUT a log entry; "Snapshot, so we load the new database into the
// Raft system": SetDueNext(Full), then Snapshot(1). From then on the system is documented to be
// "as if the data had been loaded through Raft consensus": the database applied at the index of
// that snapshot is the booted one.
func (h *vcHist) boot() {
	ver := h.applied + 1
	st := vcState{lin: h.nextLin, p: [2]int{ver, ver}}
	h.nextLin++
	h.nop(st)
	h.e.swapDB(st)
	verifAssert("C04-set-full-needed-ok", h.e.s.snapshotStore.SetDueNext(snapshot.Full) == nil)
	h.loadPending = true
	verifReach("booted")
	h.snapshot(vcOK)
	// ReadFrom returns the error of Snapshot: a boot that succeeded has published its snapshot
	verifAssert("C04-boot-full-snapshot-taken", !h.loadPending)
	h.checkLive("boot")
}

// install: hashicorp/raft's installSnapshot + the restore it hands to the FSM thread, on a node
// that lags behind the leader by (at least) one entry it never received: SnapshotStore.Create
// with the leader's index; the leader's stream copied into the sink (Cancel on error); sink.Close;
// then SnapshotStore.Open(sink.ID()), FSM.Restore(reader), reader closed; last applied = index of
// the snapshot. The leader's image is the same database with every page rewritten by that entry,
// streamed by the real snapshot.SnapshotStreamer: either from a database file alone (a leader
// whose newest snapshot is a full one), or (withWAL) from the database file as of this node's
// applied state plus one WAL file holding that entry (a leader with a full and an incremental
// snapshot).
//
// With nWAL == 2 the node lags behind by two such entries and the leader streams the database file
// and two WAL files (a leader with a full and two incremental snapshots), one entry each.
func (h *vcHist) install(nWAL int) {
	s := h.e.s
	withWAL := nWAL > 0
	lag := 1
	if nWAL > 1 {
		lag = nWAL
	}
	first := h.applied + 1
	idx := uint64(h.applied + lag)
	img := vcState{lin: h.live.lin, p: [2]int{int(idx), int(idx)}, c: [2]int{h.live.c[0] + lag, h.live.c[1] + lag}}
	var mids []vcState // the database after each entry before the last one
	for k := 1; k < lag; k++ {
		mids = append(mids, vcState{lin: h.live.lin, p: [2]int{first + k - 1, first + k - 1}, c: [2]int{h.live.c[0] + k, h.live.c[1] + k}})
	}
	vcTick()
	retained := h.stagedWALs() > 0
	var src string
	var srcWALs []string
	if withWAL {
		src, srcWALs = h.e.leaderImageWAL(h.live, first, nWAL)
		verifReach("installed-db-and-wal")
		if nWAL > 1 {
			verifReach("installed-db-and-two-wals")
		}
	} else {
		src = h.e.leaderImage(img)
	}
	sink, err := s.snapshotStore.Create(1, idx, 1, raft.Configuration{}, 0, nil)
	verifAssert("C04-install-sink-create-ok", err == nil)
	str, err := snapshot.NewSnapshotStreamer(src, srcWALs...)
	verifAssert("C04-install-streamer-ok", err == nil)
	verifAssert("C04-install-streamer-open-ok", str.Open() == nil)
	_, cerr := io.Copy(sink, str)
	str.Close()
	verifAssert("C04-install-copy-ok", cerr == nil)
	verifAssert("C04-install-sink-close-ok", sink.Close() == nil)
	_, rc, err := s.snapshotStore.Open(sink.ID())
	verifAssert("C04-install-open-ok", err == nil)
	rerr := NewFSM(s).Restore(rc)
	rc.Close()
	verifAssert("C04-install-restore-ok", rerr == nil)
	h.e.lin = img.lin
	h.markerIdx = int(idx)
	for _, mid := range mids {
		h.nop(mid)
	}
	h.nop(img)
	h.loadPending = false
	h.fullForgotten = false
	h.retainedAtInstall = h.retainedAtInstall || retained
	verifReach("installed")
	if retained {
		verifReach("installed-with-retained-wal")
	}
	h.checkLive("install")
	h.checkNewest("install", idx)
}

// reap: the consolidation of the snapshot store (snapshot.Store.Reap, what the reap loop does when
// the number of snapshots reaches the threshold): the REAL reapInternal builds the plan, the REAL
// plan.Executor folds the WAL files of the chain into the database file of the newest full snapshot
// (symbolic: db.CheckpointRemove is the token fold; native: real SQLite), removes the incremental
// snapshots and renames the result to the newest snapshot's id. Oracle: the store still holds a
// snapshot for the same index, and it rebuilds the same database as before, which is the database
// the node had applied at that index; the consolidated database file is the base as of the LAST
// checkpoint of the chain (a plan that folds the WAL files in another order than the one they were
// produced in leaves an older checkpoint last, or an older page image on top).
func (h *vcHist) reap() {
	st := h.e.snaps
	metas, err := st.List()
	verifAssert("C04-reap-list-ok", err == nil)
	if len(metas) == 0 {
		n, c, err := st.Reap()
		verifAssert("C04-reap-empty-store-nothing-to-do", err == nil && n == 0 && c == 0)
		return
	}
	m := metas[0]
	dbFile, walFiles, err := snapshot.VerifC04Resolve(st, m.ID)
	verifAssert("C04-reap-before-resolves", err == nil && dbFile != "")
	last := h.e.tagDB(dbFile)
	chainOK := last.ok
	for _, wf := range walFiles {
		t := h.e.tagWAL(wf)
		if !t.ok || t.lin != last.lin || t.seq <= last.seq {
			chainOK = false
		}
		last.seq = t.seq
	}
	before, okBefore := h.e.restore(m.ID)
	verifAssert("C04-reap-before-restorable", okBefore)
	vcTick()
	_, nwals, err := st.Reap()
	verifAssert("C04-reap-ok", err == nil)
	// a store that holds a single snapshot is left as it is, even when that snapshot (an installed
	// one) has WAL files of its own: nothing is folded then
	folded := err == nil && nwals > 0
	if folded {
		verifReach("reap-consolidated")
		if len(walFiles) > 1 {
			verifReach("reap-consolidated-chain")
		}
	} else {
		verifReach("reap-nothing-to-fold")
	}
	metas, err = st.ListAll()
	verifAssert("C04-reap-leaves-one-snapshot", err == nil && len(metas) == 1)
	if !verifSymbolic() && chainOK && folded && len(metas) == 1 {
		// native world: provenance is kept by content; the consolidated database file is new
		// content, by definition the base as of the last checkpoint of the chain
		if db2, _, err := snapshot.VerifC04Resolve(st, metas[0].ID); err == nil && db2 != "" {
			if _, known := h.e.tags[vcFileSum(db2)]; !known {
				h.e.tags[vcFileSum(db2)] = last
			}
		}
	}
	after, idx, any := h.checkNewest("reap", m.Index)
	verifAssert("C04-reap-keeps-a-snapshot", any && idx == m.Index)
	verifAssert("C04-reap-rebuilds-the-same-database", after == before)
	if any && chainOK && folded {
		db2, wals2, err := snapshot.VerifC04Resolve(st, metas[0].ID)
		verifAssert("C04-reap-after-resolves", err == nil && len(wals2) == 0)
		if verifSymbolic() {
			t := h.e.tagDB(db2)
			verifAssert("C04-reap-folded-in-checkpoint-order", t.ok && t.lin == last.lin && t.seq == last.seq)
		}
	}
}

// checkLive: the database the node serves is the one it has applied.
func (h *vcHist) checkLive(tag string) {
	got, ok := h.e.liveState()
	verifAssert("C04-"+tag+"-live-readable", ok)
	verifAssert("C04-"+tag+"-live-lineage", got.lin == h.live.lin)
	verifAssert("C04-"+tag+"-live-page0", got.p[0] == h.live.p[0])
	verifAssert("C04-"+tag+"-live-page1", got.p[1] == h.live.p[1])
	verifAssert("C04-"+tag+"-live-writes0", got.c[0] == h.live.c[0])
	verifAssert("C04-"+tag+"-live-writes1", got.c[1] == h.live.c[1])
}

// snapshot outcomes
const (
	vcOK          = iota
	vcSkip        // raft gives up before Persist (configuration change outstanding): Release only
	vcPersistFail // Persist fails: the sink reports a write error after it has taken the data; raft cancels the sink
	vcCkBusy      // the checkpoint inside FSM.Snapshot does not complete (retryable)
	vcDieAtClose  // the process dies when raft is about to close the sink; restart
	vcLoadRace    // a LOAD is applied between FSM.Snapshot and Persist
)

type vcCrash struct{ what string }

// vcFailingSink is a snapshot sink whose Write hands the data to the real sink and then reports an
// I/O error (a full disk, a failing device): Persist fails after the stream was written.
type vcFailingSink struct {
	raft.SnapshotSink
}

var vcErrSinkIO = &vcSinkIOError{}

type vcSinkIOError struct{}

func (*vcSinkIOError) Error() string { return "verif: snapshot sink write failed" }

func (f *vcFailingSink) Write(p []byte) (int, error) {
	n, err := f.SnapshotSink.Write(p)
	if err != nil {
		return n, err
	}
	return n, vcErrSinkIO
}

func (h *vcHist) stagedWALs() int {
	w, err := h.e.s.StagedWALs()
	if err != nil {
		return -1
	}
	return len(w)
}

// snapshot: hashicorp/raft's takeSnapshot with the given outcome.
func (h *vcHist) snapshot(outcome int) {
	s := h.e.s
	idx := uint64(h.applied)
	if idx == 0 {
		return // raft: ErrNothingNewToSnapshot
	}
	vcTick()
	storeDue, derr := s.snapshotStore.DueNext()
	verifAssert("C04-due-next-ok", derr == nil)
	walEmpty := h.e.walEmpty()
	stagedBefore := h.stagedWALs()
	if outcome == vcCkBusy {
		h.e.failCk = true
	}
	fsnap, err := NewFSM(s).Snapshot()
	busy := outcome == vcCkBusy && !h.e.failCk // the injected failure was consumed
	h.e.failCk = false
	if err != nil {
		if err == ErrNoWALToSnapshot {
			// "nothing to snapshot": only when nothing was written since the last checkpoint
			// and the database was not replaced
			verifAssert("C04-no-wal-only-when-nothing-new", walEmpty && !h.loadPending)
			verifReach("no-wal-to-snapshot")
			return
		}
		verifAssert("C04-fsm-snapshot-fails-only-when-checkpoint-fails", busy)
		// "ensures cleanup on error paths": a failed attempt leaves no file behind in the staging directory
		verifAssert("C04-failed-attempt-stages-nothing", h.stagedWALs() == stagedBefore)
		verifReach("checkpoint-failed-cleanup")
		return
	}
	fs := fsnap.(*FSMSnapshot)
	unflaggedFull := false
	if fs.Type.IsFull() {
		h.e.noteFullImage()
		h.loadPending = false
		h.retainedAtInstall = false
		unflaggedFull = storeDue == snapshot.Incremental && !walEmpty
	}
	if outcome == vcSkip {
		fsnap.Release()
		h.fullForgotten = h.fullForgotten || unflaggedFull
		verifReach("released-without-persist")
		return
	}
	if outcome == vcLoadRace {
		h.load()
	}
	sink, err := s.snapshotStore.Create(1, idx, 1, raft.Configuration{}, 0, nil)
	verifAssert("C04-sink-create-ok", err == nil)
	died := false
	snapshot.VerifC04SetSinkFatal(sink, func(err error) { died = true })
	if outcome == vcPersistFail {
		sink = &vcFailingSink{SnapshotSink: sink}
	}
	perr := fsnap.Persist(sink)
	if perr != nil {
		sink.Cancel()
		// OnRelease asks for a full snapshot after a failed Persist when there is no staging
		// directory; with one (WAL files retained from earlier attempts) it does not
		_, serr := os.Stat(s.walStagingDir)
		fsnap.Release()
		h.fullForgotten = h.fullForgotten || (unflaggedFull && serr == nil)
		gate := outcome == vcLoadRace && fs.Type.IsIncremental()
		verifAssert("C04-persist-fails-only-when-injected", outcome == vcPersistFail || gate)
		if fs.Type.IsIncremental() {
			verifReach("persist-failed-incremental")
			if gate {
				verifReach("load-raced-incremental")
			}
		} else {
			verifReach("persist-failed-full")
		}
		return
	}
	verifAssert("C04-persist-succeeds-unless-injected", outcome != vcPersistFail)
	h.markerIdx = int(idx)
	if outcome == vcDieAtClose {
		verifReach("died-before-close")
		h.restart()
		return
	}
	cerr := sink.Close()
	fsnap.Release()
	verifAssert("C04-sink-close-ok", cerr == nil && !died)
	if fs.Type.IsFull() {
		h.fullForgotten = false
		verifReach("full-published")
		if outcome == vcLoadRace {
			verifReach("load-raced-full")
		}
	} else {
		verifReach("incremental-published")
	}
	h.checkNewest("published", idx)
}

// checkNewest: the newest snapshot of the store rebuilds the database applied at its index.
// wantIdx != 0: the newest snapshot must be the one for that index.
func (h *vcHist) checkNewest(tag string, wantIdx uint64) (vcState, uint64, bool) {
	st := h.e.snaps
	metas, err := st.List()
	verifAssert("C04-"+tag+"-list-ok", err == nil)
	if len(metas) == 0 {
		verifAssert("C04-"+tag+"-snapshot-listed", wantIdx == 0)
		return vcState{}, 0, false
	}
	m := metas[0]
	if wantIdx != 0 {
		verifAssert("C04-"+tag+"-newest-is-the-new-snapshot", m.Index == wantIdx)
	}
	verifAssert("C04-"+tag+"-index-known", m.Index >= 1 && int(m.Index) < len(h.stateAt))
	dbFile, walFiles, err := snapshot.VerifC04Resolve(st, m.ID)
	verifAssert("C04-"+tag+"-resolves", err == nil && dbFile != "")

	base := h.e.tagDB(dbFile)
	verifAssert("C04-"+tag+"-base-provenance-known", base.ok)
	stale := false
	inOrder := true
	prev := base.seq
	for _, wf := range walFiles {
		t := h.e.tagWAL(wf)
		verifAssert("C04-"+tag+"-wal-provenance-known", t.ok)
		if t.lin != base.lin || t.seq <= base.seq {
			stale = true
		}
		if t.seq <= prev {
			inOrder = false
		}
		prev = t.seq
	}
	if len(walFiles) >= 2 && !stale {
		verifReach("chain-of-two-wals")
	}
	if len(walFiles) >= 3 && !stale {
		verifReach("chain-of-three-wals")
	}
	if stale && h.retainedAtInstall {
		// Recorded defect: fsmRestore (follower snapshot install) replaces the database but leaves
		// the WAL staging directory alone: a staged WAL file retained after a skipped / failed
		// Persist survives the install and is moved into the next incremental snapshot, on top
		// of the installed (newer) base.
		verifFinding("C04-install-keeps-staged-wal")
	}
	if stale {
		// Recorded defect (fixed in b1fa822): a staged WAL file retained after a skipped / failed Persist is still in
		// the staging directory when the NEXT snapshot is a full one (the full branch of
		// fsmSnapshot does not clear it) and is then moved into the following incremental
		// snapshot, on top of a base that is newer than it (or of another database).
		verifFinding("C04-stale-staged-wal")
	}
	verifAssert("C04-"+tag+"-chain-in-checkpoint-order", inOrder)

	got, ok := h.e.restore(m.ID)
	verifAssert("C04-"+tag+"-restorable", ok)
	want := h.stateAt[m.Index]
	if h.fullForgotten && got != want {
		// Recorded defect: a full snapshot that is due only because dbModified() is true is
		// forgotten after one attempt (the deferred dbModifiedTime.Store in fsmSnapshot), whether or
		// not it was published: its checkpoint has already folded the WAL into the database file,
		// so the following incremental snapshot lacks those pages.
		verifFinding("C04-unpublished-full-forgotten")
	}
	verifAssert("C04-"+tag+"-restored-lineage", got.lin == want.lin)
	verifAssert("C04-"+tag+"-restored-page0", got.p[0] == want.p[0])
	verifAssert("C04-"+tag+"-restored-page1", got.p[1] == want.p[1])
	verifAssert("C04-"+tag+"-restored-writes0", got.c[0] == want.c[0])
	verifAssert("C04-"+tag+"-restored-writes1", got.c[1] == want.c[1])
	return got, m.Index, true
}

// restart: the process ends (crash or exit without a final snapshot) and starts again. What
// Store.Open does within scope, in its order: snapshot.NewStore (real: the start-up check of the
// snapshot directory); the clean-snapshot decision - "if the most recent snapshot operation ran to
// completion ... we can skip restoring the SQLite database from the Raft snapshot store because
// the contents are logically the same": snapshots exist, the marker is readable and the
// modification time, size (and CRC) of the database file equal the marker's -> FAST start: the
// database file stays, its WAL files are removed (createDBOnDisk), raft does not call FSM.Restore
// and takes the newest snapshot's index as applied; otherwise SLOW start: the marker is removed, a
// new empty database is created and raft hands the newest snapshot (SnapshotStore.List, Open) to
// the REAL fsmRestore; the staging directory is removed; raft re-applies the log entries after
// the snapshot's index.
func (h *vcHist) restart() {
	if !verifSymbolic() {
		h.e.nativeClose()
	}
	h.e.openStore()
	got, idx, any := h.checkNewest("restart", 0)
	if !any {
		got, idx = vcState{}, 0
	}
	h.e.seq++
	h.live = got
	fast := any && h.e.markerMatches()
	if fast {
		h.e.dropWAL()
		h.e.attachDB()
		verifReach("restart-fast")
		if cur, ok := h.e.liveState(); ok && cur == got {
			verifReach("restart-fast-same-contents")
		}
	} else {
		h.e.removeMarker()
		h.e.resetDB(vcState{})
		h.e.attachDB()
		if any {
			metas, err := h.e.snaps.List()
			verifAssert("C04-restart-list-ok", err == nil && len(metas) == 1)
			_, rc, err := h.e.snaps.Open(metas[0].ID)
			verifAssert("C04-restart-open-ok", err == nil)
			rerr := NewFSM(h.e.s).Restore(rc)
			rc.Close()
			verifAssert("C04-restart-restore-ok", rerr == nil)
			h.e.lin = got.lin
			h.markerIdx = int(idx)
		}
		verifReach("restart-slow")
		h.checkLive("restart-restored")
	}
	h.loadPending = false
	h.fullForgotten = false
	h.retainedAtInstall = false
	for i, en := range h.log {
		if uint64(i+1) > idx {
			h.applyEntry(en)
		}
	}
	h.live = h.stateAt[h.applied]
	if fast && h.markerIdx != int(idx) {
		if cur, ok := h.e.liveState(); ok && cur != h.live {
			// Recorded defect: the marker is written inside Persist (the Finalizer), BEFORE raft
			// closes the sink. A process that dies in between restarts with a database file that
			// already contains the entries after the newest PUBLISHED snapshot, keeps it (fast
			// start) and re-applies those entries on top of it.
			verifFinding("C04-marker-before-close")
		}
	}
	h.checkLive("restart-replayed")
	verifReach("restarted")
}

// resetDB: the database becomes st (the restored image), WAL empty.
func (e *vcEnv) resetDB(st vcState) {
	e.lin = st.lin
	if !verifSymbolic() {
		e.nativeResetDB(st)
		return
	}
	e.mainSt = st
	e.walHas = [2]bool{}
	vcOsRemove(e.dbPath)
	e.syncDBFile()
	e.syncWALFile()
}

func vcTick() {
	// snapshot ids contain the time in milliseconds: keep them distinct
	if verifSymbolic() {
		verifAdvanceClock(int64(2 * time.Millisecond))
	} else {
		time.Sleep(2 * time.Millisecond)
	}
}

// ---------------------------------------------------------------- steps and entries

const (
	stW0 = iota
	stW1
	stSnapOK
	stSnapSkip
	stLoad
	stRestart
	stBoot
	stInstall
	stTouch
	stSnapPersistFail
	stSnapCkBusy
	stSnapDie
	stSnapLoadRace
	stW01        // the page-heavy write batch: both pages in one transaction
	stInstallWAL // install of a leader image made of a database file and a WAL file
	stKinds
	// steps outside the exhaustive step alphabet (used by Scenarios and VerifC04Reap)
	stReap        = iota // consolidation of the snapshot store (snapshot.Store.Reap)
	stInstallWAL2        // install of a leader image made of a database file and TWO WAL files
)

func (h *vcHist) step(k int) {
	switch k {
	case stW0:
		h.write(0)
	case stW1:
		h.write(1)
	case stSnapOK:
		h.snapshot(vcOK)
	case stSnapSkip:
		h.snapshot(vcSkip)
	case stLoad:
		h.load()
	case stRestart:
		h.restart()
	case stBoot:
		h.boot()
	case stInstall:
		h.install(0)
	case stInstallWAL:
		h.install(1)
	case stInstallWAL2:
		h.install(2)
	case stReap:
		h.reap()
	case stW01:
		h.write(2)
	case stTouch:
		h.e.touch()
	case stSnapPersistFail:
		h.snapshot(vcPersistFail)
	case stSnapCkBusy:
		h.snapshot(vcCkBusy)
	case stSnapDie:
		h.snapshot(vcDieAtClose)
	case stSnapLoadRace:
		h.snapshot(vcLoadRace)
	}
}

// Start states are produced by running real code through fixed prefixes (so they are reachable).
var vcPrefixes = [][]int{
	{},                                 // a new node
	{stW0, stSnapOK},                   // one full snapshot
	{stW0, stSnapOK, stW0, stSnapSkip}, // a staged WAL retained after a skipped Persist
	{stW0, stSnapOK, stW0, stSnapSkip, stLoad},               // ... and a LOAD
	{stW0, stSnapOK, stW1, stSnapOK, stW0},                   // full + incremental + unsnapshotted write
	{stW0, stSnapOK, stW0, stSnapPersistFail, stW0, stTouch}, // retained after a failed Persist, newer write, file touched
	{stW0, stSnapOK, stW0, stTouch},                          // unsnapshotted write, file touched, nothing staged
}

// Hand-picked histories (each ends with a restart): cheap regression scenarios for the quick tier;
// the exhaustive entries cover them again in the thorough tier.
var vcScenarios = [][]int{
	// a full snapshot (due to dbModified only, nothing staged) whose Persist fails must be taken again
	{stW0, stSnapOK, stW0, stTouch, stSnapPersistFail, stW1, stSnapOK},
	// retained WAL files of two failed attempts travel with the third, in order
	{stW0, stSnapOK, stW0, stSnapSkip, stW1, stSnapPersistFail, stW0, stSnapOK},
	// a busy checkpoint leaves nothing behind, the retry publishes
	{stW0, stSnapOK, stW1, stSnapCkBusy, stSnapOK, stW0, stSnapOK},
	// LOAD, restart before any snapshot (the LOAD is replayed from the log), write, snapshot
	{stW0, stSnapOK, stLoad, stRestart, stW1, stSnapOK, stW0, stSnapOK},
	// a LOAD applied while an incremental snapshot is being persisted
	{stW0, stSnapOK, stW0, stSnapLoadRace, stW1, stSnapOK, stW0, stSnapOK},
	// a LOAD applied while a full snapshot is being persisted
	{stW0, stSnapLoadRace, stW1, stSnapOK, stW0, stSnapOK},
	// the process dies before the sink of an incremental snapshot is closed
	{stW0, stSnapOK, stW1, stSnapDie, stW0, stSnapOK},
	// skipped full snapshot on a new node, then the real one
	{stW0, stSnapSkip, stW1, stSnapOK, stW0, stSnapOK},
	// a follower installs a snapshot made of a database file and a WAL file, then snapshots
	// incrementally on top of it (the chain starts with the installed WAL file)
	{stW0, stSnapOK, stInstallWAL, stW1, stSnapOK, stW0, stSnapOK},
	// a new node installs such a snapshot before it has applied anything
	{stInstallWAL, stW0, stSnapOK, stW01, stSnapSkip, stW1, stSnapOK},
	// install (database file only), a skipped incremental snapshot, the next one carries two WAL files
	{stW0, stSnapOK, stInstall, stW0, stSnapSkip, stW1, stSnapOK},
	// boot, page-heavy write, incremental snapshot, install on top
	{stW0, stSnapOK, stBoot, stW01, stSnapOK, stInstall, stW1, stSnapOK},
	// an install replaces a database for which a LOAD had asked for a full snapshot
	{stW0, stSnapOK, stLoad, stInstallWAL, stW0, stSnapOK},
	// consolidation of a locally produced chain (full + two incrementals rewriting the same page), then more snapshots
	{stW0, stSnapOK, stW0, stSnapOK, stW0, stSnapOK, stReap, stW0, stSnapOK},
	// consolidation of an installed database file + WAL file and two local incrementals on top
	{stW0, stSnapOK, stInstallWAL, stW0, stSnapOK, stW1, stSnapOK, stReap, stW0, stSnapOK},
	// ... of an installed database file + two WAL files and a local incremental on top
	{stInstallWAL2, stW01, stSnapOK, stReap, stW1, stSnapOK},
}

func VerifC04Scenarios() {
	i := verifChoice("scenario", len(vcScenarios))
	vcRun(vcScenarios[i], 0, 1)
}

func vcRun(prefix []int, k int, kinds int) {
	verifPanicsAreViolations()
	h := vcNewHist()
	defer h.e.drop()
	for _, st := range prefix {
		h.step(st)
	}
	for i := 0; i < k; i++ {
		h.step(verifChoice(verifName("step", i), kinds))
	}
	// whatever happened, the node can restart from its store: as it is (fast or slow start) ...
	h.restart()
	// ... and with the restore forced (Store.ForceSnapshotRestore removes the marker)
	h.e.removeMarker()
	h.restart()
	verifReach("restarted-forced")
}

// VerifC04History: every history of K free steps from every start state, then a restart.
func VerifC04History() {
	p := verifChoice("prefix", len(vcPrefixes))
	k, kinds := 2, int(stInstall)+1
	if verifTier() > 0 {
		k = 3
	}
	vcRun(vcPrefixes[p], k, kinds)
}

// VerifC04HistoryDeep (thorough tier): every history of 4 free steps over the same 8 kinds from the
// first three start states (new node; one full snapshot; a retained staged WAL).
func VerifC04HistoryDeep() {
	p := verifChoice("prefix", 3)
	vcRun(vcPrefixes[p], 4, int(stInstall)+1)
}

// VerifC04Retained: the family the property singles out ("a retained staged WAL combined with a
// later full snapshot, load, boot or install"), as a product:
//
//	full snapshot; write page 0; snapshot that RETAINS its staged WAL (released without Persist |
//	Persist fails); [the database is REPLACED or a full snapshot becomes due: LOAD | BOOT | INSTALL
//	(database file | database file + WAL file) | file touched]; [nothing | write page 0 | write
//	page 1 before the next snapshot - i.e. the WAL of the new database is empty or not when the full
//	snapshot is cut]; snapshot (ok | released without Persist, then ok); write page 0 | page 1 | both;
//	snapshot ok; restart.
func VerifC04Retained() {
	retain := []int{stSnapSkip, stSnapPersistFail}[verifChoice("retain", 2)]
	replace := []int{stLoad, stBoot, stInstall, stTouch, stInstallWAL}[verifChoice("replace", 5)]
	between := verifChoice("between", 3)
	twice := verifChoice("full-twice", 2)
	later := []int{stW0, stW1, stW01}[verifChoice("later", 3)]
	steps := []int{stW0, stSnapOK, stW0, retain, replace}
	if between > 0 {
		steps = append(steps, []int{stW0, stW1}[between-1])
	}
	if twice > 0 {
		steps = append(steps, stSnapSkip)
	}
	steps = append(steps, stSnapOK, later, stSnapOK)
	vcRun(steps, 0, 1)
}

// VerifC04Reap: consolidation histories, as a product:
//
//	[nothing | write page 0; full snapshot]; INSTALL of (database file | database file + WAL file |
//	database file + two WAL files); [reap at once]; one or two times (write page 0 | page 1 | both;
//	snapshot ok [released without Persist first]); REAP; [write; snapshot ok; [REAP]]; restart as it
//	is (fast or slow) and with the restore forced.
//
// Every WAL file of an installed image rewrites both pages, every local incremental rewrites one
// or both of them again: the order in which the consolidation folds them decides the result.
func VerifC04Reap() {
	var steps []int
	if verifChoice("own-full-first", 2) == 1 {
		steps = append(steps, stW0, stSnapOK)
	}
	steps = append(steps, []int{stInstall, stInstallWAL, stInstallWAL2}[verifChoice("image", 3)])
	if verifTier() > 0 && verifChoice("reap-at-once", 2) == 1 {
		steps = append(steps, stReap)
	}
	n := 1 + verifChoice("incrementals", 2)
	for i := 0; i < n; i++ {
		steps = append(steps, []int{stW0, stW1, stW01}[verifChoice(verifName("page", i), 3)])
		if verifTier() > 0 && verifChoice(verifName("skip-first", i), 2) == 1 {
			steps = append(steps, stSnapSkip)
		}
		steps = append(steps, stSnapOK)
	}
	steps = append(steps, stReap)
	switch verifChoice("after", 3) {
	case 1:
		steps = append(steps, stW0, stSnapOK)
	case 2:
		steps = append(steps, stW1, stSnapOK, stReap)
	}
	vcRun(steps, 0, 1)
}

// VerifC04HistoryLong (thorough tier): longer histories over writes and snapshots with / without
// Persist only.
func VerifC04HistoryLong() {
	p := verifChoice("prefix", len(vcPrefixes))
	vcRun(vcPrefixes[p], 5, int(stSnapSkip)+1)
}

// VerifC04Faults: the rarer snapshot outcomes (failed Persist, busy checkpoint, death at Close, a
// LOAD racing with Persist) and the touched database file, shorter histories.
func VerifC04Faults() {
	p := verifChoice("prefix", len(vcPrefixes))
	k := 1
	if verifTier() > 0 {
		k = 2
	}
	vcRun(vcPrefixes[p], k, stKinds)
}

// VerifC04Witness: the history of the recorded defect, step by step (no choice).
func VerifC04Witness() {
	verifPanicsAreViolations()
	h := vcNewHist()
	defer h.e.drop()
	for _, st := range []int{stW0, stSnapOK, stW0, stSnapSkip, stW0, stTouch, stSnapOK, stW1, stSnapOK} {
		h.step(st)
	}
	h.restart()
}

// VerifC04Twin: same machinery; the final claim (the restored database is the one BEFORE the last
// write) must fail.
func VerifC04Twin() {
	h := vcNewHist()
	defer h.e.drop()
	h.step(stW0)
	h.step(stSnapOK)
	h.step(stW0)
	h.step(stSnapOK)
	st := h.e.snaps
	metas, err := st.List()
	verifAssume(err == nil && len(metas) == 1)
	got, ok := h.e.restore(metas[0].ID)
	verifAssume(ok)
	verifAssert("C04-twin-restored-is-the-older-state", got.p[0] == h.stateAt[1].p[0])
}
