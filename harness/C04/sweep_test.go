package store

// Native sweep (not used by symgo check): runs entries of the C04 harness natively over every
// combination of their concrete choices - real temporary directory, real SQLite, real snapshot
// store, real fsmSnapshot / fsmRestore - and reports every run whose outcome is not "no oracle
// violated" or one of the recorded findings. It shows that the native world of the harness agrees
// with the symbolic one on the paths that are NOT counterexamples too.
//
//	run: cd /verif && VERIF_NATIVE=1 ./bin/symgo nativetest C04 TestVerifC04Sweep

import (
	"encoding/json"
	"fmt"
	"os"
	"testing"
)

type vcDim struct {
	name string
	n    int
}

func vcRunWith(vals map[string]any, f func()) (outcome []string) {
	os.Unsetenv("VERIF_REPLAY")
	verifLoad()
	verifVals = vals
	defer func() {
		r := recover()
		outcome = verifOutcome
		if r == nil {
			return
		}
		if _, ok := r.(verifStop); ok {
			return
		}
		outcome = append(outcome, fmt.Sprintf("panic %v", r))
	}()
	f()
	return
}

func vcSweep(t *testing.T, entry string, f func(), dims []vcDim) {
	idx := make([]int, len(dims))
	runs, bad := 0, 0
	known := map[string]int{}
	for {
		vals := map[string]any{}
		for i, d := range dims {
			vals[d.name] = json.Number(fmt.Sprint(idx[i]))
		}
		out := vcRunWith(vals, f)
		runs++
		for _, o := range out {
			switch o {
			case "":
			case "finding C04-install-keeps-staged-wal", "finding C04-marker-before-close":
				known[o]++
			default:
				bad++
				if bad < 10 {
					t.Errorf("%s %v: %s", entry, vals, o)
				}
			}
		}
		k := 0
		for k < len(dims) {
			idx[k]++
			if idx[k] < dims[k].n {
				break
			}
			idx[k] = 0
			k++
		}
		if k == len(dims) {
			break
		}
	}
	t.Logf("%s: %d native runs, %d with a violated oracle, recorded findings %v", entry, runs, bad, known)
}

func TestVerifC04Sweep(t *testing.T) {
	if os.Getenv("VERIF_NATIVE") == "" {
		t.Skip()
	}
	vcSweep(t, "VerifC04Scenarios", VerifC04Scenarios, []vcDim{{"scenario", len(vcScenarios)}})
	vcSweep(t, "VerifC04Retained", VerifC04Retained, []vcDim{{"retain", 2}, {"replace", 5}, {"between", 3}, {"full-twice", 2}, {"later", 3}})
	vcSweep(t, "VerifC04Faults", VerifC04Faults, []vcDim{{"prefix", len(vcPrefixes)}, {"step0", stKinds}})
	vcSweep(t, "VerifC04History", VerifC04History, []vcDim{{"prefix", len(vcPrefixes)}, {"step0", int(stInstall) + 1}, {"step1", int(stInstall) + 1}})
}

// TestVerifC04SweepReap: the consolidation histories (VerifC04Reap, quick-tier choices) and the
// hand-picked scenarios in the native world: real SQLite WAL files, the real plan.Executor.
//
//	run: cd /verif && VERIF_NATIVE=1 ./bin/symgo nativetest C04 TestVerifC04SweepReap
func TestVerifC04SweepReap(t *testing.T) {
	if os.Getenv("VERIF_NATIVE") == "" {
		t.Skip()
	}
	vcSweep(t, "VerifC04Scenarios", VerifC04Scenarios, []vcDim{{"scenario", len(vcScenarios)}})
	vcSweep(t, "VerifC04Reap", VerifC04Reap, []vcDim{{"own-full-first", 2}, {"image", 3}, {"incrementals", 2}, {"page0", 3}, {"page1", 2}, {"after", 3}})
}
