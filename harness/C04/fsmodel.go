package store

// Symbolic-run environment of C04 (spec.json "models" maps the os / filepath / fsutil / sidecar /
// rsum / db / protobuf helpers that store.fsmSnapshot, snapshot.StagingDir, snapshot.Sink,
// snapshot.FullSink, snapshot.Store and snapshot.SnapshotCatalog call onto the vc* functions
// below). NONE of this runs natively: the native replay uses the real calls on a real temporary
// directory and a real SQLite database (native.go).
//
// File system: a tree keyed by concrete clean absolute paths with POSIX rename/remove rules.
// File contents are concrete byte strings; a database file and a WAL file are TOKENS of the
// page-version abstraction (see vcDBBytes / vcWALBytes in harness.go).

import (
	"errors"
	"io"
	"io/fs"
	"os"
	"path/filepath"
	"strings"
	"time"

	"expvar"

	"github.com/hashicorp/raft"
	sql "github.com/rqlite/rqlite/v10/db"
	"github.com/rqlite/rqlite/v10/internal/rsum"
	"github.com/rqlite/rqlite/v10/snapshot/plan"
	"github.com/rqlite/rqlite/v10/snapshot/proto"
	"github.com/rqlite/rqlite/v10/snapshot/sidecar"
	pb "google.golang.org/protobuf/proto"
)

type vcNode struct {
	dir   bool
	data  []byte
	meta  *raft.SnapshotMeta // content of a meta.json written through snapshot.writeMeta
	sc    *sidecar.Sidecar   // content of a sidecar written through sidecar.WriteFile
	fp    *vcFP              // content of a clean-snapshot marker
	plan  *plan.Plan         // content of a reap plan written through plan.WriteToFile
	mtime int64
}

// vcFP is the content of the clean-snapshot marker: the fingerprint of the database file.
type vcFP struct {
	mtime int64
	size  int64
	crc   uint32
}

type vcHandle struct {
	path   string
	node   *vcNode
	off    int
	closed bool
}

type vcFSModel struct {
	nodes   map[string]*vcNode
	order   []string
	handles map[*os.File]*vcHandle
	crcws   map[*rsum.CRC32Writer]*vcCRCW
	crcrs   map[*rsum.CRC32Reader]*vcCRCR
	encs    []*proto.SnapshotHeader
	metas   []*raft.SnapshotMeta // metadata serialised by json.Marshal (the reap plan's WriteMeta step)
}

var vcFS *vcFSModel

var (
	vcErrNotExist = &fs.PathError{Op: "verif", Path: "?", Err: fs.ErrNotExist}
	vcErrNotEmpty = errors.New("verif-fs: directory not empty")
	vcErrIsDir    = errors.New("verif-fs: is a directory")
	vcErrNotDir   = errors.New("verif-fs: not a directory")
	vcErrBadData  = errors.New("verif-fs: undecodable content")
	vcErrClosed   = errors.New("verif-fs: file already closed")
)

func vcNewFS(root string) *vcFSModel {
	m := &vcFSModel{nodes: map[string]*vcNode{}, handles: map[*os.File]*vcHandle{}, crcws: map[*rsum.CRC32Writer]*vcCRCW{}, crcrs: map[*rsum.CRC32Reader]*vcCRCR{}}
	m.put(root, &vcNode{dir: true})
	return m
}

func (m *vcFSModel) put(p string, n *vcNode) {
	if _, ok := m.nodes[p]; !ok {
		m.order = append(m.order, p)
	}
	m.nodes[p] = n
}

func (m *vcFSModel) del(p string) {
	delete(m.nodes, p)
	for i, k := range m.order {
		if k == p {
			m.order = append(m.order[:i:i], m.order[i+1:]...)
			break
		}
	}
}

// children returns the sorted base names of the entries of directory p.
func (m *vcFSModel) children(p string) []string {
	var out []string
	pre := p + "/"
	for _, k := range m.order {
		if strings.HasPrefix(k, pre) && !strings.Contains(k[len(pre):], "/") {
			out = append(out, k[len(pre):])
		}
	}
	for i := 1; i < len(out); i++ {
		for j := i; j > 0 && out[j] < out[j-1]; j-- {
			out[j], out[j-1] = out[j-1], out[j]
		}
	}
	return out
}

func (m *vcFSModel) parentIsDir(p string) bool {
	par, ok := m.nodes[filepath.Dir(p)]
	return ok && par.dir
}

// ---------------------------------------------------------------- os

type vcDirEntry struct {
	name string
	dir  bool
}

func (e vcDirEntry) Name() string { return e.name }
func (e vcDirEntry) IsDir() bool  { return e.dir }
func (e vcDirEntry) Type() fs.FileMode {
	if e.dir {
		return fs.ModeDir
	}
	return 0
}
func (e vcDirEntry) Info() (fs.FileInfo, error) { return vcFileInfo{e.name, e.dir, 0, 0}, nil }

type vcFileInfo struct {
	name  string
	dir   bool
	size  int64
	mtime int64
}

func (fi vcFileInfo) Name() string { return fi.name }
func (fi vcFileInfo) Size() int64  { return fi.size }
func (fi vcFileInfo) Mode() fs.FileMode {
	if fi.dir {
		return fs.ModeDir | 0o755
	}
	return 0o644
}
func (fi vcFileInfo) ModTime() time.Time { return time.Unix(fi.mtime, 0) }
func (fi vcFileInfo) IsDir() bool        { return fi.dir }
func (fi vcFileInfo) Sys() any           { return nil }

// os.ReadDir
func vcOsReadDir(name string) ([]os.DirEntry, error) {
	n, ok := vcFS.nodes[name]
	if !ok {
		return nil, vcErrNotExist
	}
	if !n.dir {
		return nil, vcErrNotDir
	}
	var out []os.DirEntry
	for _, c := range vcFS.children(name) {
		out = append(out, vcDirEntry{c, vcFS.nodes[name+"/"+c].dir})
	}
	return out, nil
}

// os.Stat
func vcOsStat(name string) (os.FileInfo, error) {
	n, ok := vcFS.nodes[name]
	if !ok {
		return nil, vcErrNotExist
	}
	return vcFileInfo{filepath.Base(name), n.dir, int64(len(n.data)), n.mtime}, nil
}

// os.MkdirAll
func vcOsMkdirAll(path string, perm os.FileMode) error {
	if n, ok := vcFS.nodes[path]; ok {
		if n.dir {
			return nil
		}
		return vcErrNotDir
	}
	par := filepath.Dir(path)
	if par != path {
		if err := vcOsMkdirAll(par, perm); err != nil {
			return err
		}
	}
	vcFS.put(path, &vcNode{dir: true})
	return nil
}

// os.Rename
func vcOsRename(oldpath, newpath string) error {
	src, ok := vcFS.nodes[oldpath]
	if !ok {
		return vcErrNotExist
	}
	if !vcFS.parentIsDir(newpath) {
		return vcErrNotExist
	}
	if oldpath == newpath {
		return nil
	}
	if dst, ok := vcFS.nodes[newpath]; ok {
		switch {
		case src.dir && !dst.dir:
			return vcErrNotDir
		case !src.dir && dst.dir:
			return vcErrIsDir
		case src.dir && len(vcFS.children(newpath)) > 0:
			return vcErrNotEmpty
		}
		vcFS.del(newpath)
	}
	keys := append([]string(nil), vcFS.order...)
	for _, k := range keys {
		if k == oldpath || strings.HasPrefix(k, oldpath+"/") {
			n := vcFS.nodes[k]
			vcFS.del(k)
			vcFS.put(newpath+k[len(oldpath):], n)
		}
	}
	return nil
}

// os.Remove
func vcOsRemove(name string) error {
	n, ok := vcFS.nodes[name]
	if !ok {
		return vcErrNotExist
	}
	if n.dir && len(vcFS.children(name)) > 0 {
		return vcErrNotEmpty
	}
	vcFS.del(name)
	return nil
}

// os.RemoveAll
func vcOsRemoveAll(path string) error {
	keys := append([]string(nil), vcFS.order...)
	for _, k := range keys {
		if k == path || strings.HasPrefix(k, path+"/") {
			vcFS.del(k)
		}
	}
	return nil
}

func vcCreateFile(name string) (*vcNode, error) {
	if n, ok := vcFS.nodes[name]; ok && n.dir {
		return nil, vcErrIsDir
	}
	if !vcFS.parentIsDir(name) {
		return nil, vcErrNotExist
	}
	n := &vcNode{}
	vcFS.put(name, n)
	return n, nil
}

// os.Create
func vcOsCreate(name string) (*os.File, error) {
	n, err := vcCreateFile(name)
	if err != nil {
		return nil, err
	}
	f := new(os.File)
	vcFS.handles[f] = &vcHandle{path: name, node: n}
	return f, nil
}

// os.Open
func vcOsOpen(name string) (*os.File, error) {
	n, ok := vcFS.nodes[name]
	if !ok {
		return nil, vcErrNotExist
	}
	f := new(os.File)
	vcFS.handles[f] = &vcHandle{path: name, node: n}
	return f, nil
}

// (*os.File).Name / Write / Read / Sync / Close
func vcFileName(f *os.File) string {
	if h := vcFS.handles[f]; h != nil {
		return h.path
	}
	return ""
}

func vcFileWrite(f *os.File, p []byte) (int, error) {
	h := vcFS.handles[f]
	if h == nil || h.closed {
		return 0, vcErrClosed
	}
	h.node.data = append(h.node.data, p...)
	return len(p), nil
}

func vcFileRead(f *os.File, p []byte) (int, error) {
	h := vcFS.handles[f]
	if h == nil || h.closed {
		return 0, vcErrClosed
	}
	if len(p) == 0 {
		return 0, nil
	}
	if h.off >= len(h.node.data) {
		return 0, io.EOF
	}
	n := copy(p, h.node.data[h.off:])
	h.off += n
	return n, nil
}

// (*os.File).ReadFrom (io.Copy / io.CopyN into a file use it)
func vcFileReadFrom(f *os.File, r io.Reader) (int64, error) {
	var total int64
	buf := make([]byte, 64)
	for {
		n, err := r.Read(buf)
		if n > 0 {
			if _, werr := vcFileWrite(f, buf[:n]); werr != nil {
				return total, werr
			}
			total += int64(n)
		}
		if err == io.EOF {
			return total, nil
		}
		if err != nil {
			return total, err
		}
	}
}

func vcFileSync(f *os.File) error {
	h := vcFS.handles[f]
	if h == nil || h.closed {
		return vcErrClosed
	}
	return nil
}

func vcFileClose(f *os.File) error {
	h := vcFS.handles[f]
	if h == nil || h.closed {
		return vcErrClosed
	}
	h.closed = true
	return nil
}

// path/filepath.Glob for patterns of the form <dir>/*<suffix>
func vcGlob(pattern string) ([]string, error) {
	dir, base := filepath.Dir(pattern), filepath.Base(pattern)
	if !strings.HasPrefix(base, "*") || strings.ContainsAny(base[1:], "*?[\\") {
		panic("verif-fs: unsupported glob pattern " + pattern)
	}
	n, ok := vcFS.nodes[dir]
	if !ok || !n.dir {
		return nil, nil
	}
	var out []string
	for _, c := range vcFS.children(dir) {
		if strings.HasSuffix(c, base[1:]) {
			out = append(out, dir+"/"+c)
		}
	}
	return out, nil
}

// ---------------------------------------------------------------- helpers of rqlite

// fsutil.SyncDirMaybe
func vcSyncDirMaybe(dir string) error {
	n, ok := vcFS.nodes[dir]
	if !ok || !n.dir {
		return vcErrNotExist
	}
	return nil
}

// snapshot.readRaftMeta
func vcReadRaftMeta(path string) (*raft.SnapshotMeta, error) {
	n, ok := vcFS.nodes[path]
	if !ok || n.dir {
		return nil, vcErrNotExist
	}
	if n.meta == nil {
		return nil, vcErrBadData
	}
	c := *n.meta
	return &c, nil
}

// snapshot.writeMeta
func vcWriteMeta(dir string, meta *raft.SnapshotMeta) error {
	n, err := vcCreateFile(filepath.Join(dir, "meta.json"))
	if err != nil {
		return err
	}
	c := *meta
	n.meta = &c
	n.data = []byte("{meta}")
	return nil
}

// sidecar.ReadFile
func vcSidecarRead(path string) (*sidecar.Sidecar, error) {
	n, ok := vcFS.nodes[path]
	if !ok || n.dir {
		return nil, vcErrNotExist
	}
	if n.sc == nil {
		return nil, vcErrBadData
	}
	c := *n.sc
	return &c, nil
}

// sidecar.WriteFile
func vcSidecarWrite(path string, sum uint32) error {
	n, err := vcCreateFile(path)
	if err != nil {
		return err
	}
	n.sc = sidecar.NewCastagnoli(sum)
	n.data = []byte("{crc}")
	return nil
}

// vcCRCOf is the model's checksum of a content: any function of the bytes will do, the code under
// test only ever compares such values (the native run uses the real CRC32).
func vcCRCOf(data []byte) uint32 {
	var s uint32 = 17
	for _, b := range data {
		s = s*31 + uint32(b)
	}
	return s
}

// rsum.CRC32(path)
func vcRsumCRC32(path string) (uint32, error) {
	n, ok := vcFS.nodes[path]
	if !ok || n.dir {
		return 0, vcErrNotExist
	}
	return vcCRCOf(n.data), nil
}

// rsum.CRC32Writer: bytes go to the underlying writer, the sum is the checksum of what was accepted.
type vcCRCW struct {
	w    io.Writer
	seen []byte
}

func vcNewCRC32Writer(w io.Writer) *rsum.CRC32Writer {
	c := new(rsum.CRC32Writer)
	vcFS.crcws[c] = &vcCRCW{w: w}
	return c
}

func vcCRC32WriterWrite(c *rsum.CRC32Writer, p []byte) (int, error) {
	st := vcFS.crcws[c]
	n, err := st.w.Write(p)
	if n > 0 {
		st.seen = append(st.seen, p[:n]...)
	}
	return n, err
}

func vcCRC32WriterSum(c *rsum.CRC32Writer) uint32 { return vcCRCOf(vcFS.crcws[c].seen) }

// db.IsValidSQLiteFile / db.IsValidSQLiteWALFile
func vcIsValidSQLiteFile(path string) bool {
	n, ok := vcFS.nodes[path]
	return ok && !n.dir && len(n.data) >= 16 && string(n.data[:13]) == "SQLite format"
}

func vcIsValidSQLiteWALFile(path string) bool {
	n, ok := vcFS.nodes[path]
	if !ok || n.dir || len(n.data) < 8 {
		return false
	}
	d := n.data
	return d[0] == 0x37 && d[1] == 0x7f && d[2] == 0x06 && (d[3] == 0x82 || d[3] == 0x83) &&
		d[4] == 0x00 && d[5] == 0x2d && d[6] == 0xe2 && d[7] == 0x18
}

// protobuf: an encoded SnapshotHeader is the token {magic, magic, id, tag} standing for a copy of
// the message; only such a token decodes (into a SnapshotHeader).
func vcCloneHdr(h *proto.SnapshotHeader) *proto.SnapshotHeader {
	out := &proto.SnapshotHeader{FormatVersion: h.FormatVersion}
	switch p := h.Payload.(type) {
	case *proto.SnapshotHeader_Full:
		full := &proto.FullSnapshot{}
		if p.Full.DbHeader != nil {
			full.DbHeader = &proto.Header{SizeBytes: p.Full.DbHeader.SizeBytes, Crc32: p.Full.DbHeader.Crc32}
		}
		for _, w := range p.Full.WalHeaders {
			full.WalHeaders = append(full.WalHeaders, &proto.Header{SizeBytes: w.SizeBytes, Crc32: w.Crc32})
		}
		out.Payload = &proto.SnapshotHeader_Full{Full: full}
	case *proto.SnapshotHeader_IncrementalFile:
		out.Payload = &proto.SnapshotHeader_IncrementalFile{IncrementalFile: &proto.IncrementalFileSnapshot{WalDirPath: p.IncrementalFile.WalDirPath}}
	}
	return out
}

func vcPbMarshal(m pb.Message) ([]byte, error) {
	h, ok := m.(*proto.SnapshotHeader)
	if !ok || h == nil {
		return nil, errors.New("verif: message type outside the codec model")
	}
	id := len(vcFS.encs)
	vcFS.encs = append(vcFS.encs, vcCloneHdr(h))
	return []byte{0xF5, 0xC9, byte(id), 0x48}, nil
}

func vcPbUnmarshal(b []byte, m pb.Message) error {
	dst, ok := m.(*proto.SnapshotHeader)
	if !ok || len(b) != 4 || b[0] != 0xF5 || b[1] != 0xC9 || b[3] != 0x48 || int(b[2]) >= len(vcFS.encs) {
		return errors.New("verif: cannot parse invalid wire-format data")
	}
	src := vcCloneHdr(vcFS.encs[b[2]])
	dst.FormatVersion, dst.Payload = src.FormatVersion, src.Payload
	return nil
}

// (*expvar.Map).Get (statistics only)
var vcStatInt = new(expvar.Int)

func vcExpvarGet(m *expvar.Map, key string) expvar.Var { return vcStatInt }

// ---------------------------------------------------------------- the database handle

// (*db.SwappableDB).SetSynchronousMode / DBLastModified / Path / FileSize: the handle is the one
// database of the model environment.
func vcDBSetSynchronousMode(d *sql.SwappableDB, mode sql.SynchronousMode) error { return nil }

func vcDBLastModified(d *sql.SwappableDB) (time.Time, error) {
	n, ok := vcFS.nodes[vcEnvCur.dbPath]
	if !ok {
		return time.Time{}, vcErrNotExist
	}
	return time.Unix(n.mtime, 0), nil
}

func vcDBPath(d *sql.SwappableDB) string { return vcEnvCur.dbPath }

func vcDBFileSize(d *sql.SwappableDB) (int64, error) {
	n, ok := vcFS.nodes[vcEnvCur.dbPath]
	if !ok {
		return 0, vcErrNotExist
	}
	return int64(len(n.data)), nil
}

// (*db.SwappableDB).Swap: the database of the environment is replaced by the database file at
// path (closed, files removed, path renamed into place, reopened with an empty WAL).
func vcDBSwap(d *sql.SwappableDB, path string, fkConstraints, walEnabled bool) error {
	if !vcIsValidSQLiteFile(path) {
		return errors.New("invalid SQLite data")
	}
	e := vcEnvCur
	st, _, ok := vcDecodeDB(vcFS.nodes[path].data)
	if !ok {
		return vcErrBadData
	}
	vcOsRemove(e.dbPath)
	vcOsRemove(e.walPath)
	if err := vcOsRename(path, e.dbPath); err != nil {
		return err
	}
	e.mainSt = st
	e.lin = e.mainSt.lin
	e.walHas = [2]bool{}
	e.mt++
	vcFS.nodes[e.dbPath].mtime = e.mt
	e.syncWALFile()
	return nil
}

// store.createTemp: a new scratch file in dir.
func vcCreateTemp(dir, pattern string) (*os.File, error) {
	vcEnvCur.ntemps++
	name := strings.Replace(pattern, "*", "t"+string(rune('a'+vcEnvCur.ntemps%26)), 1)
	return vcOsCreate(filepath.Join(dir, name))
}

// db.ReplayWAL: the WAL tokens are folded into the database token in the given order and removed.
func vcReplayWAL(path string, wals []string, deleteMode bool) error {
	n, ok := vcFS.nodes[path]
	if !ok || !vcIsValidSQLiteFile(path) {
		return errors.New("verif: invalid database file " + path)
	}
	st, seq, ok := vcDecodeDB(n.data)
	if !ok {
		return errors.New("verif: invalid database file " + path)
	}
	if _, ok := vcFS.nodes[path+"-wal"]; ok {
		return errors.New("verif: WAL already exists")
	}
	for _, wp := range wals {
		wn, ok := vcFS.nodes[wp]
		if filepath.Dir(wp) != filepath.Dir(path) || !ok || !vcIsValidSQLiteWALFile(wp) {
			return errors.New("verif: invalid WAL file " + wp)
		}
		_, wseq, ok := vcFoldWAL(&st, wn.data)
		if !ok {
			return errors.New("verif: invalid WAL file " + wp)
		}
		seq = wseq
		vcFS.del(wp)
	}
	n.data = vcDBBytes(st, seq)
	return nil
}

// rsum.CRC32Reader: bytes come from the underlying reader, the sum is the checksum of what was read.
type vcCRCR struct {
	r    io.Reader
	seen []byte
}

func vcNewCRC32Reader(r io.Reader) *rsum.CRC32Reader {
	c := new(rsum.CRC32Reader)
	vcFS.crcrs[c] = &vcCRCR{r: r}
	return c
}

func vcCRC32ReaderRead(c *rsum.CRC32Reader, p []byte) (int, error) {
	st := vcFS.crcrs[c]
	n, err := st.r.Read(p)
	if n > 0 {
		st.seen = append(st.seen, p[:n]...)
	}
	return n, err
}

func vcCRC32ReaderSum(c *rsum.CRC32Reader) uint32 { return vcCRCOf(vcFS.crcrs[c].seen) }

// (*Store).createSnapshotFingerprint: the clean-snapshot marker (its content and the fast restart
// it enables are outside C04): writes the marker file, fails when its directory does not exist.
func vcCreateSnapshotFingerprint(s *Store) error {
	d, ok := vcFS.nodes[s.dbPath]
	if !ok {
		return vcErrNotExist
	}
	n, err := vcCreateFile(s.cleanSnapshotPath)
	if err != nil {
		return err
	}
	n.fp = &vcFP{mtime: d.mtime, size: int64(len(d.data)), crc: vcCRCOf(d.data)}
	n.data = []byte("{fingerprint}")
	return nil
}

// ---------------------------------------------------------------- reap (consolidation) plan

const vcMetaJSONPrefix = "{meta#"

// encoding/json.Marshal: the only value the code in scope serialises itself is the metadata of the
// consolidated snapshot (reapInternal); the bytes are a reference to the recorded value.
func vcJSONMarshal(v any) ([]byte, error) {
	if m, ok := v.(*raft.SnapshotMeta); ok {
		c := *m
		vcFS.metas = append(vcFS.metas, &c)
		return []byte(vcMetaJSONPrefix + string(rune('a'+len(vcFS.metas)-1)) + "}"), nil
	}
	return []byte("{json}"), nil
}

// os.WriteFile
func vcOsWriteFile(name string, data []byte, perm os.FileMode) error {
	n, err := vcCreateFile(name)
	if err != nil {
		return err
	}
	n.data = append([]byte(nil), data...)
	if strings.HasPrefix(string(data), vcMetaJSONPrefix) && len(data) == len(vcMetaJSONPrefix)+2 {
		if i := int(data[len(vcMetaJSONPrefix)] - 'a'); i >= 0 && i < len(vcFS.metas) {
			c := *vcFS.metas[i]
			n.meta = &c
		}
	}
	return nil
}

// plan.WriteToFile (temporary file, then rename, as the real one)
func vcPlanWriteToFile(p *plan.Plan, path string) error {
	tmp := path + ".tmp"
	n, err := vcCreateFile(tmp)
	if err != nil {
		return err
	}
	n.data = []byte("{plan}")
	n.plan = p
	return vcOsRename(tmp, path)
}

// plan.ReadFromFile
func vcPlanReadFromFile(path string) (*plan.Plan, error) {
	n, ok := vcFS.nodes[path]
	if !ok || n.dir {
		return nil, vcErrNotExist
	}
	if n.plan == nil {
		return nil, vcErrBadData
	}
	return n.plan, nil
}

// db.CheckpointRemove: the WAL token next to the database token (path-wal) is folded into it and
// removed - whatever it holds, as SQLite checkpoints whatever valid frames the WAL file has.
func vcCheckpointRemove(path string) error {
	n, ok := vcFS.nodes[path]
	if !ok || !vcIsValidSQLiteFile(path) {
		return errors.New("verif: invalid database file " + path)
	}
	st, seq, ok := vcDecodeDB(n.data)
	if !ok {
		return errors.New("verif: invalid database file " + path)
	}
	wp := path + "-wal"
	if wn, ok := vcFS.nodes[wp]; ok {
		if !vcIsValidSQLiteWALFile(wp) {
			return errors.New("verif: invalid WAL file " + wp)
		}
		_, wseq, ok := vcFoldWAL(&st, wn.data)
		if !ok {
			return errors.New("verif: invalid WAL file " + wp)
		}
		seq = wseq
		vcFS.del(wp)
		n.data = vcDBBytes(st, seq)
	}
	return nil
}
