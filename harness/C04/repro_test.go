package store

import (
	"context"
	"io"
	"os"
	"path/filepath"
	"testing"
	"time"

	"github.com/rqlite/rqlite/v10/command/proto"
	sql "github.com/rqlite/rqlite/v10/db"
	"github.com/rqlite/rqlite/v10/snapshot"
)

// Native reproduction of finding C04-stale-staged-wal on a REAL single-node store (real
// hashicorp/raft, real SQLite, real snapshot store). Run with
//
//	VERIF_NATIVE=1 go test -overlay <overlay mapping this file into /repo/store> -run TestVerifC04Native ./store
//
// (tools: /verif/harness/C04/run_native.sh). The tests FAIL on the unchanged tree (that is the
// defect); with the proposed fix (remove the WAL staging directory in the full branch of
// fsmSnapshot) they pass.

func verifC04Open(t *testing.T) (*Store, func()) {
	t.Helper()
	s, ln := mustNewStore(t)
	if err := s.Open(); err != nil {
		t.Fatalf("open: %s", err)
	}
	s.NoSnapshotOnClose = true
	if err := s.Bootstrap(NewServer(s.ID(), s.Addr(), true)); err != nil {
		t.Fatalf("bootstrap: %s", err)
	}
	if _, err := s.WaitForLeader(10 * time.Second); err != nil {
		t.Fatalf("leader: %s", err)
	}
	return s, func() { s.Close(true); ln.Close() }
}

func verifC04Query(t *testing.T, s *Store, q string) string {
	t.Helper()
	qr := queryRequestFromString(q, false, false, false)
	qr.Level = proto.ConsistencyLevel_STRONG
	rows, _, _, err := s.Query(context.Background(), qr)
	if err != nil {
		t.Fatalf("query %q: %s", q, err)
	}
	return asJSON(rows)
}

func verifC04Restart(t *testing.T, s *Store) {
	t.Helper()
	if err := s.Close(true); err != nil {
		t.Fatalf("close: %s", err)
	}
	if err := s.ForceSnapshotRestore(); err != nil { // same as a crash: no clean_snapshot marker
		t.Fatalf("force restore: %s", err)
	}
	if err := s.Open(); err != nil {
		t.Fatalf("reopen: %s", err)
	}
	if _, err := s.WaitForLeader(10 * time.Second); err != nil {
		t.Fatalf("leader after restart: %s", err)
	}
}

// skippedSnapshot does what hashicorp/raft's takeSnapshot does when a configuration change is
// still outstanding ("cannot take snapshot now, wait until the configuration entry ... has been
// applied"): FSM.Snapshot() has run, Persist is never invoked, Release is.
func verifC04SkippedSnapshot(t *testing.T, s *Store) {
	t.Helper()
	f, err := NewFSM(s).Snapshot()
	if err != nil {
		t.Fatalf("fsm snapshot: %s", err)
	}
	f.Release()
}

// full -> update -> snapshot released without persist -> update -> full-needed -> full ->
// unrelated update -> incremental -> restart from the snapshot store.
func TestVerifC04NativeStaleStagedWAL(t *testing.T) {
	if os.Getenv("VERIF_NATIVE") == "" {
		t.Skip()
	}
	s, done := verifC04Open(t)
	defer done()

	mustExecute(t, s, []string{
		`CREATE TABLE foo (id INTEGER NOT NULL PRIMARY KEY, name TEXT)`,
		`CREATE TABLE bar (id INTEGER NOT NULL PRIMARY KEY, name TEXT)`,
		`INSERT INTO foo(id, name) VALUES(1, 'v0')`,
		`INSERT INTO bar(id, name) VALUES(1, 'b0')`,
	})
	if err := s.Snapshot(0); err != nil { // full
		t.Fatalf("snapshot 1: %s", err)
	}

	mustExecute(t, s, []string{`UPDATE foo SET name='v1' WHERE id=1`})
	verifC04SkippedSnapshot(t, s) // incremental; WAL{foo=v1} is checkpointed into the DB and stays staged
	if w, _ := s.StagedWALs(); len(w) != 1 {
		t.Fatalf("expected 1 staged WAL, got %d", len(w))
	}

	mustExecute(t, s, []string{`UPDATE foo SET name='v2' WHERE id=1`})

	// Something makes the next snapshot a full one. Here: the database file looks modified
	// (dbModified(): mtime later than the one recorded at the last snapshot). A LOAD, a failed
	// DBLastModified or a FULL_NEEDED flag do the same.
	future := time.Now().Add(time.Hour)
	if err := os.Chtimes(s.dbPath, future, future); err != nil {
		t.Fatal(err)
	}
	if dn, err := s.snapshotDueNext(); err != nil || dn != snapshot.Full {
		t.Fatalf("expected full due next, got %v %v", dn, err)
	}
	if err := s.Snapshot(0); err != nil { // full: data.db has foo=v2
		t.Fatalf("snapshot 3 (full): %s", err)
	}
	if w, _ := s.StagedWALs(); len(w) != 1 {
		t.Logf("staged WALs after the full snapshot: %d (1 = the stale one is still there)", len(w))
	}

	mustExecute(t, s, []string{`UPDATE bar SET name='b1' WHERE id=1`}) // unrelated page
	if err := s.Snapshot(0); err != nil {                              // incremental: moves BOTH staged WALs
		t.Fatalf("snapshot 4 (incremental): %s", err)
	}

	live := verifC04Query(t, s, `SELECT name FROM foo WHERE id=1`)
	verifC04Restart(t, s)
	restored := verifC04Query(t, s, `SELECT name FROM foo WHERE id=1`)
	t.Logf("live before restart: %s", live)
	t.Logf("after restart      : %s", restored)
	if live != restored {
		t.Fatalf("C04-stale-staged-wal: database restored from the snapshot store differs from the applied state\nlive:     %s\nrestored: %s", live, restored)
	}
}

// Finding C04-unpublished-full-forgotten: full -> update -> database file touched (the next
// snapshot is full ONLY because dbModified() says so) -> full FSM snapshot released without
// Persist (its checkpoint has folded the WAL into the database file; the deferred
// dbModifiedTime.Store forgets that a full snapshot is due) -> unrelated update -> incremental ->
// restart from the snapshot store: the first update is gone.
func TestVerifC04NativeForgottenFull(t *testing.T) {
	if os.Getenv("VERIF_NATIVE") == "" {
		t.Skip()
	}
	s, done := verifC04Open(t)
	defer done()

	mustExecute(t, s, []string{
		`CREATE TABLE foo (id INTEGER NOT NULL PRIMARY KEY, name TEXT)`,
		`CREATE TABLE bar (id INTEGER NOT NULL PRIMARY KEY, name TEXT)`,
		`INSERT INTO foo(id, name) VALUES(1, 'v0')`,
		`INSERT INTO bar(id, name) VALUES(1, 'b0')`,
	})
	if err := s.Snapshot(0); err != nil { // full
		t.Fatalf("snapshot 1: %s", err)
	}
	mustExecute(t, s, []string{`UPDATE foo SET name='v1' WHERE id=1`})
	future := time.Now().Add(time.Hour)
	if err := os.Chtimes(s.dbPath, future, future); err != nil {
		t.Fatal(err)
	}
	if dn, err := s.snapshotDueNext(); err != nil || dn != snapshot.Full {
		t.Fatalf("expected full due next, got %v %v", dn, err)
	}
	verifC04SkippedSnapshot(t, s) // full, not persisted
	if dn, err := s.snapshotDueNext(); err != nil || dn != snapshot.Full {
		t.Logf("due next after the unpublished full snapshot: %v (full expected)", dn)
	}
	mustExecute(t, s, []string{`UPDATE bar SET name='b1' WHERE id=1`})
	if err := s.Snapshot(0); err != nil {
		t.Fatalf("snapshot 3: %s", err)
	}
	live := verifC04Query(t, s, `SELECT name FROM foo WHERE id=1`)
	verifC04Restart(t, s)
	restored := verifC04Query(t, s, `SELECT name FROM foo WHERE id=1`)
	t.Logf("live before restart: %s", live)
	t.Logf("after restart      : %s", restored)
	if live != restored {
		t.Fatalf("C04-unpublished-full-forgotten: database restored from the snapshot store differs from the applied state\nlive:     %s\nrestored: %s", live, restored)
	}
}

// Same class through the LOAD path: the retained staged WAL was cut from the database that the
// LOAD replaced; it ends up on top of the full snapshot of the loaded database.
func TestVerifC04NativeStaleStagedWALLoad(t *testing.T) {
	if os.Getenv("VERIF_NATIVE") == "" {
		t.Skip()
	}
	s, done := verifC04Open(t)
	defer done()

	mustExecute(t, s, []string{
		`CREATE TABLE foo (id INTEGER NOT NULL PRIMARY KEY, name TEXT)`,
		`INSERT INTO foo(id, name) VALUES(1, 'old-1')`,
		`INSERT INTO foo(id, name) VALUES(2, 'old-2')`,
	})
	if err := s.Snapshot(0); err != nil { // full
		t.Fatalf("snapshot 1: %s", err)
	}
	mustExecute(t, s, []string{`UPDATE foo SET name='old-2b' WHERE id=2`})
	verifC04SkippedSnapshot(t, s)

	if err := s.Load(context.Background(), loadRequestFromFile(filepath.Join("testdata", "load.sqlite"))); err != nil {
		t.Fatalf("load: %s", err)
	}
	if err := s.Snapshot(0); err != nil { // full (LOAD set FULL_NEEDED)
		t.Fatalf("snapshot 3 (full): %s", err)
	}
	mustExecute(t, s, []string{`CREATE TABLE other (id INTEGER NOT NULL PRIMARY KEY, name TEXT)`})
	if err := s.Snapshot(0); err != nil { // incremental
		t.Fatalf("snapshot 4 (incremental): %s", err)
	}
	live := verifC04Query(t, s, `SELECT * FROM foo ORDER BY id`)

	if err := s.Close(true); err != nil {
		t.Fatalf("close: %s", err)
	}
	if err := s.ForceSnapshotRestore(); err != nil {
		t.Fatal(err)
	}
	if err := s.Open(); err != nil {
		t.Fatalf("C04-stale-staged-wal (LOAD): node cannot restart from its own snapshot store: %s", err)
	}
	if _, err := s.WaitForLeader(10 * time.Second); err != nil {
		t.Fatalf("leader after restart: %s", err)
	}
	restored := verifC04Query(t, s, `SELECT * FROM foo ORDER BY id`)
	t.Logf("live before restart: %s", live)
	t.Logf("after restart      : %s", restored)
	if live != restored {
		t.Fatalf("C04-stale-staged-wal (LOAD): restored database differs\nlive:     %s\nrestored: %s", live, restored)
	}
}

// Finding C04-install-keeps-staged-wal: full -> update foo=v1 -> incremental FSM snapshot released
// without Persist (its compacted WAL {foo=v1} stays in wal-staging) -> update foo=v2 -> a snapshot
// is INSTALLED the way hashicorp/raft's installSnapshot does it (SnapshotStore.Create, the stream
// copied into the sink, sink.Close, SnapshotStore.Open, FSM.Restore): the image is the node's own
// applied state (foo=v2) at its applied index -> unrelated update -> incremental snapshot (real
// raft) -> restart from the snapshot store: foo=v1. fsmRestore never clears the staging directory.
func TestVerifC04NativeInstallKeepsStagedWAL(t *testing.T) {
	if os.Getenv("VERIF_NATIVE") == "" {
		t.Skip()
	}
	s, done := verifC04Open(t)
	defer done()

	mustExecute(t, s, []string{
		`CREATE TABLE foo (id INTEGER NOT NULL PRIMARY KEY, name TEXT)`,
		`CREATE TABLE bar (id INTEGER NOT NULL PRIMARY KEY, name TEXT)`,
		`INSERT INTO foo(id, name) VALUES(1, 'v0')`,
		`INSERT INTO bar(id, name) VALUES(1, 'b0')`,
	})
	if err := s.Snapshot(0); err != nil { // full
		t.Fatalf("snapshot 1: %s", err)
	}
	mustExecute(t, s, []string{`UPDATE foo SET name='v1' WHERE id=1`})
	verifC04SkippedSnapshot(t, s) // incremental, not persisted: WAL{foo=v1} stays staged
	if w, _ := s.StagedWALs(); len(w) != 1 {
		t.Fatalf("expected 1 staged WAL, got %d", len(w))
	}
	mustExecute(t, s, []string{`UPDATE foo SET name='v2' WHERE id=1`})

	// The image the leader would send for this index: the applied state.
	img := filepath.Join(t.TempDir(), "leader-image.db")
	if err := s.db.Backup(img, false); err != nil {
		t.Fatalf("backup: %s", err)
	}
	if err := sql.EnsureWALMode(img); err != nil { // the database file of a snapshot is a WAL-mode file
		t.Fatalf("WAL mode: %s", err)
	}
	cf := s.raft.GetConfiguration()
	if err := cf.Error(); err != nil {
		t.Fatal(err)
	}
	idx := s.raft.AppliedIndex()
	sink, err := s.snapshotStore.Create(1, idx, s.raft.CurrentTerm(), cf.Configuration(), cf.Index(), nil)
	if err != nil {
		t.Fatalf("create sink: %s", err)
	}
	str, err := snapshot.NewSnapshotStreamer(img)
	if err != nil {
		t.Fatal(err)
	}
	if err := str.Open(); err != nil {
		t.Fatal(err)
	}
	if _, err := io.Copy(sink, str); err != nil {
		t.Fatalf("copy into sink: %s", err)
	}
	str.Close()
	if err := sink.Close(); err != nil {
		t.Fatalf("close sink: %s", err)
	}
	_, rc, err := s.snapshotStore.Open(sink.ID())
	if err != nil {
		t.Fatalf("open installed snapshot: %s", err)
	}
	if err := NewFSM(s).Restore(rc); err != nil {
		t.Fatalf("restore: %s", err)
	}
	rc.Close()
	if w, _ := s.StagedWALs(); len(w) != 0 {
		t.Logf("staged WALs after the install: %d (the WAL cut from the replaced database is still there)", len(w))
	}
	if got := verifC04Query(t, s, `SELECT name FROM foo WHERE id=1`); got != `[{"columns":["name"],"types":["text"],"values":[["v2"]]}]` {
		t.Fatalf("unexpected contents after the install: %s", got)
	}

	mustExecute(t, s, []string{`UPDATE bar SET name='b1' WHERE id=1`}) // unrelated page
	nFull := s.numFullSnapshots
	if err := s.Snapshot(0); err != nil {
		t.Fatalf("snapshot after install: %s", err)
	}
	if s.numFullSnapshots != nFull {
		t.Fatalf("expected an incremental snapshot after the install")
	}
	live := verifC04Query(t, s, `SELECT name FROM foo WHERE id=1`)
	verifC04Restart(t, s)
	restored := verifC04Query(t, s, `SELECT name FROM foo WHERE id=1`)
	t.Logf("live before restart: %s", live)
	t.Logf("after restart      : %s", restored)
	if live != restored {
		t.Fatalf("C04-install-keeps-staged-wal: database restored from the snapshot store differs from the applied state\nlive:     %s\nrestored: %s", live, restored)
	}
}

// Finding C04-marker-before-close: full -> INSERT (not idempotent) -> hashicorp/raft's takeSnapshot
// up to and including Persist (FSM.Snapshot checkpoints the WAL into the database file, Persist
// runs the Finalizer = writes the clean_snapshot marker for that file) -> the process ends before
// raft calls sink.Close -> start: the marker matches the database file, the restore is skipped,
// raft re-applies the log entries after the newest PUBLISHED snapshot: the INSERT is applied twice.
func TestVerifC04NativeMarkerBeforeClose(t *testing.T) {
	if os.Getenv("VERIF_NATIVE") == "" {
		t.Skip()
	}
	s, done := verifC04Open(t)
	defer done()

	mustExecute(t, s, []string{
		`CREATE TABLE foo (id INTEGER NOT NULL PRIMARY KEY, name TEXT)`,
		`INSERT INTO foo(name) VALUES('first')`,
	})
	if err := s.Snapshot(0); err != nil { // full
		t.Fatalf("snapshot 1: %s", err)
	}
	mustExecute(t, s, []string{`INSERT INTO foo(name) VALUES('second')`})
	live := verifC04Query(t, s, `SELECT count(*) FROM foo`)

	f, err := NewFSM(s).Snapshot()
	if err != nil {
		t.Fatalf("fsm snapshot: %s", err)
	}
	cf := s.raft.GetConfiguration()
	if err := cf.Error(); err != nil {
		t.Fatal(err)
	}
	sink, err := s.snapshotStore.Create(1, s.raft.AppliedIndex(), s.raft.CurrentTerm(), cf.Configuration(), cf.Index(), nil)
	if err != nil {
		t.Fatalf("create sink: %s", err)
	}
	if err := f.Persist(sink); err != nil {
		t.Fatalf("persist: %s", err)
	}
	// the process ends here: no sink.Close, no Release
	skipped := s.numSnapshotsSkipped.Load()
	if err := s.Close(true); err != nil {
		t.Fatalf("close: %s", err)
	}
	if err := s.Open(); err != nil {
		t.Fatalf("reopen: %s", err)
	}
	if _, err := s.WaitForLeader(10 * time.Second); err != nil {
		t.Fatalf("leader after restart: %s", err)
	}
	if s.numSnapshotsSkipped.Load() == skipped {
		t.Logf("the start did NOT skip the restore")
	} else {
		t.Logf("the start skipped the restore (clean_snapshot marker matched the database file)")
	}
	restored := verifC04Query(t, s, `SELECT count(*) FROM foo`)
	t.Logf("live before the process ended: %s", live)
	t.Logf("after restart                : %s", restored)
	if live != restored {
		t.Fatalf("C04-marker-before-close: database after restart differs from the applied state\nlive:     %s\nrestored: %s", live, restored)
	}
}
