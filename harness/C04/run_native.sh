#!/bin/sh
# Runs the native reproduction tests of /verif/harness/C04/repro_test.go on a real single-node
# store of $VERIF_REPO (default /repo) without writing into the repo (go test -overlay).
#   ./run_native.sh [go test -run pattern]
set -e
export GOFLAGS=-mod=mod GOPROXY=off GOSUMDB=off GOTOOLCHAIN=local PATH=/opt/veriftools/go1.26.8/bin:$PATH
REPO=${VERIF_REPO:-/repo}
PAT=${1:-TestVerifC04Native}
OV=$(mktemp /tmp/c04-overlay-XXXXXX.json)
trap 'rm -f "$OV"' EXIT
printf '{"Replace": {"%s/store/verif_c04_repro_test.go": "/verif/harness/C04/repro_test.go"}}\n' "$REPO" > "$OV"
cd "$REPO"
VERIF_NATIVE=1 go test -count=1 -overlay "$OV" -run "$PAT" -v ./store 2>&1 | grep -v '^\[\|^20[0-9][0-9]' | cut -c1-400 | tail -40
