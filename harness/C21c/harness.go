package db

import (
	"context"
	"database/sql"
	"strconv"
	"strings"

	sqlite3 "github.com/mattn/go-sqlite3"
)

// C21 (part c): the SQL-format backup, (*DB).Dump, taken while writes are committed.
//
// Property: a successful backup "is a complete database that is logically equal to the committed
// state at a single point in time, even while writes are in flight"; "a backup that cannot be
// produced completely is reported as an error, never returned as a successful backup".
//
// What runs: the REAL (*DB).Dump (with DumpTablesReq, queryWithConn, queryStmtWithConn,
// normalizeRowParameters ...) from SSA. Two worlds, one harness:
//   - symbolic run: database/sql is replaced (spec "models") by an abstract SQLite in WAL mode:
//     the database is a SEQUENCE of committed states; a statement on a connection reads the state
//     that is current when the statement starts, unless the connection is inside a transaction it
//     began earlier - then it reads the state that was current at the first read of that
//     transaction (https://www.sqlite.org/isolation.html, https://www.sqlite.org/wal.html);
//   - native replay: a real on-disk WAL database opened by the real Open, the real Dump; the
//     interleaved writes are real transactions through the real (*DB).Execute.
// The environment commits the next write transaction at "boundaries":
//   - VerifC21cDump: inside every Write call Dump makes on its destination (all code real natively);
//   - VerifC21cStmt: immediately before every statement Dump sends on its connection (natively the
//     read pool of the DB is opened through a pass-through driver that calls the harness first);
//     this entry can also make ONE statement fail (I/O error) and then demands an error from Dump.
// Oracle: the text Dump wrote, interpreted statement by statement (own parser; natively
// cross-checked by loading the text into a fresh SQLite database), equals ONE of the committed
// states, restricted to the requested tables.

// ---------------------------------------------------------------------------------------------
// the abstract database: every table is (id INTEGER PRIMARY KEY, v TEXT)

type c21cRow struct {
	id int64
	v  string
}
type c21cTable struct {
	name, sql string
	rows      []c21cRow // ascending id
}
type c21cIndex struct{ name, sql, table string }
type c21cState struct {
	tables  []c21cTable // ascending name
	indexes []c21cIndex // creation order
}

func c21cTableSQL(name string) string {
	return "CREATE TABLE " + name + " (id INTEGER PRIMARY KEY, v TEXT)"
}
func c21cIndexSQL(name, table string) string {
	return "CREATE INDEX " + name + " ON " + table + "(v)"
}

func (s c21cState) clone() c21cState {
	var out c21cState
	for _, t := range s.tables {
		out.tables = append(out.tables, c21cTable{t.name, t.sql, append([]c21cRow(nil), t.rows...)})
	}
	out.indexes = append(out.indexes, s.indexes...)
	return out
}
func (s *c21cState) table(name string) *c21cTable {
	for i := range s.tables {
		if s.tables[i].name == name {
			return &s.tables[i]
		}
	}
	return nil
}
func (s *c21cState) index(name string) *c21cIndex {
	for i := range s.indexes {
		if s.indexes[i].name == name {
			return &s.indexes[i]
		}
	}
	return nil
}
func (t *c21cTable) row(id int64) *c21cRow {
	for i := range t.rows {
		if t.rows[i].id == id {
			return &t.rows[i]
		}
	}
	return nil
}
func (t *c21cTable) insert(r c21cRow) {
	pos := len(t.rows)
	for i := range t.rows {
		if t.rows[i].id > r.id {
			pos = i
			break
		}
	}
	t.rows = append(t.rows, c21cRow{})
	copy(t.rows[pos+1:], t.rows[pos:])
	t.rows[pos] = r
}
func (t *c21cTable) remove(id int64) {
	var out []c21cRow
	for _, r := range t.rows {
		if r.id != id {
			out = append(out, r)
		}
	}
	t.rows = out
}
func (s *c21cState) addTable(name string) {
	pos := len(s.tables)
	for i := range s.tables {
		if s.tables[i].name > name {
			pos = i
			break
		}
	}
	s.tables = append(s.tables, c21cTable{})
	copy(s.tables[pos+1:], s.tables[pos:])
	s.tables[pos] = c21cTable{name: name, sql: c21cTableSQL(name)}
}
func (s *c21cState) dropTable(name string) {
	var ts []c21cTable
	for _, t := range s.tables {
		if t.name != name {
			ts = append(ts, t)
		}
	}
	s.tables = ts
	var xs []c21cIndex
	for _, x := range s.indexes {
		if x.table != name {
			xs = append(xs, x)
		}
	}
	s.indexes = xs
}

func c21cRowsEqual(a, b []c21cRow) bool {
	if len(a) != len(b) {
		return false
	}
	for i := range a {
		if a[i] != b[i] {
			return false
		}
	}
	return true
}

// logical equality of two database contents (index order does not matter)
func c21cEqual(a, b c21cState) bool {
	if len(a.tables) != len(b.tables) || len(a.indexes) != len(b.indexes) {
		return false
	}
	for i := range a.tables {
		if a.tables[i].name != b.tables[i].name || a.tables[i].sql != b.tables[i].sql {
			return false
		}
		if !c21cRowsEqual(a.tables[i].rows, b.tables[i].rows) {
			return false
		}
	}
	for _, x := range a.indexes {
		y := b.index(x.name)
		if y == nil || *y != x {
			return false
		}
	}
	return true
}

// the part of a state a dump of the given tables has to contain (nil = all tables)
func c21cRestrict(s c21cState, filter []string) c21cState {
	if filter == nil {
		return s
	}
	in := func(n string) bool {
		for _, f := range filter {
			if f == n {
				return true
			}
		}
		return false
	}
	var out c21cState
	for _, t := range s.tables {
		if in(t.name) {
			out.tables = append(out.tables, t)
		}
	}
	for _, x := range s.indexes {
		if in(x.table) {
			out.indexes = append(out.indexes, x)
		}
	}
	return out
}

// initial committed state: a = {1:'x', 2:'y' (, 7:'t')}, b = {3:'z'}, index ia on a
func c21cInitial(tier int) c21cState {
	var s c21cState
	s.addTable("a")
	s.addTable("b")
	s.table("a").insert(c21cRow{1, "x"})
	s.table("a").insert(c21cRow{2, "y"})
	if tier == 1 {
		s.table("a").insert(c21cRow{7, "t"})
	}
	s.table("b").insert(c21cRow{3, "z"})
	s.indexes = append(s.indexes, c21cIndex{"ia", c21cIndexSQL("ia", "a"), "a"})
	return s
}

// SQL that builds a state from nothing (native set-up)
func c21cBuildSQL(s c21cState) []string {
	var out []string
	for _, t := range s.tables {
		out = append(out, t.sql)
		for _, r := range t.rows {
			out = append(out, c21cInsertSQL(t.name, r))
		}
	}
	for _, x := range s.indexes {
		out = append(out, x.sql)
	}
	return out
}
func c21cInsertSQL(table string, r c21cRow) string {
	return "INSERT INTO " + table + "(id,v) VALUES(" + strconv.FormatInt(r.id, 10) + ",'" + r.v + "')"
}

// write transactions: each one is ONE committed transaction; all but the last touch two tables
const (
	c21cMove   = iota // row 1 moves from a to b            (cross-table invariant: an id lives in exactly one table)
	c21cPair          // one new row in a and one in b
	c21cCreate        // new table c with index ic and a row
	c21cUpdate        // one row of a and one row of b change their value
	c21cDrop          // table b goes away
	c21cNumKinds
)

func c21cApplicable(s c21cState, kind int) bool {
	a, b, c := s.table("a"), s.table("b"), s.table("c")
	switch kind {
	case c21cMove:
		return a != nil && b != nil && a.row(1) != nil
	case c21cPair:
		return a != nil && b != nil && a.row(4) == nil
	case c21cCreate:
		return c == nil
	case c21cUpdate:
		return a != nil && b != nil && a.row(2) != nil && a.row(2).v != "u" && b.row(3) != nil
	case c21cDrop:
		return b != nil
	}
	return false
}

func c21cApply(s c21cState, kind int) (c21cState, []string) {
	n := s.clone()
	switch kind {
	case c21cMove:
		r := *n.table("a").row(1)
		n.table("a").remove(1)
		n.table("b").insert(r)
		return n, []string{"DELETE FROM a WHERE id=1", c21cInsertSQL("b", r)}
	case c21cPair:
		n.table("a").insert(c21cRow{4, "p"})
		n.table("b").insert(c21cRow{5, "q"})
		return n, []string{c21cInsertSQL("a", c21cRow{4, "p"}), c21cInsertSQL("b", c21cRow{5, "q"})}
	case c21cCreate:
		n.addTable("c")
		n.indexes = append(n.indexes, c21cIndex{"ic", c21cIndexSQL("ic", "c"), "c"})
		n.table("c").insert(c21cRow{6, "r"})
		return n, []string{c21cTableSQL("c"), c21cIndexSQL("ic", "c"), c21cInsertSQL("c", c21cRow{6, "r"})}
	case c21cUpdate:
		n.table("a").row(2).v = "u"
		n.table("b").row(3).v = "w"
		return n, []string{"UPDATE a SET v='u' WHERE id=2", "UPDATE b SET v='w' WHERE id=3"}
	case c21cDrop:
		n.dropTable("b")
		return n, []string{"DROP TABLE b"}
	}
	panic("verif C21c: unknown write kind")
}

// ---------------------------------------------------------------------------------------------
// the world

type c21cWorld struct {
	d         *DB
	states    []c21cState // committed states in commit order; the last one is current
	maxWrites int
	kinds     int
	nb        int // boundaries passed
	stmts     int // statements Dump has started on its connection
	// at which statement count each write was committed
	commitAfterStmts []int
	commitAtBoundary []int
	// statement failure injection (VerifC21cStmt)
	failAt       int  // index of the statement that fails, -1 = none
	failStepping bool // it fails when the first row is fetched, not when it is started
	failed       bool
	stmtHook     bool // boundaries are statement starts (else: Write calls)
	// symbolic connection model
	ro, rw      *sql.DB
	conns       []*c21cConnM
	txs         []*c21cTxM
	rows        []*c21cRowsM
	ctypes      []*sql.ColumnType
	ctypeNames  []string
	reads       []int // version read by each statement of the dump
	closedInTx  bool
	connsOpened int
	connsClosed int
	sawTxOnConn bool
	hung        bool
}

var c21cW *c21cWorld

// c21cChoice = verifChoice; natively the sweep (sweep_test.go) enumerates the choices through it
var c21cChoiceNative func(name string, n int)

func c21cChoice(name string, n int) int {
	if !verifSymbolic() && c21cChoiceNative != nil {
		c21cChoiceNative(name, n)
	}
	return verifChoice(name, n)
}

// native hooks (replay_test.go)
var c21cOpenNative func(w *c21cWorld, build []string, stmtHook bool) *DB
var c21cCloseNative func(d *DB)
var c21cCommitNative func(d *DB, sqls []string)
var c21cContentNative func(d *DB) c21cState
var c21cLoadNative func(text string) (c21cState, bool)
var c21cPoolInTxNative func(d *DB) bool

func c21cStart(tier, maxWrites, kinds int, stmtHook bool) *c21cWorld {
	w := &c21cWorld{maxWrites: maxWrites, kinds: kinds, failAt: -1, stmtHook: stmtHook}
	w.states = []c21cState{c21cInitial(tier)}
	c21cW = w
	if verifSymbolic() {
		w.ro, w.rw = &sql.DB{}, &sql.DB{}
		w.d = &DB{path: "/verif-c21c/db.sqlite", wal: true, roDB: w.ro, rwDB: w.rw}
	} else {
		w.d = c21cOpenNative(w, c21cBuildSQL(w.states[0]), stmtHook)
		if !c21cEqual(c21cContentNative(w.d), w.states[0]) {
			panic("verif C21c: the real database does not hold the initial state of the model")
		}
	}
	return w
}

func (w *c21cWorld) close() {
	if !verifSymbolic() && !w.hung {
		c21cCloseNative(w.d)
	}
}

func (w *c21cWorld) cur() int { return len(w.states) - 1 }

// boundary: the environment may commit the next write transaction here.
func (w *c21cWorld) boundary(tag string) {
	i := w.nb
	w.nb++
	if w.cur() >= w.maxWrites {
		return
	}
	var app []int
	for k := 0; k < w.kinds; k++ {
		if c21cApplicable(w.states[w.cur()], k) {
			app = append(app, k)
		}
	}
	if len(app) == 0 {
		return
	}
	if c21cChoice(verifName("commit-at-"+tag, i), 2) == 0 {
		return
	}
	kind := app[0]
	if len(app) > 1 {
		kind = app[c21cChoice(verifName("write", len(w.states)), len(app))]
	}
	next, sqls := c21cApply(w.states[w.cur()], kind)
	if !verifSymbolic() {
		c21cCommitNative(w.d, sqls)
		if !c21cEqual(c21cContentNative(w.d), next) {
			panic("verif C21c: the real database and the model disagree about a committed write")
		}
	}
	w.states = append(w.states, next)
	w.commitAfterStmts = append(w.commitAfterStmts, w.stmts)
	w.commitAtBoundary = append(w.commitAtBoundary, i)
}

// wroteInside: a write was committed where two statements of the dump can lie on either side of
// it - at a Write call other than the first (the header, before the first statement) and the last
// (the footer, after the last statement), or before a statement other than the first. Known in
// both worlds.
func (w *c21cWorld) wroteInside() bool {
	hi := w.nb - 2
	if w.stmtHook {
		hi = w.nb - 1
	}
	for _, b := range w.commitAtBoundary {
		if b >= 1 && b <= hi {
			return true
		}
	}
	return false
}

// beforeStatement is called when Dump starts a statement on its connection (symbolic: by the
// connection model; native: by the pass-through driver of VerifC21cStmt, if installed).
// It returns the error the statement has to fail with - at once (the query call fails) or when
// its first row is fetched (the query call succeeds, the cursor reports the error) - or nil, nil.
func (w *c21cWorld) beforeStatement() (atStart, whileStepping error) {
	n := w.stmts
	if w.stmtHook {
		w.boundary("stmt")
	}
	w.stmts++
	if w.failAt == n {
		w.failed = true
		if w.failStepping {
			return nil, sqlite3.Error{Code: sqlite3.ErrIoErr}
		}
		return sqlite3.Error{Code: sqlite3.ErrIoErr}, nil
	}
	return nil, nil
}

type c21cHang struct{}

var c21cRunDumpNative func(d *DB, out *c21cWriter, filter []string) (err error, hung bool)

// c21cRunDump runs the real Dump. hung = Dump does not come back (natively: not within 5 s).
func c21cRunDump(w *c21cWorld, out *c21cWriter, filter []string) (err error, hung bool) {
	if !verifSymbolic() {
		err, hung = c21cRunDumpNative(w.d, out, filter)
		w.hung = hung
		return err, hung
	}
	defer func() {
		if r := recover(); r != nil {
			if _, ok := r.(c21cHang); !ok {
				panic(r)
			}
			hung = true
		}
	}()
	return w.d.Dump(out, filter...), false
}

// the destination of the dump
type c21cWriter struct {
	w   *c21cWorld
	buf []byte
}

func (x *c21cWriter) Write(p []byte) (int, error) {
	if !x.w.stmtHook {
		x.w.boundary("write")
	}
	x.buf = append(x.buf, p...)
	return len(p), nil
}

// ---------------------------------------------------------------------------------------------
// the oracle's reader of a dump (written from the SQL the dump is documented to consist of:
// the output format of sqlite3's .dump)

const c21cHeader = "PRAGMA foreign_keys=OFF;\nBEGIN TRANSACTION;\n"
const c21cFooter = "COMMIT;\n"

// c21cParseDump: wellFormed = every statement understood; loadable = executing the statements in
// order on an empty database succeeds. The content is what such a load produces (for statements
// that would fail - an index on a table the dump does not create, a row for such a table - the
// object is still recorded, so that the class of a violation can be told).
func c21cParseDump(text string) (content c21cState, wellFormed, loadable bool) {
	if !strings.HasPrefix(text, c21cHeader) || !strings.HasSuffix(text, c21cFooter) || len(text) < len(c21cHeader)+len(c21cFooter) {
		return content, false, false
	}
	body := text[len(c21cHeader) : len(text)-len(c21cFooter)]
	loadable = true
	for body != "" {
		end := strings.Index(body, ";\n")
		if end < 0 {
			return content, false, false
		}
		stmt := body[:end]
		body = body[end+2:]
		switch {
		case strings.HasPrefix(stmt, "CREATE TABLE "):
			rest := stmt[len("CREATE TABLE "):]
			sp := strings.IndexByte(rest, ' ')
			if sp <= 0 || stmt != c21cTableSQL(rest[:sp]) {
				return content, false, false
			}
			if content.table(rest[:sp]) != nil {
				loadable = false
				continue
			}
			content.addTable(rest[:sp])
		case strings.HasPrefix(stmt, `INSERT INTO "`):
			rest := stmt[len(`INSERT INTO "`):]
			q := strings.Index(rest, `" VALUES(`)
			if q <= 0 || !strings.HasSuffix(rest, ")") {
				return content, false, false
			}
			name := rest[:q]
			vals := rest[q+len(`" VALUES(`) : len(rest)-1]
			comma := strings.IndexByte(vals, ',')
			if comma <= 0 {
				return content, false, false
			}
			id, err := strconv.ParseInt(vals[:comma], 10, 64)
			tv := vals[comma+1:]
			if err != nil || len(tv) < 2 || tv[0] != '\'' || tv[len(tv)-1] != '\'' || strings.ContainsAny(tv[1:len(tv)-1], "',") {
				return content, false, false
			}
			t := content.table(name)
			if t == nil {
				loadable = false
				content.addTable(name)
				t = content.table(name)
				t.sql = ""
			}
			if t.row(id) != nil {
				loadable = false
				continue
			}
			t.insert(c21cRow{id, tv[1 : len(tv)-1]})
		case strings.HasPrefix(stmt, "CREATE INDEX "):
			rest := stmt[len("CREATE INDEX "):]
			on := strings.Index(rest, " ON ")
			par := strings.IndexByte(rest, '(')
			if on <= 0 || par < on+4 {
				return content, false, false
			}
			name, table := rest[:on], rest[on+4:par]
			if stmt != c21cIndexSQL(name, table) {
				return content, false, false
			}
			if content.table(table) == nil || content.table(table).sql == "" || content.index(name) != nil {
				loadable = false
			}
			if content.index(name) == nil {
				content.indexes = append(content.indexes, c21cIndex{name, stmt, table})
			}
		default:
			return content, false, false
		}
	}
	return content, true, loadable
}

// c21cIsMixture: every piece of the dump is taken from SOME committed state - each table's
// definition, each table's set of rows (no rows for a table a state does not have) and each
// index - but (the caller has established) the whole equals none of them.
func c21cIsMixture(c c21cState, states []c21cState, filter []string) bool {
	for _, t := range c.tables {
		defOK, rowsOK := false, false
		for _, s := range states {
			r := c21cRestrict(s, filter)
			st := r.table(t.name)
			if st != nil && st.sql == t.sql {
				defOK = true
			}
			if st != nil && c21cRowsEqual(st.rows, t.rows) {
				rowsOK = true
			}
			if st == nil && len(t.rows) == 0 {
				rowsOK = true
			}
		}
		if !defOK || !rowsOK {
			return false
		}
	}
	for _, x := range c.indexes {
		ok := false
		for _, s := range states {
			r := c21cRestrict(s, filter)
			y := r.index(x.name)
			if y != nil && *y == x {
				ok = true
			}
		}
		if !ok {
			return false
		}
	}
	return true
}

// ---------------------------------------------------------------------------------------------
// abstract database/sql + SQLite (symbolic run only; spec.json "models")

type c21cConnM struct {
	c      *sql.Conn
	inTx   bool
	snap   int // version the open transaction reads, -1 = no read yet
	closed bool
}
type c21cTxM struct {
	t    *sql.Tx
	conn *c21cConnM
	done bool
}
type c21cRowsM struct {
	rs    *sql.Rows
	cols  []string
	types []string
	data  [][]any
	pos   int
	err   error // reported instead of the first row
}

func (w *c21cWorld) connM(c *sql.Conn) *c21cConnM {
	for _, x := range w.conns {
		if x.c == c {
			return x
		}
	}
	panic("verif C21c: unknown *sql.Conn")
}
func (w *c21cWorld) txM(t *sql.Tx) *c21cTxM {
	for _, x := range w.txs {
		if x.t == t {
			return x
		}
	}
	panic("runtime error: invalid memory address or nil pointer dereference (nil or unknown *sql.Tx)")
}
func (w *c21cWorld) rowsM(rs *sql.Rows) *c21cRowsM {
	for _, x := range w.rows {
		if x.rs == rs {
			return x
		}
	}
	panic("verif C21c: unknown *sql.Rows")
}

func c21cDBConn(h *sql.DB, ctx context.Context) (*sql.Conn, error) {
	w := c21cW
	if h != w.ro {
		// the dump must come from the read pool (C17); anything else is outside this model
		panic("verif C21c: connection requested from a handle other than the read pool")
	}
	x := &c21cConnM{c: &sql.Conn{}, snap: -1}
	w.conns = append(w.conns, x)
	w.connsOpened++
	return x.c, nil
}

// Conn.Close hands the connection back to the pool - in whatever transaction state it is.
func c21cConnClose(c *sql.Conn) error {
	w := c21cW
	x := w.connM(c)
	if x.closed {
		return sql.ErrConnDone
	}
	for _, t := range w.txs {
		if t.conn == x && !t.done {
			// database/sql: Conn.Close waits until a Tx begun on the connection has ended - for ever, here
			panic(c21cHang{})
		}
	}
	x.closed = true
	w.connsClosed++
	if x.inTx {
		// a transaction begun with the SQL text BEGIN: database/sql knows nothing about it
		w.closedInTx = true
	}
	return nil
}

func (w *c21cWorld) begin(x *c21cConnM) error {
	if x.closed {
		return sql.ErrConnDone
	}
	if x.inTx {
		return sqlite3.Error{Code: sqlite3.ErrError} // cannot start a transaction within a transaction
	}
	x.inTx, x.snap = true, -1
	w.sawTxOnConn = true
	return nil
}
func (w *c21cWorld) end(x *c21cConnM) error {
	if !x.inTx {
		return sqlite3.Error{Code: sqlite3.ErrError} // no transaction is active
	}
	x.inTx, x.snap = false, -1
	return nil
}

func c21cConnBeginTx(c *sql.Conn, ctx context.Context, opts *sql.TxOptions) (*sql.Tx, error) {
	w := c21cW
	x := w.connM(c)
	if err := w.begin(x); err != nil {
		return nil, err
	}
	t := &c21cTxM{t: &sql.Tx{}, conn: x}
	w.txs = append(w.txs, t)
	return t.t, nil
}
func c21cTxCommit(t *sql.Tx) error {
	m := c21cW.txM(t)
	if m.done {
		return sql.ErrTxDone
	}
	m.done = true
	return c21cW.end(m.conn)
}
func c21cTxRollback(t *sql.Tx) error {
	m := c21cW.txM(t)
	if m.done {
		return sql.ErrTxDone
	}
	m.done = true
	return c21cW.end(m.conn)
}

type c21cRes struct{}

func (c21cRes) LastInsertId() (int64, error) { return 0, nil }
func (c21cRes) RowsAffected() (int64, error) { return 0, nil }

func c21cNormSQL(q string) string {
	return strings.TrimSuffix(strings.Join(strings.Fields(q), " "), ";")
}

// transaction control sent as SQL text (the only statements the model accepts through Exec)
func (w *c21cWorld) exec(x *c21cConnM, q string) (sql.Result, error) {
	if x.closed {
		return nil, sql.ErrConnDone
	}
	switch strings.ToUpper(c21cNormSQL(q)) {
	case "BEGIN", "BEGIN DEFERRED", "BEGIN TRANSACTION", "BEGIN DEFERRED TRANSACTION", "SAVEPOINT DUMP":
		return c21cRes{}, w.begin(x)
	case "COMMIT", "END", "ROLLBACK", "COMMIT TRANSACTION", "END TRANSACTION", "ROLLBACK TRANSACTION", "RELEASE DUMP", "RELEASE SAVEPOINT DUMP":
		return c21cRes{}, w.end(x)
	case "BEGIN IMMEDIATE", "BEGIN EXCLUSIVE":
		return nil, sqlite3.Error{Code: sqlite3.ErrReadonly} // the read pool is mode=ro, query_only
	}
	panic("verif C21c: statement outside the model (Exec): " + q)
}
func c21cConnExec(c *sql.Conn, ctx context.Context, q string, args ...any) (sql.Result, error) {
	return c21cW.exec(c21cW.connM(c), q)
}
func c21cTxExec(t *sql.Tx, ctx context.Context, q string, args ...any) (sql.Result, error) {
	m := c21cW.txM(t)
	if m.done {
		return nil, sql.ErrTxDone
	}
	return c21cW.exec(m.conn, q)
}

const c21cListSQL = `SELECT "name", "type", "sql" FROM sqlite_master WHERE "sql" NOT NULL AND type='table' ORDER BY name`
const c21cListInSQL = `SELECT "name", "type", "sql" FROM sqlite_master WHERE "sql" NOT NULL AND type='table' AND name IN (`
const c21cOthersSQL = `SELECT "name", "type", "sql" FROM "sqlite_master" WHERE "sql" NOT NULL AND "type" IN ('index', 'trigger', 'view')`

func c21cNoSuchTable() error { return sqlite3.Error{Code: sqlite3.ErrError} }

// query: one statement of the dump on connection x.
func (w *c21cWorld) query(x *c21cConnM, q string, args []any) (*sql.Rows, error) {
	if x.closed {
		return nil, sql.ErrConnDone
	}
	failNow, failLater := w.beforeStatement()
	if failNow != nil {
		return nil, failNow
	}
	// which committed state does this statement see?
	v := w.cur()
	if x.inTx {
		if x.snap < 0 {
			x.snap = v
		}
		v = x.snap
	}
	w.reads = append(w.reads, v)
	s := w.states[v]

	m := &c21cRowsM{rs: &sql.Rows{}, err: failLater}
	n := c21cNormSQL(q)
	switch {
	case n == c21cListSQL || strings.HasPrefix(n, c21cListInSQL):
		var names []string
		if n != c21cListSQL {
			// "?, ?, ...) ORDER BY name" with one text argument per placeholder
			rest := n[len(c21cListInSQL):]
			if !strings.HasSuffix(rest, ") ORDER BY name") {
				panic("verif C21c: statement outside the model: " + q)
			}
			ph := strings.Split(rest[:len(rest)-len(") ORDER BY name")], ", ")
			if len(ph) != len(args) {
				panic("verif C21c: placeholders and arguments differ in number: " + q)
			}
			for i, p := range ph {
				na, ok := args[i].(sql.NamedArg)
				if p != "?" || !ok || na.Name != "" {
					panic("verif C21c: statement outside the model: " + q)
				}
				str, ok := na.Value.(string)
				if !ok {
					panic("verif C21c: non-text table name argument")
				}
				names = append(names, str)
			}
		} else if len(args) != 0 {
			panic("verif C21c: arguments for a statement without placeholders")
		}
		m.cols = []string{"name", "type", "sql"}
		m.types = []string{"TEXT", "TEXT", "TEXT"}
		for _, t := range c21cRestrict(s, names).tables {
			m.data = append(m.data, []any{t.name, "table", t.sql})
		}
	case n == c21cOthersSQL:
		m.cols = []string{"name", "type", "sql"}
		m.types = []string{"TEXT", "TEXT", "TEXT"}
		for _, ix := range s.indexes {
			m.data = append(m.data, []any{ix.name, "index", ix.sql})
		}
	case strings.HasPrefix(n, `PRAGMA table_info("`) && strings.HasSuffix(n, `")`):
		name := n[len(`PRAGMA table_info("`) : len(n)-2]
		if strings.ContainsAny(name, `"' `) {
			panic("verif C21c: table name outside the model: " + q)
		}
		m.cols = []string{"cid", "name", "type", "notnull", "dflt_value", "pk"}
		m.types = []string{"", "", "", "", "", ""}
		if s.table(name) != nil {
			m.data = [][]any{
				{int64(0), "id", "INTEGER", int64(0), nil, int64(1)},
				{int64(1), "v", "TEXT", int64(0), nil, int64(0)},
			}
		}
	case strings.HasPrefix(n, `SELECT 'INSERT INTO "`):
		// SELECT 'INSERT INTO "<t>" VALUES(<c1>,<c2>...)' FROM "<t>"   with <ci> = '||quote("<col>")||'
		rest := n[len(`SELECT 'INSERT INTO "`):]
		p := strings.Index(rest, `" VALUES(`)
		if p <= 0 {
			panic("verif C21c: statement outside the model: " + q)
		}
		name := rest[:p]
		rest = rest[p+len(`" VALUES(`):]
		tail := `)' FROM "` + name + `"`
		if !strings.HasSuffix(rest, tail) || strings.ContainsAny(name, `"' `) {
			panic("verif C21c: statement outside the model: " + q)
		}
		colsText := rest[:len(rest)-len(tail)]
		var cols []string
		if colsText != "" {
			for _, c := range strings.Split(colsText, ",") {
				if !strings.HasPrefix(c, `'||quote("`) || !strings.HasSuffix(c, `")||'`) {
					panic("verif C21c: statement outside the model: " + q)
				}
				cols = append(cols, c[len(`'||quote("`):len(c)-len(`")||'`)])
			}
		}
		t := s.table(name)
		if t == nil {
			return nil, c21cNoSuchTable()
		}
		m.cols = []string{"expr"}
		m.types = []string{""}
		for _, r := range t.rows {
			var vals []string
			for _, c := range cols {
				switch c {
				case "id":
					vals = append(vals, strconv.FormatInt(r.id, 10))
				case "v":
					vals = append(vals, "'"+r.v+"'")
				default:
					// SQLite: a double-quoted name that is no column of the table is a string literal
					if strings.ContainsAny(c, `"'`) {
						panic("verif C21c: column outside the model: " + c)
					}
					vals = append(vals, "'"+c+"'")
				}
			}
			m.data = append(m.data, []any{`INSERT INTO "` + name + `" VALUES(` + strings.Join(vals, ",") + `)`})
		}
	default:
		panic("verif C21c: statement outside the model: " + q)
	}
	w.rows = append(w.rows, m)
	return m.rs, nil
}

func c21cConnQuery(c *sql.Conn, ctx context.Context, q string, args ...any) (*sql.Rows, error) {
	return c21cW.query(c21cW.connM(c), q, args)
}
func c21cTxQuery(t *sql.Tx, ctx context.Context, q string, args ...any) (*sql.Rows, error) {
	m := c21cW.txM(t)
	if m.done {
		return nil, sql.ErrTxDone
	}
	return c21cW.query(m.conn, q, args)
}

func c21cRowsColumns(rs *sql.Rows) ([]string, error) { return c21cW.rowsM(rs).cols, nil }
func c21cRowsColumnTypes(rs *sql.Rows) ([]*sql.ColumnType, error) {
	w := c21cW
	m := w.rowsM(rs)
	out := make([]*sql.ColumnType, len(m.cols))
	for i := range out {
		out[i] = &sql.ColumnType{}
		w.ctypes = append(w.ctypes, out[i])
		w.ctypeNames = append(w.ctypeNames, m.types[i])
	}
	return out, nil
}
func c21cColumnTypeName(ct *sql.ColumnType) string {
	for i, x := range c21cW.ctypes {
		if x == ct {
			return c21cW.ctypeNames[i]
		}
	}
	panic("verif C21c: unknown *sql.ColumnType")
}
func c21cRowsNext(rs *sql.Rows) bool {
	m := c21cW.rowsM(rs)
	if m.err != nil || m.pos >= len(m.data) {
		return false
	}
	m.pos++
	return true
}
func c21cRowsScan(rs *sql.Rows, dest ...any) error {
	m := c21cW.rowsM(rs)
	if m.pos == 0 || len(dest) != len(m.cols) {
		panic("verif C21c: bad Scan")
	}
	for i := range dest {
		*(dest[i].(*any)) = m.data[m.pos-1][i]
	}
	return nil
}
func c21cRowsErr(rs *sql.Rows) error   { return c21cW.rowsM(rs).err }
func c21cRowsClose(rs *sql.Rows) error { return nil }

// the message of a go-sqlite3 error comes from C (sqlite3_errstr)
func c21cSqliteErrorString(e sqlite3.Error) string {
	switch e.Code {
	case sqlite3.ErrIoErr:
		return "disk I/O error"
	case sqlite3.ErrReadonly:
		return "attempt to write a readonly database"
	}
	return "SQL logic error"
}

// ---------------------------------------------------------------------------------------------
// entries

func c21cBounds() (tier, maxWrites, kinds int, filter []string) {
	tier = verifTier()
	maxWrites, kinds = 2, c21cCreate+1
	if tier == 1 {
		maxWrites, kinds = 3, c21cNumKinds
		if c21cChoice("tables", 2) == 1 {
			// a dump of named tables; b (the table without an index) is left out
			filter = []string{"a", "c"}
		}
	}
	return
}

// c21cJudge: the oracle over a dump that Dump reported as successful.
func c21cJudge(w *c21cWorld, text string, filter []string) {
	content, wellFormed, loadable := c21cParseDump(text)
	if !verifSymbolic() {
		// the real SQLite reads the same text
		real, ok := c21cLoadNative(text)
		if ok != (wellFormed && loadable) {
			panic("verif C21c: the oracle's reader and SQLite disagree on whether the dump can be loaded")
		}
		if ok && !c21cEqual(real, content) {
			panic("verif C21c: the oracle's reader and SQLite disagree on what the dump contains")
		}
	}
	matched := -1
	if wellFormed && loadable {
		for k := range w.states {
			if c21cEqual(content, c21cRestrict(w.states[k], filter)) {
				matched = k
			}
		}
	}
	if matched < 0 && wellFormed && w.wroteInside() && c21cIsMixture(content, w.states, filter) {
		if verifSymbolic() {
			// consistency of model and oracle: a mixture needs two statements that read different states
			mixed := false
			for _, v := range w.reads {
				if v != w.reads[0] {
					mixed = true
				}
			}
			if !mixed {
				panic("verif C21c: mixture without two statements reading different states")
			}
		}
		verifFinding("C21-sql-dump-mixes-committed-states")
	}
	verifAssert("C21c-dump-is-well-formed", wellFormed)
	verifAssert("C21c-dump-can-be-loaded", loadable)
	verifAssert("C21c-dump-equals-one-committed-state", matched >= 0)

	if matched >= 1 {
		verifReach("dump-equals-a-state-committed-while-it-ran")
	}
	if matched == 0 && len(w.states) > 1 {
		verifReach("dump-equals-the-state-it-started-from-despite-writes")
	}
}

// the connection goes back to the pool outside any transaction, and it does go back
func c21cCheckPool(w *c21cWorld) {
	if verifSymbolic() {
		verifAssert("C21c-connection-released", w.connsOpened == w.connsClosed)
		verifAssert("C21c-connection-released-outside-transaction", !w.closedInTx)
		return
	}
	verifAssert("C21c-connection-released-outside-transaction", !c21cPoolInTxNative(w.d))
}

func (w *c21cWorld) wroteBetweenStatements() bool {
	for _, n := range w.commitAfterStmts {
		if n >= 1 && n < w.stmts {
			return true
		}
	}
	return false
}

// VerifC21cDump: writes are committed inside the Write calls of the dump.
func VerifC21cDump() {
	verifPanicsAreViolations()
	tier, maxWrites, kinds, filter := c21cBounds()
	w := c21cStart(tier, maxWrites, kinds, false)
	defer w.close()
	out := &c21cWriter{w: w}
	err, hung := c21cRunDump(w, out, filter)
	verifAssert("C21c-dump-returns", !hung)
	// nothing fails here and readers never wait for writers in WAL mode ("This function can be
	// called when changes to the database are in flight")
	verifAssert("C21c-dump-succeeds", err == nil)
	c21cCheckPool(w)
	if w.wroteBetweenStatements() {
		verifReach("write-committed-between-two-statements-of-the-dump")
	}
	if len(w.states) > 2 {
		verifReach("two-writes-committed-during-the-dump")
	}
	c21cJudge(w, string(out.buf), filter)
}

// VerifC21cStmt: writes are committed immediately before statements of the dump (also between
// PRAGMA table_info and the row SELECT of one table); one statement may fail with an I/O error.
func VerifC21cStmt() {
	verifPanicsAreViolations()
	tier, maxWrites, kinds, filter := c21cBounds()
	if tier == 0 {
		maxWrites = 1
	}
	w := c21cStart(tier, maxWrites, kinds, true)
	defer w.close()
	// a dump sends: table list, 2 statements per table (at most one table more than initially), index list
	w.failAt = c21cChoice("failing-statement", 1+2+2*(len(w.states[0].tables)+1)) - 1
	if w.failAt >= 0 {
		w.failStepping = c21cChoice("fails-while-stepping", 2) == 1
	}
	out := &c21cWriter{w: w}
	err, hung := c21cRunDump(w, out, filter)
	verifAssert("C21c-dump-returns", !hung)
	c21cCheckPool(w)
	if w.failed {
		verifReach("a-statement-of-the-dump-failed")
		if err == nil {
			// the whole class: Dump never looks at the outcome of its statements
			verifFinding("C21-sql-dump-ignores-failed-statement")
		}
		verifAssert("C21c-failed-statement-is-reported", err != nil)
		return
	}
	verifAssert("C21c-dump-succeeds", err == nil)
	if w.wroteBetweenStatements() {
		verifReach("write-committed-between-two-statements-of-the-dump")
	}
	c21cJudge(w, string(out.buf), filter)
}

// Twin: a write committed before the first statement of the dump is part of every correct dump,
// so "the dump equals the state before that write" must be violated.
func VerifC21cTwin() {
	w := c21cStart(0, 1, c21cCreate+1, false)
	defer w.close()
	out := &c21cWriter{w: w}
	err, hung := c21cRunDump(w, out, nil)
	verifAssume(!hung && err == nil)
	verifAssume(len(w.states) == 2 && w.commitAfterStmts[0] == 0)
	content, wellFormed, loadable := c21cParseDump(string(out.buf))
	verifAssume(wellFormed && loadable)
	verifAssert("twin-dump-equals-the-state-before-the-write", c21cEqual(content, w.states[0]))
}
