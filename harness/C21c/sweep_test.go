package db

// Native sweep (not used by symgo check): runs the entries of the C21c harness natively over
// EVERY combination of their choices - real on-disk WAL database, real Dump, real Execute for the
// writes in flight, every dump loaded into a fresh real database - and counts the outcomes.
// It shows that the native world agrees with the symbolic one on the paths that are not
// counterexamples too (same number of runs as symbolic paths, same findings), and is the
// "native replay is OK" evidence for a repaired tree:
//
//	cd /verif && VERIF_NATIVE=1 [VERIF_TIER=thorough] [VERIF_REPO=/tmp/wt-C21c] ./bin/symgo nativetest C21c TestVerifC21cSweep
//
// VERIF_EXPECT_CLEAN=1 makes recorded findings failures as well (for a repaired tree);
// VERIF_SWEEP_ENTRY=<entry> restricts the sweep to one entry.

import (
	"context"
	"database/sql"
	"encoding/json"
	"fmt"
	"os"
	"testing"
)

func c21cRunOnce(path []int, f func()) (ns []int, outcome []string) {
	os.Unsetenv("VERIF_REPLAY")
	verifLoad()
	asked := 0
	c21cChoiceNative = func(name string, n int) {
		v := 0
		if asked < len(path) {
			v = path[asked]
		}
		verifVals[name] = json.Number(fmt.Sprint(v))
		ns = append(ns, n)
		asked++
	}
	defer func() {
		c21cChoiceNative = nil
		r := recover()
		outcome = verifOutcome
		if r == nil {
			return
		}
		if _, ok := r.(verifStop); ok {
			return
		}
		outcome = append(outcome, fmt.Sprintf("panic %v", r))
		if c21cW != nil && c21cW.d != nil {
			func() {
				defer func() { recover() }()
				c21cW.close()
			}()
		}
	}()
	f()
	return
}

func c21cSweep(t *testing.T, entry string, f func()) {
	var path []int
	runs := 0
	counts := map[string]int{}
	for {
		ns, out := c21cRunOnce(path, f)
		runs++
		if len(out) == 0 {
			counts["ok"]++
		}
		for _, o := range out {
			counts[o]++
			known := o == "finding C21-sql-dump-mixes-committed-states" || o == "finding C21-sql-dump-ignores-failed-statement"
			if !known || os.Getenv("VERIF_EXPECT_CLEAN") != "" {
				if counts[o] <= 5 {
					t.Errorf("%s choices %v: %s", entry, path, o)
				}
			}
		}
		// next choice vector (depth first)
		for len(path) < len(ns) {
			path = append(path, 0)
		}
		path = path[:len(ns)]
		i := len(path) - 1
		for i >= 0 && path[i]+1 >= ns[i] {
			i--
		}
		if i < 0 {
			break
		}
		path = path[:i+1]
		path[i]++
	}
	t.Logf("%s: %d native runs: %v", entry, runs, counts)
}

func TestVerifC21cSweep(t *testing.T) {
	if os.Getenv("VERIF_NATIVE") == "" {
		t.Skip()
	}
	only := os.Getenv("VERIF_SWEEP_ENTRY")
	if only == "" || only == "VerifC21cDump" {
		c21cSweep(t, "VerifC21cDump", VerifC21cDump)
	}
	if only == "" || only == "VerifC21cStmt" {
		c21cSweep(t, "VerifC21cStmt", VerifC21cStmt)
	}
}

// TestVerifC21cIsolationModel (spec "native_checks", run with every check): the two rules the
// connection model of the symbolic run is built on, asked of the real SQLite through the real
// pools of a DB opened by the real Open (WAL mode):
//
//	(1) outside a transaction every statement of a read connection sees what is committed when it starts;
//	(2) inside a transaction begun on that connection (BEGIN is deferred: mode=ro pool, no _txlock) all
//	    statements see the state that was committed when the FIRST of them ran - a write committed
//	    between BEGIN and the first read is seen, later ones are not - and after the end of the
//	    transaction the connection sees the newest state again;
//
// and the texts the model keeps for a table and an index are the ones sqlite_master holds.
func TestVerifC21cIsolationModel(t *testing.T) {
	w := &c21cWorld{states: []c21cState{c21cInitial(0)}}
	d := c21cOpenReal(w, c21cBuildSQL(w.states[0]), false)
	defer c21cCloseNative(d)
	if !c21cEqual(c21cContentOfFile(d.path), w.states[0]) {
		t.Fatalf("real content %+v, model %+v", c21cContentOfFile(d.path), w.states[0])
	}
	ctx := t.Context()
	conn, err := d.roDB.Conn(ctx)
	if err != nil {
		t.Fatal(err)
	}
	defer conn.Close()
	type querier interface {
		QueryRowContext(ctx context.Context, query string, args ...any) *sql.Row
	}
	count := func(q querier, table string) int {
		var n int
		if err := q.QueryRowContext(ctx, "SELECT COUNT(*) FROM "+table).Scan(&n); err != nil {
			t.Fatal(err)
		}
		return n
	}
	next := int64(100)
	write := func() {
		next++
		c21cCommitReal(d, []string{c21cInsertSQL("a", c21cRow{next, "n"}), c21cInsertSQL("b", c21cRow{next, "n"})})
	}
	a0, b0 := count(conn, "a"), count(conn, "b")
	write()
	if count(conn, "a") != a0+1 || count(conn, "b") != b0+1 {
		t.Fatalf("rule 1: a statement outside a transaction does not see the newest committed state")
	}
	tx, err := conn.BeginTx(ctx, nil)
	if err != nil {
		t.Fatal(err)
	}
	write() // after BEGIN, before the first read: seen
	if count(tx, "a") != a0+2 {
		t.Fatalf("rule 2: the read transaction did not start at its first read")
	}
	write() // after the first read: not seen, neither through the Tx nor through its Conn
	if count(tx, "b") != b0+2 || count(tx, "a") != a0+2 || count(conn, "b") != b0+2 {
		t.Fatalf("rule 2: a statement inside the transaction saw a later committed state")
	}
	if err := tx.Rollback(); err != nil {
		t.Fatal(err)
	}
	if count(conn, "a") != a0+3 || count(conn, "b") != b0+3 {
		t.Fatalf("rule 2: after the transaction the connection does not see the newest state")
	}
}
